(** Correspondence cases for the fixed-lambda smoothers (C02, C03, C06). *)
From HDC Require Import Base.Prelude Base.Float Base.Ops Model.Ws2d Model.Smoothers.
From Coq Require Import PrimFloat.
Open Scope Z_scope.

(** the int16 store of a fitted curve; [None] when some value is non-finite or out of range *)
Fixpoint store16 (z : list float) : option (list Z) :=
  match z with
  | [] => Some []
  | x :: r => match f_rne x, store16 r with
              | Some v, Some vs => if in_int16 v then Some (v :: vs) else None
              | _, _ => None
              end
  end.

(** y, lambda, nodata, optional p; observed int16 output. Passthrough is observed as out = y. *)
Record gcase := GU { g_y : list float; g_l : float; g_nd : float; g_p : option float; g_out : list Z }.

Definition fit_gu (c : gcase) : fitted :=
  match g_p c with
  | None => ws2dgu (OpsF no_oracles) (g_y c) (g_l c) (g_nd c)
  | Some p => ws2dpgu (OpsF no_oracles) (g_y c) (g_l c) (g_nd c) p
  end.

(** inside the property's claim: the stored values are finite and fit int16 (edge-gap extrapolation
    and non-finite passthrough cells are outside, see the properties' quantifiers) *)
Definition claim_gu (c : gcase) : bool :=
  match fit_gu c with
  | Passthrough => match store16 (g_y c) with Some _ => true | None => false end
  | Curve z => match store16 z with Some _ => true | None => false end
  end.

Definition check_gu (c : gcase) : bool :=
  match fit_gu c with
  | Passthrough => match store16 (g_y c) with Some v => zeqb_list v (g_out c) | None => true end
  | Curve z => match store16 z with Some v => zeqb_list v (g_out c) | None => true end
  end.
