(** Correspondence cases for SPI (C07, C08): binary64 instance of Model/Spi.v with recorded
    oracle tables for log, digamma, gammainc, ndtri. *)
From HDC Require Import Base.Prelude Base.Float Base.Ops Model.Spi.
From Coq Require Import PrimFloat.
Open Scope Z_scope.

Fixpoint lookup2 (t : list (float * float * float)) (a b : float) : float :=
  match t with
  | [] => oracle_miss
  | (x, y, v) :: r => if feq_bits x a && feq_bits y b then v else lookup2 r a b
  end.

Record scase := SP { s_x : list float; s_nd : float; s_c0 : nat; s_c1 : nat;
                     s_log : oracle_table; s_dig : oracle_table; s_ndtri : oracle_table; s_ginc : list (float * float * float);
                     s_k06 : float; s_k14 : float; s_out : list Z }.

Definition KS (c : scase) : spi_consts (F := float) :=
  {| k_xtol := 2e-12%float; k_rtol := 8.881784197001252e-16%float; k_06 := s_k06 c; k_14 := s_k14 c; k_09 := 0.9%float |}.

Definition OR (c : scase) : spi_oracles (F := float) :=
  {| o_log := lookup (s_log c); o_digamma := lookup (s_dig c); o_gammainc := lookup2 (s_ginc c); o_ndtri := lookup (s_ndtri c) |}.

(** s * 1000, np.round, np.clip(-32768, 32767), int16 store; nodata cells keep nodata *)
Definition scale_store (nd : Z) (o : option float) : option Z :=
  match o with
  | None => Some nd
  | Some v =>
      let r := (v * 1000)%float in
      if is_nan r then None
      else if ltb 32767 r then Some 32767 else if ltb r (-32768) then Some (-32768)
      else match f_rne r with Some z => Some (Z.max (-32768) (Z.min 32767 z)) | None => None end
  end.

Definition run_spi (c : scase) : list (option Z) :=
  let ndz := match f_rne (s_nd c) with Some z => z | None => 0 end in
  let r := gammastd (OpsF no_oracles) (OR c) (KS c) (s_x c) (s_nd c) (s_c0 c) (s_c1 c) in
  (* gammastd_yxt: "if (s != nodata).sum() > 0" - an all-nodata result is stored as it is *)
  map (scale_store ndz) r.

Fixpoint oz_eq (a : list (option Z)) (b : list Z) : bool :=
  match a, b with
  | [], [] => true
  | Some x :: a', y :: b' => (x =? y) && oz_eq a' b'
  | _, _ => false
  end.

Definition check_spi (c : scase) : bool := oz_eq (run_spi c) (s_out c).
