(** Pentadiagonal LDL' factorisation, abstractly: integer-indexed sequences d, c, e, u, z that
    satisfy the elimination / substitution recurrences (in multiplicative form, so that no
    statement divides) solve the normal equations; and every pivot is positive, because pivot k
    equals Q(x) for the vector x with L'x = e_k. *)
From Coq Require Import ZArith Reals Lra Lia Bool.
From HDC Require Import Proofs.RSums Proofs.Penalty.
Open Scope R_scope.

Lemma sumn_single f n k :
  (0 <= k < Z.of_nat n)%Z -> (forall i, (0 <= i < Z.of_nat n)%Z -> i <> k -> f i = 0) -> sumn f n = f k.
Proof.
  induction n as [|n IH]; intros Hk H; [lia|]. cbn [sumn].
  destruct (Z.eq_dec k (Z.of_nat n)) as [->|N].
  - rewrite (sumn_all_zero f n); [lra|]. intros i Hi. apply H; lia.
  - rewrite IH; [|lia|intros i Hi Hne; apply H; lia]. rewrite (H (Z.of_nat n)); [lra|lia|lia].
Qed.

Section LDL.
  Variable n : nat.
  Variables W Y : Z -> R.
  Variable lam : R.
  Variables D C E U Zs : Z -> R.

  Notation a0 := (a0 n W lam). Notation a1 := (a1 n lam). Notation a2 := (a2 n lam).
  Notation Aop := (Aop n W lam).

  Definition F1 (k : Z) : Prop := D k = a0 k - C (k - 1) * C (k - 1) * D (k - 1) - E (k - 2) * E (k - 2) * D (k - 2).
  Definition F2 (k : Z) : Prop := C k * D k = a1 k - D (k - 1) * C (k - 1) * E (k - 1).
  Definition F3 (k : Z) : Prop := E k * D k = a2 k.
  Definition F4 (k : Z) : Prop := U k = W k * Y k - C (k - 1) * U (k - 1) - E (k - 2) * U (k - 2).
  Definition Bk (k : Z) : Prop := Zs k * D k = U k - D k * (C k * Zs (k + 1) + E k * Zs (k + 2)).

  (** A = L D L' row by row: for any vector x, with v_j = d_j (x_j + c_j x_{j+1} + e_j x_{j+2}) *)
  Lemma row_identity (x : Z -> R) i :
    F1 i -> F2 i -> F3 i -> F2 (i - 1) -> F3 (i - 2) ->
    Aop x i = D i * (x i + C i * x (i + 1)%Z + E i * x (i + 2)%Z)
              + C (i - 1) * (D (i - 1) * (x (i - 1)%Z + C (i - 1) * x i + E (i - 1) * x (i + 1)%Z))
              + E (i - 2) * (D (i - 2) * (x (i - 2)%Z + C (i - 2) * x (i - 1)%Z + E (i - 2) * x i)).
  Proof.
    unfold F1, F2, F3, Penalty.Aop. intros H1 H2 H3 H2' H3'.
    replace (i - 1 - 1)%Z with (i - 2)%Z in H2' by lia.
    assert (a0 i = D i + C (i - 1) * C (i - 1) * D (i - 1) + E (i - 2) * E (i - 2) * D (i - 2)) as -> by lra.
    assert (a1 i = C i * D i + D (i - 1) * C (i - 1) * E (i - 1)) as -> by lra.
    assert (a1 (i - 1) = C (i - 1) * D (i - 1) + D (i - 2) * C (i - 2) * E (i - 2)) as -> by lra.
    rewrite <- H3, <- H3'. ring.
  Qed.

  Theorem ldl_normal_equations :
    (forall k, F1 k) -> (forall k, F2 k) -> (forall k, F3 k) -> (forall k, F4 k) -> (forall k, Bk k) ->
    forall i, Aop Zs i = W i * Y i.
  Proof.
    intros H1 H2 H3 H4 HB i.
    rewrite (row_identity Zs i (H1 i) (H2 i) (H3 i) (H2 (i - 1)%Z) (H3 (i - 2)%Z)).
    pose proof (H4 i) as U4. unfold F4 in U4.
    pose proof (HB i) as B0. pose proof (HB (i - 1)%Z) as B1. pose proof (HB (i - 2)%Z) as B2. unfold Bk in B0, B1, B2.
    replace (i - 1 + 1)%Z with i in B1 by lia. replace (i - 1 + 2)%Z with (i + 1)%Z in B1 by lia.
    replace (i - 2 + 1)%Z with (i - 1)%Z in B2 by lia. replace (i - 2 + 2)%Z with i in B2 by lia.
    assert (D i * (Zs i + C i * Zs (i + 1)%Z + E i * Zs (i + 2)%Z) = U i) as -> by lra.
    assert (D (i - 1) * (Zs (i - 1)%Z + C (i - 1) * Zs i + E (i - 1) * Zs (i + 1)%Z) = U (i - 1)%Z) as -> by lra.
    assert (D (i - 2) * (Zs (i - 2)%Z + C (i - 2) * Zs (i - 1)%Z + E (i - 2) * Zs i) = U (i - 2)%Z) as -> by lra.
    lra.
  Qed.

  (** ** positive pivots *)
  Hypothesis n2 : (2 <= n)%nat.
  Hypothesis W_nonneg : forall i, (0 <= i < Z.of_nat n)%Z -> 0 <= W i.
  Hypothesis lam_pos : 0 < lam.
  Hypothesis two_weights : exists p q, (0 <= p < q)%Z /\ (q < Z.of_nat n)%Z /\ 0 < W p /\ 0 < W q.

  Section Pivot.
    Variable k : Z.
    Hypothesis Hk : (0 <= k < Z.of_nat n)%Z.
    Hypothesis H1 : forall j, (j <= k)%Z -> F1 j.
    Hypothesis H23 : forall j, (j < k)%Z -> F2 j /\ F3 j.

    (** x_k = 1, x_j = - c_j x_{j+1} - e_j x_{j+2} below k, 0 above *)
    Fixpoint xb (t : nat) : R :=
      match t with
      | O => 1
      | S t' => match t' with
                | O => - C (k - 1) * 1
                | S t'' => - C (k - Z.of_nat t) * xb t' - E (k - Z.of_nat t) * xb t''
                end
      end.
    Definition xk (j : Z) : R := if (k <? j)%Z then 0 else xb (Z.to_nat (k - j)).

    Lemma xk_at : xk k = 1.
    Proof. unfold xk. replace (k <? k)%Z with false by lia. replace (k - k)%Z with 0%Z by lia. reflexivity. Qed.
    Lemma xk_above j : (k < j)%Z -> xk j = 0.
    Proof. intros H. unfold xk. replace (k <? j)%Z with true by lia. reflexivity. Qed.

    Lemma xk_rec j : (j < k)%Z -> xk j + C j * xk (j + 1) + E j * xk (j + 2) = 0.
    Proof.
      intros Hj. unfold xk at 1. replace (k <? j)%Z with false by lia.
      destruct (Z.to_nat (k - j)) as [|[|t]] eqn:Et; [lia| |].
      - assert (j = k - 1)%Z as -> by lia. replace (k - 1 + 1)%Z with k by lia. rewrite xk_at.
        rewrite xk_above by lia. cbn [xb]. ring.
      - unfold xk. replace (k <? j + 1)%Z with false by lia. replace (k <? j + 2)%Z with false by lia.
        replace (Z.to_nat (k - (j + 1))) with (S t) by lia. replace (Z.to_nat (k - (j + 2))) with t by lia.
        change (xb (S (S t))) with (- C (k - Z.of_nat (S (S t))) * xb (S t) - E (k - Z.of_nat (S (S t))) * xb t).
        replace (k - Z.of_nat (S (S t)))%Z with j by lia. ring.
    Qed.

    Lemma A_xk_below i : (i < k)%Z -> Aop xk i = 0.
    Proof.
      intros Hi.
      rewrite (row_identity xk i (H1 i ltac:(lia)) (proj1 (H23 i Hi)) (proj2 (H23 i Hi))
                 (proj1 (H23 (i - 1)%Z ltac:(lia))) (proj2 (H23 (i - 2)%Z ltac:(lia)))).
      pose proof (xk_rec i Hi) as R0. pose proof (xk_rec (i - 1)%Z ltac:(lia)) as R1.
      pose proof (xk_rec (i - 2)%Z ltac:(lia)) as R2.
      replace (i - 1 + 1)%Z with i in R1 by lia. replace (i - 1 + 2)%Z with (i + 1)%Z in R1 by lia.
      replace (i - 2 + 1)%Z with (i - 1)%Z in R2 by lia. replace (i - 2 + 2)%Z with i in R2 by lia.
      rewrite R0, R1, R2. ring.
    Qed.

    Lemma A_xk_at : Aop xk k = D k.
    Proof.
      unfold Penalty.Aop. rewrite xk_at, (xk_above (k + 1)%Z), (xk_above (k + 2)%Z) by lia.
      pose proof (H1 k ltac:(lia)) as G1. unfold F1 in G1.
      destruct (H23 (k - 1)%Z ltac:(lia)) as [G2 _]. destruct (H23 (k - 2)%Z ltac:(lia)) as [_ G3]. unfold F2, F3 in G2, G3.
      replace (k - 1 - 1)%Z with (k - 2)%Z in G2 by lia.
      pose proof (xk_rec (k - 1)%Z ltac:(lia)) as R1. pose proof (xk_rec (k - 2)%Z ltac:(lia)) as R2.
      replace (k - 1 + 1)%Z with k in R1 by lia. replace (k - 1 + 2)%Z with (k + 1)%Z in R1 by lia.
      replace (k - 2 + 1)%Z with (k - 1)%Z in R2 by lia. replace (k - 2 + 2)%Z with k in R2 by lia.
      rewrite xk_at in R1, R2. rewrite (xk_above (k + 1)%Z) in R1 by lia.
      assert (xk (k - 1) = - C (k - 1)) as X1 by lra.
      assert (xk (k - 2) = - C (k - 2) * xk (k - 1) - E (k - 2)) as X2 by lra.
      assert (a0 k = D k + C (k - 1) * C (k - 1) * D (k - 1) + E (k - 2) * E (k - 2) * D (k - 2)) as -> by lra.
      assert (a1 (k - 1) = C (k - 1) * D (k - 1) + D (k - 2) * C (k - 2) * E (k - 2)) as -> by lra.
      rewrite <- G3, X2, X1. ring.
    Qed.

    Lemma pivot_is_Q : D k = Q n W lam xk.
    Proof.
      rewrite <- (quad_form n W lam xk n2).
      rewrite (sumn_single (fun i => xk i * Aop xk i) n k Hk).
      - rewrite xk_at, A_xk_at. ring.
      - intros i Hi Hne. destruct (Z_lt_ge_dec i k) as [L|G].
        + rewrite A_xk_below by exact L. ring.
        + rewrite xk_above by lia. ring.
    Qed.

    Lemma pivot_pos : 0 < D k.
    Proof.
      rewrite pivot_is_Q. pose proof (Q_nonneg n W lam W_nonneg lam_pos xk) as P.
      destruct (Req_dec (Q n W lam xk) 0) as [E0|N0]; [|lra]. exfalso.
      pose proof (Q_definite n W lam W_nonneg lam_pos two_weights xk n2 E0 k Hk) as X. rewrite xk_at in X. lra.
    Qed.
  End Pivot.

  (** every pivot is positive, by strong induction on the row: the recurrences for c_j, e_j hold
      as soon as d_j <> 0 (that is how the algorithm defines them), d_k needs no division *)
  Theorem ldl_pivots_pos :
    (forall k, F1 k) ->
    (forall k, ((0 <= k < Z.of_nat n)%Z -> D k <> 0) -> F2 k /\ F3 k) ->
    forall k, (0 <= k < Z.of_nat n)%Z -> 0 < D k.
  Proof.
    intros H1 H23.
    assert (forall m : nat, forall k, (0 <= k < Z.of_nat n)%Z -> (k <= Z.of_nat m)%Z -> 0 < D k) as Ind.
    { induction m as [m IH] using lt_wf_ind. intros k Hk Hm.
      apply (pivot_pos k Hk); [intros j _; apply H1|].
      intros j Hj. apply H23. intros Hj0.
      assert (0 < D j); [|lra].
      destruct m as [|m]; [lia|]. apply (IH m ltac:(lia) j); lia. }
    intros k Hk. apply (Ind (Z.to_nat k) k Hk). lia.
  Qed.
End LDL.
