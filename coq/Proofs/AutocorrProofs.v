(** Lag-1 autocorrelation (property C15), over the reals: the single-pass formula is the Pearson
    correlation of the two mean-filled vectors; it lies in [-1, 1] (Cauchy-Schwarz) and is
    invariant under positive affine maps of the valid cells. *)
From Coq Require Import ZArith Reals Lra Lia Bool List.
From HDC Require Import Base.Prelude Base.Ops Model.Autocorr Proofs.SmoothersProofs.
Open Scope R_scope.

Definition pr := (option R * option R)%type.

(** declarative sums over a list of (x_i, y_i) pairs *)
Fixpoint SX (ps : list pr) : R := match ps with [] => 0 | (Some x, _) :: r => x + SX r | _ :: r => SX r end.
Fixpoint SXX (ps : list pr) : R := match ps with [] => 0 | (Some x, _) :: r => x * x + SXX r | _ :: r => SXX r end.
Fixpoint NX (ps : list pr) : R := match ps with [] => 0 | (Some x, _) :: r => 1 + NX r | _ :: r => NX r end.
Fixpoint SY (ps : list pr) : R := match ps with [] => 0 | (_, Some y) :: r => y + SY r | _ :: r => SY r end.
Fixpoint SYY (ps : list pr) : R := match ps with [] => 0 | (_, Some y) :: r => y * y + SYY r | _ :: r => SYY r end.
Fixpoint NY (ps : list pr) : R := match ps with [] => 0 | (_, Some y) :: r => 1 + NY r | _ :: r => NY r end.
Fixpoint SXY (ps : list pr) : R := match ps with [] => 0 | (Some x, Some y) :: r => x * y + SXY r | _ :: r => SXY r end.
Fixpoint SX_ (ps : list pr) : R := match ps with [] => 0 | (Some x, Some y) :: r => x + SX_ r | _ :: r => SX_ r end.
Fixpoint SY_ (ps : list pr) : R := match ps with [] => 0 | (Some x, Some y) :: r => y + SY_ r | _ :: r => SY_ r end.
Fixpoint NXY (ps : list pr) : R := match ps with [] => 0 | (Some x, Some y) :: r => 1 + NXY r | _ :: r => NXY r end.

Lemma fold_step ps : forall s,
  let r := fold_left (step OpsR) ps s in
  s_xy r = s_xy s + SXY ps /\ s_x_ r = s_x_ s + SX_ ps /\ s_y_ r = s_y_ s + SY_ ps /\ n_xy r = n_xy s + NXY ps /\
  s_x r = s_x s + SX ps /\ s_xx r = s_xx s + SXX ps /\ n_x r = n_x s + NX ps /\
  s_y r = s_y s + SY ps /\ s_yy r = s_yy s + SYY ps /\ n_y r = n_y s + NY ps.
Proof.
  induction ps as [|[[x|] [y|]] r IH]; intros s; cbn [fold_left]; [cbn; repeat split; ring| | | |];
    match goal with |- context [fold_left _ r ?s'] => destruct (IH s') as (a1 & a2 & a3 & a4 & a5 & a6 & a7 & a8 & a9 & a10) end;
    cbn zeta; rewrite a1, a2, a3, a4, a5, a6, a7, a8, a9, a10;
    unfold step; cbn [fst snd s_xy s_x_ s_y_ n_xy s_x s_xx n_x s_y s_yy n_y fadd fmul f1 OpsR
                      SX SXX NX SY SYY NY SXY SX_ SY_ NXY]; repeat split; ring.
Qed.

(** deviations of the mean-filled vectors from their means: a missing cell sits on the mean *)
Definition dev (m : R) (o : option R) : R := match o with Some v => v - m | None => 0 end.
Definition cov (a b : R) (ps : list pr) : R := rsum (map (fun p => dev a (fst p) * dev b (snd p)) ps).
Definition varX (a : R) (ps : list pr) : R := rsum (map (fun p => dev a (fst p) * dev a (fst p)) ps).
Definition varY (b : R) (ps : list pr) : R := rsum (map (fun p => dev b (snd p) * dev b (snd p)) ps).

Lemma cov_expand a b ps : cov a b ps = SXY ps - a * SY_ ps - b * SX_ ps + NXY ps * a * b.
Proof. unfold cov. induction ps as [|[[x|] [y|]] r IH]; cbn [map rsum fst snd dev SXY SX_ SY_ NXY]; rewrite ?IH; ring. Qed.
Lemma varX_expand a ps : varX a ps = SXX ps - 2 * a * SX ps + NX ps * a * a.
Proof. unfold varX. induction ps as [|[[x|] y] r IH]; cbn [map rsum fst snd dev SXX SX NX]; rewrite ?IH; ring. Qed.
Lemma varY_expand b ps : varY b ps = SYY ps - 2 * b * SY ps + NY ps * b * b.
Proof. unfold varY. induction ps as [|[x [y|]] r IH]; cbn [map rsum fst snd dev SYY SY NY]; rewrite ?IH; ring. Qed.

(** filling the gaps of X with the mean of its valid cells keeps that mean *)
Definition filledX (m : R) (ps : list pr) : list R := map (fun p => match fst p with Some v => v | None => m end) ps.
Lemma filled_mean ps : NX ps <> 0 -> rsum (filledX (SX ps / NX ps) ps) = (SX ps / NX ps) * INR (length ps).
Proof.
  intros Hn. set (m := SX ps / NX ps).
  assert (forall qs, rsum (filledX m qs) = SX qs + m * (INR (length qs) - NX qs)) as G.
  { induction qs as [|[[x|] y] r IH].
    - cbn. ring.
    - cbn [filledX map rsum fst SX NX length]. fold (filledX m r). rewrite S_INR, IH. ring.
    - cbn [filledX map rsum fst SX NX length]. fold (filledX m r). rewrite S_INR, IH. ring. }
  rewrite G. unfold m. field. exact Hn.
Qed.

(** Cauchy-Schwarz for finite sums *)
Lemma cauchy_schwarz (l : list (R * R)) :
  (rsum (map (fun p => fst p * snd p) l)) ^ 2 <=
  rsum (map (fun p => fst p * fst p) l) * rsum (map (fun p => snd p * snd p) l).
Proof.
  assert (forall l, 0 <= rsum (map (fun p : R * R => fst p * fst p) l)) as PA by (induction l0 as [|[a b] r IH]; cbn; [lra|nra]).
  assert (forall l, 0 <= rsum (map (fun p : R * R => snd p * snd p) l)) as PB by (induction l0 as [|[a b] r IH]; cbn; [lra|nra]).
  induction l as [|[a b] r IH]; cbn [map rsum fst snd]; [lra|].
  set (S := rsum (map (fun p => fst p * snd p) r)) in *. set (A := rsum (map (fun p => fst p * fst p) r)) in *.
  set (B := rsum (map (fun p => snd p * snd p) r)) in *.
  pose proof (PA r) as HA. pose proof (PB r) as HB. fold A in HA. fold B in HB.
  assert (2 * S * a * b <= A * (b * b) + B * (a * a)) as Mid.
  { assert (0 <= A * (b * b) + B * (a * a)) as P by nra.
    assert ((2 * S * a * b) ^ 2 <= (A * (b * b) + B * (a * a)) ^ 2) as Sq.
    { assert ((A * (b * b) + B * (a * a)) ^ 2 - (2 * S * a * b) ^ 2 =
              (A * (b * b) - B * (a * a)) ^ 2 + 4 * (a * a) * (b * b) * (A * B - S ^ 2)) as E by ring.
      assert (0 <= (A * (b * b) - B * (a * a)) ^ 2) by apply pow2_ge_0.
      assert (0 <= 4 * (a * a) * (b * b) * (A * B - S ^ 2)) by (apply Rmult_le_pos; [nra|lra]). lra. }
    destruct (Rle_lt_dec (2 * S * a * b) (A * (b * b) + B * (a * a))) as [L|G]; [exact L|exfalso].
    assert (0 <= 2 * S * a * b) by lra. nra. }
  nra.
Qed.

Lemma cov_cs a b ps : (cov a b ps) ^ 2 <= varX a ps * varY b ps.
Proof.
  unfold cov, varX, varY. pose proof (cauchy_schwarz (map (fun p => (dev a (fst p), dev b (snd p))) ps)) as H.
  rewrite !map_map in H. cbn [fst snd] in H. exact H.
Qed.

(** ** the kernel *)
Definition rho (ps : list pr) : R :=
  let mx := SX ps / NX ps in let my := SY ps / NY ps in
  cov mx my ps / (sqrt (varX mx ps) * sqrt (varY my ps)).

Lemma NX_ge_NXY ps : 0 <= NXY ps <= NX ps /\ NXY ps <= NY ps.
Proof. induction ps as [|[[x|] [y|]] r IH]; cbn [NXY NX NY]; lra. Qed.

(** un-thresholded value of the single-pass formula = Pearson correlation of the mean-filled vectors *)
Theorem formula_is_pearson ps :
  let s := fold_left (step OpsR) ps (sums0 OpsR) in
  0 < NXY ps -> 0 < varX (SX ps / NX ps) ps -> 0 < varY (SY ps / NY ps) ps ->
  let A := ((n_x s * n_y s) * s_xy s - (n_y s * s_x s) * s_y_ s - (n_x s * s_y s) * s_x_ s) + (n_xy s * s_x s) * s_y s in
  let vx := (n_x s * s_xx s - s_x s * s_x s) * n_x s in
  let vy := (n_y s * s_yy s - s_y s * s_y s) * n_y s in
  (A * (1 / sqrt vx)) * (1 / sqrt vy) = rho ps /\ vx = NX ps ^ 2 * varX (SX ps / NX ps) ps /\ vy = NY ps ^ 2 * varY (SY ps / NY ps) ps.
Proof.
  cbn zeta. intros Hn Hvx Hvy.
  destruct (fold_step ps (sums0 OpsR)) as (a1 & a2 & a3 & a4 & a5 & a6 & a7 & a8 & a9 & a10). cbn zeta in *.
  rewrite a1, a2, a3, a4, a5, a6, a7, a8, a9, a10. cbn [sums0 s_xy s_x_ s_y_ n_xy s_x s_xx n_x s_y s_yy n_y f0 OpsR].
  destruct (NX_ge_NXY ps) as [[_ Hx] Hy]. assert (0 < NX ps) as Px by lra. assert (0 < NY ps) as Py by lra.
  set (mx := SX ps / NX ps) in *. set (my := SY ps / NY ps) in *.
  assert ((0 + NX ps) * (0 + SXX ps) - (0 + SX ps) * (0 + SX ps) = NX ps * varX mx ps) as Ex.
  { rewrite varX_expand. unfold mx. field. lra. }
  assert ((0 + NY ps) * (0 + SYY ps) - (0 + SY ps) * (0 + SY ps) = NY ps * varY my ps) as Ey.
  { rewrite varY_expand. unfold my. field. lra. }
  assert ((0 + NX ps) * (0 + NY ps) * (0 + SXY ps) - (0 + NY ps) * (0 + SX ps) * (0 + SY_ ps) - (0 + NX ps) * (0 + SY ps) * (0 + SX_ ps)
          + (0 + NXY ps) * (0 + SX ps) * (0 + SY ps) = NX ps * NY ps * cov mx my ps) as EA.
  { rewrite cov_expand. unfold mx, my. field. lra. }
  rewrite Ex, Ey, EA.
  assert (NX ps * varX mx ps * (0 + NX ps) = NX ps ^ 2 * varX mx ps) as -> by ring.
  assert (NY ps * varY my ps * (0 + NY ps) = NY ps ^ 2 * varY my ps) as -> by ring.
  split; [|split; reflexivity].
  rewrite !sqrt_mult by (try apply pow2_ge_0; lra). rewrite !sqrt_pow2 by lra.
  unfold rho. fold mx my. assert (0 < sqrt (varX mx ps)) by (apply sqrt_lt_R0; exact Hvx).
  assert (0 < sqrt (varY my ps)) by (apply sqrt_lt_R0; exact Hvy). field. lra.
Qed.

(** the value lies in [-1, 1] *)
Theorem rho_range ps :
  0 < varX (SX ps / NX ps) ps -> 0 < varY (SY ps / NY ps) ps -> -1 <= rho ps <= 1.
Proof.
  intros Hvx Hvy. unfold rho. set (mx := SX ps / NX ps) in *. set (my := SY ps / NY ps) in *.
  pose proof (cov_cs mx my ps) as CS.
  assert (0 < sqrt (varX mx ps)) as Sx by (apply sqrt_lt_R0; exact Hvx).
  assert (0 < sqrt (varY my ps)) as Sy by (apply sqrt_lt_R0; exact Hvy).
  set (d := sqrt (varX mx ps) * sqrt (varY my ps)). assert (0 < d) as Pd by (unfold d; nra).
  assert (d ^ 2 = varX mx ps * varY my ps) as Ed.
  { unfold d. rewrite Rpow_mult_distr. rewrite !pow2_sqrt by lra. reflexivity. }
  assert ((cov mx my ps) ^ 2 <= d ^ 2) as Le by lra.
  assert (- d <= cov mx my ps <= d) as B by (split; nra).
  split.
  - apply (Rmult_le_reg_r d); [exact Pd|]. unfold Rdiv. rewrite Rmult_assoc, Rinv_l by lra. lra.
  - apply (Rmult_le_reg_r d); [exact Pd|]. unfold Rdiv. rewrite Rmult_assoc, Rinv_l by lra. lra.
Qed.

(** positive affine maps of the valid cells leave the value unchanged *)
Definition amap (a b : R) (o : option R) : option R := match o with Some v => Some (a * v + b) | None => None end.
Definition amap_pairs a b (ps : list pr) : list pr := map (fun p => (amap a b (fst p), amap a b (snd p))) ps.

Lemma sums_amap a b ps :
  NX (amap_pairs a b ps) = NX ps /\ NY (amap_pairs a b ps) = NY ps /\
  SX (amap_pairs a b ps) = a * SX ps + b * NX ps /\ SY (amap_pairs a b ps) = a * SY ps + b * NY ps.
Proof. unfold amap_pairs. induction ps as [|[[x|] [y|]] r (i1 & i2 & i3 & i4)]; cbn [map fst snd amap NX NY SX SY]; rewrite ?i1, ?i2, ?i3, ?i4; repeat split; ring. Qed.

Lemma dev_amap a b m o : dev (a * m + b) (amap a b o) = a * dev m o.
Proof. destruct o as [v|]; cbn; ring. Qed.

Lemma cov_amap a b mx my ps : cov (a * mx + b) (a * my + b) (amap_pairs a b ps) = a ^ 2 * cov mx my ps.
Proof.
  unfold cov, amap_pairs. induction ps as [|p r IH]; cbn [map rsum fst snd]; [ring|]. rewrite IH, !dev_amap. ring.
Qed.
Lemma varX_amap a b mx ps : varX (a * mx + b) (amap_pairs a b ps) = a ^ 2 * varX mx ps.
Proof.
  unfold varX, amap_pairs. induction ps as [|p r IH]; cbn [map rsum fst snd]; [ring|]. rewrite IH, !dev_amap. ring.
Qed.
Lemma varY_amap a b my ps : varY (a * my + b) (amap_pairs a b ps) = a ^ 2 * varY my ps.
Proof.
  unfold varY, amap_pairs. induction ps as [|p r IH]; cbn [map rsum fst snd]; [ring|]. rewrite IH, !dev_amap. ring.
Qed.
Lemma varX_nonneg m ps : 0 <= varX m ps.
Proof. unfold varX. induction ps as [|p r IH]; cbn [map rsum]; [lra|]. nra. Qed.
Lemma varY_nonneg m ps : 0 <= varY m ps.
Proof. unfold varY. induction ps as [|p r IH]; cbn [map rsum]; [lra|]. nra. Qed.

Theorem rho_affine a b ps : 0 < a -> 0 < NX ps -> 0 < NY ps -> rho (amap_pairs a b ps) = rho ps.
Proof.
  intros Ha Px Py. unfold rho. destruct (sums_amap a b ps) as (n1 & n2 & s1 & s2). rewrite n1, n2, s1, s2.
  set (mx := SX ps / NX ps). set (my := SY ps / NY ps).
  assert ((a * SX ps + b * NX ps) / NX ps = a * mx + b) as -> by (unfold mx; field; lra).
  assert ((a * SY ps + b * NY ps) / NY ps = a * my + b) as -> by (unfold my; field; lra).
  rewrite cov_amap, varX_amap, varY_amap.
  assert (forall v, 0 <= v -> sqrt (a ^ 2 * v) = a * sqrt v) as Sq.
  { intros v Hv. rewrite sqrt_mult by (try apply pow2_ge_0; lra). rewrite sqrt_pow2 by lra. reflexivity. }
  rewrite (Sq (varX mx ps)) by apply varX_nonneg. rewrite (Sq (varY my ps)) by apply varY_nonneg.
  destruct (Req_dec (sqrt (varX mx ps) * sqrt (varY my ps)) 0) as [Z0|NZ].
  - unfold Rdiv. replace (a * sqrt (varX mx ps) * (a * sqrt (varY my ps))) with (a ^ 2 * (sqrt (varX mx ps) * sqrt (varY my ps))) by ring.
    rewrite Z0, Rmult_0_r, Rinv_0. ring.
  - assert (sqrt (varX mx ps) <> 0) as Nx by (intros E; apply NZ; rewrite E; ring).
    assert (sqrt (varY my ps) <> 0) as Ny by (intros E; apply NZ; rewrite E; ring).
    assert (a <> 0) as Na by lra. field. repeat split; assumption.
Qed.

(** ... and by a negative one as well: both vectors are flipped together (x -> -x, or an index
    stored as "deficit" instead of "surplus"), so the correlation keeps its sign *)
Theorem rho_affine_neg a b ps : a < 0 -> 0 < NX ps -> 0 < NY ps -> rho (amap_pairs a b ps) = rho ps.
Proof.
  intros Ha Px Py. unfold rho. destruct (sums_amap a b ps) as (n1 & n2 & s1 & s2). rewrite n1, n2, s1, s2.
  set (mx := SX ps / NX ps). set (my := SY ps / NY ps).
  assert ((a * SX ps + b * NX ps) / NX ps = a * mx + b) as -> by (unfold mx; field; lra).
  assert ((a * SY ps + b * NY ps) / NY ps = a * my + b) as -> by (unfold my; field; lra).
  rewrite cov_amap, varX_amap, varY_amap.
  assert (forall v, 0 <= v -> sqrt (a ^ 2 * v) = - a * sqrt v) as Sq.
  { intros v Hv. rewrite sqrt_mult by (try apply pow2_ge_0; lra).
    replace (a ^ 2) with ((- a) ^ 2) by ring. rewrite sqrt_pow2 by lra. reflexivity. }
  rewrite (Sq (varX mx ps)) by apply varX_nonneg. rewrite (Sq (varY my ps)) by apply varY_nonneg.
  destruct (Req_dec (sqrt (varX mx ps) * sqrt (varY my ps)) 0) as [Z0|NZ].
  - unfold Rdiv. replace (- a * sqrt (varX mx ps) * (- a * sqrt (varY my ps))) with (a ^ 2 * (sqrt (varX mx ps) * sqrt (varY my ps))) by ring.
    rewrite Z0, Rmult_0_r, Rinv_0. ring.
  - assert (sqrt (varX mx ps) <> 0) as Nx by (intros E; apply NZ; rewrite E; ring).
    assert (sqrt (varY my ps) <> 0) as Ny by (intros E; apply NZ; rewrite E; ring).
    assert (a <> 0) as Na by lra. field. repeat split; assumption.
Qed.
