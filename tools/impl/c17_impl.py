"""Runs rolling_sum / mean_grp kernels and their accessors from /repo on the given cases."""
import json
import sys
import warnings

import numpy as np

warnings.filterwarnings("ignore")
import xarray as xr  # noqa: E402
import hdc.algo  # noqa: F401,E402
from hdc.algo.ops.stats import mean_grp, rolling_sum  # noqa: E402


def main():
    P = json.load(sys.stdin)
    out = {}
    # rolling kernel, batched: groups of equal (length, ws, nd, dtype)
    res = []
    for b in P.get("rolling", []):
        xx = np.array(b["xx"], dtype=b["dtype"]).reshape(len(b["xx"]), -1)
        r = rolling_sum(xx, b["ws"], b["nd"])
        res.append(dict(dtype=str(r.dtype), out=r.astype("float64").tolist()))
    out["rolling"] = res
    res = []
    for b in P.get("rolling_acc", []):
        xx = np.array(b["xx"], dtype=b["dtype"])  # (y, x, t) cube
        da = xr.DataArray(xx, dims=("y", "x", "time"))
        dim = b.get("dim")
        if dim:                                           # roll along another dimension than time
            others = [d for d in da.dims if d != dim]
            try:
                r = da.hdc.rolling.sum(b["ws"], dimension=dim, nodata=b["nd"])
                r = r.transpose(*others, dim)
                res.append(dict(dtype=str(r.dtype), dims=list(r.dims), out=r.values.astype("float64").tolist(),
                                coord=[int(v) for v in r[dim].values] if dim in r.coords else None))
            except Exception as e:  # noqa
                res.append(dict(error="%s: %s" % (type(e).__name__, e)))
            continue
        if b.get("attr"):
            da.attrs["nodata"] = b["nd"]
            r = da.hdc.rolling.sum(b["ws"])
        else:
            r = da.hdc.rolling.sum(b["ws"], nodata=b["nd"])
        res.append(dict(dtype=str(r.dtype), dims=list(r.dims), out=r.values.astype("float64").tolist()))
    out["rolling_acc"] = res
    res = []
    for b in P.get("mean", []):
        xx = np.array(b["xx"], dtype=b["dtype"]).reshape(len(b["xx"]), -1)
        g = np.array(b["grp"], dtype="int16")
        r = mean_grp(xx, g, b["ng"], b["nd"])
        res.append(dict(dtype=str(r.dtype), out=r.astype("float64").tolist()))
    out["mean"] = res
    res = []
    for b in P.get("mean_acc", []):
        xx = np.array(b["xx"], dtype=b["dtype"])
        if b.get("kw"):           # nodata handed over as a keyword; the attribute is absent or says something else
            da = xr.DataArray(xx, dims=("y", "x", "time"), attrs={} if b["kw"] == "noattr" else {"nodata": -9999 if b["nd"] != -9999 else 255})
            try:
                r = da.hdc.algo.mean_grp(np.array(b["grp"], dtype="int16"), nodata=b["nd"])
            except Exception as e:  # noqa
                res.append(dict(error="%s: %s" % (type(e).__name__, e)))
                continue
        else:
            da = xr.DataArray(xx, dims=("y", "x", "time"), attrs={"nodata": b["nd"]})
            r = da.hdc.algo.mean_grp(np.array(b["grp"], dtype="int16"))
        res.append(dict(dtype=str(r.dtype), dims=list(r.dims), out=r.values.astype("float64").tolist()))
    out["mean_acc"] = res
    print("@@RESULT@@" + json.dumps(out))


main()
