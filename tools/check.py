"""./check Cxx [--tier quick|thorough] [--replay FILE]"""
import argparse
import importlib
import os
import sys
import traceback

sys.path.insert(0, os.path.dirname(os.path.abspath(__file__)))
from vlib import core  # noqa: E402


def main():
    ap = argparse.ArgumentParser()
    ap.add_argument("pid")
    ap.add_argument("--tier", default=os.environ.get("VERIF_TIER", "quick"), choices=["quick", "thorough"])
    ap.add_argument("--replay", default=None)
    a = ap.parse_args()
    seed = int(os.environ.get("VERIF_SEED", "20260930"))
    pid = a.pid.upper()
    mod = importlib.import_module("props.%s" % pid)
    ctx = core.Ctx(pid, a.tier, seed)
    if a.replay:
        # a property module may replay the single recorded case itself (exit 1 = still failing, 0 = no longer fails); when it only
        # prints the case (2), the recorded run is repeated: same seed and tier against the current tree, without rewriting evidence
        rc = mod.replay(ctx, a.replay)
        if rc in (0, 1):
            sys.exit(rc)
        import json
        rp = json.load(open(a.replay))
        ctx = core.Ctx(pid, rp.get("tier", a.tier), int(rp.get("seed", seed)))
        ctx.write_evidence = False
        print("replaying the recorded run: property=%s seed=%s tier=%s (%s)" % (pid, ctx.seed, ctx.tier, rp.get("what", "")[:200]))
        try:
            mod.run(ctx)
        except Exception:  # noqa
            print(traceback.format_exc())
            sys.exit(1)
        sys.exit(ctx.finish())
    try:
        mod.run(ctx)
    except Exception:  # a crash of the machinery must never look like a pass
        tb = traceback.format_exc()
        print(tb)
        ctx.violation("the check itself crashed", dict(kind="checker-crash", traceback=tb), found_input=False)
    sys.exit(ctx.finish())


if __name__ == "__main__":
    main()
