"""./check Cxx [--tier quick|thorough] [--replay FILE]"""
import argparse
import importlib
import os
import sys
import traceback

sys.path.insert(0, os.path.dirname(os.path.abspath(__file__)))
from vlib import core  # noqa: E402


def main():
    ap = argparse.ArgumentParser()
    ap.add_argument("pid")
    ap.add_argument("--tier", default=os.environ.get("VERIF_TIER", "quick"), choices=["quick", "thorough"])
    ap.add_argument("--replay", default=None)
    a = ap.parse_args()
    seed = int(os.environ.get("VERIF_SEED", "20260930"))
    pid = a.pid.upper()
    mod = importlib.import_module("props.%s" % pid)
    ctx = core.Ctx(pid, a.tier, seed)
    if a.replay:
        sys.exit(mod.replay(ctx, a.replay))
    try:
        mod.run(ctx)
    except Exception:  # a crash of the machinery must never look like a pass
        tb = traceback.format_exc()
        print(tb)
        ctx.violation("the check itself crashed", dict(kind="checker-crash", traceback=tb), found_input=False)
    sys.exit(ctx.finish())


if __name__ == "__main__":
    main()
