(** V-curve selection logic (property C04): the reported lambda is pow10 of a midpoint of two
    consecutive grid entries; the selected ordinate is the first minimum of the computed V-curve;
    over the reals the band is the fixed-lambda smoother at the reported lambda. *)
From Coq Require Import ZArith Reals Lra Lia Bool List.
From HDC Require Import Base.Prelude Base.Ops Model.Ws2d Model.Smoothers Model.VCurve Proofs.Ws2dIndex
     Proofs.SmoothersProofs.
Open Scope R_scope.

Section Generic.
  Context {F : Type} (O : Ops F).

  Lemma argmin_from_in vs : forall best, argmin_from O vs best = best \/ In (argmin_from O vs best) vs.
  Proof.
    induction vs as [|x r IH]; intros best; cbn [argmin_from]; [now left|].
    destruct (fltb O (fst x) (fst best)).
    - destruct (IH x) as [E|I]; [right; left; now rewrite E|right; now right].
    - destruct (IH best) as [E|I]; [now left|right; now right].
  Qed.

  Lemma select_in vs r : select O vs = Some r -> In r vs.
  Proof.
    destruct vs as [|x t]; cbn [select]; [discriminate|]. intros [= <-].
    destruct (argmin_from_in t x) as [E|I]; [left; now rewrite E|now right].
  Qed.

  (** every V-curve point sits at the midpoint of two consecutive grid entries *)
  Lemma vcurve_midpoints step : forall llas fits pens v,
    In v (vcurve O step llas fits pens) ->
    exists k, (S k < length llas)%nat /\
      snd v = fdiv O (fadd O (nth k llas (f0 O)) (nth (S k) llas (f0 O))) (fofZ O 2).
  Proof.
    induction llas as [|l1 lr IH]; intros fits pens v H; [destruct fits, pens; contradiction|].
    destruct lr as [|l2 lr']; [destruct fits as [|? [|? ?]], pens as [|? [|? ?]]; contradiction|].
    destruct fits as [|f1' [|f2 fr]]; try (destruct pens as [|? [|? ?]]; contradiction).
    destruct pens as [|p1 [|p2 pr]]; try contradiction.
    cbn [vcurve] in H. destruct H as [<-|H].
    - exists 0%nat. split; [cbn; lia|reflexivity].
    - destruct (IH (f2 :: fr) (p2 :: pr) v H) as (k & Hk & E). exists (S k). split; [cbn in *; lia|exact E].
  Qed.

  Theorem lopt_is_midpoint llas fits pens lopt :
    lopt_of O llas fits pens = Some lopt ->
    exists k, (S k < length llas)%nat /\
      lopt = fpow10 O (fdiv O (fadd O (nth k llas (f0 O)) (nth (S k) llas (f0 O))) (fofZ O 2)).
  Proof.
    unfold lopt_of. destruct (select O (vcurve O (llastep O llas) llas fits pens)) as [[v m]|] eqn:E; [|discriminate].
    intros [= <-]. apply select_in in E. destruct (vcurve_midpoints _ _ _ _ _ E) as (k & Hk & Em).
    exists k. split; [exact Hk|]. cbn [snd] in Em. now rewrite Em.
  Qed.

  (** grid choice of the autocorrelation variant *)
  Theorem optvplc_grid ghi glo y nd p lc :
    ws2doptvplc O ghi glo y nd p lc =
    ws2doptvp O y nd p (if fltb O (fdiv O (fofZ O 1) (fofZ O 2)) lc then ghi else glo).
  Proof. reflexivity. Qed.
End Generic.

(** ** over the reals: first minimum *)
Lemma argmin_from_min vs : forall best,
  let r := argmin_from OpsR vs best in
  fst r <= fst best /\ (forall x, In x vs -> fst r <= fst x).
Proof.
  induction vs as [|x t IH]; intros best; cbn [argmin_from]; [split; [lra|intros ? []]|].
  cbn [fltb OpsR]. destruct (Rltb (fst x) (fst best)) eqn:E.
  - apply Rltb_true in E. destruct (IH x) as [A B]. split; [lra|]. intros y [<-|Hy]; [exact A|now apply B].
  - assert (~ fst x < fst best) as N by (intros L; apply Rltb_true in L; congruence).
    destruct (IH best) as [A B]. split; [exact A|]. intros y [<-|Hy]; [lra|now apply B].
Qed.

Theorem select_is_min vs r : select OpsR vs = Some r -> forall x, In x vs -> fst r <= fst x.
Proof.
  destruct vs as [|x t]; cbn [select]; [discriminate|]. intros [= <-] y Hy.
  destruct (argmin_from_min t x) as [A B]. destruct Hy as [<-|Hy]; [exact A|now apply B].
Qed.

(** ... and it is the *first* one: everything before the selected position is strictly larger *)
Lemma argmin_from_first vs : forall best d,
  exists k, (k <= length vs)%nat /\ nth k (best :: vs) d = argmin_from OpsR vs best /\
            forall j, (j < k)%nat -> fst (argmin_from OpsR vs best) < fst (nth j (best :: vs) d).
Proof.
  induction vs as [|x t IH]; intros best d; cbn [argmin_from].
  - exists 0%nat. split; [cbn; lia|]. split; [reflexivity|]. intros j Hj. lia.
  - cbn [fltb OpsR]. destruct (Rltb (fst x) (fst best)) eqn:E.
    + apply Rltb_true in E. destruct (IH x d) as (k & Hk & En & Hf). exists (S k).
      split; [cbn; lia|]. split; [exact En|]. intros [|j] Hj.
      * cbn [nth]. destruct (argmin_from_min t x) as [A _]. lra.
      * cbn [nth]. apply (Hf j). lia.
    + assert (~ fst x < fst best) as N by (intros L; apply Rltb_true in L; congruence).
      destruct (IH best d) as (k & Hk & En & Hf). destruct k as [|k].
      * exists 0%nat. split; [cbn; lia|]. split; [exact En|]. intros j Hj. lia.
      * exists (S (S k)). split; [cbn in *; lia|]. split; [exact En|]. intros [|[|j]] Hj.
        -- apply (Hf 0%nat). lia.
        -- cbn [nth]. pose proof (Hf 0%nat ltac:(lia)) as H0. cbn [nth] in H0. lra.
        -- cbn [nth]. apply (Hf (S j)). lia.
Qed.

Theorem select_is_first_min vs r d :
  select OpsR vs = Some r ->
  exists k, (k < length vs)%nat /\ nth k vs d = r /\
            (forall j, (j < k)%nat -> fst r < fst (nth j vs d)) /\ (forall x, In x vs -> fst r <= fst x).
Proof.
  intros H. pose proof (select_is_min vs r H) as Hmin.
  destruct vs as [|x t]; cbn [select] in H; [discriminate|]. injection H as <-.
  destruct (argmin_from_first t x d) as (k & Hk & En & Hf). exists k.
  split; [cbn; lia|]. split; [exact En|]. split; [exact Hf|exact Hmin].
Qed.

(** ** over the reals: the band is the fixed-lambda smoother at the reported lambda *)
(** the solver sees y only through the products w_i * y_i *)
Lemma fwd_wy_indep {F} (O : Ops F) ws : forall y1 y2 k n l p1 p2,
  length y1 = length ws -> length y2 = length ws ->
  map (fun t => fmul O (fst t) (snd t)) (combine ws y1) = map (fun t => fmul O (fst t) (snd t)) (combine ws y2) ->
  fwd O k n l p1 p2 ws y1 = fwd O k n l p1 p2 ws y2.
Proof.
  induction ws as [|w ws IH]; intros [|a y1] [|b y2] k n l p1 p2 H1 H2 E; cbn in H1, H2; try lia; [reflexivity|].
  cbn [combine map fst snd] in E. injection E as E0 E. cbn [fwd].
  assert (fstep O k n l p1 p2 w a = fstep O k n l p1 p2 w b) as ->.
  { unfold fstep. rewrite E0. reflexivity. }
  f_equal. apply IH; [lia|lia|exact E].
Qed.

Lemma ws2d_wy_indep {F} (O : Ops F) y1 y2 l w :
  length y1 = length w -> length y2 = length w ->
  map (fun t => fmul O (fst t) (snd t)) (combine w y1) = map (fun t => fmul O (fst t) (snd t)) (combine w y2) ->
  ws2d O y1 l w = ws2d O y2 l w.
Proof.
  intros H1 H2 E. unfold ws2d, ws2d_rows. rewrite H1, H2.
  now rewrite (fwd_wy_indep O w y1 y2 0 (length w) l (zrow O) (zrow O) H1 H2 E).
Qed.

Lemma zero_missing_products (w y : list R) :
  is01 w -> length w = length y ->
  map (fun t => fmul OpsR (fst t) (snd t)) (combine w (zero_missing OpsR w y)) =
  map (fun t => fmul OpsR (fst t) (snd t)) (combine w y).
Proof.
  unfold zero_missing. revert y; induction w as [|a w IH]; intros [|b y] H01 Hl; cbn in Hl; try lia; [reflexivity|].
  inversion H01 as [|? ? Ha Hw]; subst. cbn [combine map fst snd fmul feqb f0 OpsR]. rewrite IH by (try assumption; lia).
  f_equal. destruct Ha as [->| ->].
  - replace (Reqb 0 0) with true by (symmetry; now apply Reqb_true). ring.
  - replace (Reqb 1 0) with false; [reflexivity|]. symmetry. apply not_true_is_false. intros E. apply Reqb_true in E. lra.
Qed.

Lemma weights_gu_eq_R nd y : weights_gu OpsR nd y = weights_eq OpsR nd y.
Proof. unfold weights_gu, weights_eq, missing_gu. apply map_ext. intros x. cbn [fnonfinite OpsR]. now rewrite orb_false_r. Qed.

(** symmetric V-curve: band = ws2dgu at the reported lambda *)
Theorem optv_band_is_gu y nd llas z lopt :
  ws2doptv OpsR y nd llas = VFit z lopt -> lopt <> 0 -> ws2dgu OpsR y lopt nd = Curve z.
Proof.
  unfold ws2doptv, optv_core, ws2dgu. rewrite weights_gu_eq_R. set (w := weights_eq OpsR nd y).
  destruct (fltb OpsR (f1 OpsR) (fsum OpsR w)); [|discriminate].
  destruct (lopt_of OpsR llas _ _) as [lo|]; [|discriminate]. intros [= <- <-] Hl.
  cbn [feqb f0 OpsR]. replace (Reqb lo 0) with false by (symmetry; apply not_true_is_false; intros E; apply Reqb_true in E; contradiction).
  f_equal. assert (length w = length y) as Lw by (unfold w, weights_eq; apply map_length).
  apply ws2d_wy_indep; [|symmetry; exact Lw|].
  - rewrite zero_missing_length; [symmetry; exact Lw|exact Lw].
  - apply zero_missing_products; [apply weights_eq_01|exact Lw].
Qed.

(** asymmetric: the reweighting sees y on zero-weight cells only through w_i * (...) = 0 *)
Lemma asym_weights_zero_missing p p1 (w : list R) : forall y z,
  is01 w -> length w = length y ->
  asym_weights OpsR p p1 w (zero_missing OpsR w y) z = asym_weights OpsR p p1 w y z.
Proof.
  unfold asym_weights, zero_missing. induction w as [|a w IH]; intros [|b y] z H01 Hl; cbn in Hl; try lia; [reflexivity|].
  inversion H01 as [|? ? Ha Hw]; subst. destruct z as [|c z]; [reflexivity|].
  cbn [combine map fst snd fmul feqb f0 OpsR]. rewrite IH by (try assumption; lia). f_equal.
  destruct Ha as [->| ->].
  - ring.
  - replace (Reqb 1 0) with false; [reflexivity|]. symmetry. apply not_true_is_false. intros E. apply Reqb_true in E. lra.
Qed.

Lemma asym_products_zero_missing p p1 (w : list R) : forall y z,
  is01 w -> length w = length y ->
  map (fun t => fmul OpsR (fst t) (snd t)) (combine (asym_weights OpsR p p1 w y z) (zero_missing OpsR w y)) =
  map (fun t => fmul OpsR (fst t) (snd t)) (combine (asym_weights OpsR p p1 w y z) y).
Proof.
  unfold asym_weights, zero_missing. induction w as [|a w IHw]; intros [|b y] z H01 Hl; cbn in Hl; try lia; [reflexivity|].
  inversion H01 as [|? ? Ha Hw]; subst. destruct z as [|c z]; [reflexivity|].
  cbn [combine map fst snd fmul feqb f0 OpsR]. rewrite IHw by (try assumption; lia). f_equal.
  destruct Ha as [->| ->].
  - ring.
  - replace (Reqb 1 0) with false; [reflexivity|]. symmetry. apply not_true_is_false. intros E. apply Reqb_true in E. lra.
Qed.

Lemma irls_zero_missing fuel p p1 lam (w y : list R) : forall z ww,
  is01 w -> length w = length y -> (4 <= length y)%nat -> length z = length y ->
  irls OpsR fuel p p1 lam w (zero_missing OpsR w y) z ww = irls OpsR fuel p p1 lam w y z ww.
Proof.
  induction fuel as [|f IH]; intros z ww H01 Hl Hn Hz; cbn [irls]; [reflexivity|].
  rewrite asym_weights_zero_missing by assumption.
  set (wa := asym_weights OpsR p p1 w y z).
  assert (length wa = length y) as Lwa by (apply asym_weights_length; assumption).
  assert (ws2d OpsR (zero_missing OpsR w y) lam wa = ws2d OpsR y lam wa) as ->.
  { apply ws2d_wy_indep; [rewrite zero_missing_length; [symmetry; exact Lwa|exact Hl]|symmetry; exact Lwa|].
    apply asym_products_zero_missing; assumption. }
  destruct (unchanged OpsR (ws2d OpsR y lam wa) z); [reflexivity|].
  apply IH; try assumption. apply ws2d_length; assumption.
Qed.

Lemma asym_fit_zero_missing p lam (w y : list R) :
  is01 w -> length w = length y -> (4 <= length y)%nat ->
  asym_fit OpsR p lam w (zero_missing OpsR w y) = asym_fit OpsR p lam w y.
Proof.
  intros H01 Hl Hn. unfold asym_fit. rewrite zero_missing_length by exact Hl.
  assert (length (zeros OpsR (length y)) = length y) as Lz by (unfold zeros; apply repeat_length).
  rewrite irls_zero_missing by assumption.
  destruct (irls OpsR 10 p (fsub OpsR (f1 OpsR) p) lam w y (zeros OpsR (length y)) (zeros OpsR (length y))) as [ww z'] eqn:E.
  destruct (irls_final 10 p _ lam w y _ _ ww z' Hn Hl Lz ltac:(lia) E) as (_ & _ & Lww & zz & Lzz & ->).
  apply ws2d_wy_indep; [rewrite zero_missing_length; [symmetry; exact Lww|exact Hl]|symmetry; exact Lww|].
  apply asym_products_zero_missing; assumption.
Qed.

(** asymmetric V-curve: band = ws2dpgu at the reported lambda *)
Theorem optvp_band_is_pgu y nd p llas z lopt :
  (4 <= length y)%nat -> ws2doptvp OpsR y nd p llas = VFit z lopt -> lopt <> 0 -> ws2dpgu OpsR y lopt nd p = Curve z.
Proof.
  intros Hn. unfold ws2doptvp, optvp_core, ws2dpgu. rewrite weights_gu_eq_R. set (w := weights_eq OpsR nd y).
  destruct (fltb OpsR (f1 OpsR) (fsum OpsR w)); [|discriminate].
  destruct (lopt_of OpsR llas _ _) as [lo|]; [|discriminate]. intros [= <- <-] Hl.
  cbn [feqb f0 OpsR]. replace (Reqb lo 0) with false by (symmetry; apply not_true_is_false; intros E; apply Reqb_true in E; contradiction).
  f_equal. apply asym_fit_zero_missing; [apply weights_eq_01|unfold w, weights_eq; apply map_length|exact Hn].
Qed.

(** the reported lambda is a power of ten, hence non-zero *)
Lemma lopt_nonzero llas fits pens lopt : lopt_of OpsR llas fits pens = Some lopt -> lopt <> 0.
Proof.
  intros H. destruct (lopt_is_midpoint OpsR llas fits pens lopt H) as (k & _ & ->). cbn [fpow10 OpsR].
  pose proof (exp_pos (fdiv OpsR (fadd OpsR (nth k llas (f0 OpsR)) (nth (S k) llas (f0 OpsR))) (fofZ OpsR 2) * ln 10)). lra.
Qed.
