"""C18 — lroo / croo equal the longest / current run of ones."""
import itertools

import numpy as np

from vlib import core
from vlib.core import zlist, zlit

PRE = "From HDC Require Import Base.Prelude Model.Lroo Corr.C18.\n"


def longest(data):
    best = cur = 0
    for v in data:
        cur = cur + 1 if v == 1 else 0
        best = max(best, cur)
    return best


def spec_lroo(data, out):
    L = longest(data)
    exp = L if L >= 2 else 0
    return None if out == exp else "lroo=%s, longest run is %d (expected %d)" % (out, L, exp)


def spec_croo(times, vals, out):
    order = sorted(range(len(times)), key=lambda i: times[i])
    chrono = [vals[i] for i in order]
    r = 0
    for v in reversed(chrono):
        if v != 1:
            break
        r += 1
    if out != r:
        return "croo=%s, the run ending at the latest step has length %d" % (out, r)
    return None


def run(ctx):
    ctx.proofs(["Props/C18.v"])
    rng = np.random.default_rng(ctx.seed)
    exh = 16 if ctx.thorough else 10
    lro = []
    for L in range(1, exh + 1):
        lro.append(dict(data=[list(t) for t in itertools.product((0, 1), repeat=L)], exhaustive=True))
    # structured long series: runs longer than 255, at the edges and inside
    structured = []
    for run_len in (2, 3, 127, 128, 254, 255, 256, 257, 300, 511, 512, 513, 1000):
        for pre, post in ((0, 0), (1, 0), (0, 1), (5, 7), (300, 2)):
            structured.append([0] * pre + [1] * run_len + [0] * post)
            structured.append([1, 0] * (pre // 2) + [0] + [1] * run_len + [0, 1, 1, 0] * (post // 2))
    structured.append([1] * 255 + [0] + [1] * 256 + [0] + [1] * 254)
    structured.append([0, 1] * 400)
    # stretches of zeros whose length + 1 is a multiple of 256 (a position difference kept in 8 bits would read them as adjacency)
    for k in (1, 2, 3):
        structured.append([1] + [0] * (256 * k) + [1])
        structured.append([1] * 5 + [0] * (256 * k) + [1] * 7 + [0] * 3)
        structured.append([0] * 4 + [1] * 3 + [0] * (256 * k - 1) + [1] * 2)     # one short of the multiple: control
    for s in structured:
        lro.append(dict(data=[s], exhaustive=False))
    for _ in range(300 if ctx.thorough else 60):
        L = int(rng.integers(2, 1000))
        p = float(rng.choice([0.5, 0.9, 0.99, 0.999]))
        vals = (rng.random(L) < p).astype(int)
        if rng.random() < 0.2:   # non-binary junk must not count as ones
            vals = np.where(rng.random(L) < 0.05, rng.integers(2, 255, size=L), vals)
        lro.append(dict(data=[[int(v) for v in vals]], exhaustive=False))
    lacc = []
    for k in range(6 if ctx.thorough else 3):
        T = int(rng.choice([5, 40, 300, 700]))
        cube = (rng.random((2, 3, T)) < 0.95).astype(int)
        if k % 2:
            lacc.append(dict(data=np.moveaxis(cube, 2, 0).tolist(), dims=["time", "y", "x"], cube=cube.tolist()))
        else:
            lacc.append(dict(data=cube.tolist(), dims=["y", "x", "time"], cube=cube.tolist()))
    # croo: all binary series x all stored time orders (small), random longer with shuffled/irregular stamps
    cro = []
    pl = 6 if ctx.thorough else 5
    for L in range(1, pl + 1):
        allv = [list(t) for t in itertools.product((0, 1), repeat=L)]
        for perm in itertools.permutations(range(L)):
            cro.append(dict(times=[int(p) * 3 + 1 for p in perm], vals=allv, exhaustive=True,
                            layout="tyx" if sum(perm[:2]) % 2 else "yxt"))
    for _ in range(150 if ctx.thorough else 40):
        L = int(rng.integers(2, 400))
        times = rng.choice(np.arange(0, 5 * L), size=L, replace=False)
        if rng.random() < 0.3:
            times = np.sort(times)
        rows = []
        for _r in range(6):
            v = (rng.random(L) < rng.choice([0.5, 0.9, 0.99])).astype(int)
            if rng.random() < 0.5:
                v[np.argsort(times)[-int(rng.integers(1, L + 1)):]] = 1      # long current run
            rows.append([int(x) for x in v])
        cro.append(dict(times=[int(t) for t in times], vals=rows, exhaustive=False,
                        dtype=str(rng.choice(["int64", "uint8", "int16", "float32"])),
                        layout=str(rng.choice(["yxt", "tyx"]))))
    payload = dict(lroo=[dict(data=b["data"]) for b in lro], lroo_acc=[dict(data=b["data"], dims=b["dims"]) for b in lacc],
                   croo=[{k: b[k] for k in b if k != "exhaustive"} for b in cro])
    res, log = core.run_impl("c18_impl.py", payload)
    if res is None:
        ctx.violation("implementation run failed", dict(kind="impl-crash", log=log[-3000:]), found_input=False)
        return
    spec_fail, lcases, lmeta, ccases, cmeta = [], [], [], [], []
    n_exh = 0
    maxrun = 0
    for b, r in zip(lro, res["lroo"]):
        for d, o in zip(b["data"], r["out"]):
            m = dict(kind="lroo", data=d if len(d) <= 40 else None, rle=rle(d), out=o)
            why = spec_lroo(d, o)
            if why:
                spec_fail.append((m, why))
            maxrun = max(maxrun, longest(d))
            n_exh += 1 if b["exhaustive"] else 0
            lcases.append("LC %s %s" % (zlist(d), zlit(o)))
            lmeta.append(m)
    for b, r in zip(lacc, res["lroo_acc"]):
        cube = np.array(b["cube"])
        o = np.array(r["out"])
        if r["dims"] != ["y", "x"] or o.shape != cube.shape[:2]:
            spec_fail.append((dict(kind="lroo_accessor", dims=r["dims"]), "result dims/shape"))
            continue
        for yy in range(cube.shape[0]):
            for xx in range(cube.shape[1]):
                d = [int(v) for v in cube[yy, xx]]
                m = dict(kind="lroo_accessor", rle=rle(d), out=int(o[yy, xx]), layout=b["dims"])
                why = spec_lroo(d, int(o[yy, xx]))
                if why:
                    spec_fail.append((m, why))
                lcases.append("LC %s %s" % (zlist(d), zlit(int(o[yy, xx]))))
                lmeta.append(m)
    nperm = 0
    for b, r in zip(cro, res["croo"]):
        for v, o in zip(b["vals"], r["out"]):
            m = dict(kind="croo", times=b["times"] if len(v) <= 40 else None, vals=v if len(v) <= 40 else None,
                     n=len(v), out=o, layout=b["layout"])
            why = spec_croo(b["times"], v, o)
            if why:
                spec_fail.append((dict(m, times=b["times"], vals=v), why))
            # croo <= max(lroo, 1) on the chronological arrangement
            order = sorted(range(len(v)), key=lambda i: b["times"][i])
            L = longest([v[i] for i in order])
            if o > max(L if L >= 2 else 0, 1):
                spec_fail.append((dict(m, times=b["times"], vals=v), "croo %d > max(lroo, 1)" % o))
            n_exh += 1 if b["exhaustive"] else 0
            nperm += 1 if b["times"] != sorted(b["times"]) else 0
            ccases.append("CC %s %s %s" % (zlist(b["times"]), zlist(v), zlit(o)))
            cmeta.append(m)
    r1 = core.eval_cases("C18", "lroo", PRE, lcases, "check_lroo", shard=600)
    r2 = core.eval_cases("C18", "croo", PRE, ccases, "check_croo", shard=1500)
    total = len(lcases) + len(ccases)
    ctx.cov["evaluations"] = total
    ctx.cov["distinct_nontrivial"] = len(set(lcases)) + len(set(ccases))
    ctx.cov["exhaustive"] = True
    ctx.cov["rule"] = ("all binary series up to length %d (lroo kernel), all binary series up to length %d x all stored "
                       "time orders (croo accessor), structured series with runs of 2..1000 at the edges/inside, random "
                       "series to length 1000, accessor cubes in both layouts; distinct (series, order) pairs are counted"
                       % (exh, pl))
    ctx.notes.update(exhaustive_cases=n_exh, longest_run_seen=maxrun, croo_unsorted_time_cases=nperm,
                     model_vs_impl_mismatches=len(r1["failing"]) + len(r2["failing"]), spec_failures=len(spec_fail))
    ctx.add_samples([lmeta[5], lmeta[-1], cmeta[10], cmeta[-1]])
    ctx.assumptions += ["time stamps are pairwise distinct (croo); lroo input is uint8 as the kernel's signature requires",
                        "xarray sortby/where/cumsum/argmax are modelled by their documented behaviour and compared on every case"]
    for r, tag in ((r1, "lroo"), (r2, "croo")):
        for si, lg in r["errors"]:
            ctx.violation("Coq could not evaluate the %s cases" % tag, dict(kind="coq-eval-error", log=lg), found_input=False)
    if spec_fail:
        spec_fail.sort(key=lambda t: len(str(t[0])))
        m, why = spec_fail[0]
        ctx.violation(why, dict(kind="spec", case=m, n_failing=len(spec_fail)))
    else:
        bad = [lmeta[i] for i in r1["failing"]] + [cmeta[i] for i in r2["failing"]]
        if bad:
            bad.sort(key=lambda m: len(str(m)))
            ctx.violation("model and implementation disagree (Corr/C18.v); the property's spec holds on all explored inputs",
                          dict(kind="correspondence", correspondence="Corr/C18.v", case=bad[0], n_disagree=len(bad)),
                          found_input=False)


def rle(d):
    out, prev, n = [], None, 0
    for v in d:
        if v == prev:
            n += 1
        else:
            if prev is not None:
                out.append([prev, n])
            prev, n = v, 1
    if prev is not None:
        out.append([prev, n])
    return out[:60]


def replay(ctx, path):
    import json
    rp = json.load(open(path))
    c = rp.get("case", {})
    if c.get("kind") == "lroo":
        d = c.get("data") or [v for v, n in c["rle"] for _ in range(n)]
        res, log = core.run_impl("c18_impl.py", dict(lroo=[dict(data=[d])]))
        o = res["lroo"][0]["out"][0]
        why = spec_lroo(d, o)
        print("replay lroo ->", o, "|", why or "property holds")
        return 1 if why else 0
    if c.get("kind") == "croo" and c.get("vals"):
        res, log = core.run_impl("c18_impl.py", dict(croo=[dict(times=c["times"], vals=[c["vals"]], layout=c.get("layout", "yxt"))]))
        o = res["croo"][0]["out"][0]
        why = spec_croo(c["times"], c["vals"], o)
        print("replay croo ->", o, "|", why or "property holds")
        return 1 if why else 0
    print("re-run ./check C18")
    return 2
