"""C10 — Mann-Kendall trend follows its definition and symmetries."""
import itertools
import math
from collections import Counter
from fractions import Fraction

import numpy as np

from vlib import core
from vlib.core import zlist, zlit, flit

PRE = "From HDC Require Import Base.Prelude Base.Float Model.MK Corr.C10.\nFrom Coq Require Import PrimFloat.\n"


def f32(v):
    return float(np.float32(v))


def ulp32(v):
    return float(np.spacing(np.float32(abs(v)))) if v == v else 0.0


def mk_ref(x):
    """The textbook definition in exact arithmetic (x: list of Fractions / ints)."""
    n = len(x)
    s = sum((x[j] > x[i]) - (x[j] < x[i]) for i in range(n) for j in range(i + 1, n))
    tau = Fraction(s, n * (n - 1) // 2) if n > 1 else None
    var = Fraction(n * (n - 1) * (2 * n + 5) - sum(t * (t - 1) * (2 * t + 5) for t in Counter(x).values()), 18)
    if s == 0 or var == 0:
        z = 0.0
    else:
        z = (s - 1 if s > 0 else s + 1) / math.sqrt(var)
    p = math.erfc(abs(z) / math.sqrt(2))               # = 2 (1 - Phi(|z|))
    d = sorted(Fraction(x[j] - x[i], j - i) for i in range(n) for j in range(i + 1, n))
    m = len(d)
    slope = d[m // 2] if m % 2 else (d[m // 2 - 1] + d[m // 2]) / 2
    return dict(s=s, tau=tau, var=var, z=z, p=p, slope=slope)


def spec_mk(x, tau, p, slope, trend):
    r = mk_ref(x)
    if abs(tau - float(r["tau"])) > ulp32(float(r["tau"])):
        return "tau=%r, S/(n(n-1)/2)=%s" % (tau, r["tau"])
    if abs(p - r["p"]) > 3e-7 + 2e-7 * r["p"]:
        return "p=%r, two-sided normal p of the continuity/tie corrected Z is %r" % (p, r["p"])
    if abs(slope - float(r["slope"])) > ulp32(float(r["slope"])) + 1e-30:
        return "slope=%r, median of pairwise slopes is %s" % (slope, r["slope"])
    if abs(r["p"] - 0.05) > 1e-7:
        want = 0 if r["p"] >= 0.05 else (1 if r["z"] > 0 else -1)
        if trend != want:
            return "trend=%d, expected %d (Z=%.6g, p=%.6g)" % (trend, want, r["z"], r["p"])
    return None


def series_with(n, g, S):
    """n values, the g smallest equal, the others distinct, with Mann-Kendall score S (None when impossible)"""
    m = n - g
    smax = n * (n - 1) // 2 - g * (g - 1) // 2
    if abs(S) > smax or (smax - abs(S)) % 2:
        return None
    k = (smax - abs(S)) // 2                       # inversions to introduce into the ascending arrangement
    d = {}
    for v in range(m, 0, -1):
        d[v] = min(k, g + v - 1)
        k -= d[v]
    if k:
        return None
    out = [0] * g
    for v in range(1, m + 1):                      # inserting v with d smaller elements to its right creates d inversions
        out.insert(len(out) - d[v], v)
    return out if S >= 0 else [-v for v in out]


def boundary_series(limit):
    crit = 1.959963984540054
    found = []
    for n in range(8, 200):
        for g in (1, 2, 3, 8, 12, 14):
            if g >= n - 2:
                continue
            var = (n * (n - 1) * (2 * n + 5) - (g * (g - 1) * (2 * g + 5) if g > 1 else 0)) / 18.0
            s0 = int(crit * math.sqrt(var) + 1)
            for S in range(max(1, s0 - 2), s0 + 3):
                z = (S - 1) / math.sqrt(var)
                if abs(z - crit) < 1e-4:
                    found.append((abs(z - crit), n, g, S))
    found.sort()
    rows = []
    for _, n, g, S in found:
        a = series_with(n, g if g > 1 else 0, S)
        if a is not None:
            rows.append([a, [-v for v in a], a[::-1]])
        if len(rows) >= limit:
            break
    return rows


def rank_patterns(n):
    for seq in itertools.product(range(n), repeat=n):
        k = max(seq) + 1
        if len(set(seq)) == k:
            yield list(seq)


def run(ctx):
    ctx.proofs(["Props/C10.v"])
    rng = np.random.default_rng(ctx.seed)
    maxn = 7 if ctx.thorough else 5
    gu = []
    for n in range(2, maxn + 1):
        pats = list(rank_patterns(n))
        gu.append(dict(x=pats, q=pats, dtype="int16", scale=1.0, nodata=None, exhaustive=True))
        if n <= 5:
            gu.append(dict(x=[[v * 0.25 - 1.5 for v in p] for p in pats], q=[[v - 6 for v in p] for p in pats],
                           dtype="float32", scale=0.25, nodata=None, exhaustive=True))
    for _ in range(240 if ctx.thorough else 60):
        n = int(rng.integers(2, 201 if ctx.thorough else 90))
        rows_q = []
        for _r in range(3):
            kind = rng.random()
            if kind < 0.3:
                q = rng.integers(-3, 4, size=n)                   # heavy ties
            elif kind < 0.6:
                q = rng.integers(-2000, 2000, size=n)
            elif kind < 0.8:
                q = np.cumsum(rng.integers(-2, 4, size=n))         # trending
            else:
                q = np.minimum(rng.integers(0, 50, size=n), 30)    # saturated at the maximum
            rows_q.append([int(v) for v in q])
        if rng.random() < 0.5:
            gu.append(dict(x=rows_q, q=rows_q, dtype="int16", scale=1.0, nodata=None, exhaustive=False))
        else:
            gu.append(dict(x=[[v * 0.125 for v in row] for row in rows_q], q=rows_q, dtype="float32", scale=0.125,
                           nodata=None, exhaustive=False))
    # the full int16 range: differences of two samples exceed 32767 (int16 arithmetic on the samples would wrap)
    for _ in range(24 if ctx.thorough else 8):
        n = int(rng.integers(3, 60))
        rows_q = []
        for _r in range(3):
            kind = rng.random()
            if kind < 0.4:
                q = rng.integers(-32000, 32001, size=n)
            elif kind < 0.7:
                q = np.linspace(-31000, 31000, n).round() + rng.integers(-500, 500, size=n)
            else:
                q = rng.choice([-32768, -30000, 0, 30000, 32767], size=n)
            rows_q.append([int(v) for v in np.clip(q, -32768, 32767)])
        gu.append(dict(x=rows_q, q=rows_q, dtype="int16", scale=1.0, nodata=None, exhaustive=False))
    # series constructed to sit next to the significance threshold: Z is fixed by (n, tie structure, S); for every n and a few tie-group
    # sizes the S whose |Z| is closest to the critical value from either side is taken, the configurations within 1e-4 of it are built
    # (ascending insertion with a prescribed number of inversions) and run with their negations
    for rows_q in boundary_series(96 if ctx.thorough else 36):
        gu.append(dict(x=rows_q, q=rows_q, dtype="int16", scale=1.0, nodata=None, exhaustive=False))
        gu.append(dict(x=[[v * 0.5 for v in row] for row in rows_q], q=rows_q, dtype="float32", scale=0.5, nodata=None, exhaustive=False))
    # nodata wrapper: mixed pixels and all-nodata pixels, several nodata values incl. 0
    for nd in (-9999, 0, 255, -1):
        n = int(rng.integers(3, 30))
        rows = [[int(v) for v in rng.integers(-5, 40, size=n)] for _ in range(3)] + [[nd] * n]
        gu.append(dict(x=rows, q=rows, dtype="int16", scale=1.0, nodata=nd, exhaustive=False))
        gu.append(dict(x=[[float(v) for v in r] for r in rows], q=rows, dtype="float32", scale=1.0, nodata=nd, exhaustive=False))
    score = [dict(x=[int(v) for v in rng.integers(-4, 5, size=int(rng.integers(2, 60)))], dtype="int16") for _ in range(40)]
    acc = []
    for k, nd in enumerate([None, -9999, 0, 255, 0.0, -1]):
        T = int(rng.integers(4, 25))
        cube = rng.integers(-3, 30, size=(2, 3, T))
        if nd is not None:
            cube[0, 0, :] = nd
            cube[1, 2, :] = nd
        b = dict(x=cube.tolist(), dtype=["int16", "float32"][k % 2], nodata=nd, cube=cube.tolist())
        if k % 3 == 2:
            b["x"] = np.moveaxis(cube, 2, 0).tolist()
            b["dims"] = ["time", "y", "x"]
        acc.append(b)
    # metamorphic pairs on the implementation: strictly increasing maps, negation, reversal
    meta = []
    for _ in range(60 if ctx.thorough else 25):
        n = int(rng.integers(3, 40))
        x = [int(v) for v in rng.integers(-12, 13, size=n)]
        ranks = {v: i for i, v in enumerate(sorted(set(x)))}
        meta.append(dict(base=x, maps=dict(affine=[3 * v + 5 for v in x], cube=[v ** 3 for v in x],
                                           rank=[ranks[v] for v in x], neg=[-v for v in x], rev=x[::-1])))
    for mm in meta:
        gu.append(dict(x=[mm["base"]] + list(mm["maps"].values()), q=None, dtype="int16", scale=1.0, nodata=None,
                       exhaustive=False, meta=True))
    payload = dict(gu=[dict(x=b["x"], dtype=b["dtype"], nodata=b["nodata"]) for b in gu], score=score,
                   acc=[{k: v for k, v in b.items() if k != "cube"} for b in acc])
    res, log = core.run_impl("c10_impl.py", payload, timeout=2400)
    if res is None:
        ctx.violation("implementation run failed", dict(kind="impl-crash", log=log[-3000:]), found_input=False)
        return
    thr = res["thr"]
    spec_fail, cases, metas = [], [], []
    dist = dict(series=0, exhaustive=0, with_ties=0, all_nodata=0, int16=0, float32=0, max_len=0, metamorphic=0, accessor_pixels=0)
    for b, r in zip(gu, res["gu"]):
        if r["dtypes"] != ["float32", "float32", "float32", "int8"]:
            spec_fail.append((dict(kind="dtypes", got=r["dtypes"]), "output dtypes %s" % r["dtypes"]))
        if b.get("meta"):
            names = ["base"] + ["affine", "cube", "rank", "neg", "rev"]
            o = {nm: (r["tau"][i], r["p"][i], r["slope"][i], r["trend"][i]) for i, nm in enumerate(names)}
            m = dict(kind="metamorphic", x=b["x"][0], outputs=o)
            dist["metamorphic"] += 1
            for nm in ("affine", "cube", "rank"):
                if (o[nm][0], o[nm][1], o[nm][3]) != (o["base"][0], o["base"][1], o["base"][3]):
                    spec_fail.append((m, "tau/p/flag change under the strictly increasing map '%s'" % nm))
            for nm in ("neg", "rev"):
                if (o[nm][0], o[nm][1], o[nm][3], o[nm][2]) != (-o["base"][0], o["base"][1], -o["base"][3], -o["base"][2]):
                    spec_fail.append((m, "tau/flag/slope do not flip sign (p unchanged) under '%s'" % nm))
            if abs(o["affine"][2] - 3 * o["base"][2]) > 2 * ulp32(3 * o["base"][2]):
                spec_fail.append((m, "slope(3x+5) = %r, 3*slope(x) = %r" % (o["affine"][2], 3 * o["base"][2])))
            continue
        for i, xrow in enumerate(b["x"]):
            tau, p, slope, trend = r["tau"][i], r["p"][i], r["slope"][i], r["trend"][i]
            q = b["q"][i]
            m = dict(kind="mk_gufunc", x=xrow if len(xrow) <= 40 else None, n=len(xrow), dtype=b["dtype"], nodata=b["nodata"],
                     out=[tau, p, slope, trend])
            dist["series"] += 1
            dist["exhaustive"] += 1 if b["exhaustive"] else 0
            dist["with_ties"] += 1 if len(set(q)) < len(q) else 0
            dist[b["dtype"]] += 1
            dist["max_len"] = max(dist["max_len"], len(q))
            alln = b["nodata"] is not None and all(v == b["nodata"] for v in xrow)
            if alln:
                dist["all_nodata"] += 1
                if (tau, p, slope, trend) != (f32(b["nodata"]),) * 3 + (-2,):
                    spec_fail.append((dict(m, x=xrow), "all-nodata pixel gives %s" % ((tau, p, slope, trend),)))
            else:
                why = spec_mk([Fraction(v) for v in xrow], tau, p, slope, trend)
                if why:
                    spec_fail.append((dict(m, x=xrow), why))
            ea, ev = r["erf"][i]
            ndl = "None" if b["nodata"] is None else "(Some (%s, %s))" % (zlit(int(b["nodata"])), flit(float(b["nodata"])))
            cases.append("MC %s %s %s %s %s %s %s %s %s %s" % (zlist(q), flit(b["scale"]), ndl, flit(ea), flit(ev), flit(thr),
                                                            flit(tau), flit(p), flit(slope), zlit(trend)))
            metas.append(m)
    scases, smeta = [], []
    for b, r in zip(score, res["score"]):
        ref = mk_ref(b["x"])
        m = dict(kind="mk_score/mk_variance_s", x=b["x"], s=r["s"], var=r["var"])
        if r["s"] != ref["s"] or abs(r["var"] - float(ref["var"])) > 1e-9 * max(1, float(ref["var"])):
            spec_fail.append((m, "S=%s var=%s, definition gives S=%s var=%s" % (r["s"], r["var"], ref["s"], ref["var"])))
        scases.append("SC %s %s %s" % (zlist(b["x"]), zlit(r["s"]), flit(r["var"])))
        smeta.append(m)
    for b, r in zip(acc, res["acc"]):
        cube = np.array(b["cube"])
        if r["dims"] != ["y", "x"] or r["dtypes"] != ["float32", "float32", "float32", "int8"] or r["trend_nodata"] != -2:
            spec_fail.append((dict(kind="mktrend", dims=r["dims"], dtypes=r["dtypes"]), "accessor dims/dtypes/attrs"))
            continue
        for yy in range(cube.shape[0]):
            for xi in range(cube.shape[1]):
                xrow = [int(v) for v in cube[yy, xi]]
                tau, p, slope, trend = r["tau"][yy][xi], r["p"][yy][xi], r["slope"][yy][xi], r["trend"][yy][xi]
                m = dict(kind="mktrend accessor", x=xrow, nodata=b["nodata"], dtype=b["dtype"], out=[tau, p, slope, trend])
                dist["accessor_pixels"] += 1
                if b["nodata"] is not None and all(v == b["nodata"] for v in xrow):
                    if (tau, p, slope, trend) != (f32(b["nodata"]),) * 3 + (-2,):
                        spec_fail.append((m, "all-nodata pixel gives %s through the accessor" % ((tau, p, slope, trend),)))
                else:
                    why = spec_mk([Fraction(v) for v in xrow], tau, p, slope, trend)
                    if why:
                        spec_fail.append((m, why))
    r1 = core.eval_cases("C10", "mk", PRE, cases, "check_mk", shard=400)
    r2 = core.eval_cases("C10", "score", PRE, scases, "check_score", shard=400)
    ctx.cov["evaluations"] = len(cases) + len(scases) + dist["metamorphic"] * 6 + dist["accessor_pixels"]
    ctx.cov["distinct_nontrivial"] = len(set(cases)) + len(set(scases))
    ctx.cov["exhaustive"] = True
    ctx.cov["rule"] = ("all rank patterns (weak orderings) of length 2..%d over int16 (and float32 to length 5), random series to "
                       "length %d over int16/float32 with heavy ties, trends and saturation, nodata wrapper incl. all-nodata pixels, "
                       "accessor cubes with nodata in {None,-9999,0,255,0.0,-1}, metamorphic pairs (affine, cube, rank, negation, "
                       "reversal) on the implementation; distinct series counted" % (maxn, 200 if ctx.thorough else 89))
    ctx.notes.update(input_distribution=dist, spec_failures=len(spec_fail),
                     model_vs_impl_mismatches=len(r1["failing"]) + len(r2["failing"]), ndtri_0975=thr)
    ctx.add_samples([metas[3], metas[len(metas) // 2], metas[-1], smeta[0]])
    ctx.assumptions += ["erf is libm's (recorded per series: the model must call it with the bit-identical argument); "
                        "ndtri(0.975) is taken from scipy at run time",
                        "float32 inputs lie on a dyadic grid so that differences are exact in binary32"]
    for r, tag in ((r1, "gufunc"), (r2, "score")):
        for si, lg in r["errors"]:
            ctx.violation("Coq could not evaluate the %s cases" % tag, dict(kind="coq-eval-error", log=lg), found_input=False)
    if spec_fail:
        spec_fail.sort(key=lambda t: len(str(t[0])))
        m, why = spec_fail[0]
        ctx.violation(why, dict(kind="spec", case=m, n_failing=len(spec_fail)))
    else:
        bad = [metas[i] for i in r1["failing"]] + [smeta[i] for i in r2["failing"]]
        if bad:
            bad.sort(key=lambda m: len(str(m)))
            ctx.violation("model and implementation disagree (Corr/C10.v); the property's spec holds on all explored inputs",
                          dict(kind="correspondence", correspondence="Corr/C10.v check_mk/check_score", case=bad[0],
                               n_disagree=len(bad)), found_input=False)


def replay(ctx, path):
    import json
    rp = json.load(open(path))
    c = rp.get("case", {})
    if c.get("kind") == "mk_gufunc" and c.get("x"):
        res, log = core.run_impl("c10_impl.py", dict(gu=[dict(x=[c["x"]], dtype=c["dtype"], nodata=c["nodata"])]))
        r = res["gu"][0]
        o = (r["tau"][0], r["p"][0], r["slope"][0], r["trend"][0])
        why = spec_mk([Fraction(v) for v in c["x"]], *o)
        print("replay:", c["x"], "->", o, "|", why or "property holds")
        return 1 if why else 0
    print(json.dumps(c)[:2000])
    return 2
