(** Laws of the Whittaker solution that follow from its variational characterisation (C01), not
    from the elimination order: affine series are fixed points (gaps included), adding a constant
    and reversing time commute with the solver (property C06). *)
From Coq Require Import ZArith Reals Lra Lia Bool List.
From HDC Require Import Base.Prelude Base.ListLemmas Base.Ops Model.Ws2d Proofs.Ws2dIndex Proofs.RSums Proofs.Penalty
     Proofs.Ws2dReal.
Open Scope R_scope.

Lemma vecZ_in (l : list R) i : (0 <= i < Z.of_nat (length l))%Z -> vecZ OpsR l i = nth (Z.to_nat i) l 0.
Proof. intros H. unfold vecZ. replace (i <? 0)%Z with false by (symmetry; apply Z.ltb_ge; lia). reflexivity. Qed.

Lemma Sobj_nonneg n W Y lam z : (forall i, (0 <= i < Z.of_nat n)%Z -> 0 <= W i) -> 0 < lam -> 0 <= Sobj n W Y lam z.
Proof.
  intros HW Hl. unfold Sobj.
  assert (0 <= sumn (fun i => W i * (Y i - z i) ^ 2) n) by (apply sumn_nonneg; intros i Hi; apply Rmult_le_pos; [exact (HW i Hi)|apply pow2_ge_0]).
  assert (0 <= sumn (fun j => D2 z j ^ 2) (n - 2)) by (apply sumn_nonneg; intros; apply pow2_ge_0).
  apply Rplus_le_le_0_compat; [assumption|apply Rmult_le_pos; lra].
Qed.

Section Laws.
  Variables y w : list R.
  Variable lam : R.
  Hypothesis Hlen : length w = length y.
  Hypothesis Hn : (4 <= length y)%nat.
  Hypothesis W_nonneg : forall i, (0 <= i < Z.of_nat (length y))%Z -> 0 <= Wk w i.
  Hypothesis lam_pos : 0 < lam.
  Hypothesis two_weights : exists p q, (0 <= p < q)%Z /\ (q < Z.of_nat (length y))%Z /\ 0 < Wk w p /\ 0 < Wk w q.
  Notation N := (Z.of_nat (length y)).

  (** a curve that achieves the minimum is the computed one *)
  Lemma minimiser_is_result (u : Z -> R) :
    (forall v : Z -> R, Sobj (length y) (Wk w) (Yk y) lam u <= Sobj (length y) (Wk w) (Yk y) lam v) ->
    forall i, (0 <= i < N)%Z -> u i = Zk y w lam i.
  Proof.
    intros Hmin i Hi. destruct (minimises y w lam Hlen Hn W_nonneg lam_pos two_weights u) as [Hle Huniq].
    apply Huniq; [|exact Hi]. pose proof (Hmin (Zk y w lam)). lra.
  Qed.

  (** a series that is affine on its weighted cells comes back as that line on ALL cells *)
  Theorem affine_fixed a b :
    (forall i, (0 <= i < N)%Z -> 0 < Wk w i -> Yk y i = a + b * IZR i) ->
    forall i, (0 <= i < N)%Z -> Zk y w lam i = a + b * IZR i.
  Proof.
    intros Haff i Hi. symmetry. apply (minimiser_is_result (fun k => a + b * IZR k)); [|exact Hi].
    intros v. assert (Sobj (length y) (Wk w) (Yk y) lam (fun k => a + b * IZR k) = 0) as ->.
    { unfold Sobj. rewrite (sumn_all_zero (fun k => Wk w k * (Yk y k - (a + b * IZR k)) ^ 2)).
      - rewrite (sumn_all_zero (fun j => D2 (fun k => a + b * IZR k) j ^ 2)); [ring|].
        intros j _. unfold D2. rewrite !plus_IZR. ring.
      - intros k Hk. destruct (Rle_lt_or_eq_dec 0 (Wk w k) (W_nonneg k Hk)) as [P|E]; [rewrite (Haff k Hk P); ring|rewrite <- E; ring]. }
    apply Sobj_nonneg; assumption.
  Qed.
End Laws.

(** ** adding a constant *)
Lemma Yk_shift (y : list R) c i :
  (0 <= i < Z.of_nat (length y))%Z -> Yk (map (fun v => v + c) y) i = Yk y i + c.
Proof.
  intros Hi. unfold Yk. rewrite !vecZ_in by (rewrite ?map_length; exact Hi).
  rewrite (nth_indep _ 0 (0 + c)) by (rewrite map_length; lia). apply (map_nth (fun v => v + c)).
Qed.

Theorem ws2d_shift (y w : list R) lam c :
  length w = length y -> (4 <= length y)%nat ->
  (forall i, (0 <= i < Z.of_nat (length y))%Z -> 0 <= Wk w i) -> 0 < lam ->
  (exists p q, (0 <= p < q)%Z /\ (q < Z.of_nat (length y))%Z /\ 0 < Wk w p /\ 0 < Wk w q) ->
  forall i, (0 <= i < Z.of_nat (length y))%Z -> Zk (map (fun v => v + c) y) w lam i = Zk y w lam i + c.
Proof.
  intros Hl Hn HW Hlam H2 i Hi. set (y' := map (fun v => v + c) y).
  assert (length y' = length y) as Ly' by (unfold y'; apply map_length).
  assert (length w = length y') as Hl' by (rewrite Ly'; exact Hl).
  assert (4 <= length y')%nat as Hn' by (rewrite Ly'; exact Hn).
  assert (forall k, (0 <= k < Z.of_nat (length y'))%Z -> 0 <= Wk w k) as HW' by (rewrite Ly'; exact HW).
  assert (exists p q, (0 <= p < q)%Z /\ (q < Z.of_nat (length y'))%Z /\ 0 < Wk w p /\ 0 < Wk w q) as H2' by (rewrite Ly'; exact H2).
  symmetry. apply (minimiser_is_result y' w lam Hl' Hn' HW' Hlam H2' (fun k => Zk y w lam k + c)); [|rewrite Ly'; exact Hi].
  intros v.
  assert (forall u, Sobj (length y') (Wk w) (Yk y') lam u = Sobj (length y) (Wk w) (Yk y) lam (fun k => u k - c)) as Tr.
  { intros u. unfold Sobj. rewrite Ly'. f_equal.
    - apply sumn_ext. intros k Hk. unfold y'. rewrite Yk_shift by exact Hk. ring.
    - f_equal. apply sumn_ext. intros k _. unfold D2. ring. }
  rewrite !Tr. destruct (minimises y w lam Hl Hn HW Hlam H2 (fun k => v k - c)) as [Hle _].
  assert (Sobj (length y) (Wk w) (Yk y) lam (fun k => Zk y w lam k + c - c) = Sobj (length y) (Wk w) (Yk y) lam (Zk y w lam)) as ->.
  { unfold Sobj. f_equal; [apply sumn_ext; intros; f_equal; f_equal; ring|]. f_equal. apply sumn_ext. intros. unfold D2. f_equal. ring. }
  exact Hle.
Qed.

(** ** reversing time *)
Lemma sumn_rev f n : sumn (fun i => f (Z.of_nat n - 1 - i)%Z) n = sumn f n.
Proof.
  revert f; induction n as [|n IH]; intros f; [reflexivity|].
  rewrite (sumn_head f n). cbn [sumn]. rewrite <- (IH (fun i => f (i + 1)%Z)).
  replace (Z.of_nat (S n) - 1 - Z.of_nat n)%Z with 0%Z by lia.
  rewrite (sumn_ext (fun i => f (Z.of_nat (S n) - 1 - i)%Z) (fun i => f (Z.of_nat n - 1 - i + 1)%Z) n); [ring|].
  intros i _. f_equal. lia.
Qed.

Lemma vecZ_rev (l : list R) i :
  (0 <= i < Z.of_nat (length l))%Z -> vecZ OpsR (rev l) i = vecZ OpsR l (Z.of_nat (length l) - 1 - i).
Proof.
  intros Hi. rewrite !vecZ_in by (rewrite ?rev_length; lia). rewrite rev_nth by lia. f_equal. lia.
Qed.

Theorem ws2d_rev (y w : list R) lam :
  length w = length y -> (4 <= length y)%nat ->
  (forall i, (0 <= i < Z.of_nat (length y))%Z -> 0 <= Wk w i) -> 0 < lam ->
  (exists p q, (0 <= p < q)%Z /\ (q < Z.of_nat (length y))%Z /\ 0 < Wk w p /\ 0 < Wk w q) ->
  forall i, (0 <= i < Z.of_nat (length y))%Z ->
    Zk (rev y) (rev w) lam i = Zk y w lam (Z.of_nat (length y) - 1 - i).
Proof.
  intros Hl Hn HW Hlam (p & q & Hpq & Hq & Wp & Wq) i Hi.
  set (n := length y) in *. set (NN := Z.of_nat n) in *.
  assert (length (rev y) = n) as Ly by apply rev_length.
  assert (length (rev w) = length (rev y)) as Hl' by (rewrite !rev_length; exact Hl).
  assert (forall k, (0 <= k < NN)%Z -> Wk (rev w) k = Wk w (NN - 1 - k)) as Wr.
  { intros k Hk. unfold Wk. rewrite vecZ_rev by (rewrite Hl; exact Hk). rewrite Hl. reflexivity. }
  assert (forall k, (0 <= k < NN)%Z -> Yk (rev y) k = Yk y (NN - 1 - k)) as Yr.
  { intros k Hk. unfold Yk. now rewrite vecZ_rev. }
  assert (forall k, (0 <= k < Z.of_nat (length (rev y)))%Z -> 0 <= Wk (rev w) k) as HW'.
  { intros k Hk. rewrite Ly in Hk. rewrite Wr by exact Hk. apply HW. lia. }
  assert (exists p' q', (0 <= p' < q')%Z /\ (q' < Z.of_nat (length (rev y)))%Z /\ 0 < Wk (rev w) p' /\ 0 < Wk (rev w) q') as H2'.
  { exists (NN - 1 - q)%Z, (NN - 1 - p)%Z. rewrite Ly. repeat split; try lia.
    - rewrite Wr by lia. replace (NN - 1 - (NN - 1 - q))%Z with q by lia. exact Wq.
    - rewrite Wr by lia. replace (NN - 1 - (NN - 1 - p))%Z with p by lia. exact Wp. }
  assert (4 <= length (rev y))%nat as Hn' by (rewrite Ly; exact Hn).
  symmetry. apply (minimiser_is_result (rev y) (rev w) lam Hl' Hn' HW' Hlam H2' (fun k => Zk y w lam (NN - 1 - k)%Z)); [|rewrite Ly; exact Hi].
  intros v.
  (* the objective of the reversed problem at a reversed curve is the objective of the original problem *)
  assert (forall u, Sobj (length (rev y)) (Wk (rev w)) (Yk (rev y)) lam (fun k => u (NN - 1 - k)%Z) = Sobj n (Wk w) (Yk y) lam u) as Tr.
  { intros u. unfold Sobj. rewrite Ly. f_equal.
    - rewrite <- (sumn_rev (fun k => Wk w k * (Yk y k - u k) ^ 2) n). apply sumn_ext. intros k Hk.
      rewrite Wr, Yr by exact Hk. reflexivity.
    - f_equal. rewrite <- (sumn_rev (fun j => D2 u j ^ 2) (n - 2)). apply sumn_ext. intros j Hj. f_equal.
      unfold D2. replace (NN - 1 - j)%Z with (Z.of_nat (n - 2) - 1 - j + 2)%Z by lia.
      replace (NN - 1 - (j + 1))%Z with (Z.of_nat (n - 2) - 1 - j + 1)%Z by lia.
      replace (NN - 1 - (j + 2))%Z with (Z.of_nat (n - 2) - 1 - j)%Z by lia. ring. }
  rewrite (Tr (Zk y w lam)).
  replace (Sobj (length (rev y)) (Wk (rev w)) (Yk (rev y)) lam v)
    with (Sobj (length (rev y)) (Wk (rev w)) (Yk (rev y)) lam (fun k => (fun j => v (NN - 1 - j)%Z) (NN - 1 - k)%Z)).
  - rewrite (Tr (fun j => v (NN - 1 - j)%Z)).
    destruct (minimises y w lam Hl Hn HW Hlam (ex_intro _ p (ex_intro _ q (conj Hpq (conj Hq (conj Wp Wq))))) (fun j => v (NN - 1 - j)%Z)) as [Hle _].
    exact Hle.
  - unfold Sobj. f_equal; [apply sumn_ext; intros k _; cbn beta; replace (NN - 1 - (NN - 1 - k))%Z with k by lia; reflexivity|].
    f_equal. apply sumn_ext. intros j _. unfold D2. cbn beta.
    replace (NN - 1 - (NN - 1 - j))%Z with j by lia. replace (NN - 1 - (NN - 1 - (j + 1)))%Z with (j + 1)%Z by lia.
    replace (NN - 1 - (NN - 1 - (j + 2)))%Z with (j + 2)%Z by lia. reflexivity.
Qed.
