(** Model of [IterativeAggregation._iteragg] (hdc/algo/accessors.py): label lookup on a sorted
    unique axis ([Index.get_indexer] with method None / pad / backfill / nearest), [begin_ix],
    [end_ix], the descending loop with its two tests, and the NaN-skipping reductions.
    Executable definitions only. *)
From HDC Require Import Base.Prelude.
Open Scope Z_scope.

Inductive method := MNone | MPad | MBackfill | MNearest.

(** index of the last label <= v, or -1 (pad / ffill) *)
Fixpoint pad_ix (axis : list Z) (v : Z) (i acc : Z) : Z :=
  match axis with
  | [] => acc
  | a :: r => if a <=? v then pad_ix r v (i + 1) i else acc
  end.
(** index of the first label >= v, or -1 (backfill) *)
Fixpoint bfill_ix (axis : list Z) (v : Z) (i : Z) : Z :=
  match axis with
  | [] => -1
  | a :: r => if v <=? a then i else bfill_ix r v (i + 1)
  end.

Definition get_indexer (axis : list Z) (v : Z) (m : method) : Z :=
  let l := pad_ix axis v 0 (-1) in
  let r := bfill_ix axis v 0 in
  match m with
  | MNone => if l =? r then l else -1
  | MPad => l
  | MBackfill => r
  | MNearest =>
      if l =? -1 then r else if r =? -1 then l else
      let dl := v - nth (Z.to_nat l) axis 0 in
      let dr := nth (Z.to_nat r) axis 0 - v in
      if dl <? dr then l else r            (* monotonic increasing index: ties go right *)
  end.

Inductive outcome (A : Type) := Raise | Yield (x : A).
Arguments Raise {A}. Arguments Yield {A} x.

(** begin_ix / end_ix with the ValueError of the fix: commit *)
Definition begin_ix (axis : list Z) (begin : option Z) (m : method) : outcome Z :=
  match begin with
  | None => Yield (Z.of_nat (length axis))
  | Some b => let ix := get_indexer axis b m + 1 in if ix =? 0 then Raise else Yield ix
  end.
Definition end_ix (axis : list Z) (e : option Z) (m : method) : outcome Z :=
  match e with
  | None => Yield 0
  | Some v => let ix := get_indexer axis v m in if ix =? -1 then Raise else Yield ix
  end.

(** [for ii in range(begin_ix, 0, -1): jj = ii - n; if ii <= end_ix: break;
     if jj >= 0 and (ii - jj) == n: yield (jj, ii)]; fuel = begin_ix iterations *)
Fixpoint agg_loop (fuel : nat) (ii n eix : Z) : list (Z * Z) :=
  match fuel with
  | O => []
  | S f =>
      if ii <=? eix then []
      else
        let jj := ii - n in
        let rest := agg_loop f (ii - 1) n eix in
        if (jj >=? 0) && (ii - jj =? n) then (jj, ii) :: rest else rest
  end.

Definition windows (axis : list Z) (n : Z) (begin e : option Z) (m : method) : outcome (list (Z * Z)) :=
  match begin_ix axis begin m with
  | Raise => Raise
  | Yield b =>
      match end_ix axis e m with
      | Raise => Raise
      | Yield eix => Yield (agg_loop (Z.to_nat b) b n eix)
      end
  end.

(** per-window attributes: (agg_start label, agg_stop label = time stamp, agg_n) *)
Definition window_attrs (axis : list Z) (w : Z * Z) : Z * Z * Z :=
  let '(jj, ii) := w in
  (nth (Z.to_nat jj) axis 0, nth (Z.to_nat (ii - 1)) axis 0,
   Z.of_nat (length (firstn (Z.to_nat (ii - jj)) (skipn (Z.to_nat jj) axis)))).

(** reductions over one pixel's slice; [None] = NaN *)
Definition slice {A} (l : list A) (w : Z * Z) : list A :=
  firstn (Z.to_nat (snd w - fst w)) (skipn (Z.to_nat (fst w)) l).
Fixpoint nansum (l : list (option Z)) : Z :=
  match l with [] => 0 | None :: r => nansum r | Some x :: r => x + nansum r end.
Fixpoint nancount (l : list (option Z)) : Z :=
  match l with [] => 0 | None :: r => nancount r | Some _ :: r => 1 + nancount r end.
