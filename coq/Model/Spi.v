(** Model of the SPI kernels of [hdc/algo/ops/stats.py] (as repaired by the fix: commit):
    [brentq] (100 iterations, literal), [gammafit], [gammastd], the scaling / rounding /
    saturation of [gammastd_yxt] and [gammastd_grp].  Generic in the carrier; log, digamma,
    gammainc and ndtri are oracle functions.  Executable definitions only. *)
From HDC Require Import Base.Prelude Base.Ops.

Section Spi.
  Context {F : Type} (O : Ops F).
  Notation "x + y" := (fadd O x y). Notation "x - y" := (fsub O x y).
  Notation "x * y" := (fmul O x y). Notation "x / y" := (fdiv O x y).
  Notation "'#' k" := (fofZ O k) (at level 5).

  Record spi_oracles := { o_log : F -> F; o_digamma : F -> F; o_gammainc : F -> F -> F; o_ndtri : F -> F }.
  Variable R_ : spi_oracles.
  (** literals of the source: xtol, rtol, 0.4 (as 1 - 0.4 and 1 + 0.4), 0.9, 1000, clip bounds *)
  Record spi_consts := { k_xtol : F; k_rtol : F; k_06 : F; k_14 : F; k_09 : F }.
  Variable K : spi_consts.

  Definition fneg (x : F) : F := fopp O x.
  Definition fmin (a b : F) : F := if fltb O b a then b else a.

  (** ** brentq *)
  Record bstate := mkb { xpre : F; xcur : F; xblk : F; fpre : F; fcur : F; fblk : F; spre : F; scur : F }.
  Inductive bresult := NoBracket | Root (x : F) (converged : bool).

  Section Brent.
    Variable func : F -> F.

    (** one loop iteration: [inl x] = return x, [inr st] = continue *)
    Definition brent_iter (st : bstate) : F + bstate :=
      (* if (fpre * fcur) < 0: xblk = xpre; fblk = fpre; spre = scur = xcur - xpre *)
      let st1 := if fltb O (fpre st * fcur st) (f0 O)
                 then mkb (xpre st) (xcur st) (xpre st) (fpre st) (fcur st) (fpre st) (xcur st - xpre st) (xcur st - xpre st)
                 else st in
      (* if abs(fblk) < abs(fcur): xpre, xcur = xcur, xblk; xblk = xpre; fpre, fcur = fcur, fblk; fblk = fpre *)
      let st2 := if fltb O (fabs O (fblk st1)) (fabs O (fcur st1))
                 then mkb (xcur st1) (xblk st1) (xcur st1) (fcur st1) (fblk st1) (fcur st1) (spre st1) (scur st1)
                 else st1 in
      let delta := (k_xtol K + k_rtol K * fabs O (xcur st2)) / #2 in
      let sbis := (xblk st2 - xcur st2) / #2 in
      if feqb O (fcur st2) (f0 O) || fltb O (fabs O sbis) delta then inl (xcur st2)
      else
        let '(spre', scur') :=
          if fltb O delta (fabs O (spre st2)) && fltb O (fabs O (fcur st2)) (fabs O (fpre st2)) then
            let stry :=
              if feqb O (xpre st2) (xblk st2) then
                (fneg (fcur st2) * (xcur st2 - xpre st2)) / (fcur st2 - fpre st2)
              else
                let dpre := (fpre st2 - fcur st2) / (xpre st2 - xcur st2) in
                let dblk := (fblk st2 - fcur st2) / (xblk st2 - xcur st2) in
                (fneg (fcur st2) * (fblk st2 * dblk - fpre st2 * dpre)) / ((dblk * dpre) * (fblk st2 - fpre st2)) in
            if fltb O (#2 * fabs O stry) (fmin (fabs O (spre st2)) (#3 * fabs O sbis - delta))
            then (scur st2, stry) else (sbis, sbis)
          else (sbis, sbis) in
        let xnew := if fltb O delta (fabs O scur') then xcur st2 + scur'
                    else xcur st2 + (if fltb O (f0 O) sbis then delta else fneg delta) in
        inr (mkb (xcur st2) xnew (xblk st2) (fcur st2) (func xnew) (fblk st2) spre' scur').

    Fixpoint brent_loop (fuel : nat) (st : bstate) : bresult :=
      match fuel with
      | 0%nat => Root (xcur st) false
      | S f => match brent_iter st with
               | inl x => Root x true
               | inr st' => brent_loop f st'
               end
      end.

    Definition brentq (xa xb : F) : bresult :=
      let fa := func xa in let fb := func xb in
      if fltb O (f0 O) (fa * fb) then NoBracket
      else if feqb O fa (f0 O) then Root xa true
      else if feqb O fb (f0 O) then Root xb true
      else brent_loop 100 (mkb xa xb (f0 O) fa fb (f0 O) (f0 O) (f0 O)).
  End Brent.

  (** ** gammafit over the calibration slice; [None] = (0, 0) *)
  Definition gammafit (xs : list F) : option (F * F) :=
    let pos := filter (fun x => fltb O (f0 O) x) xs in
    let n := length pos in
    if Nat.eqb n 0 then None
    else
      let xts := fold_left (fadd O) pos (f0 O) in
      let logs := fold_left (fun a x => a + o_log R_ x) pos (f0 O) in
      let nn := # (Z.of_nat n) in
      let xtsbar := xts / nn in
      let s := o_log R_ xtsbar - logs / nn in
      if negb (fltb O (f0 O) s) then None      (* if not s > 0: return (0, 0) *)
      else
        let a_est := ((#3 - s) + fsqrt O ((s - #3) * (s - #3) + #24 * s)) / (#12 * s) in
        match brentq (fun a => (o_log R_ a - o_digamma R_ a) - s) (a_est * k_06 K) (a_est * k_14 K) with
        | NoBracket => None
        | Root a _ => if feqb O a (f0 O) then None else Some (a, xtsbar / a)
        end.

  (** ** gammastd: [None] cell = nodata *)
  Definition valid_obs (nodata x : F) : bool := negb (feqb O x nodata) && fleb O (f0 O) x.

  (** cal = x[cal_start:cal_stop]; cal[cal != nodata] (after the fix: commit: only observations enter the fit, also when the
      nodata value is positive) *)
  Definition cal_window (x : list F) (nodata : F) (cal_start cal_stop : nat) : list F :=
    filter (fun v => negb (feqb O v nodata)) (firstn (cal_stop - cal_start) (skipn cal_start x)).

  Definition gammastd (x : list F) (nodata : F) (cal_start cal_stop : nat) : list (option F) :=
    let obs := filter (fun v => negb (feqb O v nodata)) x in
    let n_zero := length (filter (fun v => feqb O v (f0 O)) obs) in
    let n_valid := length (filter (fun v => fleb O (f0 O) v) obs) in
    if Nat.eqb n_valid 0 then map (fun _ => None) x
    else
      let p_zero := # (Z.of_nat n_zero) / # (Z.of_nat n_valid) in
      if fltb O (k_09 K) p_zero then map (fun _ => None) x
      else
        match gammafit (cal_window x nodata cal_start cal_stop) with
        | None => map (fun _ => None) x
        | Some (alpha, beta) =>
            if feqb O alpha (f0 O) || feqb O beta (f0 O) then map (fun _ => None) x
            else map (fun v => if valid_obs nodata v
                               then Some (o_ndtri R_ (p_zero + (f1 O - p_zero) * o_gammainc R_ alpha (v / beta)))
                               else None) x
        end.
End Spi.
Arguments NoBracket {F}. Arguments Root {F} x converged.
