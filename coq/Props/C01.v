(** C01 — the Whittaker core returns the exact penalised least-squares solution.
    Statements only; proofs are in Proofs/{Ws2dIndex,RSums,Penalty,LDL,Ws2dReal}.v.
    The kernel model [ws2d] (Model/Ws2d.v) is generic in its arithmetic; here it is instantiated
    at the real numbers ([OpsR]).  Exact rational execution is the same term on rational inputs. *)
From Coq Require Import ZArith Reals Lra Lia List.
From HDC Require Import Base.Prelude Base.Ops Model.Ws2d Proofs.Ws2dIndex Proofs.RSums Proofs.Penalty Proofs.LDL Proofs.Ws2dReal.
Open Scope R_scope.

(** zero-extended entry i of a list *)
Definition at_ (l : list R) (i : Z) : R := vecZ OpsR l i.

(** S(z) = sum_i w_i (y_i - z_i)^2 + lam * sum_j (z_j - 2 z_{j+1} + z_{j+2})^2, j = 0 .. n-3 *)
Definition objective (y w : list R) (lam : R) (z : list R) : R :=
  sumn (fun i => at_ w i * (at_ y i - at_ z i) ^ 2) (length y) +
  lam * sumn (fun j => (at_ z j - 2 * at_ z (j + 1) + at_ z (j + 2)) ^ 2) (length y - 2).

Definition in_contract (y w : list R) (lam : R) : Prop :=
  length w = length y /\ (4 <= length y)%nat /\ 0 < lam /\
  (forall i, (0 <= i < Z.of_nat (length y))%Z -> 0 <= at_ w i) /\
  (exists p q, (0 <= p < q)%Z /\ (q < Z.of_nat (length y))%Z /\ 0 < at_ w p /\ 0 < at_ w q).

(** headline: the result minimises S over all z' of the same length, and is the only minimiser *)
Theorem C01_ws2d_minimises : forall y w lam,
  in_contract y w lam ->
  forall z', length z' = length y ->
    objective y w lam (ws2d OpsR y lam w) <= objective y w lam z' /\
    (objective y w lam z' = objective y w lam (ws2d OpsR y lam w) -> z' = ws2d OpsR y lam w).
Proof.
  intros y w lam (Hl & Hn & Hlam & Hw & H2) z' Hz'.
  destruct (minimises y w lam Hl Hn Hw Hlam H2 (at_ z')) as [Hle Huniq]. split; [exact Hle|].
  intros E. apply (nth_ext _ _ 0 0); [rewrite ws2d_length by assumption; exact Hz'|].
  intros i Hi. specialize (Huniq E (Z.of_nat i) ltac:(lia)).
  unfold at_, Zk, vecZ in Huniq. replace (Z.of_nat i <? 0)%Z with false in Huniq by lia.
  rewrite Nat2Z.id in Huniq. exact Huniq.
Qed.
Print Assumptions C01_ws2d_minimises.

(** i.e. it solves (W + lam D'D) z = W y, row by row; D' is the adjoint of the second-difference
    operator D (rows 0 .. n-3), see C01_adjoint *)
Theorem C01_ws2d_normal_equations : forall y w lam,
  in_contract y w lam ->
  forall i, (0 <= i < Z.of_nat (length y))%Z ->
    at_ w i * at_ (ws2d OpsR y lam w) i + lam * DtD (length y) (at_ (ws2d OpsR y lam w)) i = at_ w i * at_ y i.
Proof.
  intros y w lam (Hl & Hn & Hlam & Hw & H2) i Hi.
  rewrite <- (Aop_DtD (length y) (at_ w) lam). exact (normal_equations y w lam Hl Hn Hw Hlam H2 i).
Qed.
Print Assumptions C01_ws2d_normal_equations.

Theorem C01_adjoint : forall n h z, (2 <= n)%nat ->
  sumn (fun i => h i * DtD n z i) n = sumn (fun j => D2 h j * D2 z j) (n - 2).
Proof. exact adjoint. Qed.
Print Assumptions C01_adjoint.

(** the banded form of W + lam D'D has exactly the coefficients the code hard-wires:
    diagonal 1, 5, 6 .. 6, 5, 1; first off-diagonal -2, -4 .. -4, -2; second off-diagonal 1 *)
Theorem C01_coefficients : forall n (W : Z -> R) lam, (4 <= n)%nat ->
  let N := Z.of_nat n in
  a0 n W lam 0 = W 0%Z + lam * 1 /\ a0 n W lam 1 = W 1%Z + lam * 5 /\
  (forall k, (2 <= k <= N - 3)%Z -> a0 n W lam k = W k + lam * 6) /\
  a0 n W lam (N - 2) = W (N - 2)%Z + lam * 5 /\ a0 n W lam (N - 1) = W (N - 1)%Z + lam * 1 /\
  a1 n lam 0 = lam * -2 /\ (forall k, (1 <= k <= N - 3)%Z -> a1 n lam k = lam * -4) /\
  a1 n lam (N - 2) = lam * -2 /\ a1 n lam (N - 1) = 0 /\
  (forall k, (0 <= k <= N - 3)%Z -> a2 n lam k = lam) /\ a2 n lam (N - 2) = 0 /\ a2 n lam (N - 1) = 0.
Proof. exact coefficients. Qed.
Print Assumptions C01_coefficients.

(** every pivot d[k] of the elimination is positive: the code never divides by zero *)
Theorem C01_ws2d_pivots_positive : forall y w lam,
  in_contract y w lam -> forall k, (0 <= k < Z.of_nat (length y))%Z -> 0 < Dk y w lam k.
Proof. intros y w lam (Hl & Hn & Hlam & Hw & H2). exact (pivots_pos y w lam Hl Hn Hw Hlam H2). Qed.
Print Assumptions C01_ws2d_pivots_positive.

(** Non-vacuity: n = 4 with zero weights in the interior is in contract. *)
Example C01_example : in_contract [1; 2; 4; 3] [1; 0; 0; 1] 1.
Proof.
  unfold in_contract. cbn [length]. split; [reflexivity|]. split; [lia|]. split; [lra|]. split.
  - intros i Hi. assert (i = 0 \/ i = 1 \/ i = 2 \/ i = 3)%Z as [-> | [-> | [-> | ->]]] by lia; cbv; lra.
  - exists 0%Z, 3%Z. repeat split; try lia; cbv; lra.
Qed.
