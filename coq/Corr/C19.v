(** Correspondence cases for C19: the generator sequence of the accessor vs the model. *)
From HDC Require Import Base.Prelude Base.Float Model.Iteragg.
From Coq Require Import PrimFloat.
Open Scope Z_scope.

Inductive op := OSum | OMean | OFull.

(** one yielded item: agg_start and agg_stop labels, agg_n, the time stamp label (None when the
    dim is not "time" or op = full), the observed pixel value (sum/mean) or slice (full) *)
Record item := IT { i_start : Z; i_stop : Z; i_n : Z; i_stamp : option Z; i_val : float; i_slice : list (option Z) }.
Record icase := IC { c_axis : list Z; c_n : Z; c_begin : option Z; c_end : option Z; c_method : method;
                     c_op : op; c_pix : list (option Z); c_raised : bool; c_items : list item }.

Fixpoint oz_list_eqb (a b : list (option Z)) : bool :=
  match a, b with
  | [], [] => true
  | x :: a', y :: b' => opt_zeqb x y && oz_list_eqb a' b'
  | _, _ => false
  end.

Definition reduce (o : op) (cells : list (option Z)) : float :=
  match o with
  | OSum => f_of_Z (nansum cells)
  | OMean => if nancount cells =? 0 then nan else (f_of_Z (nansum cells) / f_of_Z (nancount cells))%float
  | OFull => zero
  end.

Definition check_item (axis : list Z) (pix : list (option Z)) (o : op) (w : Z * Z) (it : item) : bool :=
  let '(a, b, k) := window_attrs axis w in
  (i_start it =? a) && (i_stop it =? b) && (i_n it =? k) &&
  match i_stamp it with Some s => s =? b | None => true end &&
  match o with
  | OFull => oz_list_eqb (slice pix w) (i_slice it)
  | _ => feq_val (reduce o (slice pix w)) (i_val it)
  end.

Fixpoint check_items axis pix o (ws : list (Z * Z)) (its : list item) : bool :=
  match ws, its with
  | [], [] => true
  | w :: ws', it :: its' => check_item axis pix o w it && check_items axis pix o ws' its'
  | _, _ => false
  end.

Definition check_iteragg (c : icase) : bool :=
  match windows (c_axis c) (c_n c) (c_begin c) (c_end c) (c_method c) with
  | Raise => c_raised c
  | Yield ws => negb (c_raised c) && check_items (c_axis c) (c_pix c) (c_op c) ws (c_items c)
  end.
