(** Correspondence cases for C09. *)
From HDC Require Import Base.Prelude Model.Calib.
Open Scope Z_scope.

Fixpoint pairs_eqb (a b : list (Z * Z)) : bool :=
  match a, b with
  | [], [] => true
  | (x1, y1) :: a', (x2, y2) :: b' => (x1 =? x2) && (y1 =? y2) && pairs_eqb a' b'
  | _, _ => false
  end.

(** get_calibration_indices: time, optional (groups, num_groups), begin, end, observed index pairs *)
Record gcase := GC { g_time : list Z; g_groups : option (list Z * nat); g_b : Z; g_e : Z; g_out : list (Z * Z) }.
Definition check_calidx (c : gcase) : bool :=
  match g_groups c with
  | None => pairs_eqb [cal_indices (g_time c) (g_b c) (g_e c)] (g_out c)
  | Some (gs, n) => pairs_eqb (cal_indices_grp (g_time c) gs n (g_b c) (g_e c)) (g_out c)
  end.

(** to_linspace: keys encoded by an order-isomorphic integer code *)
Record lcase := LS { l_x : list Z; l_lin : list Z; l_keys : list Z }.
Definition check_linspace (c : lcase) : bool :=
  let '(lin, keys) := to_linspace (l_x c) in zeqb_list lin (l_lin c) && zeqb_list keys (l_keys c).

(** accessor: raised?, attrs *)
Record acase := AC { a_time : list Z; a_groups : option (list Z); a_b : option Z; a_e : option Z;
                     a_raised : bool; a_begin_attr : Z; a_end_attr : Z }.
Definition check_accessor (c : acase) : bool :=
  match spi_calibration (a_time c) (a_groups c) (a_b c) (a_e c) with
  | None => a_raised c
  | Some r => negb (a_raised c) && (c_begin_attr r =? a_begin_attr c) && (c_end_attr r =? a_end_attr c)
  end.
