(** Correspondence cases for C01: the binary64 instance of the model against the compiled ws2d. *)
From HDC Require Import Base.Prelude Base.Float Base.Ops Model.Ws2d.
From Coq Require Import PrimFloat.
Record wcase := WC { w_y : list float; w_l : float; w_w : list float; w_out : list float }.
Definition check_ws2d (c : wcase) : bool :=
  flist_eq_bits (ws2d (OpsF no_oracles) (w_y c) (w_l c) (w_w c)) (w_out c).

(** exact instance against the source executed on fractions.Fraction *)
From Coq Require Import QArith.
From HDC Require Import Base.OpsQ.
Record qcase := QC { q_y : list Q; q_l : Q; q_w : list Q; q_out : list Q }.
Definition check_ws2d_q (c : qcase) : bool := qlist_eqb (ws2d OpsQ (q_y c) (q_l c) (q_w c)) (q_out c).
