#!/bin/bash
# tools/sweep_names.sh <seeded name>... : like sweep_seeded.sh for an explicit list of seeded changes (OUT, JOBS as there)
cd /verif
OUT=${OUT:-/tmp/sweep_names.log}
: > $OUT
source <(sed -n '/^one()/,/^}/p' /verif/tools/sweep_seeded.sh)
export -f one; export OUT
printf '%s\n' "$@" | xargs -P ${JOBS:-8} -I{} bash -c 'one {}'
sort $OUT
