"""Run a kernel's *Python source* in the interpreter (NumPy/SciPy semantics) without touching the
module that Numba compiles: the raw function (`.py_func` of njit, `__wrapped__` of the lazycompile
wrapper) is re-instantiated over a *copy* of its globals in which
  - numba type objects used as dtypes (float64, int16, ...) are replaced by NumPy dtypes,
  - `np.round(a, d, out)` stores into integer outputs with a C-style cast (NumPy 2 refuses the cast),
  - library calls (log, pow, sqrt, cos, erf, scipy.special.*) can be wrapped by recorders.
The recorders give the oracle tables the Coq models replay (argument and result bit patterns)."""
import math
import types

import numpy as np


def c_log(x):
    """libm log: -inf at 0, nan below (math.log raises instead)"""
    x = float(x)
    if x == 0.0:
        return float("-inf")
    if x < 0.0 or x != x:
        return float("nan")
    return math.log(x)


def c_sqrt(x):
    x = float(x)
    return float("nan") if (x < 0.0 or x != x) else math.sqrt(x)


def c_pow(a, b):
    # pow(x, <int>) compiles to LLVM's powi (repeated multiplication: pow(x, 2) is x * x); CPython calls libm's pow,
    # which is not always correctly rounded and can differ from x * x in the last bit
    if isinstance(b, (int, np.integer)) and not isinstance(b, bool) and isinstance(a, (float, np.floating)):
        return static_pow(float(a), int(b))
    try:
        return pow(a, b)
    except OverflowError:
        return float("inf")
    except ZeroDivisionError:
        return float("inf")


class Recorder:
    def __init__(self):
        self.tables = {}

    def wrap(self, name, fn):
        tab = self.tables.setdefault(name, [])

        def f(*a):
            r = fn(*a)
            try:
                tab.append((tuple(float(x) for x in a), float(r)))
            except (TypeError, ValueError):
                pass
            return r
        return f

    def table(self, name, arity=1):
        """distinct (arg.., value) pairs, by bit pattern, first occurrence wins"""
        seen, out = set(), []
        for a, r in self.tables.get(name, []):
            key = tuple(np.float64(x).tobytes() for x in a)
            if key in seen:
                continue
            seen.add(key)
            out.append(list(a) + [r])
        return out


class NPProxy:
    """numpy with a round() that can write into an integer output array"""

    def __init__(self, rec=None):
        self._rec = rec

    def __getattr__(self, name):
        v = getattr(np, name)
        if self._rec is not None and name in ("cos",):
            def f(x, _v=v, _n=name):
                r = _v(x)
                xa, ra = np.atleast_1d(np.asarray(x, dtype="float64")), np.atleast_1d(np.asarray(r, dtype="float64"))
                tab = self._rec.tables.setdefault(_n, [])
                for a, b in zip(xa.ravel(), ra.ravel()):
                    tab.append(((float(a),), float(b)))
                return r
            return f
        return v

    def arange(self, *a, **k):
        """float aranges as the compiled code produces them (numba's arange differs from numpy's in the last bit)"""
        if len(a) == 3 and any(isinstance(v, float) for v in a):
            return nb_arange(float(a[0]), float(a[1]), float(a[2]))
        return np.arange(*a, **k)

    def round(self, a, decimals=0, out=None):
        r = np.round(a, decimals)
        if out is None:
            return r
        with np.errstate(invalid="ignore"):
            out[...] = np.asarray(r).astype(out.dtype, casting="unsafe")
        return out


_NB = {}


def nb_arange(a, b, c):
    if "arange" not in _NB:
        from numba import njit
        _NB["arange"] = njit(lambda x, y, z: np.arange(x, y, z))
    return _NB["arange"](a, b, c)


def nb_pow10(x):
    """pow(10, x) as compiled code evaluates it"""
    if "pow10" not in _NB:
        from numba import njit
        _NB["pow10"] = njit(lambda v: pow(10.0, v))
    return float(_NB["pow10"](float(x)))


NUMBA_DTYPES = {"float64": np.float64, "float32": np.float32, "int16": np.int16, "int32": np.int32, "int64": np.int64,
                "uint8": np.uint8, "boolean": np.bool_, "int8": np.int8}


def raw(fn):
    if hasattr(fn, "py_func"):
        return fn.py_func
    if hasattr(fn, "__wrapped__"):
        return fn.__wrapped__
    return fn


def interpreted(fn, rec=None, extra=None, helpers=()):
    """Interpreter copy of kernel `fn`; `helpers` = names of module-level jitted helpers to interpret as well."""
    f = raw(fn)
    g = dict(f.__globals__)
    for k, v in NUMBA_DTYPES.items():
        if k in g and not isinstance(g[k], type):
            g[k] = v
    g["np"] = NPProxy(rec)
    if rec is not None:
        for name, base in (("log", c_log), ("sqrt", c_sqrt), ("erf", math.erf), ("pow", c_pow)):
            if name in g or name == "pow":
                g[name] = rec.wrap(name, base)
        if "sc" in g:
            sc = g["sc"]
            ns = types.SimpleNamespace(**{n: getattr(sc, n) for n in ("digamma", "gammainc", "ndtri")})
            for n in ("digamma", "gammainc", "ndtri"):
                setattr(ns, n, rec.wrap(n, getattr(sc, n)))
            g["sc"] = ns
    else:
        for name, base in (("log", c_log), ("sqrt", c_sqrt), ("pow", c_pow)):
            if name in g or name == "pow":
                g[name] = base
    if extra:
        g.update(extra)
    for h in helpers:
        if h in f.__globals__ and f.__globals__[h] is not fn:
            g[h] = interpreted(f.__globals__[h], rec, extra, helpers=[x for x in helpers if x != h])
    # called from the interpreter an njit function raises on float division by zero; inside compiled callers it
    # follows IEEE (inf / nan): give the interpreted copy the IEEE behaviour
    if "ws2d" in g and hasattr(g["ws2d"], "py_func"):
        if "ws2d" not in _NB:
            from numba import njit
            _NB["ws2d"] = njit(error_model="numpy")(g["ws2d"].py_func)
        g["ws2d"] = _NB["ws2d"]
    # numba's prange is range in the interpreter
    if "numba" in g:
        g["numba"] = types.SimpleNamespace(prange=range)
    code = f.__code__
    if not f.__closure__:
        code = static_pow_code(f) or code
        g["_static_pow"] = static_pow
    return types.FunctionType(code, g, f.__name__, f.__defaults__, f.__closure__)


def static_pow(x, k):
    """x ** k for a literal integer k the way numba lowers it (static_power_impl): repeated multiplication,
    so x ** 2 is x * x and not libm's pow(x, 2.0), which differs from it in the last bit for some x"""
    if abs(k) > 0x10000:
        return x ** k
    inv, e = k < 0, abs(k)
    r, a = None, x
    while e:
        if e & 1:
            r = a if r is None else r * a
        e >>= 1
        if e:
            a = a * a
    if r is None:
        r = x * 0 + 1
    return 1.0 / r if inv else r


def static_pow_code(f):
    """code object of f with every `expr ** <int literal>` rewritten to _static_pow(expr, k); None if nothing to rewrite"""
    import ast
    import inspect
    import textwrap
    try:
        src = textwrap.dedent(inspect.getsource(f))
    except (OSError, TypeError):
        return None
    if "**" not in src:
        return None
    tree = ast.parse(src)
    fd = tree.body[0]
    if not isinstance(fd, ast.FunctionDef):
        return None
    fd.decorator_list = []
    hits = []

    class T(ast.NodeTransformer):
        def visit_BinOp(self, node):
            self.generic_visit(node)
            k = node.right
            neg = False
            if isinstance(k, ast.UnaryOp) and isinstance(k.op, ast.USub):
                k, neg = k.operand, True
            if isinstance(node.op, ast.Pow) and isinstance(k, ast.Constant) and type(k.value) is int:
                hits.append(1)
                return ast.copy_location(ast.Call(func=ast.Name(id="_static_pow", ctx=ast.Load()),
                                                  args=[node.left, ast.Constant(value=-k.value if neg else k.value)], keywords=[]), node)
            return node

    T().visit(tree)
    if not hits:
        return None
    ast.fix_missing_locations(tree)
    ast.increment_lineno(tree, f.__code__.co_firstlineno - 1)
    mod = compile(tree, f.__code__.co_filename, "exec")
    for c in mod.co_consts:
        if isinstance(c, types.CodeType) and c.co_name == f.__name__:
            return c
    return None
