"""C12 — results do not depend on laziness, chunking, layout or threading."""
import json
from concurrent.futures import ThreadPoolExecutor

from vlib import core


def run(ctx):
    ctx.proofs(["Props/C12.v"], extra_trusted=[
        "the model covers the dispatch logic only (chunk / schedule / assemble, pixel permutations, the lazycompile cache cell); xarray, dask "
        "and numba themselves are exercised, not modelled",
        "lazycompile theorem assumes that compiling is a pure function of the source and may run concurrently (numba's compiler lock)"])
    with ThreadPoolExecutor(2) as ex:
        f1 = ex.submit(core.run_impl, "c12_impl.py", dict(seed=ctx.seed, thorough=ctx.thorough, mode="configs"), 6000)
        f2 = ex.submit(core.run_impl, "c12_impl.py", dict(seed=ctx.seed, mode="race", threads=8 if ctx.thorough else 4,
                                                          kernels=None if ctx.thorough else ["ws2dgu", "lroo", "rolling_sum", "do_mean", "autocorr_tyx"]), 6000)
        (res, log), (race, rlog) = f1.result(), f2.result()
    if res is None:
        ctx.violation("the configuration run crashed", dict(kind="impl-crash", log=log[-3000:]), found_input=False)
        return
    if race is None:
        ctx.violation("the lazy-compilation race run crashed", dict(kind="impl-crash", log=rlog[-3000:]), found_input=False)
        return
    ctx.cov["evaluations"] = res["computations"] + race["threads"] * len(race["kernels"])
    ctx.cov["distinct_nontrivial"] = res["computations"]
    ctx.cov["rule"] = ("24 accessor operations (whits x3, whitsvc x3, whitswcv x2, whitint, spi x3, croo, lroo, autocorr x2, mktrend x2, mean_grp, "
                       "rolling.sum, zonal.mean x2, iteragg.sum, anom.ratio) on a 24x3x4 cube: in-memory vs dask-backed under chunkings (1 pixel, "
                       "ragged, single) x schedulers (synchronous, threads with %s workers) x dimension orders (time first / last / middle); "
                       "pixel permutation; chunked time (refuse or agree); two lazy zonal means evaluated in one graph; ws2doptvplc_tyx under "
                       "thread counts %s twice each, bit-identical; %d threads behind a barrier on the first call of %d lazily compiled kernels"
                       % ("1, 4, 16" if ctx.thorough else "4", res["threads"]["counts"], race["threads"], len(race["kernels"])))
    ctx.notes.update(operations=res["ops"], thread_counts=res["threads"], race=race["kernels"])
    ctx.add_samples([dict(op=k, **v) for k, v in list(res["ops"].items())[:3]])
    ctx.assumptions += ["zonal.mean is run in its documented (time, y, x) layout only",
                        "whits(sg=...) / whitsvc(lc=...) take a per-pixel parameter grid, so they are left out of the permutation comparison",
                        "interleavings inside numba's compiler and dask's scheduler are sampled by repeated runs, not enumerated"]
    fails = res["failures"] + race["failures"]
    if fails:
        f = sorted(fails, key=lambda d: len(json.dumps(d)))[0]
        ctx.violation("%s: %s" % (f["op"], f["what"][:400]), dict(kind="configuration", case=f, n_failing=len(fails), ops=sorted({x["op"] for x in fails})))


def replay(ctx, path):
    rp = json.load(open(path))
    print(json.dumps(rp.get("case"))[:3000])
    return 2
