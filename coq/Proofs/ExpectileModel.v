(** Bridge from the list model of the asymmetric smoothers to the expectile problem of Proofs/Expectile.v:
    a curve that the reweighting map leaves unchanged is the unique minimiser of the asymmetric
    penalised least-squares objective. *)
From Coq Require Import ZArith Reals Lra Lia List Bool.
From HDC Require Import Base.Prelude Base.Ops Model.Ws2d Model.Smoothers Proofs.Ws2dIndex Proofs.RSums Proofs.Penalty
  Proofs.Ws2dReal Proofs.SmoothersProofs Proofs.Expectile.
Import ListNotations.
Open Scope R_scope.

Definition atl (l : list R) (i : Z) : R := vecZ OpsR l i.

(** sum_i w_i * (p if y_i > z_i else 1 - p) * (y_i - z_i)^2 + lam * sum_j (second differences of z)^2 *)
Definition expectile_objective (p : R) (y w : list R) (lam : R) (z : list R) : R :=
  Aobj (length y) (atl w) (atl y) lam p (atl z).

Lemma asym_weights_at p (w y z : list R) : forall i,
  length w = length y -> length z = length y -> (0 <= i < Z.of_nat (length y))%Z ->
  atl (asym_weights OpsR p (1 - p) w y z) i = atl w i * cw p (atl y i - atl z i).
Proof.
  intros i Hw Hz Hi. unfold atl, vecZ. replace (i <? 0)%Z with false by lia.
  set (k := Z.to_nat i). assert (k < length y)%nat as Hk by (unfold k; lia). clearbody k. clear Hi i.
  unfold asym_weights. revert y z k Hw Hz Hk. induction w as [|a w IH]; intros [|b y] [|c z] k Hw Hz Hk; cbn [length] in *; try lia.
  destruct k as [|k].
  - cbn [combine map nth]. cbn [fmul fltb f0 OpsR]. unfold cw.
    destruct (Rlt_dec 0 (b - c)) as [H|H].
    + replace (Rltb c b) with true; [reflexivity|]. symmetry. apply Rltb_true. lra.
    + replace (Rltb c b) with false; [reflexivity|]. symmetry. apply not_true_is_false. intros E. apply Rltb_true in E. lra.
  - cbn [combine map nth]. apply IH; lia.
Qed.

Theorem fixed_point_is_expectile p lam (w y z : list R) :
  0 < p < 1 -> 0 < lam -> (4 <= length y)%nat -> length w = length y -> length z = length y ->
  (forall i, (0 <= i < Z.of_nat (length y))%Z -> 0 <= atl w i) ->
  (exists a b, (0 <= a < b)%Z /\ (b < Z.of_nat (length y))%Z /\ 0 < atl w a /\ 0 < atl w b) ->
  z = ws2d OpsR y lam (asym_weights OpsR p (1 - p) w y z) ->
  forall z', length z' = length y ->
    expectile_objective p y w lam z <= expectile_objective p y w lam z' /\
    (expectile_objective p y w lam z' = expectile_objective p y w lam z -> z' = z).
Proof.
  intros Hp Hlam Hn Hw Hz Wn W2 Fix z' Hz'.
  set (ww := asym_weights OpsR p (1 - p) w y z) in *.
  assert (length ww = length y) as Lww by (apply asym_weights_length; assumption).
  assert (forall i, (0 <= i < Z.of_nat (length y))%Z -> atl ww i = WW (atl w) (atl y) p (atl z) i) as Eww.
  { intros i Hi. unfold WW. apply asym_weights_at; assumption. }
  assert (forall i, (0 <= i < Z.of_nat (length y))%Z -> 0 <= atl ww i) as WWn.
  { intros i Hi. rewrite (Eww i Hi). unfold WW, cw. specialize (Wn i Hi). destruct (Rlt_dec 0 (atl y i - atl z i)); nra. }
  assert (exists a b, (0 <= a < b)%Z /\ (b < Z.of_nat (length y))%Z /\ 0 < atl ww a /\ 0 < atl ww b) as WW2.
  { destruct W2 as (a & b & Hab & Hb & Wa & Wb). exists a, b. repeat split; try lia.
    - rewrite (Eww a ltac:(lia)). unfold WW, cw. destruct (Rlt_dec 0 (atl y a - atl z a)); nra.
    - rewrite (Eww b ltac:(lia)). unfold WW, cw. destruct (Rlt_dec 0 (atl y b - atl z b)); nra. }
  (* the weighted normal equations hold at z for the weights z induces *)
  assert (forall i, (0 <= i < Z.of_nat (length y))%Z ->
            Aop (length y) (WW (atl w) (atl y) p (atl z)) lam (atl z) i = WW (atl w) (atl y) p (atl z) i * atl y i) as NE.
  { intros i Hi. pose proof (normal_equations y ww lam Lww Hn WWn Hlam WW2 i) as E.
    unfold Zk, Wk, Yk in E. rewrite <- Fix in E. change (vecZ OpsR z) with (atl z) in E.
    change (vecZ OpsR ww) with (atl ww) in E. change (vecZ OpsR y) with (atl y) in E.
    (* Aop depends on the weights only at row i *)
    rewrite Aop_DtD in *. rewrite <- (Eww i Hi). exact E. }
  split.
  - apply (expectile_minimum (length y) (atl w) (atl y) lam p Wn Hlam Hp (atl z) NE (atl z') ltac:(lia)).
  - intros E. apply (nth_ext _ _ 0 0); [congruence|]. intros k Hk.
    pose proof (expectile_unique (length y) (atl w) (atl y) lam p Wn Hlam Hp (atl z) NE W2 (atl z') ltac:(lia) E (Z.of_nat k) ltac:(lia)) as U.
    unfold atl, vecZ in U. replace (Z.of_nat k <? 0)%Z with false in U by lia. rewrite Nat2Z.id in U. exact U.
Qed.

(** the asymmetric fit of the model: when its reweighting loop stopped on an unchanged pass, the curve it returns is
    the expectile curve - the unique minimiser of the asymmetric objective *)
Theorem asym_fit_is_expectile p lam (w y : list R) :
  0 < p < 1 -> 0 < lam -> (4 <= length y)%nat -> length w = length y ->
  (forall i, (0 <= i < Z.of_nat (length y))%Z -> 0 <= atl w i) ->
  (exists a b, (0 <= a < b)%Z /\ (b < Z.of_nat (length y))%Z /\ 0 < atl w a /\ 0 < atl w b) ->
  let '(ww, z) := irls OpsR 10 p (1 - p) lam w y (zeros OpsR (length y)) (zeros OpsR (length y)) in
  ww = asym_weights OpsR p (1 - p) w y z ->
  forall z', length z' = length y ->
    expectile_objective p y w lam (asym_fit OpsR p lam w y) <= expectile_objective p y w lam z' /\
    (expectile_objective p y w lam z' = expectile_objective p y w lam (asym_fit OpsR p lam w y) -> z' = asym_fit OpsR p lam w y).
Proof.
  intros Hp Hlam Hn Hw Wn W2.
  pose proof (asym_fit_fixed_point p lam w y Hn Hw) as FP. cbn zeta in FP.
  destruct (irls OpsR 10 p (1 - p) lam w y (zeros OpsR (length y)) (zeros OpsR (length y))) as [ww z] eqn:E.
  destruct FP as [F1 F2]. intros Hc z' Hz'.
  assert (length (zeros OpsR (length y)) = length y) as Lz by (unfold zeros; apply repeat_length).
  destruct (irls_final 10 p (1 - p) lam w y _ _ ww z Hn Hw Lz ltac:(lia) E) as (_ & Lz' & _).
  apply (fixed_point_is_expectile p lam w y (asym_fit OpsR p lam w y) Hp Hlam Hn Hw ltac:(rewrite F1; exact Lz') Wn W2 (F2 Hc) z' Hz').
Qed.

(** ** C06 through the asymmetric reweighting: when the loop settles, the curve is the expectile curve, and the expectile
    curve commutes with adding a constant (the objective only sees y - z and second differences) *)
Definition shiftr (c : R) (l : list R) : list R := map (fun v => v + c) l.

Lemma atl_shift (l : list R) c i : (0 <= i < Z.of_nat (length l))%Z -> atl (shiftr c l) i = atl l i + c.
Proof.
  intros Hi. unfold atl, vecZ, shiftr. replace (i <? 0)%Z with false by lia.
  rewrite (nth_indep (map (fun v => v + c) l) 0 (0 + c)) by (rewrite map_length; lia). apply (map_nth (fun v => v + c)).
Qed.

Lemma expectile_objective_shift p lam (w y z : list R) c :
  (2 <= length y)%nat -> length z = length y ->
  expectile_objective p (shiftr c y) w lam (shiftr c z) = expectile_objective p y w lam z.
Proof.
  intros Hn Hz. unfold expectile_objective, Aobj.
  assert (length (shiftr c y) = length y) as -> by apply map_length. f_equal.
  - apply sumn_ext. intros i Hi. rewrite !atl_shift by (rewrite ?Hz; lia).
    replace (atl y i + c - (atl z i + c)) with (atl y i - atl z i) by ring. reflexivity.
  - f_equal. apply sumn_ext. intros j Hj. unfold D2. rewrite !atl_shift by (rewrite Hz; lia). f_equal. ring.
Qed.

Theorem expectile_curve_shift p lam (w y z1 z2 : list R) c :
  0 < p < 1 -> 0 < lam -> (4 <= length y)%nat -> length w = length y -> length z1 = length y -> length z2 = length y ->
  (forall i, (0 <= i < Z.of_nat (length y))%Z -> 0 <= atl w i) ->
  (exists a b, (0 <= a < b)%Z /\ (b < Z.of_nat (length y))%Z /\ 0 < atl w a /\ 0 < atl w b) ->
  z1 = ws2d OpsR y lam (asym_weights OpsR p (1 - p) w y z1) ->
  z2 = ws2d OpsR (shiftr c y) lam (asym_weights OpsR p (1 - p) w (shiftr c y) z2) ->
  z2 = shiftr c z1.
Proof.
  intros Hp Hlam Hn Hw H1 H2 Wn W2 F1 F2.
  assert (length (shiftr c y) = length y) as Ly by apply map_length.
  assert (length (shiftr c z1) = length y) as L1 by (unfold shiftr; rewrite map_length; exact H1).
  (* z2 is the unique minimiser for the shifted data; shift z1 attains a value not above it *)
  destruct (fixed_point_is_expectile p lam w (shiftr c y) z2 Hp Hlam ltac:(rewrite Ly; exact Hn) ltac:(rewrite Ly; exact Hw) ltac:(rewrite Ly; exact H2)
              ltac:(rewrite Ly; exact Wn) ltac:(rewrite Ly; exact W2) F2 (shiftr c z1) ltac:(rewrite Ly; exact L1)) as [Hmin Huniq].
  destruct (fixed_point_is_expectile p lam w y z1 Hp Hlam Hn Hw H1 Wn W2 F1 (map (fun v => v - c) z2) ltac:(rewrite map_length; exact H2)) as [Hmin1 _].
  rewrite (expectile_objective_shift p lam w y z1 c ltac:(lia) H1) in Hmin, Huniq.
  (* A_y(z2 - c) = A_{y+c}(z2) *)
  assert (shiftr c (map (fun v => v - c) z2) = z2) as Back.
  { unfold shiftr. rewrite map_map. rewrite (map_ext (fun v => v - c + c) (fun v => v)) by (intros; ring). apply map_id. }
  pose proof (expectile_objective_shift p lam w y (map (fun v => v - c) z2) c ltac:(lia) ltac:(rewrite map_length; exact H2)) as E. rewrite Back in E.
  symmetry. apply Huniq. lra.
Qed.

(** and with reversing time *)
From HDC Require Import Proofs.Ws2dLaws.

Lemma atl_rev (l : list R) i : (0 <= i < Z.of_nat (length l))%Z -> atl (rev l) i = atl l (Z.of_nat (length l) - 1 - i).
Proof. intros Hi. unfold atl. apply vecZ_rev. exact Hi. Qed.

Lemma expectile_objective_rev p lam (w y z : list R) :
  (2 <= length y)%nat -> length z = length y -> length w = length y ->
  expectile_objective p (rev y) (rev w) lam (rev z) = expectile_objective p y w lam z.
Proof.
  intros Hn Hz Hw. unfold expectile_objective, Aobj. rewrite rev_length. set (n := length y) in *. f_equal.
  - rewrite <- (sumn_rev (fun i => atl w i * rho p (atl y i - atl z i)) n).
    apply sumn_ext. intros i Hi. rewrite !atl_rev by (rewrite ?Hz, ?Hw; fold n; lia). rewrite Hz, Hw. fold n. reflexivity.
  - f_equal. rewrite <- (sumn_rev (fun j => D2 (atl z) j ^ 2) (n - 2)).
    apply sumn_ext. intros j Hj. unfold D2. rewrite !atl_rev by (rewrite Hz; fold n; lia). rewrite Hz. fold n.
    replace (Z.of_nat n - 1 - j)%Z with (Z.of_nat (n - 2) - 1 - j + 2)%Z by lia.
    replace (Z.of_nat n - 1 - (j + 1))%Z with (Z.of_nat (n - 2) - 1 - j + 1)%Z by lia.
    replace (Z.of_nat n - 1 - (j + 2))%Z with (Z.of_nat (n - 2) - 1 - j)%Z by lia.
    f_equal. ring.
Qed.

Theorem expectile_curve_rev p lam (w y z1 z2 : list R) :
  0 < p < 1 -> 0 < lam -> (4 <= length y)%nat -> length w = length y -> length z1 = length y -> length z2 = length y ->
  (forall i, (0 <= i < Z.of_nat (length y))%Z -> 0 <= atl w i) ->
  (exists a b, (0 <= a < b)%Z /\ (b < Z.of_nat (length y))%Z /\ 0 < atl w a /\ 0 < atl w b) ->
  z1 = ws2d OpsR y lam (asym_weights OpsR p (1 - p) w y z1) ->
  z2 = ws2d OpsR (rev y) lam (asym_weights OpsR p (1 - p) (rev w) (rev y) z2) ->
  z2 = rev z1.
Proof.
  intros Hp Hlam Hn Hw H1 H2 Wn W2 F1 F2.
  set (n := length y) in *.
  assert (length (rev y) = n) as Ly by apply rev_length.
  assert (length (rev w) = n) as Lw by (rewrite rev_length; exact Hw).
  assert (forall i, (0 <= i < Z.of_nat n)%Z -> 0 <= atl (rev w) i) as Wn'.
  { intros i Hi. rewrite atl_rev by (rewrite Hw; fold n; lia). apply Wn. rewrite Hw. fold n. lia. }
  assert (exists a b, (0 <= a < b)%Z /\ (b < Z.of_nat n)%Z /\ 0 < atl (rev w) a /\ 0 < atl (rev w) b) as W2'.
  { destruct W2 as (a & b & Hab & Hb & Wa & Wb). exists (Z.of_nat n - 1 - b)%Z, (Z.of_nat n - 1 - a)%Z.
    repeat split; try lia; rewrite atl_rev by (rewrite Hw; fold n; lia); rewrite Hw; fold n.
    - replace (Z.of_nat n - 1 - (Z.of_nat n - 1 - b))%Z with b by lia. exact Wb.
    - replace (Z.of_nat n - 1 - (Z.of_nat n - 1 - a))%Z with a by lia. exact Wa. }
  destruct (fixed_point_is_expectile p lam (rev w) (rev y) z2 Hp Hlam ltac:(rewrite Ly; exact Hn) ltac:(rewrite Ly; exact Lw) ltac:(rewrite Ly; exact H2)
              ltac:(rewrite Ly; exact Wn') ltac:(rewrite Ly; exact W2') F2 (rev z1) ltac:(rewrite Ly, rev_length; exact H1)) as [Hmin Huniq].
  destruct (fixed_point_is_expectile p lam w y z1 Hp Hlam Hn Hw H1 Wn W2 F1 (rev z2) ltac:(rewrite rev_length; exact H2)) as [Hmin1 _].
  rewrite (expectile_objective_rev p lam w y z1 ltac:(fold n; lia) H1 Hw) in Hmin, Huniq.
  pose proof (expectile_objective_rev p lam w y (rev z2) ltac:(fold n; lia) ltac:(rewrite rev_length; exact H2) Hw) as E. rewrite rev_involutive in E.
  symmetry. apply Huniq. lra.
Qed.
