(** C18 — Run-length statistics equal the longest / current run of ones. Statements only. *)
From HDC Require Import Base.Prelude Model.Lroo Proofs.LrooProofs.
From Coq Require Import Sorting.Permutation Sorting.Sorted.
Open Scope Z_scope.

(** [longest_run l L]: every run of ones of [l] has length <= L and some run has length L
    ([is_run l i n]: positions i .. i+n-1 exist and hold 1).  It exists and is unique for every l. *)
Theorem C18_longest_run_exists_unique : forall l,
  (exists L, longest_run l L) /\ (forall L1 L2, longest_run l L1 -> longest_run l L2 -> L1 = L2).
Proof. intros l. split; [exists (scan l 0 0); exact (scan_is_longest l)|exact (longest_run_unique l)]. Qed.
Print Assumptions C18_longest_run_exists_unique.

(** lroo = L if L >= 2 else 0, for runs of any length the (32-bit) output can hold: no wrapping *)
Theorem C18_lroo_is_longest_run : forall l L,
  longest_run l L -> Z.of_nat (length l) < 2 ^ 32 -> lroo l = if 2 <=? L then L else 0.
Proof. exact lroo_no_wrap. Qed.
Print Assumptions C18_lroo_is_longest_run.

(** croo: for pairwise distinct time stamps and a binary series, the result is the number of
    leading ones of the time-descending arrangement = the run ending at the latest step *)
Theorem C18_croo_is_current_run : forall s arranged,
  Permutation s arranged -> StronglySorted tdesc arranged -> NoDup (map fst s) -> binary (map snd s) ->
  croo s = leading_ones (map snd arranged).
Proof. exact croo_is_current_run. Qed.
Print Assumptions C18_croo_is_current_run.

Theorem C18_leading_ones_is_run : forall v,
  let n := Z.to_nat (leading_ones v) in
  0 <= leading_ones v /\ is_run v 0 n /\ ((n < length v)%nat -> nth n v 0 <> 1).
Proof. exact leading_ones_spec. Qed.
Print Assumptions C18_leading_ones_is_run.

(** regardless of the order in which time steps are stored *)
Theorem C18_croo_perm_inv : forall s1 s2,
  Permutation s1 s2 -> NoDup (map fst s1) -> croo s1 = croo s2.
Proof. exact croo_perm_inv. Qed.
Print Assumptions C18_croo_perm_inv.

Theorem C18_croo_le_lroo : forall times vals,
  length times = length vals -> StronglySorted Z.lt times -> binary vals ->
  Z.of_nat (length vals) < 2 ^ 32 ->
  croo (combine times vals) <= Z.max (lroo vals) 1.
Proof. exact croo_le_lroo. Qed.
Print Assumptions C18_croo_le_lroo.

(** laws of the longest run, hence of lroo: reading the series backwards changes nothing ... *)
Theorem C18_lroo_time_reversal : forall l, lroo (rev l) = lroo l.
Proof. intros l. unfold lroo. now rewrite lroo_rev. Qed.
Print Assumptions C18_lroo_time_reversal.

(** ... more data on either side never shortens it ... *)
Theorem C18_longest_run_extension : forall a b La Lb L,
  longest_run a La -> longest_run b Lb -> longest_run (a ++ b) L -> La <= L /\ Lb <= L.
Proof. exact longest_run_app_mono. Qed.
Print Assumptions C18_longest_run_extension.

(** ... and a value other than 1 (0, nodata, 2, ...) separates: runs never cross it *)
Theorem C18_longest_run_separator : forall a b x La Lb,
  x <> 1 -> longest_run a La -> longest_run b Lb -> longest_run (a ++ x :: b) (Z.max La Lb).
Proof. exact longest_run_split. Qed.
Print Assumptions C18_longest_run_separator.

(** the longest run is 0 exactly when the series holds no 1 at all *)
Theorem C18_no_ones_no_run : forall l L, longest_run l L -> (L = 0 <-> ~ In 1 l).
Proof. exact longest_run_zero. Qed.
Print Assumptions C18_no_ones_no_run.

Example C18_example :
  lroo [0; 1; 1; 0; 1; 1; 1; 0; 1] = 3 /\ lroo [1; 0; 1; 0] = 0 /\
  croo [(3, 1); (1, 1); (2, 0); (4, 1)] = 2 /\ croo [(1, 1); (2, 1); (3, 0)] = 0 /\
  longest_run [1; 1] 2.
Proof.
  repeat split; try (vm_compute; reflexivity).
  - intros i n [H1 H2]. cbn in H1. lia.
  - exists 0%nat, 2%nat. split; [split; [cbn; lia|]|reflexivity].
    intros [|[|j]] Hj; try reflexivity. lia.
Qed.

(** Before the fix: the output was uint8 and 256 consecutive ones were reported as 0. *)
Theorem C18_lroo_wrapped_before_fix :
  exists l, longest_run l 256 /\ lroo_before_fix l = 0 /\ lroo l = 256.
Proof.
  exists (repeat 1 256). split; [|split; vm_compute; reflexivity].
  assert (scan (repeat 1 256) 0 0 = 256) as E by (vm_compute; reflexivity).
  rewrite <- E. apply scan_is_longest.
Qed.
Print Assumptions C18_lroo_wrapped_before_fix.
