(** Proofs about [Model/Lroo.v] (property C18). *)
From HDC Require Import Base.Prelude Base.ListLemmas Model.Lroo.
From Coq Require Import Sorting.Permutation Sorting.Sorted.
Open Scope Z_scope.

(** ** Part 1: the position-based loop equals a plain left-to-right scan, thresholded at 2 *)
Fixpoint scan (l : list Z) (cur best : Z) : Z :=
  match l with
  | [] => best
  | x :: r => if x =? 1 then scan r (cur + 1) (Z.max best (cur + 1)) else scan r 0 best
  end.

Definition thr (v : Z) : Z := if 2 <=? v then v else 0.

Lemma thr_idem v : thr (thr v) = thr v.
Proof. unfold thr. destruct (2 <=? v) eqn:E; [rewrite E; reflexivity|reflexivity]. Qed.

Lemma loop_scan l : forall off prev cr mr best,
  prev < off -> 1 <= cr -> (prev = off - 1 -> cr <= best) -> 0 <= best -> mr = thr best ->
  lroo_loop (dots_from off l) prev cr mr = thr (scan l (if prev =? off - 1 then cr else 0) best).
Proof.
  induction l as [|x r IH]; intros off prev cr mr best Hp Hc Hcb Hb Hm; cbn [dots_from lroo_loop scan].
  - exact Hm.
  - destruct (x =? 1) eqn:Ex; cbn [lroo_loop].
    + destruct (off - prev =? 1) eqn:Ed.
      * assert (prev = off - 1) as Hpe by lia.
        replace (prev =? off - 1) with true by lia.
        rewrite (IH (off + 1) off (cr + 1) _ (Z.max best (cr + 1))); try lia.
        -- replace (off =? off + 1 - 1) with true by lia. reflexivity.
        -- specialize (Hcb Hpe). subst mr. unfold thr.
           destruct (2 <=? best) eqn:E1; destruct (2 <=? Z.max best (cr + 1)) eqn:E2;
             destruct (cr + 1 >? _) eqn:E3; lia.
      * replace (prev =? off - 1) with false by lia.
        rewrite (IH (off + 1) off 1 mr (Z.max best 1)); try lia.
        -- replace (off =? off + 1 - 1) with true by lia. replace (0 + 1) with 1 by lia. reflexivity.
        -- subst mr. unfold thr. destruct (2 <=? best) eqn:E1; destruct (2 <=? Z.max best 1) eqn:E2; lia.
    + rewrite (IH (off + 1) prev cr mr best); try lia.
      replace (prev =? off + 1 - 1) with false by lia. reflexivity.
Qed.

Lemma count_from l : forall off,
  match dots_from off l with
  | [] => 0
  | d0 :: r => let mr := lroo_loop r d0 1 0 in if mr >? 1 then mr else 0
  end = thr (scan l 0 0).
Proof.
  induction l as [|x r IH]; intros off; cbn [dots_from scan].
  - reflexivity.
  - destruct (x =? 1) eqn:Ex.
    + cbn zeta. rewrite (loop_scan r (off + 1) off 1 0 1); try lia; [|reflexivity].
      replace (off =? off + 1 - 1) with true by lia. cbn [Z.add Z.max Z.compare Pos.compare Pos.compare_cont].
      change (Z.max 0 1) with 1. change (0 + 1) with 1.
      set (v := scan r 1 1). unfold thr. destruct (2 <=? v) eqn:E.
      * replace (v >? 1) with true by lia. reflexivity.
      * reflexivity.
    + apply IH.
Qed.

Lemma lroo_count_scan l : lroo_count l = thr (scan l 0 0).
Proof. unfold lroo_count. apply (count_from l 0). Qed.

(** ** Part 2: the scan computes the longest run, stated declaratively *)
Definition is_run (l : list Z) (i n : nat) : Prop :=
  (i + n <= length l)%nat /\ forall j, (i <= j < i + n)%nat -> nth j l 0 = 1.

Lemma is_run_tail x r i n : is_run (x :: r) (S i) n <-> is_run r i n.
Proof.
  unfold is_run; cbn [length]. split; intros [H1 H2]; split; try lia.
  - intros j Hj. apply (H2 (S j)). lia.
  - intros [|j] Hj; [lia|]. cbn [nth]. apply H2. lia.
Qed.

Lemma is_run_head x r n : is_run (x :: r) 0 (S n) <-> x = 1 /\ is_run r 0 n.
Proof.
  unfold is_run; cbn [length]. split.
  - intros [H1 H2]. split; [apply (H2 0%nat); lia|]. split; [lia|]. intros j Hj. apply (H2 (S j)). lia.
  - intros [Hx [H1 H2]]. split; [lia|]. intros [|j] Hj; [exact Hx|]. cbn [nth]. apply H2. lia.
Qed.

Lemma scan_upper l : forall cur best i n,
  0 <= cur <= best -> is_run l i n ->
  (if (i =? 0)%nat then cur + Z.of_nat n else Z.of_nat n) <= scan l cur best /\ best <= scan l cur best.
Proof.
  induction l as [|x r IH]; intros cur best i n Hc Hr; cbn [scan].
  - destruct Hr as [H1 _]. cbn [length] in H1. assert (n = 0%nat) by lia. subst n.
    destruct (i =? 0)%nat; lia.
  - destruct i as [|i].
    + destruct n as [|n].
      * cbn. destruct (x =? 1).
        -- assert (is_run r 0 0) as R0 by (split; [lia|intros; lia]).
           destruct (IH (cur + 1) (Z.max best (cur + 1)) 0%nat 0%nat ltac:(lia) R0). lia.
        -- assert (is_run r 0 0) as R0 by (split; [lia|intros; lia]).
           destruct (IH 0 best 0%nat 0%nat ltac:(lia) R0). lia.
      * apply is_run_head in Hr as [Hx Hr]. subst x. cbn [Z.eqb Pos.eqb Nat.eqb].
        destruct (IH (cur + 1) (Z.max best (cur + 1)) 0%nat n ltac:(lia) Hr) as [A B].
        cbn [Nat.eqb] in A. lia.
    + apply is_run_tail in Hr. cbn [Nat.eqb]. destruct (x =? 1).
      * destruct (IH (cur + 1) (Z.max best (cur + 1)) i n ltac:(lia) Hr) as [A B].
        destruct (i =? 0)%nat; lia.
      * destruct (IH 0 best i n ltac:(lia) Hr) as [A B]. destruct (i =? 0)%nat; lia.
Qed.

Lemma scan_attained l : forall cur best,
  0 <= cur <= best ->
  scan l cur best = best \/
  (exists n, is_run l 0 n /\ scan l cur best = cur + Z.of_nat n) \/
  (exists i n, is_run l i n /\ scan l cur best = Z.of_nat n).
Proof.
  induction l as [|x r IH]; intros cur best Hc; cbn [scan].
  - now left.
  - destruct (x =? 1) eqn:Ex.
    + apply Z.eqb_eq in Ex. subst x.
      destruct (IH (cur + 1) (Z.max best (cur + 1)) ltac:(lia)) as [E|[(n & R & E)|(i & n & R & E)]].
      * destruct (Z.max_spec best (cur + 1)) as [[_ M]|[_ M]].
        -- right; left. exists 1%nat. split; [apply is_run_head; split; [reflexivity|split; [cbn; lia|intros; lia]]|].
           rewrite E, M. lia.
        -- left. rewrite E, M. reflexivity.
      * right; left. exists (S n). split; [apply is_run_head; split; [reflexivity|exact R]|lia].
      * right; right. exists (S i), n. split; [apply is_run_tail; exact R|exact E].
    + destruct (IH 0 best ltac:(lia)) as [E|[(n & R & E)|(i & n & R & E)]].
      * now left.
      * right; right. exists 1%nat, n. split; [apply is_run_tail; exact R|lia].
      * right; right. exists (S i), n. split; [apply is_run_tail; exact R|exact E].
Qed.

(** [L] is the length of the longest run of ones of [l] *)
Definition longest_run (l : list Z) (L : Z) : Prop :=
  (forall i n, is_run l i n -> Z.of_nat n <= L) /\ (exists i n, is_run l i n /\ Z.of_nat n = L).

Lemma scan_is_longest l : longest_run l (scan l 0 0).
Proof.
  split.
  - intros i n R. destruct (scan_upper l 0 0 i n ltac:(lia) R) as [A _]. destruct (i =? 0)%nat; lia.
  - destruct (scan_attained l 0 0 ltac:(lia)) as [E|[(n & R & E)|(i & n & R & E)]].
    + exists 0%nat, 0%nat. split; [split; [lia|intros; lia]|lia].
    + exists 0%nat, n. split; [exact R|lia].
    + exists i, n. split; [exact R|lia].
Qed.

Lemma longest_run_unique l L1 L2 : longest_run l L1 -> longest_run l L2 -> L1 = L2.
Proof.
  intros [U1 (i1 & n1 & R1 & E1)] [U2 (i2 & n2 & R2 & E2)].
  pose proof (U1 _ _ R2). pose proof (U2 _ _ R1). lia.
Qed.

Lemma longest_run_le_length l L : longest_run l L -> 0 <= L <= Z.of_nat (length l).
Proof. intros [_ (i & n & [R _] & E)]. lia. Qed.

Lemma lroo_count_spec l L : longest_run l L -> lroo_count l = if 2 <=? L then L else 0.
Proof.
  intros H. rewrite lroo_count_scan. rewrite (longest_run_unique l L _ H (scan_is_longest l)). reflexivity.
Qed.

Lemma lroo_no_wrap l L :
  longest_run l L -> Z.of_nat (length l) < 2 ^ 32 -> lroo l = if 2 <=? L then L else 0.
Proof.
  intros H Hlen. unfold lroo, lroo_store. rewrite (lroo_count_spec l L H).
  pose proof (longest_run_le_length l L H). apply Z.mod_small. destruct (2 <=? L); lia.
Qed.

(** ** Part 3: croo *)
Fixpoint leading_ones (v : list Z) : Z :=
  match v with
  | x :: r => if x =? 1 then 1 + leading_ones r else 0
  | [] => 0
  end.

Definition unnan (o : option Z) : Z := match o with Some v => v | None => 0 end.

Lemma cumsum_none v : map unnan (cumsum_nan v None) = map (fun _ => 0) v.
Proof. induction v as [|x r IH]; [reflexivity|]. cbn. now rewrite IH. Qed.

Lemma argmax_zeros (v : list Z) : forall i besti best, 0 <= best ->
  argmax_from (map (fun _ => 0) v) i besti best = besti.
Proof.
  induction v as [|x r IH]; intros i besti best Hb; [reflexivity|]. cbn [map argmax_from].
  replace (0 >? best) with false by lia. now apply IH.
Qed.

Definition binary (v : list Z) : Prop := Forall (fun x => x = 0 \/ x = 1) v.

Lemma argmax_cumsum v : forall a i besti,
  binary v -> 0 <= a -> i = besti + 1 ->
  argmax_from (map unnan (cumsum_nan v (Some a))) i besti a = besti + leading_ones v.
Proof.
  induction v as [|x r IH]; intros a i besti Hb Ha Hi; cbn [cumsum_nan map argmax_from leading_ones].
  - lia.
  - inversion Hb as [|? ? [Hx|Hx] Hr]; subst x; cbn [Z.eqb Pos.eqb unnan].
    + rewrite cumsum_none. replace (0 >? a) with false by lia. rewrite argmax_zeros by lia. lia.
    + replace (a + 1 >? a) with true by lia. rewrite (IH (a + 1) (i + 1) i Hr); lia.
Qed.

Lemma croo_sorted_spec v : binary v -> croo_sorted v = leading_ones v.
Proof.
  intros Hb. unfold croo_sorted.
  change (fun o : option Z => match o with Some v => v | None => 0 end) with unnan.
  destruct v as [|x r]; [reflexivity|].
  inversion Hb as [|? ? [Hx|Hx] Hr]; subst x; cbn [cumsum_nan map hd leading_ones Z.eqb Pos.eqb argmax unnan].
  - rewrite cumsum_none, argmax_zeros by lia. reflexivity.
  - change (0 + 1) with 1. rewrite (argmax_cumsum r 1 1 0 Hr); lia.
Qed.

(** declarative reading of [leading_ones]: the first [n] values are 1 and the next one is not *)
Lemma leading_ones_spec v :
  let n := Z.to_nat (leading_ones v) in
  0 <= leading_ones v /\ is_run v 0 n /\ ((n < length v)%nat -> nth n v 0 <> 1).
Proof.
  induction v as [|x r IH]; cbn [leading_ones].
  - cbn. split; [lia|split; [split; [cbn; lia|intros; lia]|intros; lia]].
  - destruct (x =? 1) eqn:Ex.
    + destruct IH as (P & R & N). apply Z.eqb_eq in Ex.
      replace (Z.to_nat (1 + leading_ones r)) with (S (Z.to_nat (leading_ones r))) by lia.
      split; [lia|split].
      * apply is_run_head. split; assumption.
      * cbn [length nth]. intros H. apply N. lia.
    + cbn. split; [lia|split; [split; [lia|intros; lia]|]]. intros _. apply Z.eqb_neq in Ex. exact Ex.
Qed.

(** uniqueness of the time-descending arrangement when time stamps are distinct *)
Definition tdesc (a b : Z * Z) : Prop := fst b <= fst a.

Lemma sorted_perm_unique (l1 : list (Z * Z)) : forall l2,
  StronglySorted tdesc l1 -> StronglySorted tdesc l2 -> Permutation l1 l2 -> NoDup (map fst l1) -> l1 = l2.
Proof.
  induction l1 as [|a l1 IH]; intros l2 S1 S2 P ND.
  - apply Permutation_nil in P. now subst.
  - destruct l2 as [|b l2]; [apply Permutation_sym, Permutation_nil in P; discriminate|].
    inversion S1 as [|? ? S1' F1]; subst. inversion S2 as [|? ? S2' F2]; subst.
    assert (a = b) as ->.
    { assert (In a (b :: l2)) as Ia by (eapply Permutation_in; [exact P|now left]).
      assert (In b (a :: l1)) as Ib by (eapply Permutation_in; [apply Permutation_sym; exact P|now left]).
      destruct Ia as [->|Ia]; [reflexivity|]. destruct Ib as [->|Ib]; [reflexivity|].
      rewrite Forall_forall in F1, F2. pose proof (F1 _ Ib) as H1. pose proof (F2 _ Ia) as H2.
      unfold tdesc in *. assert (fst a = fst b) as Ef by lia.
      inversion ND as [|? ? Hn _]; subst. exfalso. apply Hn. rewrite Ef. now apply in_map. }
    f_equal. apply IH; try assumption.
    + eapply Permutation_cons_inv; exact P.
    + now inversion ND.
Qed.

Lemma tdesc_trans : Relations_1.Transitive (fun a b => is_true (TimeDesc.leb a b)).
Proof. intros a b c. unfold TimeDesc.leb, is_true. rewrite !Z.leb_le. lia. Qed.

Lemma sort_strongly (s : list (Z * Z)) : StronglySorted tdesc (SortDesc.sort s).
Proof.
  pose proof (SortDesc.StronglySorted_sort s tdesc_trans) as H.
  induction H as [|a l _ IH F]; constructor; [exact IH|].
  eapply Forall_impl; [|exact F]. intros b Hb. unfold tdesc. unfold is_true, TimeDesc.leb in Hb.
  now apply Z.leb_le.
Qed.

Lemma croo_perm_inv s1 s2 :
  Permutation s1 s2 -> NoDup (map fst s1) -> croo s1 = croo s2.
Proof.
  intros P ND. unfold croo. f_equal. f_equal.
  apply sorted_perm_unique; try apply sort_strongly.
  - eapply Permutation_trans; [apply Permutation_sym, SortDesc.Permuted_sort|].
    eapply Permutation_trans; [exact P|apply SortDesc.Permuted_sort].
  - eapply Permutation_NoDup; [|exact ND]. apply Permutation_map, SortDesc.Permuted_sort.
Qed.

(** the sort really is "chronologically latest first": any time-descending arrangement of the
    stored steps is the one croo uses *)
Lemma croo_uses_time_order s arranged :
  Permutation s arranged -> StronglySorted tdesc arranged -> NoDup (map fst s) ->
  croo s = croo_sorted (map snd arranged).
Proof.
  intros P S ND. unfold croo. f_equal. f_equal. apply sorted_perm_unique; try assumption.
  - apply sort_strongly.
  - eapply Permutation_trans; [apply Permutation_sym, SortDesc.Permuted_sort|exact P].
  - eapply Permutation_NoDup; [|exact ND]. apply Permutation_map, SortDesc.Permuted_sort.
Qed.

Lemma croo_is_current_run s arranged :
  Permutation s arranged -> StronglySorted tdesc arranged -> NoDup (map fst s) -> binary (map snd s) ->
  croo s = leading_ones (map snd arranged).
Proof.
  intros P S ND B. rewrite (croo_uses_time_order s arranged P S ND). apply croo_sorted_spec.
  unfold binary in *. eapply Permutation_Forall; [|exact B]. now apply Permutation_map.
Qed.

(** chronologically stored series: croo <= max (lroo, 1) *)
Lemma is_run_rev v n : is_run (rev v) 0 n -> is_run v (length v - n) n.
Proof.
  intros [H1 H2]. rewrite rev_length in H1. split; [lia|]. intros j Hj.
  specialize (H2 (length v - 1 - j)%nat ltac:(lia)).
  rewrite rev_nth in H2 by lia. replace (length v - S (length v - 1 - j))%nat with j in H2 by lia. exact H2.
Qed.

(** ** time reversal and extension: laws of the longest run, hence of lroo *)
Lemma is_run_rev_gen v i n : is_run v i n -> is_run (rev v) (length v - i - n) n.
Proof.
  intros [H1 H2]. split; [rewrite rev_length; lia|]. intros j Hj.
  rewrite rev_nth by lia. apply H2. lia.
Qed.

Lemma longest_run_rev l L : longest_run l L -> longest_run (rev l) L.
Proof.
  intros [U (i & n & R & E)]. split.
  - intros i' n' R'. apply is_run_rev_gen in R'. rewrite rev_involutive in R'. exact (U _ _ R').
  - exists (length l - i - n)%nat, n. split; [now apply is_run_rev_gen|exact E].
Qed.

(** reading the series backwards gives the same lroo *)
Theorem lroo_rev l : lroo_count (rev l) = lroo_count l.
Proof.
  rewrite (lroo_count_spec (rev l) _ (longest_run_rev _ _ (scan_is_longest l))).
  now rewrite (lroo_count_spec l _ (scan_is_longest l)).
Qed.

Lemma is_run_app_l a b i n : is_run a i n -> is_run (a ++ b) i n.
Proof.
  intros [H1 H2]. split; [rewrite app_length; lia|]. intros j Hj. rewrite app_nth1 by lia. now apply H2.
Qed.

Lemma is_run_app_r a b i n : is_run b i n -> is_run (a ++ b) (length a + i) n.
Proof.
  intros [H1 H2]. split; [rewrite app_length; lia|]. intros j Hj. rewrite app_nth2 by lia. apply H2. lia.
Qed.

(** more data never shortens the longest run: the longest run of a concatenation is at least
    that of each part (lroo before thresholding is monotone under extension on either side) *)
Theorem longest_run_app_mono a b La Lb L :
  longest_run a La -> longest_run b Lb -> longest_run (a ++ b) L -> La <= L /\ Lb <= L.
Proof.
  intros [_ (i & n & R & E)] [_ (i' & n' & R' & E')] [U _]. split.
  - rewrite <- E. apply (U i n). now apply is_run_app_l.
  - rewrite <- E'. apply (U (length a + i')%nat n'). now apply is_run_app_r.
Qed.

(** a non-one value separates: runs never cross it, so the longest run of [a ++ x :: b] (x <> 1)
    is the larger of the two sides *)
Theorem longest_run_split a b x La Lb :
  x <> 1 -> longest_run a La -> longest_run b Lb -> longest_run (a ++ x :: b) (Z.max La Lb).
Proof.
  intros Hx [Ua (ia & na & Ra & Ea)] [Ub (ib & nb & Rb & Eb)]. split.
  - intros i n [H1 H2]. rewrite app_length in H1. cbn [length] in H1.
    destruct (Nat.le_gt_cases (i + n) (length a)) as [Hl|Hl].
    + assert (is_run a i n) as R.
      { split; [exact Hl|]. intros j Hj. rewrite <- (H2 j Hj). rewrite app_nth1 by lia. reflexivity. }
      pose proof (Ua _ _ R). lia.
    + destruct (Nat.le_gt_cases i (length a)) as [Hi|Hi].
      * exfalso. apply Hx. rewrite <- (H2 (length a) ltac:(lia)). rewrite app_nth2 by lia.
        replace (length a - length a)%nat with 0%nat by lia. reflexivity.
      * assert (is_run b (i - length a - 1) n) as R.
        { split; [lia|]. intros j Hj. rewrite <- (H2 (length a + 1 + j)%nat ltac:(lia)). rewrite app_nth2 by lia.
          replace (length a + 1 + j - length a)%nat with (S j) by lia. reflexivity. }
        pose proof (Ub _ _ R). lia.
  - destruct (Z.max_spec La Lb) as [[_ ->]|[_ ->]].
    + exists (length a + S ib)%nat, nb. split; [|exact Eb].
      apply (is_run_app_r a (x :: b)). now apply is_run_tail.
    + exists ia, na. split; [|exact Ea]. now apply is_run_app_l.
Qed.

(** no run at all exactly when the series holds no 1 *)
Lemma longest_run_zero l L : longest_run l L -> (L = 0 <-> ~ In 1 l).
Proof.
  intros [U (i & n & R & E)]. split.
  - intros -> H. apply In_nth with (d := 0) in H. destruct H as (j & Hj & Ej).
    assert (is_run l j 1) as R1. { split; [lia|]. intros k Hk. replace k with j by lia. exact Ej. }
    specialize (U _ _ R1). lia.
  - intros H. destruct n as [|n]; [lia|]. exfalso. apply H. destruct R as [R1 R2].
    rewrite <- (R2 i ltac:(lia)). apply nth_In. lia.
Qed.

Lemma ss_snoc (l : list (Z * Z)) x :
  StronglySorted tdesc l -> Forall (fun p => fst x <= fst p) l -> StronglySorted tdesc (l ++ [x]).
Proof.
  induction 1 as [|a l S IH Fa]; intros F; cbn.
  - constructor; constructor.
  - inversion F as [|? ? Ha Fl]; subst. constructor; [now apply IH|].
    apply Forall_app. split; [exact Fa|]. constructor; [exact Ha|constructor].
Qed.

Lemma rev_chrono_sorted times : forall vals,
  length times = length vals -> StronglySorted Z.lt times ->
  StronglySorted tdesc (rev (combine times vals)) /\ NoDup (map fst (combine times vals)).
Proof.
  induction times as [|t ts IH]; intros [|v vs] Hl St; try discriminate; cbn [combine rev map].
  - split; constructor.
  - injection Hl as Hl. inversion St as [|? ? St' F]; subst. destruct (IH vs Hl St') as [S ND].
    assert (forall p, In p (combine ts vs) -> t < fst p) as Lt.
    { intros [a b] Hin. apply in_combine_l in Hin. rewrite Forall_forall in F. cbn. now apply F. }
    split.
    + apply ss_snoc; [exact S|]. apply Forall_rev. apply Forall_forall. intros p Hin. cbn [fst].
      specialize (Lt p Hin). lia.
    + cbn [fst]. constructor; [|exact ND]. intros Hin. apply in_map_iff in Hin as (p & E & Hin).
      specialize (Lt p Hin). lia.
Qed.

Lemma map_snd_combine (times : list Z) : forall vals : list Z,
  length times = length vals -> map snd (combine times vals) = vals.
Proof.
  induction times as [|t ts IH]; intros [|v vs] Hl; try discriminate; cbn; [reflexivity|].
  f_equal. apply IH. now injection Hl.
Qed.

Lemma croo_le_lroo times vals :
  length times = length vals -> StronglySorted Z.lt times -> binary vals ->
  Z.of_nat (length vals) < 2 ^ 32 ->
  croo (combine times vals) <= Z.max (lroo vals) 1.
Proof.
  intros Hl St Hb Hlen.
  destruct (rev_chrono_sorted times vals Hl St) as [Sr ND].
  assert (binary (map snd (combine times vals))) as Hb' by (now rewrite map_snd_combine).
  rewrite (croo_is_current_run _ (rev (combine times vals)) (Permutation_rev _) Sr ND Hb').
  rewrite map_rev, map_snd_combine by exact Hl.
  destruct (leading_ones_spec (rev vals)) as (P & R & _).
  apply is_run_rev in R.
  destruct (scan_is_longest vals) as [U _]. specialize (U _ _ R).
  rewrite (lroo_no_wrap vals _ (scan_is_longest vals) Hlen).
  destruct (2 <=? scan vals 0 0) eqn:E; lia.
Qed.
