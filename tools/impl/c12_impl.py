"""C12: every accessor operation on numpy- vs dask-backed cubes under chunkings x schedulers x dimension orders, pixel
permutations, chunked time, joint evaluation of lazy results; prange kernel under thread counts; N threads racing on the
first call of lazily compiled kernels.  mode = configs | race (one process each)."""
import hashlib
import json
import sys
import threading
import warnings

import numpy as np

warnings.filterwarnings("ignore")
import dask  # noqa: E402
import pandas as pd  # noqa: E402
import xarray as xr  # noqa: E402
import hdc.algo  # noqa: F401,E402

ORDERS = [("time", "y", "x"), ("y", "x", "time"), ("y", "time", "x")]
NY, NX = 3, 4


def cube(rng, kind, nt):
    t = pd.date_range("2020-01-01", periods=nt, freq="10D")
    if kind == "ndvi":
        v = (4000 + 2500 * np.sin(np.arange(nt)[:, None, None] / 5.0 + rng.uniform(0, 6, (1, NY, NX))) + rng.normal(0, 300, (nt, NY, NX))).round()
        v[rng.random(v.shape) < 0.15] = -3000
        v[:, 0, 0] = -3000
        a = v.astype("int16")
        nd = -3000
    elif kind == "rain":
        v = rng.gamma(2.0, 40.0, (nt, NY, NX)).round()
        v[rng.random(v.shape) < 0.2] = 0
        v[rng.random(v.shape) < 0.05] = -9999
        v[:, 0, 1] = -9999
        a = v.astype("int16")
        nd = -9999
    elif kind == "binary":
        a = (rng.random((nt, NY, NX)) < 0.6).astype("uint8")
        nd = 255
    else:
        v = rng.normal(10, 3, (nt, NY, NX)).astype("float32")
        v[rng.random(v.shape) < 0.1] = np.nan
        a = v
        nd = -9999.0
    da = xr.DataArray(a, dims=("time", "y", "x"), coords=dict(time=t, y=np.arange(NY) * -0.5 + 10, x=np.arange(NX) * 0.5 + 30), attrs=dict(nodata=nd))
    return da


def tinterp_args(nt):
    gap = 10
    m = (nt - 1) * gap + 1
    template = np.zeros(m)
    template[::gap] = 1
    labels = (np.arange(m) // 5).astype("int32")
    return labels, template


def ops_table(rng):
    nt = 24
    zones = xr.DataArray(rng.integers(0, 3, (NY, NX)).astype("int16"), dims=("y", "x"), attrs=dict(nodata=-1))
    zones2 = xr.DataArray(((zones.values + 1) % 3).astype("int16"), dims=("y", "x"), attrs=dict(nodata=-1))
    sg = xr.DataArray(rng.uniform(-1, 2, (NY, NX)), dims=("y", "x"))
    lc = xr.DataArray(rng.uniform(0, 1, (NY, NX)), dims=("y", "x"))
    labels, template = tinterp_args(nt)
    grp = [i % 3 for i in range(nt)]
    sr = np.arange(-2, 2.2, 0.4)
    T = {
        "whits_s": ("ndvi", lambda d: d.hdc.whit.whits(-3000, s=10.0)),
        "whits_sg": ("ndvi", lambda d: d.hdc.whit.whits(-3000, sg=sg)),
        "whits_p": ("ndvi", lambda d: d.hdc.whit.whits(-3000, s=10.0, p=0.9)),
        "whitsvc": ("ndvi", lambda d: d.hdc.whit.whitsvc(-3000, srange=sr)),
        "whitsvc_p": ("ndvi", lambda d: d.hdc.whit.whitsvc(-3000, srange=sr, p=0.9)),
        "whitsvc_lc": ("ndvi", lambda d: d.hdc.whit.whitsvc(-3000, lc=lc, p=0.9)),
        "whitswcv": ("ndvi", lambda d: d.hdc.whit.whitswcv(-3000, srange=sr)),
        "whitswcv_p": ("ndvi", lambda d: d.hdc.whit.whitswcv(-3000, srange=sr, p=0.9, robust=True)),
        "whitint": ("ndvi", lambda d: d.hdc.whit.whitint(labels, template)),
        "spi": ("rain", lambda d: d.hdc.algo.spi()),
        "spi_window": ("rain", lambda d: d.hdc.algo.spi(calibration_begin="2020-02-01", calibration_end="2020-06-30")),
        "spi_groups": ("rain", lambda d: d.hdc.algo.spi(groups=grp)),
        "croo": ("binary", lambda d: d.hdc.algo.croo()),
        "lroo": ("binary", lambda d: d.hdc.algo.lroo()),
        "autocorr": ("ndvi", lambda d: d.hdc.algo.autocorr()),
        "autocorr_float": ("float", lambda d: d.assign_attrs(nodata=None).hdc.algo.autocorr() if False else _ac_float(d)),
        "mktrend": ("ndvi", lambda d: d.hdc.algo.mktrend()),
        "mktrend_nonodata": ("rain", lambda d: _drop_nodata(d).hdc.algo.mktrend()),
        "mean_grp": ("rain", lambda d: d.hdc.algo.mean_grp(grp)),
        "rolling_sum": ("rain", lambda d: d.hdc.rolling.sum(3)),
        # a non-default dtype argument: whatever it means, it must mean the same for in-memory and dask-backed data
        "rolling_sum_dtype": ("rain", lambda d: d.hdc.rolling.sum(3, dtype="float64")),
        "spi_dtype": ("rain", lambda d: d.hdc.algo.spi(dtype="int32")),
        "zonal_mean": ("rain", lambda d: d.hdc.zonal.mean(zones, [0, 1, 2])),
        "zonal_mean_f64_named": ("rain", lambda d: d.hdc.zonal.mean(zones, [0, 1, 2], dtype="float64", name="zm")),
        "iteragg_sum": ("rain", lambda d: xr.concat(list(d.hdc.iteragg.sum(3)), "agg")),
        "anom_ratio": ("rain", lambda d: d.hdc.anom.ratio(d.mean("time"))),
    }
    return T, dict(zones=zones, zones2=zones2)


def _drop_nodata(d):
    d = d.copy()
    d.attrs.pop("nodata", None)
    return d


def _ac_float(d):
    d = d.copy()
    d.attrs.pop("nodata", None)
    return d.hdc.algo.autocorr()


def norm(r):
    """canonical description of a result: per variable dims, dtype, values; coords"""
    if isinstance(r, xr.DataArray):
        r = r.to_dataset(name="__da__")
    out = {}
    for nme in sorted(r.data_vars):
        v = r[nme]
        vals = np.asarray(v.values)
        out[nme] = dict(dims=list(v.dims), dtype=str(v.dtype), shape=list(vals.shape), values=vals,
                        coords={c: (str(np.asarray(v.coords[c].values).dtype), np.asarray(v.coords[c].values).astype("str").tolist() if
                                    np.asarray(v.coords[c].values).ndim else str(v.coords[c].values)) for c in sorted(v.coords)})
    return out


def same(a, b, values_only=False):
    if sorted(a) != sorted(b):
        return "variables %s vs %s" % (sorted(a), sorted(b))
    for k in a:
        x, y = a[k], b[k]
        if not values_only:
            for f in ("dims", "dtype", "shape", "coords"):
                if x[f] != y[f]:
                    return "%s: %s %s vs %s" % (k, f, str(x[f])[:120], str(y[f])[:120])
        if x["values"].shape != y["values"].shape:
            return "%s: shape %s vs %s" % (k, x["values"].shape, y["values"].shape)
        eq = np.array_equal(x["values"], y["values"], equal_nan=True) if x["values"].dtype.kind == "f" else np.array_equal(x["values"], y["values"])
        if not eq:
            d = np.argwhere(~((x["values"] == y["values"]) | ((x["values"] != x["values"]) & (y["values"] != y["values"]))))
            i = tuple(d[0]) if len(d) else ()
            return "%s: values differ at %s: %s vs %s (%d cells)" % (k, i, x["values"][i] if i else "?", y["values"][i] if i else "?", len(d))
    return None


def canon(n, order_dims=("y", "x")):
    """values transposed to a canonical dimension order (for comparisons across layouts)"""
    out = {}
    for k, v in n.items():
        dims = v["dims"]
        tgt = [d for d in ("time", "newtime", "agg", "zones", "stat", "y", "x") if d in dims] + [d for d in dims if d not in
                                                                                               ("time", "newtime", "agg", "zones", "stat", "y", "x")]
        perm = [dims.index(d) for d in tgt]
        out[k] = dict(v, values=np.transpose(v["values"], perm), dims=tgt)
    return out


def run_configs(P):
    rng = np.random.default_rng(P["seed"])
    T, aux = ops_table(rng)
    thorough = P.get("thorough", False)
    chunkings = {"pixel": dict(y=1, x=1), "ragged": dict(y=(2, 1), x=(1, 3)), "single": dict(y=-1, x=-1)}
    scheds = [("synchronous", None), ("threads", 4)] + ([("threads", 1), ("threads", 16)] if thorough else [])
    cubes = {k: cube(rng, k, 24) for k in ("ndvi", "rain", "binary", "float")}
    res = dict(ops={}, failures=[], computations=0)

    def fail(op, what, **kw):
        res["failures"].append(dict(op=op, what=what, **kw))

    for op, (kind, fn) in T.items():
        rec = res["ops"].setdefault(op, dict(configs=0, time_chunked=None, orders=0))
        base = cubes[kind]
        ref_canon = None
        for order in ORDERS:
            if op.startswith("zonal") and order[0] != "time":
                continue                                             # zonal.mean is documented for (time, y, x) only
            src = base.transpose(*order)
            try:
                e = norm(fn(src))
            except Exception as ex:  # noqa
                fail(op, "eager call raised %s: %s" % (type(ex).__name__, ex), order=order)
                continue
            res["computations"] += 1
            rec["orders"] += 1
            ce = canon(e)
            if ref_canon is None:
                ref_canon = ce
            else:
                why = same(ref_canon, ce, values_only=True)
                if why and not op.startswith("iteragg") and not op.startswith("anom"):
                    fail(op, "result depends on the order of dimensions: " + why, order=order)
            for cname, ch in chunkings.items():
                for sname, nw in scheds:
                    lazy = src.chunk(dict(time=-1, **ch))
                    try:
                        with dask.config.set(scheduler=sname, **({"num_workers": nw} if nw else {})):
                            r = fn(lazy)
                            declared = {k: str(v.dtype) for k, v in (r.data_vars.items() if isinstance(r, xr.Dataset) else [("__da__", r)])}
                            r = r.compute()
                        d = norm(r)
                        for k, dt in declared.items():
                            if k in e and dt != e[k]["dtype"]:
                                fail(op, "the dask-backed result announces dtype %s before it is computed, the in-memory result is %s (%s)" % (dt, e[k]["dtype"], k),
                                     order=order, chunking=cname, scheduler=sname, workers=nw)
                                break
                    except Exception as ex:  # noqa
                        fail(op, "dask-backed call raised %s: %s" % (type(ex).__name__, str(ex)[:300]), order=order, chunking=cname, scheduler=sname, workers=nw)
                        continue
                    res["computations"] += 1
                    rec["configs"] += 1
                    why = same(e, d)
                    if why:
                        fail(op, "dask-backed result differs from the in-memory result: " + why, order=order, chunking=cname, scheduler=sname, workers=nw)
            if order == ORDERS[0]:
                # pixel permutation: reverse y, roll x
                iy, ix = list(range(NY))[::-1], list(np.roll(np.arange(NX), 1))
                if not op.startswith("zonal"):
                    try:
                        pe = norm(fn(src.isel(y=iy, x=ix)))
                        want = {}
                        for k, v in e.items():
                            vals = v["values"]
                            if "y" in v["dims"]:
                                vals = np.take(vals, iy, axis=v["dims"].index("y"))
                            if "x" in v["dims"]:
                                vals = np.take(vals, ix, axis=v["dims"].index("x"))
                            want[k] = dict(v, values=vals)
                        why = same(want, pe, values_only=True)
                        if why and op not in ("whits_sg", "whitsvc_lc"):      # those take a per-pixel parameter grid that is not permuted
                            fail(op, "permuting pixels does not permute the results: " + why)
                        res["computations"] += 1
                    except Exception as ex:  # noqa
                        fail(op, "permuted call raised %s: %s" % (type(ex).__name__, ex))
                # chunked time axis: refuse, or compute the same
                lazy = src.chunk(dict(time=12, y=-1, x=-1))
                try:
                    with dask.config.set(scheduler="synchronous"):
                        d = norm(fn(lazy).compute())
                    why = same(e, d)
                    rec["time_chunked"] = "computed, equal" if not why else "computed, DIFFERENT"
                    if why:
                        fail(op, "with a chunked time axis the operation neither refuses nor agrees: " + why)
                except Exception as ex:  # noqa
                    rec["time_chunked"] = "refused (%s)" % type(ex).__name__
    # lazy results evaluated in one graph must not replace one another
    d = cubes["rain"].chunk(dict(time=-1, y=-1, x=-1))
    for nm in (None, "zm"):
        try:
            a = d.hdc.zonal.mean(aux["zones"], [0, 1, 2], name=nm)
            b = d.hdc.zonal.mean(aux["zones2"], [0, 1, 2], name=nm)
            ea = norm(cubes["rain"].hdc.zonal.mean(aux["zones"], [0, 1, 2], name=nm))
            eb = norm(cubes["rain"].hdc.zonal.mean(aux["zones2"], [0, 1, 2], name=nm))
            ca, cb = dask.compute(a, b)
            for lab, x, y in (("first", ea, norm(ca)), ("second", eb, norm(cb))):
                why = same(x, y)
                if why:
                    fail("zonal_mean_joint", "two lazy zonal means (name=%r) evaluated in one graph: the %s differs from its in-memory result: %s" % (nm, lab, why))
            res["computations"] += 2
        except Exception as ex:  # noqa
            fail("zonal_mean_joint", "joint evaluation raised %s: %s" % (type(ex).__name__, ex))
    # the prange kernel under every thread count
    import numba
    from hdc.algo.ops.ws2doptvplc import ws2doptvplc_tyx
    nt, nr, nc = 40, 37, 4          # a row count that no thread count 2..16 divides (a blocked schedule must not drop the remainder)
    tt = np.arange(nt)
    cb = (4000 + 2500 * np.sin(tt[:, None, None] / 6.0 + rng.uniform(0, 6, (1, nr, nc))) + rng.normal(0, 300, (nt, nr, nc))).round()
    cb[rng.random(cb.shape) < 0.15] = -3000
    cb = cb.astype("int16")
    hashes = {}
    maxt = numba.config.NUMBA_NUM_THREADS
    counts = [n for n in (list(range(1, 17)) if thorough else [1, 2, 3, 4, 8, 16]) if n <= maxt]
    for n in counts:
        numba.set_num_threads(n)
        for rep in range(2):
            zz, lo = ws2doptvplc_tyx(cb, 0.9, -3000.0)
            hashes.setdefault(hashlib.sha256(zz.tobytes() + lo.tobytes()).hexdigest()[:16], []).append(n)
    numba.set_num_threads(maxt)
    # each pixel's result depends on its own series only: the cube with its columns in reverse order gives the reversed result
    z0, l0 = ws2doptvplc_tyx(cb, 0.9, -3000.0)
    z1, l1 = ws2doptvplc_tyx(np.ascontiguousarray(cb[:, :, ::-1]), 0.9, -3000.0)
    res["computations"] += 2
    if not (np.array_equal(z0, z1[:, :, ::-1]) and np.array_equal(l0, l1[:, ::-1], equal_nan=True)):
        bad = int((z0 != z1[:, :, ::-1]).any(axis=0).sum())
        fail("ws2doptvplc_tyx", "reversing the order of the columns does not reverse the result: %d of %d pixels depend on their neighbours" % (bad, nr * nc))
    res["threads"] = dict(counts=counts, max_threads=maxt, distinct_results=len(hashes))
    if len(hashes) != 1:
        fail("ws2doptvplc_tyx", "results differ between thread counts / repeated runs: %s" % hashes)
    for f in res["failures"]:
        for k, v in list(f.items()):
            if isinstance(v, tuple):
                f[k] = list(v)
    return res


def run_race(P):
    """N threads behind a barrier make the first call of lazily compiled kernels"""
    from hdc.algo import ops
    from hdc.algo.ops import stats, zonal
    rng = np.random.default_rng(P["seed"])
    n = int(P.get("threads", 4))
    y = rng.normal(1000, 200, 30).round()
    ones = (rng.random(30) < 0.6).astype("uint8")
    pix = rng.gamma(2, 30, (3, 4, 5)).astype("float32")
    zon = rng.integers(0, 2, (4, 5)).astype("int16")
    table = {
        "ws2dgu": (ops.ws2dgu, (y, 10.0, -3000.0)),
        "lroo": (ops.lroo, (ones,)),
        "rolling_sum": (stats.rolling_sum, (y.astype("int16"), 3, -3000.0)),
        "do_mean": (zonal.do_mean, (pix, zon, 2, -9999.0, -1)),
        "autocorr_tyx": (ops.autocorr_tyx, (pix, None)),
        "ws2dpgu": (ops.ws2dpgu, (y, 10.0, -3000.0, 0.9)),
        "mean_grp": (stats.mean_grp, (y.astype("int16"), (np.arange(30) % 3).astype("int16"), 3, -3000.0)),
        "ws2doptv": (ops.ws2doptv, (y, -3000.0, np.arange(-2, 2.2, 0.4))),
    }
    names = P.get("kernels") or list(table)
    out = dict(threads=n, kernels={}, failures=[])
    for nm in names:
        fn, args = table[nm]
        bar = threading.Barrier(n)
        results, errors = [None] * n, [None] * n

        def work(i):
            try:
                bar.wait()
                results[i] = fn(*args)
            except Exception as ex:  # noqa
                errors[i] = "%s: %s" % (type(ex).__name__, ex)
        th = [threading.Thread(target=work, args=(i,)) for i in range(n)]
        [t.start() for t in th]
        [t.join() for t in th]
        ref = fn(*args)
        ok = all(e is None for e in errors) and all(_eq(r, ref) for r in results)
        out["kernels"][nm] = dict(errors=[e for e in errors if e], agree=ok)
        if not ok:
            out["failures"].append(dict(op=nm, what="%d threads racing on the first call of the lazily compiled kernel: errors %s, results %s" % (
                n, [e for e in errors if e][:3], "differ" if all(e is None for e in errors) else "n/a")))
    return out


def _eq(a, b):
    if isinstance(a, tuple):
        return isinstance(b, tuple) and len(a) == len(b) and all(_eq(x, y) for x, y in zip(a, b))
    if a is None:
        return False
    return bool(np.array_equal(np.asarray(a), np.asarray(b), equal_nan=np.asarray(a).dtype.kind == "f"))


def main():
    P = json.load(sys.stdin)
    res = run_race(P) if P.get("mode") == "race" else run_configs(P)
    print("@@RESULT@@" + json.dumps(res, default=lambda o: o.item() if isinstance(o, np.generic) else str(o)))


main()
