(** Correspondence cases for C18. *)
From HDC Require Import Base.Prelude Model.Lroo.
Open Scope Z_scope.
Record lcase := LC { l_data : list Z; l_out : Z }.
Definition check_lroo (c : lcase) : bool := lroo (l_data c) =? l_out c.
(** croo: stored time stamps, stored values, accessor output *)
Record ccase := CC { c_times : list Z; c_vals : list Z; c_out : Z }.
Definition check_croo (c : ccase) : bool := croo (combine (c_times c) (c_vals c)) =? c_out c.
