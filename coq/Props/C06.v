(** C06 — smoothers keep linear series, commute with offsets and time reversal. Statements only.
    The three laws are proved for the Whittaker solution itself, from its characterisation as the
    unique minimiser (C01) - every smoother variant ends with such a solve at a positive lambda. *)
From Coq Require Import ZArith Reals Lra List.
From HDC Require Import Base.Prelude Base.Ops Model.Ws2d Model.Smoothers Proofs.RSums Proofs.Penalty Proofs.Ws2dReal
     Proofs.Ws2dLaws Proofs.Rounding Proofs.SmoothersProofs Proofs.C06Proofs Model.VCurve Proofs.C06Lift Proofs.Expectile Proofs.ExpectileModel.
Open Scope R_scope.

Definition contract (y w : list R) (lam : R) : Prop :=
  length w = length y /\ (4 <= length y)%nat /\ 0 < lam /\
  (forall i, (0 <= i < Z.of_nat (length y))%Z -> 0 <= Wk w i) /\
  (exists p q, (0 <= p < q)%Z /\ (q < Z.of_nat (length y))%Z /\ 0 < Wk w p /\ 0 < Wk w q).

(** affine on the weighted cells => that line on all cells, gaps included *)
Theorem C06_ws2d_affine_fixed : forall y w lam a b,
  contract y w lam ->
  (forall i, (0 <= i < Z.of_nat (length y))%Z -> 0 < Wk w i -> Yk y i = a + b * IZR i) ->
  forall i, (0 <= i < Z.of_nat (length y))%Z -> Zk y w lam i = a + b * IZR i.
Proof. intros y w lam a b (Hl & Hn & Hlam & HW & H2). exact (affine_fixed y w lam Hl Hn HW Hlam H2 a b). Qed.
Print Assumptions C06_ws2d_affine_fixed.

Theorem C06_ws2d_shift : forall y w lam c,
  contract y w lam ->
  forall i, (0 <= i < Z.of_nat (length y))%Z -> Zk (map (fun v => v + c) y) w lam i = Zk y w lam i + c.
Proof. intros y w lam c (Hl & Hn & Hlam & HW & H2). exact (ws2d_shift y w lam c Hl Hn HW Hlam H2). Qed.
Print Assumptions C06_ws2d_shift.

Theorem C06_ws2d_rev : forall y w lam,
  contract y w lam ->
  forall i, (0 <= i < Z.of_nat (length y))%Z ->
    Zk (rev y) (rev w) lam i = Zk y w lam (Z.of_nat (length y) - 1 - i).
Proof. intros y w lam (Hl & Hn & Hlam & HW & H2). exact (ws2d_rev y w lam Hl Hn HW Hlam H2). Qed.
Print Assumptions C06_ws2d_rev.

(** the fixed-lambda smoother returns a series that is exactly linear in time unchanged, filling its gaps on the line *)
Theorem C06_gu_linear : forall y lam nd z a b,
  (4 <= length y)%nat -> 0 < lam -> ws2dgu OpsR y lam nd = Curve z ->
  (forall i, (i < length y)%nat -> nth i (weights_gu OpsR nd y) 0 = 1 -> nth i y 0 = a + b * INR i) ->
  forall i, (i < length y)%nat -> nth i z 0 = a + b * INR i.
Proof. exact gu_linear. Qed.
Print Assumptions C06_gu_linear.

(** rounding commutes with an integer offset except on a rounding tie, where the results differ by at most one *)
Theorem C06_rounding_offset : forall x (c : Z),
  (~ on_tie x -> rneR (x + IZR c) = (rneR x + c)%Z) /\ (Z.abs (rneR (x + IZR c) - (rneR x + c)) <= 1)%Z /\ rneR (IZR c) = c.
Proof. intros x c. split; [apply rneR_shift|]. split; [apply rneR_shift_tie|apply rneR_int]. Qed.
Print Assumptions C06_rounding_offset.

(** lifted through lambda selection: the symmetric V-curve smoother reports the same lambda for y + c and moves the
    curve by c (every grid lambda gives the same residuals and second differences, so the same V-curve) *)
Theorem C06_vcurve_shift : forall (y w : list R) (c : R) llas,
  length w = length y -> (4 <= length y)%nat ->
  (forall i, (0 <= i < Z.of_nat (length y))%Z -> 0 <= Wk w i) ->
  (exists p q, (0 <= p < q)%Z /\ (q < Z.of_nat (length y))%Z /\ 0 < Wk w p /\ 0 < Wk w q) ->
  optv_core OpsR (shiftl c y) w llas =
  match optv_core OpsR y w llas with
  | VFit z lopt => VFit (shiftl c z) lopt
  | r => r
  end.
Proof. intros y w c llas Hl Hn Wn W2. exact (optv_core_shift y w c Hl Hn Wn W2 llas). Qed.
Print Assumptions C06_vcurve_shift.

(** and it commutes with reversing time: same lambda, reversed curve *)
Theorem C06_vcurve_rev : forall (y w : list R) llas,
  length w = length y -> (4 <= length y)%nat ->
  (forall i, (0 <= i < Z.of_nat (length y))%Z -> 0 <= Wk w i) ->
  (exists p q, (0 <= p < q)%Z /\ (q < Z.of_nat (length y))%Z /\ 0 < Wk w p /\ 0 < Wk w q) ->
  optv_core OpsR (rev y) (rev w) llas =
  match optv_core OpsR y w llas with
  | VFit z lopt => VFit (rev z) lopt
  | r => r
  end.
Proof. intros y w llas Hl Hn Wn W2. exact (optv_core_rev y w Hl Hn Wn W2 llas). Qed.
Print Assumptions C06_vcurve_rev.

(** the GCV scan over a grid of positive lambdas (the selection core of ws2dwcv / ws2dwcvp for fixed weights): the scores of
    y + c equal those of y, so the same lambda wins and the winning curve moves by c.  Missing cells enter with weight 0 and
    any placeholder (C02_gcv_placeholder_indep), hence also with placeholder + c. *)
Theorem C06_gcv_scan_shift : forall (K : Gcv.gconsts (F := R)) (y wt : list R) (c : R) de lams sc0 s0 z0,
  length wt = length y -> (4 <= length y)%nat ->
  (forall i, (0 <= i < Z.of_nat (length y))%Z -> 0 <= Wk wt i) ->
  (exists p q, (0 <= p < q)%Z /\ (q < Z.of_nat (length y))%Z /\ 0 < Wk wt p /\ 0 < Wk wt q) ->
  (forall s, In s lams -> 0 < s) ->
  Gcv.gcv_scan OpsR de wt (shiftl c y) lams (sc0, s0, shiftl c z0) =
  (let '(sc, s, z) := Gcv.gcv_scan OpsR de wt y lams (sc0, s0, z0) in (sc, s, shiftl c z)).
Proof. intros K y wt c de lams sc0 s0 z0 Hl Hn Wn W2 Hp. exact (gcv_scan_shift y wt c Hl Hn Wn W2 de lams Hp sc0 s0 z0). Qed.
Print Assumptions C06_gcv_scan_shift.

(** through the asymmetric reweighting: whenever the loop settles (the returned curve reproduces itself under the reweighting)
    the curve is the unique expectile curve (C03_fixed_point_is_expectile), and that curve moves with an offset and with a
    reversal of time - whatever curve the iteration started from *)
Theorem C06_expectile_shift : forall p lam (w y z1 z2 : list R) c,
  0 < p < 1 -> 0 < lam -> (4 <= length y)%nat -> length w = length y -> length z1 = length y -> length z2 = length y ->
  (forall i, (0 <= i < Z.of_nat (length y))%Z -> 0 <= atl w i) ->
  (exists a b, (0 <= a < b)%Z /\ (b < Z.of_nat (length y))%Z /\ 0 < atl w a /\ 0 < atl w b) ->
  z1 = ws2d OpsR y lam (asym_weights OpsR p (1 - p) w y z1) ->
  z2 = ws2d OpsR (shiftr c y) lam (asym_weights OpsR p (1 - p) w (shiftr c y) z2) ->
  z2 = shiftr c z1.
Proof. exact expectile_curve_shift. Qed.
Print Assumptions C06_expectile_shift.

Theorem C06_expectile_rev : forall p lam (w y z1 z2 : list R),
  0 < p < 1 -> 0 < lam -> (4 <= length y)%nat -> length w = length y -> length z1 = length y -> length z2 = length y ->
  (forall i, (0 <= i < Z.of_nat (length y))%Z -> 0 <= atl w i) ->
  (exists a b, (0 <= a < b)%Z /\ (b < Z.of_nat (length y))%Z /\ 0 < atl w a /\ 0 < atl w b) ->
  z1 = ws2d OpsR y lam (asym_weights OpsR p (1 - p) w y z1) ->
  z2 = ws2d OpsR (rev y) lam (asym_weights OpsR p (1 - p) (rev w) (rev y) z2) ->
  z2 = rev z1.
Proof. exact expectile_curve_rev. Qed.
Print Assumptions C06_expectile_rev.

(** the whole non-robust GCV smoother: the series y + c with placeholder nodata + c gets the same lambda and the curve moved by c
    (missing cells are zeroed inside the kernel, not shifted - with weight 0 neither the solver nor the score sees them) *)
Theorem C06_gcv_nonrobust_shift : forall (K : Gcv.gconsts (F := R)) (y : list R) nd c llas z lopt,
  Gcv.ws2dwcv OpsR K y nd llas false = Gcv.GFit z lopt -> 0 < lopt ->
  Gcv.ws2dwcv OpsR K (shiftl c y) (nd + c) llas false = Gcv.GFit (shiftl c z) lopt.
Proof. exact wcv_nonrobust_shift. Qed.
Print Assumptions C06_gcv_nonrobust_shift.
