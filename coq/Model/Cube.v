(** Model of how the accessors dispatch a per-pixel kernel over a cube (C12).
    A cube is a list of pixel series (one entry per (y, x) position in some enumeration);
    an accessor operation is [map k] for a per-series kernel [k].  A configuration consists of
    - a chunking: the pixel list cut into consecutive blocks of the given sizes,
    - a schedule: the order in which the blocks are evaluated (any permutation of the block numbers,
      as produced by a synchronous or threaded dask scheduler),
    - a layout: a permutation of the pixel enumeration (dimension order / transposition).
    [run_config] evaluates block by block in schedule order into a result store keyed by block
    number and concatenates the store in block order - what dask's graph evaluation does.
    Also: the small-step semantics of [_helper.lazycompile]'s unsynchronised cache for N threads. *)
From Coq Require Import List Arith Lia Bool.
Import ListNotations.

Section Cube.
  Context {S R : Type} (k : S -> R).

  Definition map_pixels (cube : list S) : list R := map k cube.

  (** cut [l] into consecutive blocks of the given sizes; what is left over forms a last block *)
  Fixpoint chunk (sizes : list nat) (l : list S) : list (list S) :=
    match sizes with
    | [] => match l with [] => [] | _ => [l] end
    | n :: r => firstn n l :: chunk r (skipn n l)
    end.

  (** result store: block number -> result block *)
  Definition store := list (nat * list R).
  Fixpoint lookup (s : store) (i : nat) : option (list R) :=
    match s with [] => None | (j, v) :: r => if Nat.eqb i j then Some v else lookup r i end.

  (** evaluate the blocks in the order given by [sched] (block numbers) *)
  Fixpoint run_schedule (blocks : list (list S)) (sched : list nat) (s : store) : store :=
    match sched with
    | [] => s
    | i :: r => run_schedule blocks r ((i, map k (nth i blocks [])) :: s)
    end.

  (** concatenate the results of blocks 0 .. n-1; a missing block makes the whole result undefined *)
  Fixpoint assemble (s : store) (n : nat) (from : nat) : option (list R) :=
    match n with
    | 0 => Some []
    | Datatypes.S m => match lookup s from, assemble s m (Datatypes.S from) with
             | Some v, Some rest => Some (v ++ rest)
             | _, _ => None
             end
    end.

  Definition run_config (sizes : list nat) (sched : list nat) (cube : list S) : option (list R) :=
    let blocks := chunk sizes cube in
    assemble (run_schedule blocks sched []) (length blocks) 0.
End Cube.

(** ** lazycompile: N threads, one unsynchronised cache cell

    def wrapper(args):                        pc 0: read the cell;   None -> pc 1, else -> pc 3
        if inner_decorated is None:          pc 1: compile (object private to the thread) -> pc 2
            inner_decorated = decorator(f)   pc 2: write the cell -> pc 3
        return inner_decorated(args)         pc 3: read the cell and call it -> done (pc 4)        *)
Record thread := mkT { pc : nat; mine : option nat; called : option (option nat) }.
Record lstate := mkL { cell : option nat; threads : list thread; fresh : nat }.

Definition set_nth {A} (i : nat) (x : A) (l : list A) : list A := firstn i l ++ x :: skipn (Datatypes.S i) l.

Definition lstep (st : lstate) (i : nat) : lstate :=
  match nth_error (threads st) i with
  | None => st
  | Some t =>
      match pc t with
      | 0 => mkL (cell st) (set_nth i (mkT (match cell st with None => 1 | Some _ => 3 end) (mine t) (called t)) (threads st)) (fresh st)
      | 1 => mkL (cell st) (set_nth i (mkT 2 (Some (fresh st)) (called t)) (threads st)) (Datatypes.S (fresh st))
      | 2 => mkL (mine t) (set_nth i (mkT 3 (mine t) (called t)) (threads st)) (fresh st)
      | 3 => mkL (cell st) (set_nth i (mkT 4 (mine t) (Some (cell st))) (threads st)) (fresh st)
      | _ => st
      end
  end.

Definition linit (n : nat) : lstate := mkL None (repeat (mkT 0 None None) n) 0.
Definition lrun (n : nat) (sched : list nat) : lstate := fold_left lstep sched (linit n).
