(** C13 - where compiled (fixed-width) and interpreted (unbounded) integer arithmetic could part ways:
    the integer accumulators of the kernels stay far inside int64 for every in-domain size, so numba's
    wrapping int64 and Python's integers compute the same values. *)
From Coq Require Import ZArith List Lia.
From HDC Require Import Base.Prelude Model.MK.
Import ListNotations.
Open Scope Z_scope.

(** ** mk_score: the two counters _s1, _s2 *)
Lemma row_counts_bound a r : forall s12,
  0 <= fst s12 -> 0 <= snd s12 ->
  fst s12 <= fst (row_counts a r s12) <= fst s12 + Z.of_nat (length r) /\
  snd s12 <= snd (row_counts a r s12) <= snd s12 + Z.of_nat (length r).
Proof.
  induction r as [|b r IH]; intros [s1 s2] H1 H2; cbn [row_counts fst snd length] in *; [lia|].
  destruct (b >? a), (b <? a); cbn [fst snd];
    match goal with |- context [row_counts a r ?p] => pose proof (IH p) as Hp end; cbn [fst snd] in Hp; lia.
Qed.

(** number of pairs k < kk of a series of length n *)
Fixpoint npairs (n : nat) : Z := match n with O => 0 | S k => Z.of_nat k + npairs k end.
Lemma npairs_closed n : 2 * npairs n = Z.of_nat n * (Z.of_nat n - 1).
Proof. induction n as [|k IH]; [reflexivity|]. cbn [npairs]. nia. Qed.

Lemma score_counts_bound x : forall s12,
  0 <= fst s12 -> 0 <= snd s12 ->
  fst s12 <= fst (score_counts x s12) <= fst s12 + npairs (length x) /\
  snd s12 <= snd (score_counts x s12) <= snd s12 + npairs (length x).
Proof.
  induction x as [|a r IH]; intros s12 H1 H2; cbn [score_counts length npairs]; [lia|].
  pose proof (row_counts_bound a r s12 H1 H2) as [Ha Hb].
  pose proof (IH (row_counts a r s12) ltac:(lia) ltac:(lia)). lia.
Qed.

(** every value the counters take is between 0 and n(n-1)/2; for n <= 2^32 that is below 2^63 *)
Theorem mk_counters_fit_int64 x :
  Z.of_nat (length x) <= 2 ^ 32 ->
  let s12 := score_counts x (0, 0) in
  0 <= fst s12 < 2 ^ 63 /\ 0 <= snd s12 < 2 ^ 63 /\ - 2 ^ 63 < mk_score_lit x < 2 ^ 63.
Proof.
  intros Hn. cbn zeta. unfold mk_score_lit.
  pose proof (score_counts_bound x (0, 0) ltac:(cbn; lia) ltac:(cbn; lia)) as [H1 H2]. cbn [fst snd] in *.
  pose proof (npairs_closed (length x)).
  assert (npairs (length x) < 2 ^ 63) by (change (2 ^ 63) with 9223372036854775808; change (2 ^ 32) with 4294967296 in Hn; nia).
  lia.
Qed.

(** n (n-1) (2n+5), the untied variance numerator, fits int64 up to n = 1.6 million *)
Theorem mk_variance_numerator_fits_int64 n : 0 <= n <= 1600000 -> 0 <= n * (n - 1) * (2 * n + 5) + (2 * n + 5) < 2 ^ 63.
Proof. intros H. change (2 ^ 63) with 9223372036854775808. nia. Qed.

(** ** autocorr_1d_int: Sx, Sxx, Sxy, n over int16 data *)
Record isums := mk { iSx : Z; iSxx : Z; iSxy : Z; iN : Z }.
Definition istep (s : isums) (xy : Z * Z) : isums :=
  let '(x, y) := xy in mk (iSx s + x) (iSxx s + x * x) (iSxy s + x * y) (iN s + 1).
Definition ibounded (k : Z) (s : isums) : Prop :=
  Z.abs (iSx s) <= k * 2 ^ 15 /\ 0 <= iSxx s <= k * 2 ^ 30 /\ Z.abs (iSxy s) <= k * 2 ^ 30 /\ iN s = k.

Lemma istep_bounded k s x y : 0 <= k -> ibounded k s -> Z.abs x <= 2 ^ 15 -> Z.abs y <= 2 ^ 15 -> ibounded (k + 1) (istep s (x, y)).
Proof.
  unfold ibounded, istep. intros Hk (H1 & H2 & H3 & H4) Hx Hy. cbn [iSx iSxx iSxy iN].
  change (2 ^ 15) with 32768 in *. change (2 ^ 30) with 1073741824 in *.
  assert (0 <= x * x <= 1073741824) by nia. assert (Z.abs (x * y) <= 1073741824) by nia. lia.
Qed.

Theorem autocorr_int_sums_fit_int64 (l : list (Z * Z)) :
  (forall x y, In (x, y) l -> Z.abs x <= 2 ^ 15 /\ Z.abs y <= 2 ^ 15) ->
  Z.of_nat (length l) <= 2 ^ 32 ->
  let s := fold_left istep l (mk 0 0 0 0) in
  Z.abs (iSx s) < 2 ^ 63 /\ Z.abs (iSxx s) < 2 ^ 63 /\ Z.abs (iSxy s) < 2 ^ 63.
Proof.
  intros Hb Hn. cbn zeta.
  assert (forall l k s, 0 <= k -> ibounded k s -> (forall x y, In (x, y) l -> Z.abs x <= 2 ^ 15 /\ Z.abs y <= 2 ^ 15) ->
                        ibounded (k + Z.of_nat (length l)) (fold_left istep l s)) as G.
  { clear. induction l as [|[x y] r IH]; intros k s Hk Hs Hb; cbn [fold_left length].
    - replace (k + Z.of_nat 0) with k by lia. exact Hs.
    - replace (k + Z.of_nat (S (length r))) with ((k + 1) + Z.of_nat (length r)) by lia.
      apply IH; [lia| |intros; apply Hb; right; assumption].
      destruct (Hb x y (or_introl eq_refl)). apply istep_bounded; assumption. }
  pose proof (G l 0 (mk 0 0 0 0) ltac:(lia) ltac:(unfold ibounded; cbn; lia) Hb) as (H1 & H2 & H3 & _).
  change (2 ^ 63) with 9223372036854775808. change (2 ^ 32) with 4294967296 in Hn.
  change (2 ^ 15) with 32768 in *. change (2 ^ 30) with 1073741824 in *. lia.
Qed.

(** ** mk_variance_s with ties: tp = sum over the distinct values of t (t-1) (2t+5); t -> t (t-1) (2t+5) is superadditive on
    the non-negative integers, the multiplicities sum to n, so every partial sum stays below n (n-1) (2n+5) *)
From HDC Require Import Model.Calib Proofs.MKProofs.

Lemma tie_term_nonneg t : 0 <= t -> 0 <= tie_term t.
Proof. intros H. unfold tie_term. destruct (Z.eq_dec t 0) as [->|Hn]; [reflexivity|]. assert (1 <= t) by lia. nia. Qed.

Lemma tie_term_super a b : 0 <= a -> 0 <= b -> tie_term a + tie_term b <= tie_term (a + b).
Proof. intros Ha Hb. unfold tie_term. nia. Qed.

Lemma tie_sum_le (l : list Z) : Forall (fun c => 0 <= c) l -> 0 <= zsum l /\ 0 <= zsum (map tie_term l) <= tie_term (zsum l).
Proof.
  induction 1 as [|c r Hc Hr IH]; [cbn; unfold tie_term; lia|].
  cbn [map]. rewrite !zsum_cons. destruct IH as [S0 [T0 T1]].
  pose proof (tie_term_nonneg c Hc). pose proof (tie_term_super c (zsum r) Hc S0). lia.
Qed.

Theorem mk_tie_correction_fits_int64 x :
  Z.of_nat (length x) <= 1600000 ->
  let n := Z.of_nat (length x) in
  let tp := zsum (map (fun u => tie_term (zcount u x)) (sort_uniq x)) in
  0 <= tp <= n * (n - 1) * (2 * n + 5) /\ n * (n - 1) * (2 * n + 5) < 2 ^ 63 /\ 0 <= var_num x <= n * (n - 1) * (2 * n + 5).
Proof.
  intros Hn. cbn zeta. set (n := Z.of_nat (length x)) in *.
  assert (Forall (fun c => 0 <= c) (map (fun u => zcount u x) (sort_uniq x))) as Hc.
  { apply Forall_forall. intros c Hin. apply in_map_iff in Hin as (u & <- & _). unfold zcount. lia. }
  destruct (tie_sum_le _ Hc) as [_ [T0 T1]]. rewrite map_map in T0, T1. rewrite counts_sum in T1. fold n in T1.
  change (tie_term n) with (n * (n - 1) * (2 * n + 5)) in T1.
  assert (0 <= n) by (unfold n; lia).
  assert (n * (n - 1) * (2 * n + 5) < 2 ^ 63) by (change (2 ^ 63) with 9223372036854775808; nia).
  split; [lia|]. split; [assumption|].
  unfold var_num. fold n. destruct (Z.of_nat (length (sort_uniq x)) =? n).
  - split; [|lia]. destruct (Z.eq_dec n 0) as [->|Hne]; [lia|]. assert (1 <= n) by lia. nia.
  - lia.
Qed.
