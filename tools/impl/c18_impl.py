"""Runs lroo (kernel + accessor) and croo (accessor) from /repo."""
import json
import sys
import warnings

import numpy as np

warnings.filterwarnings("ignore")
import pandas as pd  # noqa: E402
import xarray as xr  # noqa: E402
import hdc.algo  # noqa: F401,E402
from hdc.algo.ops import lroo  # noqa: E402


def main():
    P = json.load(sys.stdin)
    out = {}
    res = []
    for b in P.get("lroo", []):          # batches of equal-length uint8 series
        a = np.array(b["data"], dtype="uint8").reshape(len(b["data"]), -1)
        r = lroo(a)
        res.append(dict(dtype=str(r.dtype), out=[int(v) for v in np.atleast_1d(r)]))
    out["lroo"] = res
    res = []
    for b in P.get("lroo_acc", []):      # cube (y, x, time) or (time, y, x)
        a = np.array(b["data"], dtype="uint8")
        da = xr.DataArray(a, dims=b["dims"])
        r = da.hdc.algo.lroo()
        res.append(dict(dtype=str(r.dtype), dims=list(r.dims), out=r.values.astype("int64").tolist()))
    out["lroo_acc"] = res
    res = []
    for b in P.get("croo", []):          # pixels x time matrix sharing one stored time order
        vals = np.array(b["vals"], dtype=b.get("dtype", "int64"))     # (npix, ntime)
        t0 = np.datetime64("2000-01-01")
        times = np.array([t0 + np.timedelta64(int(k), "D") for k in b["times"]])
        if b.get("layout") == "tyx":
            da = xr.DataArray(vals.T.reshape(len(times), -1, 1), dims=("time", "y", "x"), coords={"time": times})
            r = da.hdc.algo.croo().values.reshape(-1)
        else:
            da = xr.DataArray(vals.reshape(-1, 1, len(times)), dims=("y", "x", "time"), coords={"time": times})
            r = da.hdc.algo.croo().values.reshape(-1)
        res.append(dict(dtype=str(r.dtype), out=[int(v) for v in r]))
    out["croo"] = res
    print("@@RESULT@@" + json.dumps(out))


main()
