(** Model of [hdc/algo/utils.py: get_calibration_indices, to_linspace], of the calibration
    validation ladder / attributes in [PixelAlgorithms.spi], and of the per-group dispatch of
    [gammastd_grp] (the per-series kernel is a parameter).  Time stamps and group keys are
    integers (strings enter through any order-isomorphic encoding).  Executable definitions only. *)
From HDC Require Import Base.Prelude.
Open Scope Z_scope.

(** numpy.searchsorted on an ascending array *)
Definition ss_left (a : list Z) (v : Z) : Z := Z.of_nat (length (filter (fun x => x <? v) a)).
Definition ss_right (a : list Z) (v : Z) : Z := Z.of_nat (length (filter (fun x => x <=? v) a)).

(** time[groups == g] *)
Fixpoint select {A} (groups : list Z) (g : Z) (l : list A) : list A :=
  match groups, l with
  | h :: gs, x :: r => if h =? g then x :: select gs g r else select gs g r
  | _, _ => []
  end.

Definition cal_indices (time : list Z) (b e : Z) : Z * Z := (ss_left time b, ss_right time e).

Definition cal_indices_grp (time groups : list Z) (num_groups : nat) (b e : Z) : list (Z * Z) :=
  map (fun g => cal_indices (select groups (Z.of_nat g) time) b e) (seq 0 num_groups).

(** to_linspace: keys = sorted unique values; each value is replaced by its position in keys *)
Fixpoint insert_uniq (x : Z) (l : list Z) : list Z :=
  match l with
  | [] => [x]
  | y :: r => if x <? y then x :: l else if x =? y then l else y :: insert_uniq x r
  end.
Definition sort_uniq (l : list Z) : list Z := fold_right insert_uniq [] l.
Definition to_linspace (x : list Z) : list Z * list Z :=
  let keys := sort_uniq x in (map (ss_left keys) x, keys).

(** the accessor's validation ladder; [None] = ValueError *)
Definition first_ge (time : list Z) (v : Z) : option Z := hd_error (filter (fun t => v <=? t) time).
Definition last_le (time : list Z) (v : Z) : option Z := hd_error (rev (filter (fun t => t <=? v) time)).

Record calib := { c_idx : list (Z * Z); c_begin_attr : Z; c_end_attr : Z }.

Definition resolve (time : list Z) (b e : option Z) : Z * Z :=
  (match b with Some v => v | None => hd 0 time end, match e with Some v => v | None => last time 0 end).

Definition window_ok (se : Z * Z) : bool :=
  negb (snd se <=? fst se) && negb (Z.abs (snd se - fst se) <=? 1).

Definition spi_calibration (time : list Z) (groups : option (list Z)) (b e : option Z) : option calib :=
  let '(bv, ev) := resolve time b e in
  if last time 0 <? bv then None                  (* begin > last time stamp *)
  else if ev <? hd 0 time then None               (* end < first time stamp *)
  else
    let idx := match groups with
               | None => Some [cal_indices time bv ev]
               | Some gs =>
                   let '(lin, keys) := to_linspace gs in
                   if negb (Nat.eqb (length lin) (length time)) then None
                   else Some (cal_indices_grp time lin (length keys) bv ev)
               end in
    match idx with
    | None => None
    | Some ix =>
        if forallb window_ok ix then
          match first_ge time bv, last_le time ev with
          | Some fa, Some la => Some {| c_idx := ix; c_begin_attr := fa; c_end_attr := la |}
          | _, _ => None
          end
        else None
    end.

(** gammastd_grp: per group, gather the members, run the per-series kernel [k] with that
    group's window, scatter back.  Cells of labels outside 0..num_groups-1 stay unwritten. *)
Section Grouped.
  Variable k : list Z -> Z * Z -> list Z.     (* per-series SPI (already scaled/rounded) *)

  Fixpoint scatter (groups : list Z) (g : Z) (vals : list Z) (acc : list (option Z)) : list (option Z) :=
    match groups, acc with
    | h :: gs, a :: r =>
        if h =? g then
          match vals with
          | v :: vs => Some v :: scatter gs g vs r
          | [] => a :: scatter gs g [] r
          end
        else a :: scatter gs g vals r
    | _, _ => acc
    end.

  Definition grp_step (xx groups : list Z) (cal : list (Z * Z)) (acc : list (option Z)) (g : nat) :=
    scatter groups (Z.of_nat g) (k (select groups (Z.of_nat g) xx) (nth g cal (0, 0))) acc.

  Definition gammastd_grp (xx groups : list Z) (num_groups : nat) (cal : list (Z * Z)) : list (option Z) :=
    fold_left (grp_step xx groups cal) (seq 0 num_groups) (map (fun _ => None) xx).
End Grouped.
