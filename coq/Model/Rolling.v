(** Model of [hdc/algo/ops/stats.py: rolling_sum, mean_grp] and of the accessor glue
    ([RollingWindowAlgos.sum] trimming, [PixelAlgorithms.mean_grp]).
    Values are integers ([Z]); the float32 store of the kernels is applied on top by the
    correspondence (Corr/C17.v).  Executable definitions only. *)
From HDC Require Import Base.Prelude.
Open Scope Z_scope.

(** ** rolling_sum (as repaired by the fix: commit "rolling_sum no longer adds ...") *)

(** One pass of the inner loop body: [(yy[ii], n_valid)]. *)
Definition win_step (nodata : Z) (st : Z * Z) (x : Z) : Z * Z :=
  if x =? nodata then st else (fst st + x, snd st + 1).

(** cells jj = ii - ws + 1 .. ii *)
Definition window (xx : list Z) (ii ws : nat) : list Z :=
  firstn ws (skipn (ii + 1 - ws) xx).

Definition rolling_at (xx : list Z) (ws : nat) (nodata : Z) (ii : nat) : Z :=
  if (ii + 1 <? ws)%nat then nodata
  else
    let st := fold_left (win_step nodata) (window xx ii ws) (0, 0) in
    if snd st =? 0 then nodata else fst st.

Definition rolling_sum (xx : list Z) (ws : nat) (nodata : Z) : list Z :=
  map (rolling_at xx ws nodata) (seq 0 (length xx)).

(** accessor: [xx[..., window_size - 1:]] *)
Definition rolling_accessor (xx : list Z) (ws : nat) (nodata : Z) : list Z :=
  skipn (ws - 1) (rolling_sum xx ws nodata).

(** The kernel as it was before the fix (kept to document the defect, see Props/C17.v). *)
Definition win_step_orig (nodata : Z) (acc : Z) (x : Z) : Z :=
  if x =? nodata then nodata else acc + x.
Definition rolling_at_orig (xx : list Z) (ws : nat) (nodata : Z) (ii : nat) : Z :=
  if (ii + 1 <? ws)%nat then nodata
  else fold_left (win_step_orig nodata) (window xx ii ws) 0.

(** ** mean_grp: per group, (sum, count) of the non-nodata members; the mean is an exact
    rational [sum / count] here (the kernel divides in binary64 and stores binary32). *)

Definition grp_step (nodata : Z) (grp : Z) (st : Z * Z) (xg : Z * Z) : Z * Z :=
  let '(x, g) := xg in
  if g =? grp then (if x =? nodata then st else (fst st + x, snd st + 1)) else st.

Definition grp_acc (xx groups : list Z) (nodata grp : Z) : Z * Z :=
  fold_left (grp_step nodata grp) (combine xx groups) (0, 0).

(** Output cell: [None] = never written, [Some (inl nodata)] = nodata echoed,
    [Some (inr (s, n))] = the mean s/n. *)
Inductive mcell := Unwritten | NoData | Mean (s n : Z).

(** The kernel loops over grp = 0 .. num_groups-1 and scatters into the members. *)
Definition mean_grp_at (xx groups : list Z) (num_groups nodata : Z) (g : Z) : mcell :=
  if (0 <=? g) && (g <? num_groups) then
    let st := grp_acc xx groups nodata g in
    if snd st =? 0 then NoData else Mean (fst st) (snd st)
  else Unwritten.

Definition mean_grp (xx groups : list Z) (num_groups nodata : Z) : list mcell :=
  map (mean_grp_at xx groups num_groups nodata) (firstn (length xx) groups).
