"""Runs the compiled ws2d and the same source on exact Fractions (zeros() swapped for an object array)."""
import inspect
import json
import sys
import textwrap
import warnings
from fractions import Fraction

import numpy as np

warnings.filterwarnings("ignore")
sys.set_int_max_str_digits(0)          # exact rationals of long series have numerators beyond 4300 digits
from hdc.algo.ops import ws2d as ws2d_mod  # noqa: E402
from hdc.algo.ops.ws2d import ws2d  # noqa: E402


def source_on_fractions():
    src = textwrap.dedent(inspect.getsource(ws2d.py_func))
    src = src[src.index("def ws2d"):]
    ns = {"zeros": lambda n: np.array([Fraction(0)] * int(n), dtype=object)}
    exec(compile(src, "ws2d-source", "exec"), ns)
    return ns["ws2d"]


def frac(x):
    return Fraction(x)            # exact value of the binary64 number


def main():
    P = json.load(sys.stdin)
    fws = source_on_fractions()
    out = []
    for c in P["cases"]:
        y = np.array(c["y"], dtype=c.get("ydtype", "float64"))     # the library itself hands int16 series to ws2d
        w = np.array(c["w"], dtype=c.get("wdtype", "float64"))
        lam = float(c["lam"])
        rec = {}
        try:
            z = ws2d(y, lam, w)
            rec["z"] = [float(v) for v in z]
        except Exception as e:  # noqa
            rec["error"] = "%s: %s" % (type(e).__name__, e)
        if c.get("exact"):
            try:
                yq = np.array([frac(v) for v in c["y"]], dtype=object)
                wq = np.array([frac(v) for v in c["w"]], dtype=object)
                zq = fws(yq, frac(lam), wq)
                rec["zq"] = [[v.numerator, v.denominator] for v in zq]
            except Exception as e:  # noqa
                rec["error_exact"] = "%s: %s" % (type(e).__name__, e)
        out.append(rec)
    print("@@RESULT@@" + json.dumps(out))


main()
