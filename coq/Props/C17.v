(** C17 — Rolling sum and grouped mean reduce exactly the valid cells.
    Only statements; every proof is [exact <lemma>] from Proofs/RollingProofs.v. *)
From HDC Require Import Base.Prelude Model.Rolling Proofs.RollingProofs.
Open Scope Z_scope.

(** a complete window without nodata yields the exact sum of its [ws] cells *)
Theorem C17_rolling_complete_window : forall xx ws nd ii,
  (1 <= ws)%nat -> (ws <= ii + 1)%nat -> (ii < length xx)%nat ->
  Forall (fun x => x <> nd) (window xx ii ws) ->
  rolling_at xx ws nd ii = zsum (window xx ii ws).
Proof. exact complete_window. Qed.
Print Assumptions C17_rolling_complete_window.

(** the window is exactly cells ii-ws+1 .. ii *)
Theorem C17_window_is_trailing : forall xx ii ws k d,
  (ws <= ii + 1)%nat -> (k < ws)%nat ->
  nth k (window xx ii ws) d = nth (ii + 1 - ws + k) xx d.
Proof. exact window_nth. Qed.
Print Assumptions C17_window_is_trailing.

Theorem C17_rolling_all_nodata : forall xx ws nd ii,
  (ws <= ii + 1)%nat -> Forall (fun x => x = nd) (window xx ii ws) ->
  rolling_at xx ws nd ii = nd.
Proof. exact all_nodata. Qed.
Print Assumptions C17_rolling_all_nodata.

(** mixed window: nodata, or the sum of the valid cells — never an amalgam *)
Theorem C17_rolling_mixed : forall xx ws nd ii,
  (ws <= ii + 1)%nat ->
  rolling_at xx ws nd ii = nd \/ rolling_at xx ws nd ii = zsum (valid_cells nd (window xx ii ws)).
Proof. exact mixed. Qed.
Print Assumptions C17_rolling_mixed.

(** the first ws-1 positions are dropped by the accessor, the rest are kept in order *)
Theorem C17_rolling_prefix_dropped : forall xx ws nd,
  length (rolling_accessor xx ws nd) = (length xx - (ws - 1))%nat /\
  forall k, (k + (ws - 1) < length xx)%nat ->
       nth k (rolling_accessor xx ws nd) 0 = rolling_at xx ws nd (k + (ws - 1)).
Proof. intros xx ws nd. split; [exact (accessor_length xx ws nd)|exact (accessor_nth xx ws nd)]. Qed.
Print Assumptions C17_rolling_prefix_dropped.

(** the result does not depend on the numeric value of nodata beyond the echo *)
Theorem C17_rolling_nodata_value_indep : forall xx1 xx2 nd1 nd2 ws ii,
  cells nd1 xx1 = cells nd2 xx2 -> (ws <= ii + 1)%nat ->
  exists o, rolling_at xx1 ws nd1 ii = echo nd1 o /\ rolling_at xx2 ws nd2 ii = echo nd2 o.
Proof. exact nodata_value_indep. Qed.
Print Assumptions C17_rolling_nodata_value_indep.

(** locality: an output cell is a function of its own trailing window. Earlier history does not matter ... *)
Theorem C17_rolling_history_irrelevant : forall pre xx ws nd ii,
  (ws <= ii + 1)%nat -> rolling_at (pre ++ xx) ws nd (length pre + ii) = rolling_at xx ws nd ii.
Proof. exact rolling_at_prefix. Qed.
Print Assumptions C17_rolling_history_irrelevant.

(** ... nor does anything after the cell (the kernel never looks ahead) *)
Theorem C17_rolling_future_irrelevant : forall xx post ws nd ii,
  (ii < length xx)%nat -> rolling_at (xx ++ post) ws nd ii = rolling_at xx ws nd ii.
Proof. exact rolling_at_suffix. Qed.
Print Assumptions C17_rolling_future_irrelevant.

(** grouped mean: mean (exact sum and count) of the non-nodata members of the label's group *)
Theorem C17_mean_grp_spec : forall xx groups ng nd i,
  (i < length xx)%nat -> length groups = length xx -> 0 <= nth i groups 0 < ng ->
  nth i (mean_grp xx groups ng nd) Unwritten =
  mean_spec nd (members xx groups (nth i groups 0)).
Proof.
  intros xx groups ng nd i Hi L Hg. rewrite mean_grp_nth by assumption.
  exact (mean_grp_at_spec xx groups ng nd _ Hg).
Qed.
Print Assumptions C17_mean_grp_spec.

Theorem C17_mean_grp_nodata_value_indep : forall xx1 xx2 nd1 nd2 groups ng g,
  cells nd1 xx1 = cells nd2 xx2 -> 0 <= g < ng ->
  mean_grp_at xx1 groups ng nd1 g = mean_grp_at xx2 groups ng nd2 g.
Proof. exact mean_grp_nodata_value_indep. Qed.
Print Assumptions C17_mean_grp_nodata_value_indep.

(** Non-vacuity: a concrete mixed window meets the hypotheses and shows each case. *)
Example C17_example :
  rolling_sum [-9999; 3; 4; -9999; -9999; 5] 2 (-9999) = [-9999; 3; 7; 4; -9999; 5] /\
  rolling_accessor [-9999; 3; 4; -9999; -9999; 5] 2 (-9999) = [3; 7; 4; -9999; 5] /\
  mean_grp [1; -9999; 4; -9999] [0; 1; 0; 1] 2 (-9999) = [Mean 5 2; NoData; Mean 5 2; NoData].
Proof. vm_compute. repeat split. Qed.

(** The kernel as pinned (before the fix: commit) violated the mixed-window clause:
    [-9999, 3] with window 2 gave -9996, neither nodata nor the sum of the valid cells. *)
Theorem C17_rolling_mixed_refuted_before_fix :
  exists xx ws nd ii, (ws <= ii + 1)%nat /\
    rolling_at_orig xx ws nd ii <> nd /\
    rolling_at_orig xx ws nd ii <> zsum (valid_cells nd (window xx ii ws)).
Proof.
  exists [-9999; 3], 2%nat, (-9999), 1%nat.
  split; [apply le_n|]. split; vm_compute; discriminate.
Qed.
Print Assumptions C17_rolling_mixed_refuted_before_fix.
