(** Correspondence cases for C17: the implementation's outputs are compared with the model. *)
From HDC Require Import Base.Prelude Base.Float Model.Rolling.
From Coq Require Import PrimFloat.
Open Scope Z_scope.

(** rolling_sum kernel: series, window, nodata, kernel output (float32 values) *)
Record rcase := RC { r_xx : list Z; r_ws : nat; r_nd : Z; r_out : list float }.
(** the kernel's output buffer is float32: the integer result is stored through binary32 *)
Definition store_f32 (z : Z) : float := to_f32 (f_of_Z z).
Definition check_rolling (c : rcase) : bool :=
  flist_eq_bits (map store_f32 (rolling_sum (r_xx c) (r_ws c) (r_nd c))) (r_out c).
Definition check_rolling_acc (c : rcase) : bool :=
  flist_eq_bits (map store_f32 (rolling_accessor (r_xx c) (r_ws c) (r_nd c))) (r_out c).

(** mean_grp kernel: output cells are float32; the kernel divides in binary64 and stores binary32 *)
Record mcase := MC { m_xx : list Z; m_grp : list Z; m_ng : Z; m_nd : Z; m_out : list float }.
Definition mcell_f32 (nd : Z) (c : mcell) : option float :=
  match c with
  | Unwritten => None
  | NoData => Some (to_f32 (f_of_Z nd))
  | Mean s n => Some (to_f32 (f_of_Z s / f_of_Z n)%float)
  end.
Fixpoint mcells_eq (nd : Z) (a : list mcell) (b : list float) : bool :=
  match a, b with
  | [], [] => true
  | x :: a', y :: b' =>
      match mcell_f32 nd x with Some v => feq_bits v y | None => false end && mcells_eq nd a' b'
  | _, _ => false
  end.
Definition check_mean_grp (c : mcase) : bool :=
  mcells_eq (m_nd c) (mean_grp (m_xx c) (m_grp c) (m_ng c) (m_nd c)) (m_out c).
