#!/bin/bash
# tools/final_pass.sh : quick tier of all 20 properties on /repo's working tree (default seed), evidence regenerated, schemas validated
cd /verif
rm -f /tmp/fp_status.log
for i in $(seq -w 1 20); do echo C$i; done | xargs -P ${JOBS:-6} -I{} sh -c './check {} --tier quick > /tmp/fp_{}.log 2>&1; echo "{} exit=$? $(grep -E "^(VIOLATION|KNOWN-FINDING)" /tmp/fp_{}.log | head -2 | cut -c1-160 | tr "\n" " ")" >> /tmp/fp_status.log'
sort /tmp/fp_status.log
/venv/bin/python tools/manifest.py > /dev/null
python3-vt - <<'PY'
import json, jsonschema, glob
ms = json.load(open('/root/.vp/MANIFEST.schema.json')); es = json.load(open('/root/.vp/EVIDENCE.schema.json'))
jsonschema.validate(json.load(open('/verif/MANIFEST.json')), ms)
n = 0
for f in sorted(glob.glob('/verif/evidence/C??.json')):
    e = json.load(open(f)); jsonschema.validate(e, es); n += 1
    assert e["tier"] == "quick" and e["seed"] == 20260930, (f, e["tier"], e["seed"])
print("manifest ok;", n, "evidence files ok (quick, default seed)")
PY
