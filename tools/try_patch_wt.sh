#!/bin/bash
# tools/try_patch_wt.sh <patch.diff> <property id>... : like try_patch.sh but in a scratch worktree (HDC_REPO), /repo itself is left alone
PATCH=$(readlink -f $1); shift
WT=/tmp/tp_$$
git -C /repo worktree add -q --detach $WT HEAD || exit 2
git -C $WT apply "$PATCH" || { echo "patch does not apply"; git -C /repo worktree remove --force $WT; exit 2; }
for p in "$@"; do
  (cd /verif && HDC_REPO=$WT ./check "$p" --tier ${TIER:-quick} 2>&1 | grep -E "^(VIOLATION|KNOWN-FINDING|\[C)" )
done
git -C /repo worktree remove --force $WT
