(** C02 — missing observations carry zero weight in every smoother. Statements only.
    [same_cells O nd1 nd2 y1 y2]: y1 and y2 have the same missing pattern (a cell is missing when
    it equals its encoding's nodata or is NaN / infinite) and agree on the valid cells;
    [same_cells_eq]: the same with "missing" = "equals nodata" only (V-curve kernels). *)
From Coq Require Import ZArith Reals Lra List.
From Coq Require Import PrimFloat.
From HDC Require Import Base.Prelude Base.Float Base.Ops Model.Ws2d Model.Smoothers Model.VCurve Model.Gcv
     Proofs.Ws2dIndex Proofs.SmoothersProofs Proofs.VCurveProofs Proofs.GcvProofs Proofs.PlaceholderProofs.

(** fixed-lambda smoothers: any carrier whose equality test tells 0 from 1 (reals, rationals, binary64) *)
Theorem C02_fixed_placeholder_indep : forall (F : Type) (O : Ops F),
  feqb O (f0 O) (f0 O) = true -> feqb O (f1 O) (f0 O) = false ->
  forall nd1 nd2 y1 y2 lam p, same_cells O nd1 nd2 y1 y2 ->
  ws2dgu O y1 lam nd1 = ws2dgu O y2 lam nd2 /\ ws2dpgu O y1 lam nd1 p = ws2dpgu O y2 lam nd2 p.
Proof.
  intros F O H0 H1 nd1 nd2 y1 y2 lam p H. split.
  - exact (gu_placeholder_indep O H0 H1 nd1 nd2 y1 y2 lam H).
  - exact (pgu_placeholder_indep O H0 H1 nd1 nd2 y1 y2 lam p H).
Qed.
Print Assumptions C02_fixed_placeholder_indep.

(** cross-validation smoothers, with and without robust weights, with and without envelope *)
Theorem C02_gcv_placeholder_indep : forall (F : Type) (O : Ops F) (K : gconsts),
  feqb O (f0 O) (f0 O) = true -> feqb O (f1 O) (f0 O) = false ->
  forall nd1 nd2 y1 y2 llas robust, same_cells O nd1 nd2 y1 y2 ->
  ws2dwcv O K y1 nd1 llas robust = ws2dwcv O K y2 nd2 llas robust /\
  forall p, ws2dwcvp O K y1 nd1 p llas robust = ws2dwcvp O K y2 nd2 p llas robust.
Proof. exact @wcv_placeholder_indep. Qed.
Print Assumptions C02_gcv_placeholder_indep.

(** V-curve smoothers (nodata placeholders), exact arithmetic: same band and same lambda *)
Theorem C02_vcurve_placeholder_indep : forall nd1 nd2 y1 y2 p llas,
  (4 <= length y1)%nat -> same_cells_eq nd1 nd2 y1 y2 ->
  ws2doptv OpsR y1 nd1 llas = ws2doptv OpsR y2 nd2 llas /\
  ws2doptvp OpsR y1 nd1 p llas = ws2doptvp OpsR y2 nd2 p llas /\
  forall ghi glo lc, ws2doptvplc OpsR ghi glo y1 nd1 p lc = ws2doptvplc OpsR ghi glo y2 nd2 p lc.
Proof.
  intros nd1 nd2 y1 y2 p llas Hn H. split; [exact (optv_placeholder_indep _ _ _ _ llas H)|].
  split; [exact (optvp_placeholder_indep _ _ _ _ p llas Hn H)|].
  intros ghi glo lc. rewrite !optvplc_grid. now apply optvp_placeholder_indep.
Qed.
Print Assumptions C02_vcurve_placeholder_indep.

(** a missing cell's value never reaches the solver: the curve is computed from the zeroed series;
    it is defined at every cell (gaps are filled by the fitted curve) *)
Theorem C02_gapfill : forall y lam nd z,
  (4 <= length y)%nat -> ws2dgu OpsR y lam nd = Curve z -> length z = length y.
Proof.
  intros y lam nd z Hn H. unfold ws2dgu in H. destruct (feqb OpsR lam (f0 OpsR)); [discriminate|].
  destruct (fltb OpsR _ _); [|discriminate]. injection H as <-.
  rewrite ws2d_length; rewrite ?zero_missing_length; rewrite ?weights_gu_length; try reflexivity; exact Hn.
Qed.
Print Assumptions C02_gapfill.

(** fewer valid observations than the smoother needs (2; 5 for cross-validation): unchanged, lambda 0 *)
Theorem C02_passthrough_2 : forall y lam nd p llas,
  (rsum (weights_gu OpsR nd y) <= 1)%R ->
  ws2dgu OpsR y lam nd = Passthrough /\ ws2dpgu OpsR y lam nd p = Passthrough /\
  ws2doptv OpsR y nd llas = VPass /\ ws2doptvp OpsR y nd p llas = VPass.
Proof.
  intros y lam nd p llas H. split; [now apply gu_few_valid|]. split; [now apply pgu_few_valid|].
  rewrite weights_gu_eq_R in H. unfold ws2doptv, ws2doptvp.
  replace (fltb OpsR (f1 OpsR) (fsum OpsR (weights_eq OpsR nd y))) with false; [split; reflexivity|].
  symmetry. cbn [fltb f1 OpsR]. rewrite fsum_rsum. apply Bool.not_true_is_false. intros E. apply Rltb_true in E. lra.
Qed.
Print Assumptions C02_passthrough_2.

Theorem C02_passthrough_5 : forall (K : gconsts) y nd llas robust p,
  (rsum (weights_gu OpsR nd y) <= 4)%R ->
  ws2dwcv OpsR K y nd llas robust = GPass /\ ws2dwcvp OpsR K y nd p llas robust = GPass.
Proof.
  intros K y nd llas robust p H.
  assert (fltb OpsR (fofZ OpsR 4) (fsum OpsR (weights_gu OpsR nd y)) = false) as E.
  { cbn [fltb fofZ OpsR]. rewrite fsum_rsum. apply Bool.not_true_is_false. intros E. apply Rltb_true in E. lra. }
  destruct (wcv_passthrough OpsR K y nd llas robust E) as [A B]. split; [exact A|apply B].
Qed.
Print Assumptions C02_passthrough_5.

(** Non-vacuity: a NaN, an infinity and two different nodata values encode the same cells (binary64). *)
Example C02_example :
  same_cells (OpsF no_oracles) (-3000)%float 5000%float
             [1%float; nan; 3%float; (-3000)%float; infinity] [1%float; 5000%float; 3%float; neg_infinity; 5000%float] /\
  feqb (OpsF no_oracles) zero zero = true /\ feqb (OpsF no_oracles) one zero = false.
Proof.
  split; [|split; reflexivity]. unfold same_cells.
  repeat (constructor; [first [left; split; vm_compute; reflexivity | right; repeat split; vm_compute; reflexivity]|]).
  constructor.
Qed.
