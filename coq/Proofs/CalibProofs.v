(** Proofs about [Model/Calib.v] (property C09). *)
From HDC Require Import Base.Prelude Base.ListLemmas Model.Calib Proofs.IteraggProofs.
From Coq Require Import Sorting.Sorted ZifyBool.
Open Scope Z_scope.

(** ** the calibration slice is exactly { i | begin <= t_i <= end } *)
Lemma ss_right_spec a : forall v i,
  StronglySorted Z.lt a -> (i < length a)%nat -> (Z.of_nat i < ss_right a v <-> nth i a 0 <= v).
Proof.
  unfold ss_right. induction a as [|x r IH]; intros v i Hs Hi; [cbn in Hi; lia|].
  inversion Hs as [|? ? S' F]; subst. cbn [filter]. destruct (x <=? v) eqn:E.
  - cbn [length]. destruct i as [|i]; cbn [nth].
    + apply Z.leb_le in E. set (n := length _). clearbody n. lia.
    + cbn [length] in Hi. assert (i < length r)%nat as Hi' by lia. rewrite <- (IH v i S' Hi'). set (n := length _). clearbody n. clear. lia.
  - rewrite (filter_none_gt r x v (fun a0 => a0 <=? v) F) by (intros; lia). cbn [length].
    destruct i as [|i]; cbn [nth]; [lia|]. cbn [length] in Hi.
    assert (i < length r)%nat as Hi' by lia.
    rewrite Forall_forall in F. pose proof (F (nth i r 0) (nth_In r 0 Hi')). apply Z.leb_gt in E || apply Z.ltb_ge in E. lia.
Qed.

Lemma ss_left_spec a : forall v i,
  StronglySorted Z.lt a -> (i < length a)%nat -> (ss_left a v <= Z.of_nat i <-> v <= nth i a 0).
Proof.
  unfold ss_left. induction a as [|x r IH]; intros v i Hs Hi; [cbn in Hi; lia|].
  inversion Hs as [|? ? S' F]; subst. cbn [filter]. destruct (x <? v) eqn:E.
  - cbn [length]. destruct i as [|i]; cbn [nth].
    + apply Z.ltb_lt in E. set (n := length _). clearbody n. lia.
    + cbn [length] in Hi. assert (i < length r)%nat as Hi' by lia. rewrite <- (IH v i S' Hi'). set (n := length _). clearbody n. clear. lia.
  - rewrite (filter_none_gt r x v (fun a0 => a0 <? v) F) by (intros; lia). cbn [length].
    destruct i as [|i]; cbn [nth]; [lia|]. cbn [length] in Hi.
    assert (i < length r)%nat as Hi' by lia.
    rewrite Forall_forall in F. pose proof (F (nth i r 0) (nth_In r 0 Hi')). apply Z.leb_gt in E || apply Z.ltb_ge in E. lia.
Qed.

Lemma cal_slice_exact time b e i :
  StronglySorted Z.lt time -> (i < length time)%nat ->
  (fst (cal_indices time b e) <= Z.of_nat i < snd (cal_indices time b e) <-> b <= nth i time 0 <= e).
Proof.
  intros Hs Hi. cbn [cal_indices fst snd].
  rewrite <- (ss_left_spec time b i Hs Hi), <- (ss_right_spec time e i Hs Hi). lia.
Qed.

(** number of steps in the window *)
Definition in_window (b e t : Z) : bool := (b <=? t) && (t <=? e).
Definition count_window (time : list Z) (b e : Z) : Z := Z.of_nat (length (filter (in_window b e) time)).

Lemma window_count (time : list Z) b e :
  b <= e -> ss_right time e - ss_left time b = count_window time b e.
Proof.
  intros Hbe. unfold ss_right, ss_left, count_window, in_window.
  induction time as [|x r IH]; [reflexivity|]. cbn [filter].
  destruct (x <=? e) eqn:E1; destruct (x <? b) eqn:E2; destruct (b <=? x) eqn:E3; cbn [andb length]; lia.
Qed.

Lemma window_count_rev (time : list Z) b e :
  e < b -> ss_right time e - ss_left time b <= 0 /\ count_window time b e = 0.
Proof.
  intros Hbe. unfold ss_right, ss_left, count_window, in_window.
  induction time as [|x r IH]; [cbn; lia|]. cbn [filter].
  destruct (x <=? e) eqn:E1; destruct (x <? b) eqn:E2; destruct (b <=? x) eqn:E3; cbn [andb length]; lia.
Qed.

Lemma window_ok_count time b e :
  window_ok (cal_indices time b e) = true <-> 2 <= count_window time b e.
Proof.
  unfold window_ok, cal_indices. cbn [fst snd].
  destruct (Z_le_gt_dec b e) as [L|G].
  - pose proof (window_count time b e L). lia.
  - pose proof (window_count_rev time b e ltac:(lia)). lia.
Qed.

(** ** recorded attributes: first step >= begin, last step <= end *)
Lemma first_ge_spec time v t :
  StronglySorted Z.lt time -> first_ge time v = Some t ->
  In t time /\ v <= t /\ forall t', In t' time -> v <= t' -> t <= t'.
Proof.
  unfold first_ge. induction 1 as [|x r Hs IH F]; cbn [filter hd_error]; [discriminate|].
  destruct (v <=? x) eqn:E; cbn [hd_error].
  - intros [= <-]. split; [now left|]. split; [lia|]. intros t' [<-|I] _; [lia|].
    rewrite Forall_forall in F. specialize (F t' I). lia.
  - intros H. destruct (IH H) as (I & L & M). split; [now right|]. split; [exact L|].
    intros t' [<-|I'] Hv; [lia|]. now apply M.
Qed.

Lemma hd_error_rev_app {A} (l : list A) x : hd_error (rev (l ++ [x])) = Some x.
Proof. rewrite rev_app_distr. reflexivity. Qed.

Lemma last_le_spec time v t :
  StronglySorted Z.lt time -> last_le time v = Some t ->
  In t time /\ t <= v /\ forall t', In t' time -> t' <= v -> t' <= t.
Proof.
  unfold last_le. induction 1 as [|x r Hs IH F]; cbn [filter]; [discriminate|].
  destruct (x <=? v) eqn:E.
  - cbn [rev]. destruct (filter (fun t0 => t0 <=? v) r) as [|y ys] eqn:Ef.
    + cbn. intros [= <-]. split; [now left|]. split; [lia|]. intros t' [<-|I] Hv; [lia|].
      exfalso. assert (In t' (filter (fun t0 => t0 <=? v) r)) as X by (apply filter_In; split; [exact I|lia]).
      rewrite Ef in X. exact X.
    + intros H.
      assert (hd_error (rev (y :: ys)) = Some t) as H'.
      { destruct (rev (y :: ys)) as [|z zs] eqn:Er; [apply (f_equal (@length Z)) in Er; rewrite rev_length in Er; discriminate|].
        cbn in H. cbn. exact H. }
      destruct (IH H') as (I & L & M). split; [now right|]. split; [exact L|].
      intros t' [<-|I'] Hv; [|now apply M]. rewrite Forall_forall in F. specialize (F t I). lia.
  - intros H. destruct (IH H) as (I & L & M). split; [now right|]. split; [exact L|].
    intros t' [<-|I'] Hv; [lia|]. now apply M.
Qed.

(** ** ValueError iff the window holds fewer than two steps (ungrouped) *)
Lemma filter_nonempty_hd {A} (f : A -> bool) (l : list A) :
  (0 < length (filter f l))%nat -> exists x, hd_error (filter f l) = Some x.
Proof. destruct (filter f l) as [|x r]; cbn; [lia|]. intros _. now exists x. Qed.

Lemma filter_nonempty_last {A} (f : A -> bool) (l : list A) :
  (0 < length (filter f l))%nat -> exists x, hd_error (rev (filter f l)) = Some x.
Proof.
  intros H. destruct (rev (filter f l)) as [|x r] eqn:E.
  - apply (f_equal (@length A)) in E. rewrite rev_length in E. cbn in E. lia.
  - now exists x.
Qed.

Lemma count_window_le_ge time b e :
  2 <= count_window time b e ->
  (0 < length (filter (fun t => (b <=? t)%Z) time))%nat /\ (0 < length (filter (fun t => (t <=? e)%Z) time))%nat /\
  (exists t, In t time /\ b <= t <= e).
Proof.
  unfold count_window, in_window. induction time as [|x r IH]; cbn [filter length]; [lia|].
  destruct (b <=? x) eqn:E1; destruct (x <=? e) eqn:E2; cbn [andb length]; intros H.
  - split; [lia|split; [lia|]]. exists x. split; [now left|lia].
  - destruct (IH H) as (A & B & (t & I & R)). split; [lia|split; [lia|]]. exists t. split; [now right|exact R].
  - destruct (IH H) as (A & B & (t & I & R)). split; [lia|split; [lia|]]. exists t. split; [now right|exact R].
  - destruct (IH H) as (A & B & (t & I & R)). split; [lia|split; [lia|]]. exists t. split; [now right|exact R].
Qed.

Lemma hd_le_all time : StronglySorted Z.lt time -> forall t, In t time -> hd 0 time <= t.
Proof.
  induction 1 as [|x r _ _ F]; intros t I; [contradiction|]. cbn. destruct I as [<-|I]; [lia|].
  rewrite Forall_forall in F. specialize (F t I). lia.
Qed.

Lemma all_le_last time : StronglySorted Z.lt time -> forall t, In t time -> t <= last time 0.
Proof.
  induction 1 as [|x r Hs IH F]; intros t I; [contradiction|].
  destruct r as [|y r']; [destruct I as [<-|[]]; cbn; lia|].
  change (last (x :: y :: r') 0) with (last (y :: r') 0).
  destruct I as [<-|I]; [|now apply IH].
  rewrite Forall_forall in F. specialize (F y ltac:(now left)). specialize (IH y ltac:(now left)). lia.
Qed.

Lemma calibration_errors time b e :
  StronglySorted Z.lt time ->
  let '(bv, ev) := resolve time b e in
  (spi_calibration time None b e = None <-> count_window time bv ev <= 1).
Proof.
  intros Hs. unfold spi_calibration. destruct (resolve time b e) as [bv ev].
  destruct (last time 0 <? bv) eqn:E1.
  - split; [intros _|reflexivity].
    destruct (Z_le_gt_dec 2 (count_window time bv ev)) as [C|C]; [|lia].
    destruct (count_window_le_ge time bv ev C) as (_ & _ & (t & I & R)).
    pose proof (all_le_last time Hs t I). lia.
  - destruct (ev <? hd 0 time) eqn:E2.
    + split; [intros _|reflexivity].
      destruct (Z_le_gt_dec 2 (count_window time bv ev)) as [C|C]; [|lia].
      destruct (count_window_le_ge time bv ev C) as (_ & _ & (t & I & R)).
      pose proof (hd_le_all time Hs t I). lia.
    + cbn [forallb]. destruct (window_ok (cal_indices time bv ev)) eqn:W; cbn [andb].
      * apply window_ok_count in W. destruct (count_window_le_ge time bv ev W) as (A & B & _).
        destruct (filter_nonempty_hd _ _ A) as (x & Hx). destruct (filter_nonempty_last _ _ B) as (y & Hy).
        unfold first_ge, last_le. rewrite Hx, Hy. split; [discriminate|lia].
      * split; [intros _|reflexivity].
        destruct (Z_le_gt_dec 2 (count_window time bv ev)) as [C|C]; [|lia].
        apply window_ok_count in C. congruence.
Qed.

(** ** to_linspace *)
Lemma insert_uniq_in x l v : In v (insert_uniq x l) <-> v = x \/ In v l.
Proof.
  induction l as [|y r IH]; cbn [insert_uniq In]; [intuition congruence|].
  destruct (x <? y) eqn:E1; [cbn [In]; intuition congruence|]. destruct (x =? y) eqn:E2.
  - apply Z.eqb_eq in E2. subst. cbn [In]. intuition congruence.
  - cbn [In]. rewrite IH. intuition congruence.
Qed.

Lemma insert_uniq_sorted x l : StronglySorted Z.lt l -> StronglySorted Z.lt (insert_uniq x l).
Proof.
  induction 1 as [|y r Hs IH F]; cbn [insert_uniq]; [repeat constructor|].
  destruct (x <? y) eqn:E1.
  - constructor; [now constructor|]. constructor; [lia|]. eapply Forall_impl; [|exact F]. intros; lia.
  - destruct (x =? y) eqn:E2; [now constructor|].
    constructor; [exact IH|]. apply Forall_forall. intros v Hv. apply insert_uniq_in in Hv as [->|Hv]; [lia|].
    rewrite Forall_forall in F. now apply F.
Qed.

Lemma sort_uniq_spec x : StronglySorted Z.lt (sort_uniq x) /\ forall v, In v (sort_uniq x) <-> In v x.
Proof.
  induction x as [|a r [S I]]; cbn [sort_uniq fold_right]; [split; [constructor|tauto]|].
  split; [now apply insert_uniq_sorted|]. intros v. rewrite insert_uniq_in. fold (sort_uniq r). rewrite I.
  cbn [In]. intuition congruence.
Qed.

(** each value is replaced by its position in the sorted unique keys *)
Lemma to_linspace_index x i :
  (i < length x)%nat ->
  let '(lin, keys) := to_linspace x in
  0 <= nth i lin 0 < Z.of_nat (length keys) /\ nth (Z.to_nat (nth i lin 0)) keys 0 = nth i x 0.
Proof.
  intros Hi. unfold to_linspace. destruct (sort_uniq_spec x) as [S I].
  assert (In (nth i x 0) (sort_uniq x)) as Hin by (apply I, nth_In; exact Hi).
  rewrite (nth_indep _ 0 (ss_left (sort_uniq x) 0)) by (now rewrite map_length).
  rewrite map_nth.
  destruct (count_le_lt (sort_uniq x) (nth i x 0) S) as [B [(_ & E & N)|(Nin & _)]]; [|contradiction].
  change (count_lt (sort_uniq x) (nth i x 0)) with (ss_left (sort_uniq x) (nth i x 0)) in *.
  split; [|exact N]. split; [unfold ss_left; lia|].
  unfold count_le in E. pose proof (filter_length_le' (fun a => a <=? nth i x 0) (sort_uniq x)). lia.
Qed.

Lemma sorted_nth_inj l : StronglySorted Z.lt l -> forall p q, (p < length l)%nat -> (q < length l)%nat ->
  nth p l 0 = nth q l 0 -> p = q.
Proof.
  intros S.
  assert (forall l, StronglySorted Z.lt l -> forall p q, (p < q < length l)%nat -> nth p l 0 < nth q l 0) as Mono.
  { induction 1 as [|a r S' IH F]; intros p q Hpq; [cbn in Hpq; lia|].
    destruct p as [|p]; destruct q as [|q]; try lia; cbn [nth length] in *.
    - rewrite Forall_forall in F. apply F, nth_In. lia.
    - apply IH. lia. }
  intros p q Hp Hq E. destruct (Nat.lt_trichotomy p q) as [L|[->|L]]; [|reflexivity|].
  - pose proof (Mono l S p q ltac:(lia)). lia.
  - pose proof (Mono l S q p ltac:(lia)). lia.
Qed.

(** the new labels induce the same partition and use exactly 0 .. k-1 *)
Lemma to_linspace_partition x i j :
  (i < length x)%nat -> (j < length x)%nat ->
  (nth i (fst (to_linspace x)) 0 = nth j (fst (to_linspace x)) 0 <-> nth i x 0 = nth j x 0).
Proof.
  intros Hi Hj. pose proof (to_linspace_index x i Hi) as A. pose proof (to_linspace_index x j Hj) as B.
  destruct (to_linspace x) as [lin keys] eqn:E. cbn [fst].
  destruct A as [[A0 A1] A2]. destruct B as [[B0 B1] B2]. split; intros H.
  - rewrite <- A2, <- B2, H. reflexivity.
  - assert (keys = sort_uniq x) as -> by (unfold to_linspace in E; now injection E).
    destruct (sort_uniq_spec x) as [S _].
    assert (Z.to_nat (nth i lin 0) = Z.to_nat (nth j lin 0)) as X.
    { apply (sorted_nth_inj _ S); try lia; try congruence. }
    lia.
Qed.

Lemma to_linspace_surjective x k :
  0 <= k < Z.of_nat (length (snd (to_linspace x))) -> exists i, (i < length x)%nat /\ nth i (fst (to_linspace x)) 0 = k.
Proof.
  intros Hk. unfold to_linspace in *. cbn [fst snd] in *. destruct (sort_uniq_spec x) as [S I].
  assert (In (nth (Z.to_nat k) (sort_uniq x) 0) x) as Hin by (apply I, nth_In; lia).
  apply In_nth with (d := 0) in Hin as (i & Hi & Ei). exists i. split; [exact Hi|].
  pose proof (to_linspace_index x i Hi) as A. unfold to_linspace in A. destruct A as [[A0 A1] A2].
  rewrite Ei in A2.
  assert (Z.to_nat (nth i (map (ss_left (sort_uniq x)) x) 0) = Z.to_nat k) as X.
  { apply (sorted_nth_inj _ S); try lia; try exact A2. }
  lia.
Qed.

(** ** grouped kernel: decomposition, relabelling, single group *)
Section GroupedProofs.
  Variable k : list Z -> Z * Z -> list Z.
  Hypothesis k_length : forall s w, length (k s w) = length s.

  Lemma select_length_le {A} groups g (l : list A) : (length (select groups g l) <= length l)%nat.
  Proof.
    revert l; induction groups as [|h gs IH]; intros [|x r]; cbn [select length]; try lia.
    destruct (h =? g); cbn [length]; specialize (IH r); lia.
  Qed.

  Lemma select_same_length {A B} groups g (l1 : list A) (l2 : list B) :
    length l1 = length groups -> length l2 = length groups ->
    length (select groups g l1) = length (select groups g l2).
  Proof.
    revert l1 l2; induction groups as [|h gs IH]; intros [|x r] [|y s] H1 H2; cbn [select length] in *; try lia.
    destruct (h =? g); cbn [length]; rewrite (IH r s); lia.
  Qed.

  Lemma scatter_length groups g vals acc : length (scatter groups g vals acc) = length acc.
  Proof.
    revert vals acc; induction groups as [|h gs IH]; intros vals [|a r]; cbn [scatter length]; try reflexivity.
    destruct (h =? g); [destruct vals|]; cbn [length]; now rewrite IH.
  Qed.

  Lemma select_scatter_other groups g g' vals acc :
    g <> g' -> select groups g (scatter groups g' vals acc) = select groups g acc.
  Proof.
    intros Hne. revert vals acc; induction groups as [|h gs IH]; intros vals [|a r]; cbn [scatter select]; try reflexivity.
    destruct (h =? g') eqn:E1.
    - destruct vals; cbn [select]; destruct (h =? g) eqn:E2; try lia; apply IH.
    - cbn [select]. destruct (h =? g) eqn:E2; [f_equal|]; apply IH.
  Qed.

  Lemma select_scatter_same groups g vals acc :
    length acc = length groups -> length vals = length (select groups g acc) ->
    select groups g (scatter groups g vals acc) = map Some vals.
  Proof.
    revert vals acc; induction groups as [|h gs IH]; intros vals [|a r] H1 H2; cbn [length] in H1; try lia.
    - cbn [select length] in H2. destruct vals; [reflexivity|cbn [length] in H2; lia].
    - cbn [select] in H2. cbn [scatter]. destruct (h =? g) eqn:E.
      + destruct vals as [|v vs]; cbn [length] in H2; [lia|]. cbn [select map]. rewrite E. f_equal. apply IH; lia.
      + cbn [select]. rewrite E. apply IH; lia.
  Qed.

  Lemma fold_grp_length xx groups cal n :
    length (fold_left (grp_step k xx groups cal) (seq 0 n) (map (fun _ => None) xx)) = length xx.
  Proof.
    induction n as [|n IH]; [cbn; now rewrite map_length|].
    rewrite seq_S, fold_left_app. cbn [fold_left Nat.add]. unfold grp_step at 1. now rewrite scatter_length.
  Qed.

  (** the grouped result restricted to group g is the per-series kernel on g's sub-series with g's window *)
  Lemma grp_decomposes xx groups n cal g :
    length groups = length xx -> (g < n)%nat ->
    select groups (Z.of_nat g) (gammastd_grp k xx groups n cal) =
    map Some (k (select groups (Z.of_nat g) xx) (nth g cal (0, 0))).
  Proof.
    intros Hl. unfold gammastd_grp. induction n as [|n IH]; intros Hg; [lia|].
    rewrite seq_S, fold_left_app. cbn [fold_left Nat.add]. unfold grp_step at 1.
    destruct (Nat.eq_dec g n) as [->|Hne].
    - apply select_scatter_same.
      + rewrite fold_grp_length. lia.
      + rewrite k_length. apply select_same_length; [lia|]. rewrite fold_grp_length. lia.
    - rewrite select_scatter_other by lia. apply IH. lia.
  Qed.

  Lemma select_ext {A} groups (l1 l2 : list A) :
    length l1 = length groups -> length l2 = length groups ->
    (forall g, select groups g l1 = select groups g l2) -> l1 = l2.
  Proof.
    revert l1 l2; induction groups as [|h gs IH]; intros [|x r] [|y s] H1 H2 H; cbn [select length] in *; try lia; [reflexivity|].
    pose proof (H h) as Hh. rewrite Z.eqb_refl in Hh. injection Hh as -> Hh. f_equal.
    apply IH; try lia. intros g. specialize (H g). destruct (h =? g); [now injection H|exact H].
  Qed.

  Lemma select_all {A} groups (l : list A) g :
    Forall (fun h => h = g) groups -> length l = length groups -> select groups g l = l.
  Proof.
    intros F. revert l; induction F as [|h gs Hh _ IH]; intros [|x r] Hl; cbn [select length] in *; try lia; [reflexivity|].
    subst h. rewrite Z.eqb_refl. f_equal. apply IH. lia.
  Qed.

  (** a single group: the grouped kernel is the ungrouped kernel *)
  Lemma grp_single xx groups cal :
    length groups = length xx -> Forall (fun h => h = 0) groups ->
    gammastd_grp k xx groups 1 cal = map Some (k xx (nth 0 cal (0, 0))).
  Proof.
    intros Hl F.
    pose proof (grp_decomposes xx groups 1 cal 0 Hl ltac:(lia)) as D. cbn [Z.of_nat] in D.
    rewrite (select_all groups xx 0 F ltac:(lia)) in D.
    rewrite select_all in D; [exact D|exact F|]. unfold gammastd_grp. rewrite fold_grp_length. lia.
  Qed.

  Lemma select_none {A} groups g (l : list A) : Forall (fun h => h <> g) groups -> select groups g l = [].
  Proof.
    intros F. revert l; induction F as [|h gs Hh _ IH]; intros [|x r]; cbn [select]; try reflexivity.
    destruct (h =? g) eqn:E; [lia|apply IH].
  Qed.

  Lemma select_map_inj {A} (s : Z -> Z) groups g (l : list A) :
    (forall a, In a groups -> s a = s g -> a = g) ->
    select (map s groups) (s g) l = select groups g l.
  Proof.
    revert l; induction groups as [|h gs IH]; intros l Hinj; [reflexivity|].
    destruct l as [|x r]; cbn [map select]; [reflexivity|].
    assert (forall a : Z, In a gs -> s a = s g -> a = g) as Hinj' by (intros a Ia; apply (Hinj a); now right).
    destruct (h =? g) eqn:E.
    - apply Z.eqb_eq in E. subst h. rewrite Z.eqb_refl. f_equal. now apply IH.
    - replace (s h =? s g) with false; [now apply IH|].
      symmetry. apply Z.eqb_neq. intros Hs. apply Z.eqb_neq in E. apply E. apply (Hinj h); [now left|exact Hs].
  Qed.

  (** renaming the labels by any injection sigma of 0..n-1 into itself (with each group's window
      moved along) leaves the result unchanged: it depends only on the partition *)
  Lemma grp_relabel xx groups n cal cal' (s : nat -> nat) :
    length groups = length xx ->
    Forall (fun h => 0 <= h < Z.of_nat n) groups ->
    (forall a, (a < n)%nat -> (s a < n)%nat) ->
    (forall a b, (a < n)%nat -> (b < n)%nat -> s a = s b -> a = b) ->
    (forall a, (a < n)%nat -> nth (s a) cal' (0, 0) = nth a cal (0, 0)) ->
    gammastd_grp k xx (map (fun h => Z.of_nat (s (Z.to_nat h))) groups) n cal' = gammastd_grp k xx groups n cal.
  Proof.
    intros Hl Hr Hs Hinj Hcal. set (sz := fun h => Z.of_nat (s (Z.to_nat h))).
    assert (length (map sz groups) = length xx) as Hl' by (now rewrite map_length).
    apply (select_ext (map sz groups)).
    - unfold gammastd_grp. rewrite fold_grp_length. lia.
    - unfold gammastd_grp. rewrite fold_grp_length. rewrite map_length. lia.
    - intros g'. destruct (in_dec Z.eq_dec g' (map sz groups)) as [Hin|Hout].
      + apply in_map_iff in Hin as (p & <- & Ip).
        pose proof Hr as Hr'. rewrite Forall_forall in Hr'. pose proof (Hr' p Ip) as Rp.
        set (a := Z.to_nat p). assert (a < n)%nat as Ha by lia.
        assert (p = Z.of_nat a) as Ep by lia.
        assert (forall q : Z, In q groups -> sz q = sz p -> q = p) as Inj.
        { intros q Iq E. pose proof (Hr' q Iq) as Rq. unfold sz in E. apply Nat2Z.inj in E.
          apply Hinj in E; lia. }
        transitivity (map Some (k (select groups p xx) (nth a cal (0, 0)))).
        * change (sz p) with (Z.of_nat (s a)).
          rewrite (grp_decomposes xx (map sz groups) n cal' (s a) Hl' (Hs a Ha)).
          change (Z.of_nat (s a)) with (sz p). rewrite select_map_inj by exact Inj.
          rewrite Hcal by exact Ha. reflexivity.
        * rewrite select_map_inj by exact Inj. rewrite Ep.
          rewrite (grp_decomposes xx groups n cal a Hl Ha). reflexivity.
      + assert (Forall (fun h => h <> g') (map sz groups)) as F.
        { apply Forall_forall. intros h Ih E. subst h. contradiction. }
        rewrite !select_none by exact F. reflexivity.
  Qed.
End GroupedProofs.

(** ** nesting: both cut points are monotone in their date, so widening the calibration window
    never drops a step (for any axis - sortedness is not needed) *)
Lemma ss_left_mono a v v' : v <= v' -> ss_left a v <= ss_left a v'.
Proof.
  intros H. unfold ss_left. induction a as [|x r IH]; [reflexivity|]. cbn [filter].
  destruct (Z.ltb_spec x v); destruct (Z.ltb_spec x v'); cbn [length]; lia.
Qed.

Lemma ss_right_mono a v v' : v <= v' -> ss_right a v <= ss_right a v'.
Proof.
  intros H. unfold ss_right. induction a as [|x r IH]; [reflexivity|]. cbn [filter].
  destruct (Z.leb_spec x v); destruct (Z.leb_spec x v'); cbn [length]; lia.
Qed.

Lemma cal_indices_nested time b e b' e' :
  b' <= b -> e <= e' ->
  fst (cal_indices time b' e') <= fst (cal_indices time b e) /\
  snd (cal_indices time b e) <= snd (cal_indices time b' e').
Proof. intros Hb He. unfold cal_indices. cbn [fst snd]. split; [now apply ss_left_mono|now apply ss_right_mono]. Qed.

Lemma filter_len_le {A} (f : A -> bool) l : (length (filter f l) <= length l)%nat.
Proof. induction l as [|x r IH]; [reflexivity|]. cbn [filter]. destruct (f x); cbn [length]; lia. Qed.

(** the cut points always lie on the axis: 0 <= first <= n, 0 <= last <= n *)
Lemma cal_indices_range time b e :
  0 <= fst (cal_indices time b e) <= Z.of_nat (length time) /\ 0 <= snd (cal_indices time b e) <= Z.of_nat (length time).
Proof.
  unfold cal_indices, ss_left, ss_right. cbn [fst snd].
  pose proof (filter_len_le (fun x => x <? b) time). pose proof (filter_len_le (fun x => x <=? e) time). lia.
Qed.
