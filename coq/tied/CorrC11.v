(** Correspondence cases for C11: records observed on the running Dekad class are compared
    with the model generated from its source. *)
From Coq Require Import ZArith Bool List String Ascii.
From HDC Require Import Base.Prelude Base.Civil Base.PyStr gen.DekadGen tied.DekadProofs.
Open Scope Z_scope.

Fixpoint str_eqb (a b : list ascii) : bool :=
  match a, b with
  | [], [] => true
  | x :: a', y :: b' => Ascii.eqb x y && str_eqb a' b'
  | _, _ => false
  end.

(** a dekad's observed attributes; [dk_end]/[dk_ndays] are [None] for 9999-12-d3 (datetime overflow) *)
Record dkcase := DK { dk_k : Z; dk_year : Z; dk_month : Z; dk_day : Z; dk_idx : Z; dk_yidx : Z; dk_raw : Z;
                      dk_label : string; dk_start : Z; dk_end : option Z; dk_ndays : option Z }.

Definition check_dekad (c : dkcase) : bool :=
  let k := of_int (dk_k c) in
  (year k =? dk_year c) && (month k =? dk_month c) && (day k =? dk_day c) && (idx k =? dk_idx c) &&
  (yidx k =? dk_yidx c) && (raw k =? dk_raw c) &&
  str_eqb (label k) (list_ascii_of_string (dk_label c)) &&
  opt_zeqb (parse_label (list_ascii_of_string (dk_label c))) (Some (dk_k c)) &&
  (start_date k =? dk_start c) &&
  match dk_end c with Some e => end_date k =? e | None => true end &&
  match dk_ndays c with Some n => ndays k =? n | None => true end.

(** an instant (date + microseconds of day) and the raw dekad the class assigns to it *)
Record dtcase := DT { dt_y : Z; dt_m : Z; dt_d : Z; dt_t : Z; dt_k : Z }.
Definition check_date (c : dtcase) : bool :=
  let k := of_date (dt_y c) (dt_m c) (dt_d c) in
  (k =? dt_k c) && (start_date k <=? datetime_at (dt_y c) (dt_m c) (dt_d c) (dt_t c)).

Record opcase := OP { op_a : Z; op_n : Z; op_b : Z; op_add : Z; op_radd : Z; op_subi : Z; op_subd : Z;
                      op_eq : bool; op_lt : bool; op_gt : bool; op_le : bool; op_ge : bool }.
Definition check_ops (c : opcase) : bool :=
  (add (op_a c) (op_n c) =? op_add c) && (radd (op_a c) (op_n c) =? op_radd c) &&
  (sub_int (op_a c) (op_n c) =? op_subi c) && (sub_dekad (op_b c) (op_a c) =? op_subd c) &&
  Bool.eqb (cmp_eq (op_a c) (op_b c)) (op_eq c) && Bool.eqb (cmp_lt (op_a c) (op_b c)) (op_lt c) &&
  Bool.eqb (cmp_gt (op_a c) (op_b c)) (op_gt c) && Bool.eqb (cmp_le (op_a c) (op_b c)) (op_le c) &&
  Bool.eqb (cmp_ge (op_a c) (op_b c)) (op_ge c).
