(** C16 — zonal mean is the exact mean and count of valid pixels per zone. Statements only
    (exact arithmetic; the binary64 / binary32 accuracy clause is measured, see DESIGN). *)
From Coq Require Import ZArith Reals Lra List Sorting.Permutation.
From HDC Require Import Base.Prelude Base.Ops Model.Zonal Proofs.SmoothersProofs Proofs.ZonalProofs.
Open Scope R_scope.

(** for zone k: the arithmetic mean of the valid pixels whose zone is k, with their count; NaN and 0 for an empty zone *)
Theorem C16_zone_mean : forall k px,
  zone_mean OpsR k px =
  (if Nat.eqb (length (members k px)) 0 then None else Some (rsum (members k px) / INR (length (members k px))),
   INR (length (members k px))).
Proof. exact zone_mean_spec. Qed.
Print Assumptions C16_zone_mean.

Theorem C16_excluded_cells : forall k p z r,
  members k ((None, z) :: r) = members k r /\ members k ((p, None) :: r) = members k r.
Proof. exact excluded_cells. Qed.
Print Assumptions C16_excluded_cells.

(** invariant under any rearrangement of the pixels *)
Theorem C16_rearrangement : forall n px px', Permutation px px' -> do_mean OpsR n px = do_mean OpsR n px'.
Proof. exact do_mean_perm. Qed.
Print Assumptions C16_rearrangement.

Example C16_example :
  map (fun k => length (members k [(Some 1, Some 0%Z); (Some 2, Some 1%Z); (None, Some 1%Z); (Some 3, Some 1%Z); (Some 9, None)])) [0%Z; 1%Z; 2%Z]
  = [1; 2; 0]%nat.
Proof. reflexivity. Qed.
