"""C04 — V-curve selection is optimal on the grid and self-consistent."""
import math

import numpy as np

from vlib import core
from props import whit_common as wc
from props.C03 import gen_series, gap_pattern


def gen(ctx, rng):
    cases = []
    N = 260 if ctx.thorough else 75
    for it in range(N):
        n = int(rng.choice([5, 6, 8, int(rng.integers(9, 60)), int(rng.integers(60, 200 if ctx.thorough else 110))]))
        y = gen_series(rng, n, negative_ok=(it % 3 == 0))
        nd = float(rng.choice([-9999, -3000, 0, 9500]))
        y[y == nd] += 1
        miss = gap_pattern(rng, n) if it % 4 else np.zeros(n, dtype=bool)
        if (~miss).sum() < 2 and it % 5:
            miss[:2] = False
        y[miss] = nd
        kind = ["optv", "optvp", "optvplc"][it % 3]
        c = dict(kind=kind, y=[float(v) for v in y], nodata=nd, n=n, miss=int(miss.sum()))
        if kind != "optv":
            c["p"] = float(rng.choice([0.9, 0.5, 0.1, 0.95, float(rng.uniform(0.05, 0.95))]))
        if kind == "optvplc":
            c["lc"] = float(rng.choice([0.9, 0.5, 0.2, -0.7, float("nan"), float(np.nextafter(0.5, 1)), 1.0, float(rng.uniform(-1, 1))]))
        else:
            k = int(rng.integers(3, 41 if ctx.thorough else 24))
            start = float(rng.uniform(-3, 1.5))
            step = float(rng.choice([0.2, 0.5, 0.25, 1.0, float(rng.uniform(0.05, 0.6))]))
            step = min(step, (6.0 - start) / (k - 1))           # lambda stays <= 1e6 (float range of the solver, cf. C01)
            c["llas"] = [start + step * i for i in range(k)]
        cases.append(c)
    # extreme envelopes on long noisy / floor-clipped series: the final reweighting at the selected lambda does not settle within
    # its 10 passes, so the band depends on the curve that loop starts from (it must be the zero curve, as in ws2dpgu)
    for it in range(60 if ctx.thorough else 20):
        n = int(rng.integers(110, 200))
        t = np.arange(n)
        if it % 3 == 0:
            y = np.round(rng.normal(2000, 900, n))
        elif it % 3 == 1:
            y = np.round(np.maximum(300.0, 2500 + 2600 * np.sin(2 * np.pi * t / float(rng.uniform(20, 60))) + rng.normal(0, 250, n)))
        else:
            y = np.round(np.repeat(rng.normal(2000, 900, n // 12 + 1), 12)[:n] + rng.normal(0, 40, n))
        c = dict(kind=["optvp", "optvplc"][it % 4 == 3], y=[float(v) for v in y], nodata=-3000.0, n=n, miss=0,
                 p=float(rng.choice([0.99999, 0.00001, 0.9999, 0.0001, 0.99, 0.01])))
        if c["kind"] == "optvplc":
            c["lc"] = float(rng.choice([0.9, 0.2]))
        else:
            c["llas"] = [float(v) for v in np.arange(-1.0, 3.1, 0.5)]
        cases.append(c)
    acc = []
    for k in range(6 if ctx.thorough else 3):
        T = int(rng.integers(8, 40))
        cube = np.stack([np.stack([gen_series(rng, T, negative_ok=False) for _ in range(3)]) for _ in range(2)])
        nd = -3000.0
        cube[rng.random(cube.shape) < 0.1] = nd
        a = dict(op="whitsvc", cube=cube.tolist(), nodata=nd, order=[("time", "y", "x"), ("y", "x", "time")][k % 2],
                 name=[None, "ndvi"][k % 2], attr_nodata=[None, -9999, 0][k % 3])
        if k % 3 == 0:
            a["lc"] = [[0.9, 0.5, None], [0.2, 0.5000001, -0.3]]
            a["lc_order"] = ["x", "y"] if k % 2 == 0 else None      # matched to the cube by name, not by position
            a["p"] = 0.9
            a["dtype"] = "int16"
        else:
            a["srange"] = [[float(v) for v in np.arange(-2, 2.2, 0.4)], [float(v) for v in np.arange(-1.875, 2.0, 0.35)], [float(v) for v in np.linspace(-1, 3, 12)]][k % 3]
            if k % 3 == 1:
                a["p"] = [0.5, 0.8][(k // 3) % 2]            # 0.5 is an envelope like any other (weights 0.5, not the symmetric smoother)
        pcs = []
        for yy in range(cube.shape[0]):
            for xx in range(cube.shape[1]):
                c = dict(kind="optvplc" if a.get("lc") else ("optvp" if a.get("p") else "optv"), y=[float(v) for v in cube[yy][xx]],
                         nodata=nd, p=a.get("p"), n=T, miss=0)
                if a.get("lc"):
                    v = a["lc"][yy][xx]
                    c["lc"] = float("nan") if v is None else v
                else:
                    c["llas"] = a["srange"]
                pcs.append(c)
        a["pixel_cases"] = pcs
        acc.append(a)
    # whitsvc with float64 lag-1 correlations within a float32 rounding of the 0.5 threshold, on white-noise pixels (whose optimum lies
    # at the low end of the -2..1 grid, outside the 0..3 grid): the grid is chosen by lc > 0.5 on the value that was passed
    for k in range(2 if ctx.thorough else 1):
        T = int(rng.integers(30, 60))
        cube = np.round(rng.normal(3000, 900, size=(2, 3, T)))
        a = dict(op="whitsvc", cube=cube.tolist(), nodata=-3000.0, order=[("time", "y", "x"), ("y", "x", "time")][k % 2], name=None, p=0.9, dtype="int16",
                 lc=[[float(np.nextafter(0.5, 1)), 0.5 + 2.5e-8, 0.5], [0.5 + 1e-9, float(np.nextafter(0.5, 0)), 0.9]], lc_order=None)
        a["pixel_cases"] = [dict(kind="optvplc", y=[float(v) for v in cube[yy][xx]], nodata=-3000.0, p=0.9, n=T, miss=0, lc=a["lc"][yy][xx])
                            for yy in range(2) for xx in range(3)]
        acc.append(a)
    return cases, acc


def spec(c, r, grids):
    """independent statement: midpoint, grid choice, V-curve minimality (float, tolerant), band/lambda self-consistency"""
    valid = [v != c["nodata"] for v in c["y"]]
    if sum(valid) < 2:
        if r["lopt"] != 0.0 or r["out"] != [int(v) for v in c["y"]]:
            return "fewer than two valid cells must be returned unchanged with lambda 0"
        return None
    llas = c.get("llas")
    if c["kind"] == "optvplc":
        llas = grids["hi"] if c["lc"] > 0.5 else grids["lo"]          # NaN > 0.5 is False
    mids = [(llas[i] + llas[i + 1]) / 2 for i in range(len(llas) - 1)]
    lg = math.log10(r["lopt"]) if r["lopt"] > 0 else float("nan")
    k = min(range(len(mids)), key=lambda i: abs(mids[i] - lg)) if lg == lg else None
    if k is None or abs(mids[k] - lg) > 1e-9:
        return "reported lambda %r is not 10**midpoint of two consecutive srange entries (grid %s..%s)" % (r["lopt"], llas[0], llas[-1])
    if r["out"] != r["fixed_out"]:
        return "band differs from the fixed-lambda smoother at the reported lambda"
    if c["n"] <= 60 and len(llas) <= 24:
        y = np.array(c["y"])
        w = np.array(valid, dtype=float)
        v, (fits, pens) = wc.vcurve_float(np.where(w > 0, y, 0.0), w, llas, c.get("p"))
        order = sorted(v)
        scale = math.log(1e-10 * float(np.sum((w * y) ** 2)) + 1e-300)
        degenerate = min(fits) < scale or min(pens) < scale        # (near-)perfect fit or straight line: the ordinates are rounding noise
        if not degenerate and len(order) > 1 and order[1] - order[0] > 2e-3 * max(1.0, abs(order[0])) and v[k] > order[0] * (1 + 1e-4) + 1e-9:
            return "reported lambda (interval %d, V=%.6g) does not minimise the V-curve (min %.6g at interval %d)" % (
                k, v[k], order[0], v.index(order[0]))
    return None


def run(ctx):
    ctx.proofs(["Props/C04.v"])
    rng = np.random.default_rng(ctx.seed)
    cases, acc = gen(ctx, rng)
    res, log = core.run_impl("whit_impl.py", dict(kernels=cases, accessors=acc), timeout=3000)
    if res is None:
        ctx.violation("implementation run failed", dict(kind="impl-crash", log=log[-3000:]), found_input=False)
        return
    grids = res["grids"]
    spec_fail, coq, meta = [], [], []
    dist = dict(optv=0, optvp=0, optvplc=0, with_gaps=0, passthrough=0, lc={}, grid_sizes={}, interp_equals_compiled=0, accessor_pixels=0,
                selected_interval_first=0, selected_interval_last=0)
    for c, r in zip(cases, res["kernels"]):
        m = dict(kind=c["kind"], n=c["n"], nodata=c["nodata"], p=c.get("p"), lc=c.get("lc"),
                 llas=(c.get("llas") or [None])[:2] + [len(c.get("llas") or [])], y=c["y"] if c["n"] <= 30 else None,
                 lopt=r.get("lopt"), out=r.get("out") if c["n"] <= 30 else None)
        if "error" in r:
            spec_fail.append((dict(m, y=c["y"]), "kernel raised %s" % r["error"]))
            continue
        dist[c["kind"]] += 1
        dist["with_gaps"] += 1 if c["miss"] else 0
        dist["passthrough"] += 1 if r["lopt"] == 0 else 0
        if c["kind"] == "optvplc":
            key = "nan" if c["lc"] != c["lc"] else (">0.5" if c["lc"] > 0.5 else "<=0.5")
            dist["lc"][key] = dist["lc"].get(key, 0) + 1
        else:
            dist["grid_sizes"][len(c["llas"])] = dist["grid_sizes"].get(len(c["llas"]), 0) + 1
        dist["interp_equals_compiled"] += 1 if (r["interp_out"] == r["out"]) else 0
        why = spec(c, r, grids)
        if why:
            spec_fail.append((dict(m, y=c["y"], out=r["out"]), why))
        term, chk, claim = wc.coq_case(c, r, grids)
        coq.append(term)
        meta.append(m)
    # accessor: names, sgrid = float32(log10(lopt)), band; each pixel is also run through the kernel in the same process
    for a, r in zip(acc, res["accessors"]):
        if "error" in r:
            spec_fail.append((dict(origin="whitsvc", case={k: a[k] for k in a if k not in ("cube", "pixel_cases")}), "whitsvc raised %s" % r["error"]))
            continue
        want = sorted([a.get("name") or "band", "sgrid"])
        if r["names"] != want or r["sgrid_dtype"] != "float32" or r["band_dtype"] != "int16":
            spec_fail.append((dict(origin="whitsvc", names=r["names"], sgrid_dtype=r["sgrid_dtype"]), "dataset naming / dtypes"))
        nx = len(a["cube"][0])
        for i, (c, pr) in enumerate(zip(a["pixel_cases"], r["pixels"])):
            yy, xx = divmod(i, nx)
            band, sg = r["band"][yy][xx], r["sgrid"][yy][xx]
            dist["accessor_pixels"] += 1
            m = dict(kind="whitsvc->" + c["kind"], n=c["n"], lc=c.get("lc"), p=c.get("p"), lopt=pr.get("lopt"), sgrid=sg)
            if "error" in pr:
                continue
            want_sg = float(np.float32(np.log10(pr["lopt"]))) if pr["lopt"] > 0 else float("-inf")
            if band != pr["out"] or not (sg == want_sg):
                spec_fail.append((dict(m, y=c["y"], band=band), "whitsvc band/sgrid differ from the kernel result (sgrid %r, float32(log10(lopt)) = %r)" % (sg, want_sg)))
            term, chk, claim = wc.coq_case(c, pr, grids)
            coq.append(term)
            meta.append(m)
    r1 = core.eval_cases("C04", "v", wc.PRE, coq, "check_v", shard=8, scope="Z")
    r2 = core.eval_cases("C04", "claim", wc.PRE, coq, "claim_v", shard=8, scope="Z")
    ctx.cov["evaluations"] = len(coq)
    ctx.cov["distinct_nontrivial"] = len(set(coq))
    ctx.cov["rule"] = ("seeded series (length 5..%d) with gap patterns, uniformly spaced ascending sranges (3..%d entries, random start "
                       "and step), p none or in (0,1), lc in [-1,1] U {0.5, nextafter(0.5), 1, NaN}; accessor whitsvc in three modes; "
                       "distinct cases counted" % (200 if ctx.thorough else 110, 40 if ctx.thorough else 23))
    ctx.notes.update(input_distribution=dist, cases_bit_exact=len(coq) - len(r2["failing"]), out_of_claim_dropped=len(r2["failing"]),
                     model_vs_impl_mismatches=len(r1["failing"]), spec_failures=len(spec_fail), numba_grids=grids)
    ctx.add_samples([meta[0], meta[1], meta[2], meta[-1]])
    ctx.assumptions += ["log / pow(10,.) values are libm's, recorded by running the kernel's own source in the interpreter (tools/impl/interp.py); "
                        "the model must issue bit-identical arguments", "the two lc grids are the arrays Numba's arange produces (obtained from compiled code at run time)",
                        "V-curve minimality is re-computed in binary64 with dense solves and checked only where the two smallest ordinates differ by > 0.2%"]
    for r, tag in ((r1, "check"), (r2, "claim")):
        for si, lg in r["errors"]:
            ctx.violation("Coq could not evaluate the %s cases" % tag, dict(kind="coq-eval-error", log=lg), found_input=False)
    if spec_fail:
        spec_fail.sort(key=lambda t: len(str(t[0])))
        m, why = spec_fail[0]
        ctx.violation(why, dict(kind="spec", case=m, n_failing=len(spec_fail)))
    elif r1["failing"]:
        bad = sorted((meta[i] for i in r1["failing"]), key=lambda m: m["n"])
        ctx.violation("model and implementation disagree (Corr/C04.v check_v, bit-exact band and lambda); midpoint, self-consistency and "
                      "V-curve minimality hold on all explored inputs",
                      dict(kind="correspondence", correspondence="Corr/C04.v check_v", case=bad[0], n_disagree=len(bad)), found_input=False)


def replay(ctx, path):
    import json
    rp = json.load(open(path))
    print(json.dumps(rp.get("case"))[:3000])
    return 2
