(** Model of [hdc/algo/ops/lroo.py: lroo] and of [PixelAlgorithms.croo] (accessor pipeline:
    sortby time descending, where(== 1).cumsum(skipna=False), NaN -> 0, argmax, + latest value).
    Executable definitions only. *)
From HDC Require Import Base.Prelude.
From Coq Require Import Sorting.Mergesort Orders.
Open Scope Z_scope.

(** ** lroo, literally: positions of ones, then one pass over consecutive positions *)
Fixpoint dots_from (off : Z) (data : list Z) : list Z :=
  match data with
  | [] => []
  | x :: r => if x =? 1 then off :: dots_from (off + 1) r else dots_from (off + 1) r
  end.

Fixpoint lroo_loop (ds : list Z) (prev cr mr : Z) : Z :=
  match ds with
  | [] => mr
  | d :: r =>
      if d - prev =? 1 then
        let cr' := cr + 1 in lroo_loop r d cr' (if cr' >? mr then cr' else mr)
      else lroo_loop r d 1 mr
  end.

(** the value computed before the store *)
Definition lroo_count (data : list Z) : Z :=
  match dots_from 0 data with
  | [] => 0
  | d0 :: r => let mr := lroo_loop r d0 1 0 in if mr >? 1 then mr else 0
  end.

(** the store into the gufunc's output buffer of [bits] bits (32 after the fix:, 8 before) *)
Definition lroo_store (bits : Z) (v : Z) : Z := v mod 2 ^ bits.
Definition lroo (data : list Z) : Z := lroo_store 32 (lroo_count data).
Definition lroo_before_fix (data : list Z) : Z := lroo_store 8 (lroo_count data).

(** ** croo *)
Module TimeDesc <: TotalLeBool.
  Definition t := (Z * Z)%type.          (* (time stamp, value) *)
  Definition leb (a b : t) := (fst b <=? fst a).
  Theorem leb_total : forall a b, leb a b = true \/ leb b a = true.
  Proof. intros a b. unfold leb. destruct (fst b <=? fst a) eqn:E; [now left|right]. apply Z.leb_le. apply Z.leb_gt in E. lia. Qed.
End TimeDesc.
Module SortDesc := Sort TimeDesc.

(** cumsum with NaN absorption ([None] = NaN): where(x == 1) turns every other value into NaN *)
Fixpoint cumsum_nan (vals : list Z) (acc : option Z) : list (option Z) :=
  match vals with
  | [] => []
  | x :: r =>
      let acc' := match acc with Some a => if x =? 1 then Some (a + x) else None | None => None end in
      acc' :: cumsum_nan r acc'
  end.

(** first index of the maximum (numpy argmax) *)
Fixpoint argmax_from (l : list Z) (i besti best : Z) : Z :=
  match l with
  | [] => besti
  | x :: r => if x >? best then argmax_from r (i + 1) i x else argmax_from r (i + 1) besti best
  end.
Definition argmax (l : list Z) : Z :=
  match l with [] => 0 | x :: r => argmax_from r 1 0 x end.

Definition croo_sorted (vals : list Z) : Z :=
  argmax (map (fun o => match o with Some v => v | None => 0 end) (cumsum_nan vals (Some 0))) + hd 0 vals.

Definition croo (series : list (Z * Z)) : Z := croo_sorted (map snd (SortDesc.sort series)).
