"""In-contract inputs for every kernel of hdc.algo.ops (35 programs), boundary-sized and random; shared by the C13 and C14 harnesses."""
import importlib

import numpy as np

MODS = ("ws2d", "ws2dgu", "ws2dpgu", "ws2doptv", "ws2doptvp", "ws2doptvplc", "ws2dwcv", "ws2dwcvp", "autocorr", "lroo", "tinterpolate", "zonal", "stats")
_MOD = {}


def K(mod, name):
    if mod not in _MOD:
        _MOD[mod] = importlib.import_module("hdc.algo.ops." + mod)
    return getattr(_MOD[mod], name)


def series(rng, n, kind):
    y = np.round(rng.normal(1000, 300, n))
    if kind == "big":                                   # the upper end of int16
        y = np.round(rng.uniform(20000, 32000, n))
    nd = -3000.0
    if kind == "all_missing":
        y[:] = nd
    elif kind == "one_valid":
        y[:] = nd
        y[rng.integers(0, n)] = 1200
    elif kind == "gaps":
        y[rng.random(n) < 0.4] = nd
    return y.astype("float64"), nd


def tinterp_case(rng, nobs, gap, nper):
    """marks every `gap` days (last day marked), labels in runs of nper days"""
    m = (nobs - 1) * gap + 1
    m = max(m, 4)
    template = np.zeros(m)
    pos = sorted(set([m - 1] + list(rng.choice(m - 1, size=nobs - 1, replace=False)))) if nobs > 1 else [m - 1]
    template[pos] = 1
    x = rng.integers(100, 9000, size=len(pos)).astype("int16")
    labels = (np.arange(m) // nper).astype("int32")
    tout = np.zeros(len(np.unique(labels)), dtype="uint8")
    return x, template, labels, tout


def cases(rng, thorough):
    """(kernel name, module, kind=gufunc|njit, inputs, n outputs [gufunc], output dtypes/shapes)"""
    out = []
    sizes = [2, 3, 4, 5, 7, 12] + [int(rng.integers(13, 80)) for _ in range(6 if thorough else 2)]
    kinds = ["plain", "gaps", "all_missing", "one_valid", "big"]
    ll16 = np.arange(-2, 1.2, 0.2)
    for n in sizes:
        for kd in kinds:
            y, nd = series(rng, n, kd)
            w = (y != nd).astype("float64")
            tag = "n=%d %s" % (n, kd)
            if w.sum() > 1:          # every caller guards the solver with "more than one valid cell"
                out.append(("ws2d", "ws2d", "njit", (np.where(w == 0, 0.0, y), 10.0, w), tag))
            out.append(("ws2dgu", "ws2dgu", "gu", (y, 10.0, nd), tag, [("int16", (n,))]))
            out.append(("ws2dgu", "ws2dgu", "gu", (y, 0.0, nd), tag + " lmda=0", [("int16", (n,))]))
            out.append(("ws2dpgu", "ws2dpgu", "gu", (y, 10.0, nd, 0.9), tag, [("int16", (n,))]))
            for llas in (np.array([0.0, 1.0]), np.array([-1.0, 0.0, 1.0]), ll16):
                t2 = tag + " llas=%d" % len(llas)
                out.append(("ws2doptv", "ws2doptv", "gu", (y, nd, llas), t2, [("int16", (n,)), ("float64", (1,))]))
                out.append(("ws2doptvp", "ws2doptvp", "gu", (y, nd, 0.9, llas), t2, [("int16", (n,)), ("float64", (1,))]))
                if kd in ("plain", "gaps") and w.sum() > 1:
                    out.append(("_ws2doptvp", "ws2doptvp", "njit", (np.where(w == 0, 0.0, y), w, 0.9, llas), t2))
                for rb in (False, True):
                    out.append(("ws2dwcv", "ws2dwcv", "gu", (y, nd, llas, rb), t2 + " robust=%s" % rb, [("int16", (n,)), ("float64", (1,))]))
                    out.append(("ws2dwcvp", "ws2dwcvp", "gu", (y, nd, 0.9, llas, rb), t2 + " robust=%s" % rb, [("int16", (n,)), ("float64", (1,))]))
                    if w.sum() > 4:
                        out.append(("_ws2dwcvp", "ws2dwcvp", "njit", (np.where(w == 0, 0.0, y), w, 0.9, llas, rb), t2 + " robust=%s" % rb))
            for lc in (0.2, 0.8, np.nan):
                out.append(("ws2doptvplc", "ws2doptvplc", "gu", (y.astype("int16"), nd, 0.9, lc), tag + " lc=%s" % lc, [("int16", (n,)), ("float64", (1,))]))
            yi = y.astype("int16")
            out.append(("autocorr_1d_int", "autocorr", "njit", (yi, int(nd)), tag))
            yf = np.where(y == nd, np.nan, y)
            out.append(("autocorr_1d_float", "autocorr", "njit", (yf,), tag))
            out.append(("autocorr_1d", "autocorr", "njit", (yi, int(nd)), tag))
            out.append(("autocorr_1d", "autocorr", "njit", (yf, None), tag + " float"))
            ones = (rng.random(n) < 0.6).astype("uint8")
            if kd == "all_missing":
                ones[:] = 0
            if kd == "plain":
                ones[:] = 1
            out.append(("lroo", "lroo", "gu", (ones,), tag, [("uint32", (1,))]))
            # rolling sum: window 1, n, something between
            for ws in sorted({1, n, max(1, n // 2)}):
                for dt in ("int16", "float32", "int64"):
                    out.append(("rolling_sum", "stats", "gu", (y.astype(dt), float(ws), nd), tag + " ws=%d %s" % (ws, dt), [("float32", (n,))]))
            # groups
            for ng in sorted({1, 2, max(1, n // 3)}):
                groups = rng.integers(0, ng, size=n).astype("int16")
                if ng == 1:
                    groups[:] = 0
                for dt in ("int16", "float32", "int32", "int64"):
                    out.append(("mean_grp", "stats", "gu", (y.astype(dt), groups, float(ng), nd), tag + " groups=%d %s" % (ng, dt), [("float32", (n,))]))
                ci = np.zeros((ng, 2), dtype="int16")
                for g in range(ng):
                    k = int((groups == g).sum())
                    ci[g] = (0, k)
                xs = np.abs(y) if kd != "all_missing" else y
                for dt in ("int16", "float32"):
                    out.append(("gammastd_grp", "stats", "gu", (np.where(y == nd, nd, xs).astype(dt), groups, float(ng), nd, ci),
                                tag + " groups=%d %s" % (ng, dt), [("int16", (n,))]))
            xs = np.where(y == nd, nd, np.abs(y))
            out.append(("gammastd", "stats", "njit", (xs, nd, 0, n), tag))
            out.append(("gammastd", "stats", "njit", (xs, nd, 1, max(2, n - 1)), tag + " window"))
            out.append(("gammafit", "stats", "njit", (xs[xs != nd] if (xs != nd).any() else xs,), tag))
            out.append(("mk_score", "stats", "njit", (yi,), tag))
            out.append(("mk_variance_s", "stats", "njit", (yi,), tag))
            out.append(("mk_sens_slope", "stats", "njit", (yi.astype("float64"),), tag))
            out.append(("mann_kendall_trend_1d", "stats", "njit", (yi,), tag))
            for xm in (yi, yi.astype("float32")):
                out.append(("_mann_kendall_trend_gu", "stats", "gu", (xm,), tag + " " + str(xm.dtype), [("float32", (1,)), ("float32", (1,)), ("float32", (1,)), ("int8", (1,))]))
                out.append(("_mann_kendall_trend_gu_nd", "stats", "gu", (xm, nd), tag + " " + str(xm.dtype), [("float32", (1,)), ("float32", (1,)), ("float32", (1,)), ("int8", (1,))]))
    # missing cells marked by NaN / +inf / -inf (the smoothers that promise to ignore non-finite cells)
    for n in (6, 15, 40):
        y, nd = series(rng, n, "plain")
        for marker in (np.nan, np.inf, -np.inf):
            yy = y.copy()
            yy[rng.choice(n, size=max(1, n // 5), replace=False)] = marker
            tag = "n=%d non-finite cells %s" % (n, marker)
            out.append(("ws2dgu", "ws2dgu", "gu", (yy, 10.0, nd), tag, [("int16", (n,))]))
            out.append(("ws2dpgu", "ws2dpgu", "gu", (yy, 10.0, nd, 0.9), tag, [("int16", (n,))]))
            for rb in (False, True):
                out.append(("ws2dwcv", "ws2dwcv", "gu", (yy, nd, np.array([0.0, 1.0, 2.0]), rb), tag + " robust=%s" % rb, [("int16", (n,)), ("float64", (1,))]))
                out.append(("ws2dwcvp", "ws2dwcvp", "gu", (yy, nd, 0.9, np.array([0.0, 1.0, 2.0]), rb), tag + " robust=%s" % rb, [("int16", (n,)), ("float64", (1,))]))
    # long series near the top of int16: accumulators must not be narrower than the compiled ones (float32 loses bits past 2**24)
    for n in (2000, 5000):
        big = rng.integers(30000, 32700, size=n).astype("int16")
        grp2 = (np.arange(n) % 2).astype("int16")
        for dt in ("int16", "int32", "float32"):
            out.append(("mean_grp", "stats", "gu", (big.astype(dt), grp2, 2.0, -3000.0), "n=%d near int16 max %s" % (n, dt), [("float32", (n,))]))
        out.append(("rolling_sum", "stats", "gu", (big, float(n // 2), -3000.0), "n=%d near int16 max window n/2" % n, [("float32", (n,))]))
        out.append(("autocorr_1d_int", "autocorr", "njit", (big, -3000), "n=%d near int16 max" % n))
        out.append(("mk_score", "stats", "njit", (big[:600],), "n=600 near int16 max"))
    # wide integers near the top of int32: the sums of products leave 64 bits; the compiled kernel wraps them and so must its source
    # (arithmetic in numpy's int64, not in unbounded Python integers)
    for n in (4, 9, 30):
        wide = rng.integers(1_000_000_000, 2_147_483_000, size=n).astype("int32")
        out.append(("autocorr_1d_int", "autocorr", "njit", (wide, -3000), "n=%d near int32 max" % n))
        out.append(("autocorr_1d_int", "autocorr", "njit", (wide.astype("int64"), -3000), "n=%d near int32 max, int64" % n))
    # cubes
    for (r, c, t) in [(1, 1, 2), (1, 1, 5), (2, 3, 6), (1, 4, 12)] + ([(3, 2, 30)] if thorough else []):
        cube = np.round(rng.gamma(2.0, 50.0, size=(r, c, t)))
        nd = -9999.0
        cube[rng.random((r, c, t)) < 0.15] = nd
        if r * c > 1:
            cube[0, 0, :] = nd                         # an all-missing pixel next to ordinary ones
            cube[0, 1, :] = 0                          # all zero
        tag = "cube %dx%dx%d" % (r, c, t)
        out.append(("gammastd_yxt", "stats", "njit", (cube.astype("int16"), nd, 0, t), tag))
        out.append(("gammastd_yxt", "stats", "njit", (cube, nd, 0, t), tag + " f64"))
        out.append(("mann_kendall_trend_yxt", "stats", "njit", (cube.astype("int16"),), tag))
        out.append(("autocorr", "autocorr", "njit", (cube.astype("int16"), int(nd)), tag))
        out.append(("autocorr", "autocorr", "njit", (np.where(cube == nd, np.nan, cube).astype("float32"), None), tag + " float"))
        tyx = np.ascontiguousarray(np.moveaxis(cube, 2, 0)).astype("int16")
        out.append(("autocorr_tyx", "autocorr", "njit", (tyx, int(nd)), tag))
        out.append(("ws2doptvplc_tyx", "ws2doptvplc", "njit", (tyx, 0.9, nd), tag))
        for nz in sorted({1, 2, r * c}):
            zones = rng.integers(0, nz, size=(r, c)).astype("int16")
            if r * c > 2:
                zones[0, 0] = -1                    # zone nodata
            for dt in ("float32", "float64"):
                out.append(("do_mean", "zonal", "njit", (tyx.astype(dt), zones, nz, nd, -1, np.dtype(dt).type), tag + " zones=%d %s" % (nz, dt)))
    # temporal interpolation
    for (nobs, gap, nper) in [(1, 1, 1), (2, 3, 2), (2, 3, 10), (3, 2, 1), (5, 10, 10), (9, 5, 7)] + ([(36, 10, 5)] if thorough else []):
        x, template, labels, tout = tinterp_case(rng, nobs, gap, nper)
        out.append(("tinterpolate", "tinterpolate", "gu", (x, template, labels, tout), "obs=%d days=%d runs=%d" % (len(x), len(template), len(tout)),
                    [("int16", (len(tout),))]))
    out.append(("brentq", "stats", "njit", (0.6, 1.4, 0.5), "bracket"))
    out.append(("brentq", "stats", "njit", (5.0, 6.0, 0.5), "no bracket"))
    out.append(("mk_z_score", "stats", "njit", (3, 10.0), ""))
    out.append(("mk_p_value", "stats", "njit", (1.5,), ""))
    return out


