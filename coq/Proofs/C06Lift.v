(** C06, lifted through lambda selection: the symmetric V-curve smoother commutes with adding a constant -
    the reported lambda is the same and the curve moves by the constant. (For the asymmetric variants the
    iteration starts from the zero curve, which is not shift-invariant; the law is checked on the implementation
    with the property's tie rule, not proved.) *)
From Coq Require Import ZArith Reals Lra Lia List Bool.
From HDC Require Import Base.Prelude Base.Ops Model.Ws2d Model.Smoothers Model.VCurve Proofs.Ws2dIndex Proofs.RSums Proofs.Penalty
  Proofs.Ws2dReal Proofs.Ws2dLaws.
Import ListNotations.
Open Scope R_scope.

Definition shiftl (c : R) (l : list R) : list R := map (fun v => v + c) l.

Section Lift.
  Variables (y w : list R) (c : R).
  Hypothesis Hl : length w = length y.
  Hypothesis Hn : (4 <= length y)%nat.
  Hypothesis Wn : forall i, (0 <= i < Z.of_nat (length y))%Z -> 0 <= Wk w i.
  Hypothesis W2 : exists p q, (0 <= p < q)%Z /\ (q < Z.of_nat (length y))%Z /\ 0 < Wk w p /\ 0 < Wk w q.

  Lemma ws2d_shift_list lam : 0 < lam -> ws2d OpsR (shiftl c y) lam w = shiftl c (ws2d OpsR y lam w).
  Proof.
    intros Hlam. unfold shiftl.
    assert (length (map (fun v => v + c) y) = length y) as Ly by apply map_length.
    assert (length (ws2d OpsR (map (fun v => v + c) y) lam w) = length y) as L1 by (rewrite ws2d_length; rewrite ?Ly; lia).
    assert (length (ws2d OpsR y lam w) = length y) as L2 by (apply ws2d_length; lia).
    apply (nth_ext _ _ 0 0).
    - rewrite map_length. congruence.
    - intros k Hk. rewrite L1 in Hk.
      pose proof (ws2d_shift y w lam c Hl Hn Wn Hlam W2 (Z.of_nat k) ltac:(lia)) as E.
      unfold Zk in E. rewrite !vecZ_in in E by (rewrite ?L1, ?L2; lia). rewrite Nat2Z.id in E.
      rewrite E. rewrite (nth_indep (map (fun v => v + c) (ws2d OpsR y lam w)) 0 (0 + c)) by (rewrite map_length, L2; lia).
      symmetry. apply (map_nth (fun v => v + c)).
  Qed.

  (** residual sums and second differences do not see the constant *)
  Lemma log_fit_shift_gen (w0 : list R) : forall (y0 z0 : list R) acc,
    fold_left (fun acc t => let '(wi, (yi, zi)) := t in fadd OpsR acc (sq OpsR (fmul OpsR wi (fsub OpsR yi zi))))
              (combine w0 (combine (shiftl c y0) (shiftl c z0))) acc =
    fold_left (fun acc t => let '(wi, (yi, zi)) := t in fadd OpsR acc (sq OpsR (fmul OpsR wi (fsub OpsR yi zi))))
              (combine w0 (combine y0 z0)) acc.
  Proof.
    induction w0 as [|a w' IH]; intros [|b y'] [|d z'] acc; try reflexivity.
    cbn [shiftl map combine fold_left]. cbn [fsub OpsR]. replace (b + c - (d + c)) with (b - d) by ring. apply IH.
  Qed.

  Lemma log_fit_shift z : log_fit OpsR w (shiftl c y) (shiftl c z) = log_fit OpsR w y z.
  Proof. unfold log_fit. f_equal. apply log_fit_shift_gen. Qed.

  Lemma diffs_shift z : diffs OpsR (shiftl c z) = diffs OpsR z.
  Proof.
    induction z as [|a [|b r] IH]; try reflexivity.
    change (shiftl c (a :: b :: r)) with ((a + c) :: shiftl c (b :: r)).
    change (shiftl c (b :: r)) with ((b + c) :: shiftl c r) in *.
    cbn [diffs]. cbn [fsub OpsR]. replace (b + c - (a + c)) with (b - a) by ring. f_equal. exact IH.
  Qed.

  Lemma log_pen_shift z : log_pen OpsR (shiftl c z) = log_pen OpsR z.
  Proof. unfold log_pen. now rewrite diffs_shift. Qed.

  Theorem optv_core_shift llas :
    optv_core OpsR (shiftl c y) w llas =
    match optv_core OpsR y w llas with
    | VFit z lopt => VFit (shiftl c z) lopt
    | r => r
    end.
  Proof.
    unfold optv_core.
    assert (forall l, 0 < fpow10 OpsR l) as P by (intros l; cbn; apply exp_pos).
    assert (map (fun l => ws2d OpsR (shiftl c y) (fpow10 OpsR l) w) llas = map (shiftl c) (map (fun l => ws2d OpsR y (fpow10 OpsR l) w) llas)) as ->.
    { rewrite map_map. apply map_ext. intros l. apply ws2d_shift_list. apply P. }
    set (zs := map (fun l => ws2d OpsR y (fpow10 OpsR l) w) llas).
    assert (forall z, In z zs -> length z = length y) as Lz.
    { intros z Hz. unfold zs in Hz. apply in_map_iff in Hz as (l & <- & _). apply ws2d_length; lia. }
    assert (map (log_fit OpsR w (shiftl c y)) (map (shiftl c) zs) = map (log_fit OpsR w y) zs) as ->.
    { rewrite map_map. apply map_ext. intros z. apply log_fit_shift. }
    assert (map (log_pen OpsR) (map (shiftl c) zs) = map (log_pen OpsR) zs) as ->.
    { rewrite map_map. apply map_ext. intros z. apply log_pen_shift. }
    unfold lopt_of. destruct (select OpsR (vcurve OpsR (llastep OpsR llas) llas (map (log_fit OpsR w y) zs) (map (log_pen OpsR) zs))) as [[v lamid]|]; [|reflexivity].
    f_equal. apply ws2d_shift_list. apply P.
  Qed.
End Lift.
