"""Runs the eight Whittaker smoother kernels (and the whit accessors) from /repo on the given cases.

Each case: dict(kind=gu|pgu|optv|optvp|optvplc|wcv|wcvp, y=[...], nodata=.., and lam / p / llas / lc / robust).
For the V-curve kernels the kernel's own source is also run in the interpreter with recording wrappers
around log/pow (tools/impl/interp.py) to obtain the oracle tables the Coq model replays."""
import json
import math
import sys
import warnings

import numpy as np

warnings.filterwarnings("ignore")
import xarray as xr  # noqa: E402
import hdc.algo  # noqa: F401,E402
from hdc.algo import ops  # noqa: E402

from interp import Recorder, interpreted, nb_arange, NPProxy  # noqa: E402


def fl(v):
    return [float(x) for x in np.asarray(v).ravel()]


def distinct(pairs):
    seen, out = set(), []
    for a, b in pairs:
        k = np.float64(a).tobytes()
        if k in seen:
            continue
        seen.add(k)
        out.append([float(a), float(b)])
    return out


def irls_passes(y, lam, nd, p):
    """how many reweighting passes the asymmetric loop makes on this input (10 = ran out without an unchanged pass);
    measured with a float mirror of the loop around the compiled solver - only used to describe the inputs"""
    from hdc.algo.ops.ws2d import ws2d
    w = 1.0 - ((y == nd) | ~np.isfinite(y))
    if lam == 0 or w.sum() <= 1:
        return 0
    yv = np.where(w == 0, 0.0, y)
    z = np.zeros(len(y))
    for i in range(10):
        ww = w * np.where(yv > z, p, 1 - p)
        znew = ws2d(yv, lam, ww)
        if np.sum(np.abs(znew - z)) == 0.0:
            return i + 1
        z = znew
    return 11


def run_kernel(c):
    y = np.array([np.nan if v is None else v for v in c["y"]], dtype="float64")
    nd = float(c["nodata"])
    k = c["kind"]
    rec = {}
    if k == "gu":
        o = ops.ws2dgu(y, float(c["lam"]), nd)
        return dict(out=[int(v) for v in o], lopt=None)
    if k == "pgu":
        o = ops.ws2dpgu(y, float(c["lam"]), nd, float(c["p"]))
        return dict(out=[int(v) for v in o], lopt=None, passes=irls_passes(y, float(c["lam"]), nd, float(c["p"])))
    llas = np.array(c.get("llas", []), dtype="float64")
    n = len(y)
    if k in ("optv", "optvp", "optvplc"):
        r = Recorder()
        out = np.zeros(n, dtype="int16")
        lopt = np.zeros(1)
        if k == "optv":
            o, l = ops.ws2doptv(y, nd, llas)
            interpreted(ops.ws2doptv, r)(y, nd, llas, out, lopt)
        elif k == "optvp":
            o, l = ops.ws2doptvp(y, nd, float(c["p"]), llas)
            interpreted(ops.ws2doptvp, r)(y, nd, float(c["p"]), llas, out, lopt)
        else:
            yi = y.astype("int16")
            o, l = ops.ws2doptvplc(yi, nd, float(c["p"]), float(c["lc"]))
            interpreted(ops.ws2doptvplc, r)(yi, nd, float(c["p"]), float(c["lc"]), out, lopt)
        fx = ops.ws2dgu(y, float(l), nd) if k == "optv" else ops.ws2dpgu(y, float(l), nd, float(c["p"]))
        rec = dict(out=[int(v) for v in o], lopt=float(l), interp_out=[int(v) for v in out], interp_lopt=float(lopt[0]),
                   fixed_out=[int(v) for v in fx],
                   log=distinct((a[0], v) for a, v in r.tables.get("log", [])),
                   pow=distinct((a[1], v) for a, v in r.tables.get("pow", []) if a[0] == 10.0))
        return rec
    if k in ("wcv", "wcvp"):
        if k == "wcv":
            o, l = ops.ws2dwcv(y, nd, llas, bool(c["robust"]))
        else:
            o, l = ops.ws2dwcvp(y, nd, float(c["p"]), llas, bool(c["robust"]))
        fx = ops.ws2dgu(y, float(l), nd) if k == "wcv" else ops.ws2dpgu(y, float(l), nd, float(c["p"]))
        solves = None
        if c["robust"]:
            # the kernel's own source in the interpreter, its solver replaced by a wrapper that notes how many cells carried weight in
            # each solve (used only when the bit-exact correspondence breaks, to look for a degenerate solve)
            try:
                from interp import _NB  # noqa
                interpreted(ops.ws2dwcv)  # fills _NB["ws2d"]
                seen, med = [], []

                class NPMed(NPProxy):
                    # np.median as numpy's, noting how many residuals enter the robust scale
                    def median(self, a, *aa, **kk):
                        med.append(int(np.size(a)))
                        return np.median(a, *aa, **kk)

                def ws2d_rec(yy, lam, ww):
                    seen.append(int(np.count_nonzero(np.asarray(ww))))
                    return _NB["ws2d"](yy, lam, ww)
                io, il = np.zeros(n, dtype="int16"), np.zeros(1)
                if k == "wcv":
                    interpreted(ops.ws2dwcv, None, extra={"ws2d": ws2d_rec, "np": NPMed()})(y, nd, llas, True, io, il)
                else:
                    interpreted(ops.ws2dwcvp, None, extra={"ws2d": ws2d_rec, "np": NPMed()})(y, nd, float(c["p"]), llas, True, io, il)
                if seen:
                    solves = dict(min_weighted=min(seen), n_solves=len(seen), max_median_cells=max(med) if med else 0, same_as_compiled=bool([int(v) for v in io] == [int(v) for v in o] and float(il[0]) == float(l)))
            except Exception as e:  # noqa
                solves = dict(error=repr(e)[:200])
        # the same series with other placeholders in its missing cells (huge magnitudes, NaN): band and lambda must not move
        alts = []
        gaps = y == nd
        if gaps.any():
            for ph in (-9999.0, 1e20, -3.4028234663852886e38, float("nan")):
                if (y[~gaps] == ph).any():
                    continue
                y2 = y.copy()
                y2[gaps] = ph
                nd2 = nd if ph != ph else ph
                if k == "wcv":
                    o2, l2 = ops.ws2dwcv(y2, nd2, llas, bool(c["robust"]))
                else:
                    o2, l2 = ops.ws2dwcvp(y2, nd2, float(c["p"]), llas, bool(c["robust"]))
                alts.append(dict(placeholder=repr(ph), out=[int(v) for v in o2], lopt=float(l2)))
        return dict(out=[int(v) for v in o], lopt=float(l), fixed_out=[int(v) for v in fx], solves=solves, alts=alts,
                    cos=[[(j * math.pi) / n, math.cos((j * math.pi) / n)] for j in range(n)],
                    pow=[[float(x), pow(10.0, float(x))] for x in llas])
    raise ValueError(k)


def run_accessor(c):
    """cube (y, x, time) or permuted; returns band / sgrid"""
    data = np.array([[[np.nan if v is None else v for v in px] for px in row] for row in c["cube"]], dtype=c.get("dtype", "float64"))
    da = xr.DataArray(data, dims=("y", "x", "time"))
    if c.get("order"):
        da = da.transpose(*c["order"])
    if c.get("name"):
        da.name = c["name"]
    if c.get("attr_nodata") is not None:
        da.attrs["nodata"] = c["attr_nodata"]        # the nodata argument of the whit accessors must win over this
    nd = c["nodata"]
    op = c["op"]
    kw = {}
    if op == "whits":
        if c.get("sg") is not None:
            sg = xr.DataArray(np.array([[(-np.inf if v is None else v) for v in row] for row in c["sg"]], dtype="float64"), dims=("y", "x"))
            if c.get("sg_order"):
                sg = sg.transpose(*c["sg_order"])
            kw["sg"] = sg
        else:
            kw["s"] = c["s"]
        if c.get("p") is not None:
            kw["p"] = c["p"]
        r = da.hdc.whit.whits(nd, **kw)
        dims_in, dims_out = list(da.dims), list(r.dims)
        r = r.transpose("y", "x", "time")
        lam = None
        if "sg" in kw:
            lam = (10 ** kw["sg"]).transpose("y", "x").values.tolist()     # what the accessor hands to the kernel
        return dict(band=r.values.astype("int64").tolist(), dtype=str(r.dtype), lam=lam, dims_in=dims_in, dims_out=dims_out)
    if op == "whitsvc":
        if c.get("lc") is not None:
            kw["lc"] = xr.DataArray(np.array([[np.nan if v is None else v for v in row] for row in c["lc"]], dtype="float64"), dims=("y", "x"))
            if c.get("lc_order"):
                kw["lc"] = kw["lc"].transpose(*c["lc_order"])
        if c.get("srange") is not None:
            kw["srange"] = np.array(c["srange"], dtype="float64")
        if c.get("p") is not None:
            kw["p"] = c["p"]
        ds = da.hdc.whit.whitsvc(nd, **kw)
    else:
        if c.get("srange") is not None:
            kw["srange"] = np.array(c["srange"], dtype="float64")
        if c.get("p") is not None:
            kw["p"] = c["p"]
        if c.get("robust") is not None:
            kw["robust"] = c["robust"]
        ds = da.hdc.whit.whitswcv(nd, **kw)
    names = sorted(ds.data_vars)
    bname = [v for v in names if v != "sgrid"][0]
    band = ds[bname].transpose("y", "x", "time")
    return dict(band=band.values.astype("int64").tolist(), band_dtype=str(band.dtype), names=names,
                sgrid=[[float(v) for v in row] for row in ds["sgrid"].transpose("y", "x").values], sgrid_dtype=str(ds["sgrid"].dtype))


def main():
    P = json.load(sys.stdin)
    out = dict(kernels=[], accessors=[], grids=dict(hi=fl(nb_arange(-2.0, 1.2, 0.2)), lo=fl(nb_arange(0.0, 3.2, 0.2))))
    for c in P.get("kernels", []):
        try:
            out["kernels"].append(run_kernel(c))
        except Exception as e:  # noqa
            out["kernels"].append(dict(error="%s: %s" % (type(e).__name__, e)))
    for c in P.get("accessors", []):
        try:
            r = run_accessor(c)
            if c.get("pixel_cases"):          # the same pixels through the kernel, in this process
                r["pixels"] = []
                for pc in c["pixel_cases"]:
                    try:
                        r["pixels"].append(run_kernel(pc))
                    except Exception as e:  # noqa
                        r["pixels"].append(dict(error="%s: %s" % (type(e).__name__, e)))
            out["accessors"].append(r)
        except Exception as e:  # noqa
            out["accessors"].append(dict(error="%s: %s" % (type(e).__name__, e)))
    print("@@RESULT@@" + json.dumps(out))


main()
