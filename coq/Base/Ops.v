(** One arithmetic interface, several carriers.  Every kernel model is a Gallina term generic in
    [Ops F]; it is instantiated at the reals for theorems ([OpsR], not executable), and at IEEE
    binary64 for bit-exact execution ([OpsF], Coq's primitive floats; library calls such as
    log / pow(10,.) / cos are finite recorded tables looked up by bit pattern). *)
From Coq Require Import ZArith List Bool Reals.
From Coq Require Import PrimFloat.
From HDC Require Import Base.Float.
Import ListNotations.

Record Ops (F : Type) := mkOps {
  f0 : F; f1 : F;
  fadd : F -> F -> F; fsub : F -> F -> F; fmul : F -> F -> F; fdiv : F -> F -> F;
  fopp : F -> F; fabs : F -> F;
  fofZ : Z -> F;
  fltb : F -> F -> bool; fleb : F -> F -> bool; feqb : F -> F -> bool;
  fsqrt : F -> F;
  fnonfinite : F -> bool;          (* isnan(x) or isinf(x) *)
  frne : F -> option Z;            (* round half to even to an integer; None for NaN / inf *)
  (* library calls (oracles) *)
  flog : F -> F; fpow10 : F -> F; fcos : F -> F
}.
Arguments f0 {F} _. Arguments f1 {F} _. Arguments fadd {F} _. Arguments fsub {F} _. Arguments fmul {F} _.
Arguments fdiv {F} _. Arguments fopp {F} _. Arguments fabs {F} _. Arguments fofZ {F} _. Arguments fltb {F} _.
Arguments fleb {F} _. Arguments feqb {F} _. Arguments fsqrt {F} _. Arguments fnonfinite {F} _. Arguments frne {F} _. Arguments flog {F} _. Arguments fpow10 {F} _.
Arguments fcos {F} _.

(** ** reals *)
Definition Rltb (x y : R) : bool := if Rlt_dec x y then true else false.
Definition Rleb (x y : R) : bool := if Rle_dec x y then true else false.
Definition Reqb (x y : R) : bool := if Req_EM_T x y then true else false.

(** round half to even on the reals *)
Definition rneR (x : R) : Z :=
  let f := Int_part x in
  let r := (x - IZR f)%R in
  if Rlt_dec r (1 / 2) then f else if Rlt_dec (1 / 2) r then (f + 1)%Z else if Z.even f then f else (f + 1)%Z.

Definition OpsR : Ops R := {|
  f0 := 0%R; f1 := 1%R; fadd := Rplus; fsub := Rminus; fmul := Rmult; fdiv := Rdiv; fopp := Ropp; fabs := Rbasic_fun.Rabs;
  fofZ := IZR; fltb := Rltb; fleb := Rleb; feqb := Reqb; fsqrt := R_sqrt.sqrt;
  fnonfinite := fun _ => false; frne := fun x => Some (rneR x);
  flog := ln; fpow10 := fun x => exp (x * ln 10)%R; fcos := Rtrigo_def.cos |}.

(** ** binary64 *)
Definition oracle_table := list (float * float).
Definition oracle_miss : float := 0x1.0dead1p+1000%float.
Fixpoint lookup (t : oracle_table) (x : float) : float :=
  match t with
  | [] => oracle_miss
  | (a, v) :: r => if feq_bits a x then v else lookup r x
  end.

Record oracles := { t_log : oracle_table; t_pow10 : oracle_table; t_cos : oracle_table }.
Definition no_oracles : oracles := {| t_log := []; t_pow10 := []; t_cos := [] |}.

Definition OpsF (o : oracles) : Ops float := {|
  f0 := zero; f1 := one; fadd := PrimFloat.add; fsub := PrimFloat.sub; fmul := PrimFloat.mul; fdiv := PrimFloat.div;
  fopp := PrimFloat.opp; fabs := PrimFloat.abs; fofZ := f_of_Z;
  fltb := PrimFloat.ltb; fleb := PrimFloat.leb; feqb := PrimFloat.eqb; fsqrt := PrimFloat.sqrt;
  fnonfinite := fun x => is_nan x || is_infinity x; frne := f_rne;
  flog := lookup (t_log o); fpow10 := lookup (t_pow10 o); fcos := lookup (t_cos o) |}.
