(** The penalised least-squares problem behind the Whittaker smoother, independent of any
    algorithm: objective S, operator A = W + lam D'D in banded form (with the boundary
    coefficients 1,-2 | 5,-4 | 6,-4 | 5,-2 | 1 *derived* from the second-difference operator),
    adjointness (summation by parts), the expansion S(z+h) = S(z) + Q(h) + 2 h.(Az - Wy),
    and positive definiteness of Q under "two positive weights". *)
From Coq Require Import ZArith Reals Lra Lia Bool.
From HDC Require Import Proofs.RSums.
Open Scope R_scope.

Lemma weighted_sq_zero w x : 0 < w -> w * x ^ 2 = 0 -> x = 0.
Proof.
  intros Hw H. destruct (Req_dec x 0) as [E|E]; [exact E|]. exfalso.
  assert (0 < x * x) by (destruct (Rdichotomy _ _ E); nra). nra.
Qed.

Section Penalty.
  Variable n : nat.
  Variables W Y : Z -> R.
  Variable lam : R.

  (** rows 0 .. n-3 of the (n-2) x n second-difference operator exist *)
  Definition mask (j : Z) : R := if ((0 <=? j) && (j <=? Z.of_nat n - 3))%Z then 1 else 0.

  Lemma mask_in j : (0 <= j <= Z.of_nat n - 3)%Z -> mask j = 1.
  Proof. intros H. unfold mask. replace ((0 <=? j) && (j <=? Z.of_nat n - 3))%Z with true; [reflexivity|].
         symmetry. apply andb_true_iff. split; apply Z.leb_le; lia. Qed.
  Lemma mask_out j : (j < 0 \/ Z.of_nat n - 3 < j)%Z -> mask j = 0.
  Proof. intros H. unfold mask. replace ((0 <=? j) && (j <=? Z.of_nat n - 3))%Z with false; [reflexivity|].
         symmetry. apply andb_false_iff. destruct H; [left; apply Z.leb_gt|right; apply Z.leb_gt]; lia. Qed.

  (** banded coefficients of A = W + lam D'D: diagonal, first and second sub-diagonal (column index) *)
  Definition a0 (k : Z) : R := W k + lam * (mask k + 4 * mask (k - 1) + mask (k - 2)).
  Definition a1 (k : Z) : R := lam * (- 2 * mask k - 2 * mask (k - 1)).
  Definition a2 (k : Z) : R := lam * mask k.

  (** (A z)_i *)
  Definition Aop (z : Z -> R) (i : Z) : R :=
    a0 i * z i + a1 (i - 1) * z (i - 1)%Z + a1 i * z (i + 1)%Z + a2 (i - 2) * z (i - 2)%Z + a2 i * z (i + 2)%Z.

  (** (D' D z)_i from the definition of D (rows masked to 0 .. n-3) *)
  Definition DtD (z : Z -> R) (i : Z) : R :=
    mask i * D2 z i - 2 * (mask (i - 1) * D2 z (i - 1)) + mask (i - 2) * D2 z (i - 2).

  Lemma Aop_DtD z i : Aop z i = W i * z i + lam * DtD z i.
  Proof.
    unfold Aop, DtD, a0, a1, a2, D2.
    replace (i - 1 - 1)%Z with (i - 2)%Z by lia. replace (i - 1 + 1)%Z with i by lia.
    replace (i - 1 + 2)%Z with (i + 1)%Z by lia. replace (i - 2 + 1)%Z with (i - 1)%Z by lia.
    replace (i - 2 + 2)%Z with i by lia. ring.
  Qed.

  (** the familiar numbers *)
  Lemma coefficients :
    (4 <= n)%nat ->
    let N := Z.of_nat n in
    a0 0 = W 0%Z + lam * 1 /\ a0 1 = W 1%Z + lam * 5 /\
    (forall k, (2 <= k <= N - 3)%Z -> a0 k = W k + lam * 6) /\
    a0 (N - 2) = W (N - 2)%Z + lam * 5 /\ a0 (N - 1) = W (N - 1)%Z + lam * 1 /\
    a1 0 = lam * -2 /\ (forall k, (1 <= k <= N - 3)%Z -> a1 k = lam * -4) /\ a1 (N - 2) = lam * -2 /\ a1 (N - 1) = 0 /\
    (forall k, (0 <= k <= N - 3)%Z -> a2 k = lam) /\ a2 (N - 2) = 0 /\ a2 (N - 1) = 0.
  Proof.
    intros Hn N. unfold a0, a1, a2. repeat split; try intros k Hk;
      repeat (match goal with
              | |- context [mask ?j] => first [rewrite (mask_in j) by lia | rewrite (mask_out j) by lia]
              end); ring.
  Qed.

  (** ** summation by parts: D' is the adjoint of D *)
  Lemma adjoint h z : (2 <= n)%nat ->
    sumn (fun i => h i * DtD z i) n = sumn (fun j => D2 h j * D2 z j) (n - 2).
  Proof.
    intros Hn. destruct n as [|[|m]] eqn:En; try lia. replace (S (S m) - 2)%nat with m by lia.
    set (g := fun j => mask j * D2 z j).
    assert (forall j, (j < 0 \/ Z.of_nat m <= j)%Z -> g j = 0) as Gout.
    { intros j Hj. unfold g. rewrite mask_out; [ring|]. rewrite En. lia. }
    assert (forall j, (0 <= j < Z.of_nat m)%Z -> g j = D2 z j) as Gin.
    { intros j Hj. unfold g. rewrite mask_in; [ring|]. rewrite En. lia. }
    transitivity (sumn (fun i => h i * g i) (S (S m)) + -2 * sumn (fun i => h i * g (i - 1)%Z) (S (S m))
                  + sumn (fun i => h i * g (i - 2)%Z) (S (S m))).
    { rewrite <- sumn_comb3. apply sumn_ext. intros i _. unfold DtD, g. ring. }
    (* term 1 *)
    rewrite (sumn_drop_last (fun i => h i * g i) (S m)) by (rewrite Gout; [ring|lia]).
    rewrite (sumn_drop_last (fun i => h i * g i) m) by (rewrite Gout; [ring|lia]).
    (* term 2 *)
    rewrite (sumn_shift_down h g (S m)) by (apply Gout; lia).
    rewrite (sumn_drop_last (fun i => h (i + 1)%Z * g i) m) by (rewrite Gout; [ring|lia]).
    (* term 3 *)
    rewrite (sumn_ext (fun i => h i * g (i - 2)%Z) (fun i => h i * (fun j => g (j - 1)%Z) (i - 1)%Z) (S (S m)))
      by (intros; cbn beta; f_equal; f_equal; lia).
    rewrite (sumn_shift_down h (fun j => g (j - 1)%Z) (S m)) by (apply Gout; lia).
    rewrite (sumn_shift_down (fun i => h (i + 1)%Z) g m) by (apply Gout; lia).
    rewrite <- sumn_comb3. apply sumn_ext. intros j Hj. rewrite (Gin j Hj). unfold D2.
    replace (j + 1 + 1)%Z with (j + 2)%Z by lia. ring.
  Qed.

  (** ** objective and its quadratic part *)
  Definition Sobj (z : Z -> R) : R :=
    sumn (fun i => W i * (Y i - z i) ^ 2) n + lam * sumn (fun j => (D2 z j) ^ 2) (n - 2).
  Definition Q (h : Z -> R) : R :=
    sumn (fun i => W i * (h i) ^ 2) n + lam * sumn (fun j => (D2 h j) ^ 2) (n - 2).

  Lemma quad_form x : (2 <= n)%nat -> sumn (fun i => x i * Aop x i) n = Q x.
  Proof.
    intros Hn. unfold Q. rewrite <- (sumn_ext (fun j => D2 x j * D2 x j) (fun j => D2 x j ^ 2)) by (intros; ring).
    rewrite <- (adjoint x x Hn). rewrite <- sumn_scal, <- sumn_plus. apply sumn_ext. intros i _.
    rewrite Aop_DtD. ring.
  Qed.

  Lemma S_expand z h : (2 <= n)%nat ->
    Sobj (fun i => z i + h i) = Sobj z + Q h + 2 * sumn (fun i => h i * (Aop z i - W i * Y i)) n.
  Proof.
    intros Hn. unfold Sobj, Q.
    assert (sumn (fun i => h i * (Aop z i - W i * Y i)) n =
            sumn (fun i => W i * h i * (z i - Y i)) n + lam * sumn (fun j => D2 h j * D2 z j) (n - 2)) as E.
    { rewrite <- (adjoint h z Hn). rewrite <- sumn_scal, <- sumn_plus. apply sumn_ext. intros i _.
      rewrite Aop_DtD. ring. }
    rewrite E.
    assert (forall j, D2 (fun i => z i + h i) j = D2 z j + D2 h j) as Dl by (intros; unfold D2; ring).
    rewrite (sumn_ext (fun j => D2 (fun i => z i + h i) j ^ 2)
                      (fun j => D2 z j ^ 2 + (D2 h j ^ 2 + 2 * (D2 h j * D2 z j))) (n - 2)) by (intros; rewrite Dl; ring).
    rewrite (sumn_ext (fun i => W i * (Y i - (z i + h i)) ^ 2)
                      (fun i => W i * (Y i - z i) ^ 2 + (W i * h i ^ 2 + 2 * (W i * h i * (z i - Y i)))) n) by (intros; ring).
    rewrite !sumn_plus, !sumn_scal. ring.
  Qed.

  (** ** positive (semi)definiteness *)
  Hypothesis W_nonneg : forall i, (0 <= i < Z.of_nat n)%Z -> 0 <= W i.
  Hypothesis lam_pos : 0 < lam.

  Lemma Q_nonneg h : 0 <= Q h.
  Proof.
    unfold Q. assert (0 <= sumn (fun i => W i * h i ^ 2) n).
    { apply sumn_nonneg. intros i Hi. specialize (W_nonneg i Hi). nra. }
    assert (0 <= sumn (fun j => D2 h j ^ 2) (n - 2)) by (apply sumn_nonneg; intros; nra). nra.
  Qed.

  Hypothesis two_weights : exists p q, (0 <= p < q)%Z /\ (q < Z.of_nat n)%Z /\ 0 < W p /\ 0 < W q.

  (** Q h = 0 forces h to vanish on 0 .. n-1: h is affine (all second differences vanish) and
      zero at two distinct weighted positions *)
  Lemma Q_definite h : (2 <= n)%nat -> Q h = 0 -> forall i, (0 <= i < Z.of_nat n)%Z -> h i = 0.
  Proof.
    intros Hn HQ. unfold Q in HQ.
    assert (0 <= sumn (fun i => W i * h i ^ 2) n) as P1.
    { apply sumn_nonneg. intros i Hi. specialize (W_nonneg i Hi). nra. }
    assert (0 <= sumn (fun j => D2 h j ^ 2) (n - 2)) as P2 by (apply sumn_nonneg; intros; nra).
    assert (sumn (fun i => W i * h i ^ 2) n = 0) as Z1 by nra.
    assert (sumn (fun j => D2 h j ^ 2) (n - 2) = 0) as Z2 by nra.
    assert (forall i, (0 <= i < Z.of_nat n)%Z -> W i * h i ^ 2 = 0) as T1.
    { apply sumn_zero_all; [|exact Z1]. intros i Hi. specialize (W_nonneg i Hi). nra. }
    assert (forall j, (0 <= j < Z.of_nat (n - 2))%Z -> D2 h j = 0) as T2.
    { intros j Hj. assert (D2 h j ^ 2 = 0) as X by (apply (sumn_zero_all (fun j => D2 h j ^ 2) (n - 2)); [intros; nra|exact Z2|exact Hj]). nra. }
    (* affine *)
    assert (forall k : nat, (Z.of_nat k < Z.of_nat n)%Z -> h (Z.of_nat k) = h 0%Z + IZR (Z.of_nat k) * (h 1%Z - h 0%Z)) as Aff.
    { intros k. induction k as [k IH] using lt_wf_ind. intros Hk.
      destruct k as [|[|k]].
      - cbn. ring.
      - cbn. ring.
      - pose proof (T2 (Z.of_nat k) ltac:(lia)) as Dk. unfold D2 in Dk.
        replace (Z.of_nat k + 1)%Z with (Z.of_nat (S k)) in Dk by lia.
        replace (Z.of_nat k + 2)%Z with (Z.of_nat (S (S k))) in Dk by lia.
        rewrite (IH k ltac:(lia) ltac:(lia)) in Dk. rewrite (IH (S k) ltac:(lia) ltac:(lia)) in Dk.
        rewrite !Nat2Z.inj_succ, !succ_IZR in *. nra. }
    destruct two_weights as (p & q & Hpq & Hq & Wp & Wq).
    assert (h p = 0) as Hp0 by (apply (weighted_sq_zero (W p)); [exact Wp|apply T1; lia]).
    assert (h q = 0) as Hq0 by (apply (weighted_sq_zero (W q)); [exact Wq|apply T1; lia]).
    pose proof (Aff (Z.to_nat p) ltac:(lia)) as Ap. pose proof (Aff (Z.to_nat q) ltac:(lia)) as Aq.
    rewrite Z2Nat.id in Ap, Aq by lia. rewrite Hp0 in Ap. rewrite Hq0 in Aq.
    assert (IZR p < IZR q) as Lt by (apply IZR_lt; lia).
    assert (h 1%Z - h 0%Z = 0) as Slope by nra.
    assert (h 0%Z = 0) as Icpt by nra.
    intros i Hi. pose proof (Aff (Z.to_nat i) ltac:(lia)) as Ai. rewrite Z2Nat.id in Ai by lia. nra.
  Qed.

  (** the solution of the normal equations is the unique minimiser *)
  Theorem normal_equations_minimise z :
    (2 <= n)%nat -> (forall i, (0 <= i < Z.of_nat n)%Z -> Aop z i = W i * Y i) ->
    forall z', Sobj z <= Sobj z' /\ (Sobj z' = Sobj z -> forall i, (0 <= i < Z.of_nat n)%Z -> z' i = z i).
  Proof.
    intros Hn NE z'. set (h := fun i => z' i - z i).
    assert (Sobj z' = Sobj (fun i => z i + h i)) as E1.
    { unfold Sobj. f_equal; [apply sumn_ext; intros; unfold h; f_equal; f_equal; ring|].
      f_equal. apply sumn_ext. intros. unfold D2, h. f_equal. ring. }
    rewrite E1, (S_expand z h Hn).
    rewrite (sumn_all_zero (fun i => h i * (Aop z i - W i * Y i)) n) by (intros i Hi; rewrite (NE i Hi); ring).
    pose proof (Q_nonneg h). split; [lra|]. intros E i Hi.
    assert (Q h = 0) as Q0 by lra. pose proof (Q_definite h Hn Q0 i Hi) as H0. unfold h in H0. lra.
  Qed.
End Penalty.
