"""Runs do_mean (kernel) and DataArray.hdc.zonal.mean (numpy and dask) from /repo."""
import json
import sys
import warnings

import numpy as np

warnings.filterwarnings("ignore")
import xarray as xr  # noqa: E402
import hdc.algo  # noqa: F401,E402
from hdc.algo.ops.zonal import do_mean  # noqa: E402


def big_zone(c):
    """one huge zone, generated here (too large to ship as JSON): values from a seeded RNG"""
    rng = np.random.default_rng(c["seed"])
    ny, nx = c["shape"]
    px = rng.integers(c["lo"], c["hi"], size=(1, ny, nx)).astype(c["dtype"])
    zz = np.zeros((ny, nx), dtype="int16")
    zz[: c.get("other_rows", 0)] = 1
    nd = c["nodata"]
    px[0][rng.random((ny, nx)) < c.get("nodata_frac", 0.0)] = nd
    r = do_mean(px, zz, 2, nd, -1, out_dtype=np.float32 if c["out"] == "float32" else np.float64)
    sel = (zz == 0) & (px[0] != nd)
    isint = c["dtype"].startswith(("int", "uint"))
    vals = px[0][sel].astype("int64" if isint else "float64")
    return dict(mean=float(r[0, 0, 0]), count=float(r[0, 0, 1]), exact_sum=str(int(vals.sum())) if isint else repr(float(np.sum(vals.astype(np.longdouble)))),
                exact_count=int(sel.sum()), dtype=str(r.dtype))


def main():
    P = json.load(sys.stdin)
    out = dict(kernel=[], big=[], acc=[])
    for c in P.get("kernel", []):
        try:
            px = np.array(c["pix"], dtype=c["dtype"])               # (T, Y, X)
            zz = np.array(c["zones"], dtype=c.get("zdtype", "int16"))
            od = np.float32 if c["out"] == "float32" else np.float64
            r = do_mean(px, zz, c["num_zones"], c["nodata"], c["znodata"], out_dtype=od)
            r2 = do_mean(px, zz, c["num_zones"], c["nodata"], c["znodata"], out_dtype=od)
            out["kernel"].append(dict(res=[[[float(v) for v in z] for z in t] for t in r], dtype=str(r.dtype),
                                      repeat_equal=bool(np.array_equal(r, r2, equal_nan=True))))
        except Exception as e:  # noqa
            out["kernel"].append(dict(error="%s: %s" % (type(e).__name__, e)))
    for c in P.get("big", []):
        try:
            out["big"].append(big_zone(c))
        except Exception as e:  # noqa
            out["big"].append(dict(error="%s: %s" % (type(e).__name__, e)))
    for c in P.get("acc", []):
        try:
            px = np.array([[[np.nan if v is None else v for v in row] for row in t] for t in c["pix"]], dtype=c["dtype"])
            da = xr.DataArray(px, dims=("time", "y", "x"), coords={"time": np.arange(px.shape[0])}, attrs={"nodata": float("nan") if c.get("nodata_nan") else c["nodata"]})
            zz = xr.DataArray(np.array(c["zones"], dtype=c.get("zdtype", "int16")), dims=("y", "x"), attrs={"nodata": c["znodata"]})
            ids = list(range(c["num_zones"]))
            r = da.hdc.zonal.mean(zz, ids, dtype=c["out"], dim_name="zid", name=c.get("name"))
            dd = da.chunk({"time": 1, "y": -1, "x": -1})
            rd = dd.hdc.zonal.mean(zz.chunk(), ids, dtype=c["out"], dim_name="zid", name=c.get("name")).compute()
            out["acc"].append(dict(res=[[[float(v) for v in z] for z in t] for t in r.values], dims=list(r.dims), dtype=str(r.dtype),
                                   stat=[str(v) for v in r.stat.values], dask_equal=bool(np.array_equal(r.values, rd.values, equal_nan=True)),
                                   attrs_nodata=r.attrs.get("nodata")))
        except Exception as e:  # noqa
            out["acc"].append(dict(error="%s: %s" % (type(e).__name__, e)))
    print("@@RESULT@@" + json.dumps(out))


main()
