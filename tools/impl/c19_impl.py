"""Runs DataArray.hdc.iteragg.{sum,mean,full} from /repo and records the yielded sequence."""
import json
import sys
import warnings

import numpy as np

warnings.filterwarnings("ignore")
import xarray as xr  # noqa: E402
import hdc.algo  # noqa: F401,E402

T0 = np.datetime64("2000-01-01", "ns")


def lab(k, timedim):
    return T0 + np.timedelta64(int(k), "D") if timedim else int(k)


def main():
    P = json.load(sys.stdin)
    res = []
    for c in P["cases"]:
        axis = c["axis"]
        timedim = c["dim"] == "time"
        coords = [lab(k, timedim) for k in axis]
        pix = np.array([np.nan if v is None else float(v) for v in c["pix"]])
        other = np.arange(len(axis), dtype="float64") * 7.0 - 3.0
        cube = np.stack([pix, other])[:, None, :].astype(c.get("dtype", "float64"))            # (y=2, x=1, dim)
        if c.get("first"):
            da = xr.DataArray(np.moveaxis(cube, 2, 0), dims=(c["dim"], "y", "x"), coords={c["dim"]: coords})
        else:
            da = xr.DataArray(cube, dims=("y", "x", c["dim"]), coords={c["dim"]: coords})
        strmap = {str(v): k for v, k in zip(da[c["dim"]].to_index(), axis)}
        kw = dict(n=c["n"], dim=c["dim"], method=c["method"])
        if c["begin"] is not None:
            kw["begin"] = lab(c["begin"], timedim)
        if c["end"] is not None:
            kw["end"] = lab(c["end"], timedim)
        items, raised = [], None
        try:
            for it in getattr(da.hdc.iteragg, c["op"])(**kw):
                rec = dict(start=strmap.get(it.attrs["agg_start"]), stop=strmap.get(it.attrs["agg_stop"]),
                           n=int(it.attrs["agg_n"]), raw_start=it.attrs["agg_start"], raw_stop=it.attrs["agg_stop"])
                if c["op"] == "full":
                    sl = it.isel(y=0, x=0).values
                    rec["slice"] = [None if v != v else int(v) for v in sl]
                    rec["labels"] = [strmap.get(str(v)) for v in it[c["dim"]].to_index()]
                    rec["val"] = 0.0
                    rec["stamp"] = None
                else:
                    v = it.isel(y=0, x=0).values
                    rec["val"] = float(np.asarray(v).reshape(-1)[0])
                    rec["shape"] = list(np.asarray(v).shape)
                    rec["other"] = float(np.asarray(it.isel(y=1, x=0).values).reshape(-1)[0])
                    if timedim:
                        rec["stamp"] = strmap.get(str(it.time.to_index()[0]))
                        rec["ntime"] = int(it.time.size)
                    else:
                        rec["stamp"] = None
                items.append(rec)
        except ValueError as e:
            raised = "ValueError: %s" % e
        except Exception as e:  # noqa
            raised = "%s: %s" % (type(e).__name__, e)
        res.append(dict(items=items, raised=raised))
    print("@@RESULT@@" + json.dumps(res))


main()
