"""C02 — missing observations carry zero weight in every smoother (all eight variants)."""
import numpy as np

from vlib import core
from props import whit_common as wc
from props.C03 import gen_series, gap_pattern

VARIANTS = [("gu", {}), ("pgu", {}), ("optv", {}), ("optvp", {}), ("optvplc", {}), ("wcv", dict(robust=False)), ("wcv", dict(robust=True)),
            ("wcvp", dict(robust=False)), ("wcvp", dict(robust=True))]
NANOK = {"gu", "pgu", "wcv", "wcvp"}


def encodings(rng, y, kind):
    """placeholder values: below / inside / above the data range (never equal to a datum), NaN, +-inf"""
    vals = set(int(v) for v in y)
    inside = next(v for v in range(int(min(y)) + 1, int(max(y)) + 40000) if v not in vals)
    cand = [-32768, -9999, -3000, 0, inside, 5000, 32767]
    enc = [float(v) for v in cand if v not in vals]
    rng.shuffle(enc)
    enc = enc[:3]
    if kind in NANOK:
        enc += [None, float("inf"), float("-inf")]
    return enc


def run(ctx):
    ctx.proofs(["Props/C02.v"])
    rng = np.random.default_rng(ctx.seed)
    groups = []          # (variant, params, base series, missing mask, [encodings])
    N = 20 if ctx.thorough else 6
    for vi, (kind, extra) in enumerate(VARIANTS):
        for it in range(N):
            n = int(rng.choice([4, 5, 7, int(rng.integers(8, 50)), int(rng.integers(50, 200 if ctx.thorough else 90))]))
            if kind in ("wcv", "wcvp", "optv", "optvp", "optvplc"):
                n = max(n, 5)
            y = np.clip(gen_series(rng, n, negative_ok=(it % 2 == 0)), -9000, 9000)
            miss = gap_pattern(rng, n)
            if it % 3 == 0:                              # all-but-k valid, k = 0..6; the pass-through thresholds (2 and 5) come first
                k = ([5, 2, 4, 6, 1, 3, 0] if kind in ("wcv", "wcvp") else [2, 5, 1, 3, 0, 4, 6])[(it // 3) % 7]
                n = max(n, k + 1)
                y = np.clip(gen_series(rng, n, negative_ok=(it % 2 == 0)), -9000, 9000)
                miss = np.ones(n, dtype=bool)
                miss[rng.choice(n, size=min(k, n), replace=False)] = False
            if not miss.any():
                miss[int(rng.integers(0, n))] = True
            params = dict(extra)
            if kind in ("gu", "pgu"):
                params["lam"] = float(10 ** rng.uniform(-2, 4))
            if kind in ("pgu", "optvp", "optvplc", "wcvp"):
                params["p"] = float(rng.choice([0.9, 0.5, 0.2, float(rng.uniform(0.05, 0.95))]))
            if kind in ("optv", "optvp"):
                params["llas"] = [float(v) for v in np.arange(-2, 2.2, float(rng.choice([0.2, 0.4, 0.5])))]
            if kind in ("wcv", "wcvp"):
                params["llas"] = [float(v) for v in np.arange(-1.8, 4.2, float(rng.choice([0.2, 0.6])))]
            if kind == "optvplc":
                params["lc"] = float(rng.choice([0.9, 0.3, float("nan")]))
            groups.append((kind, params, y, miss, encodings(rng, y, kind)))
    cases, index = [], []
    for gi, (kind, params, y, miss, encs) in enumerate(groups):
        for e in encs:
            nd = float(e) if (e is not None and abs(e) != float("inf")) else -29999.0
            yl = [(e if m else float(v)) for v, m in zip(y, miss)]
            cases.append(dict(kind=kind, y=yl, nodata=nd, n=len(y), **params))
            index.append(gi)
    # accessors: one pixel per number of valid cells 0..7 (the pass-through thresholds are 2 and 5); what is reported for a pixel
    # that was passed through is lambda 0 (sgrid = -inf) and the untouched series
    T = 12
    acc = []
    for op, thr in (("whitsvc", 2), ("whitswcv", 5)):
        for ndv in (-3000.0, 0.0):
            cube = np.round(rng.normal(3000, 600, size=(2, 4, T)))
            cube[cube == ndv] += 1
            for i in range(8):
                px = cube[i // 4, i % 4]
                keep = rng.choice(T, size=i, replace=False)
                m = np.ones(T, dtype=bool)
                m[keep] = False
                px[m] = ndv
            a = dict(op=op, cube=cube.tolist(), nodata=ndv, order=("time", "y", "x"), thr=thr, attr_nodata=-9999 if ndv == 0.0 else None)
            if op == "whitsvc":
                a["srange"] = [float(v) for v in np.arange(-1, 1.2, 0.5)]
            else:
                a["srange"] = [float(v) for v in np.arange(-1, 2.2, 1.0)]
                a["robust"] = False
            acc.append(a)
    res, log = core.run_impl("whit_impl.py", dict(kernels=cases, accessors=acc), timeout=3000)
    if res is None:
        ctx.violation("implementation run failed", dict(kind="impl-crash", log=log[-3000:]), found_input=False)
        return
    grids = res["grids"]
    spec_fail, coq, fn, meta = [], [], [], []
    dist = dict(groups=len(groups), encodings=len(cases), by_variant={}, nonfinite_placeholders=0, passthrough_groups=0, pairs_compared=0,
                valid_counts={})
    dist["accessor_pixels"] = 0
    for a, r in zip(acc, res["accessors"]):
        ma = dict(kind=a["op"], nodata=a["nodata"], n=10 ** 6)
        if "error" in r:
            spec_fail.append((ma, "%s raised %s" % (a["op"], r["error"])))
            continue
        for i in range(8):
            px = a["cube"][i // 4][i % 4]
            band, sg = r["band"][i // 4][i % 4], r["sgrid"][i // 4][i % 4]
            dist["accessor_pixels"] += 1
            mm = dict(ma, valid_cells=i, y=px, band=band, sgrid=sg, n=len(px))
            if i < a["thr"]:
                if band != [int(v) for v in px] or sg != float("-inf"):
                    spec_fail.append((mm, "%s: a pixel with %d valid cells (< %d) must come back unchanged with lambda 0 (sgrid = -inf); got sgrid %r"
                                      % (a["op"], i, a["thr"], sg)))
            elif not (sg == sg and abs(sg) != float("inf")):
                spec_fail.append((mm, "%s: a pixel with %d valid cells must be smoothed at a grid lambda; got sgrid %r" % (a["op"], i, sg)))
    by_group = {}
    for c, r, gi in zip(cases, res["kernels"], index):
        by_group.setdefault(gi, []).append((c, r))
        key = c["kind"] + ("+robust" if c.get("robust") else "")
        dist["by_variant"][key] = dist["by_variant"].get(key, 0) + 1
        dist["nonfinite_placeholders"] += 1 if any(v is None or v in (float("inf"), float("-inf")) for v in c["y"]) else 0
        m = dict(kind=c["kind"], n=c["n"], nodata=c["nodata"], params={k: c[k] for k in ("lam", "p", "lc", "robust") if k in c},
                 y=c["y"] if c["n"] <= 30 else None, out=r.get("out") if c["n"] <= 30 else None, lopt=r.get("lopt"))
        if "error" in r:
            spec_fail.append((dict(m, y=c["y"]), "kernel raised %s" % r["error"]))
            continue
        term, chk, claim = wc.coq_case(c, r, grids)
        coq.append(term)
        fn.append(chk)
        meta.append(m)
    # ---- the property itself, on the implementation: all encodings of one group give one result
    for gi, lst in by_group.items():
        kind, params, y, miss, encs = groups[gi]
        nvalid = int((~miss).sum())
        dist["valid_counts"][min(nvalid, 7)] = dist["valid_counts"].get(min(nvalid, 7), 0) + 1
        need = 5 if kind in ("wcv", "wcvp") else 2
        ok = [(c, r) for c, r in lst if "error" not in r]
        if nvalid < need:
            dist["passthrough_groups"] += 1
            for c, r in ok:
                finite = all(v is not None and abs(v) < 4e4 for v in c["y"])
                if (r.get("lopt") not in (None, 0.0)) or (finite and r["out"] != [int(v) for v in c["y"]]):
                    spec_fail.append((dict(kind=kind, y=c["y"], nodata=c["nodata"], out=r["out"], lopt=r.get("lopt")),
                                      "a pixel with %d valid cells (< %d) must be returned unchanged with lambda 0" % (nvalid, need)))
            continue
        for c, r in ok:
            sv = r.get("solves") or {}
            if sv.get("same_as_compiled") and sv.get("max_median_cells", 0) > nvalid:
                spec_fail.append((dict(kind=kind, params=params, y=c["y"], nodata=c["nodata"], out=r["out"], lopt=r.get("lopt")),
                                  "missing cells influence the robust weights: %d residuals enter the robust scale (median) of a series with %d valid "
                                  "cells (observed in the kernel's source run in the interpreter, whose result equals the compiled kernel's)"
                                  % (sv["max_median_cells"], nvalid)))
                break
        c0, r0 = ok[0]
        for c, r in ok[1:]:
            dist["pairs_compared"] += 1
            if r["out"] != r0["out"] or r.get("lopt") != r0.get("lopt"):
                spec_fail.append((dict(kind=kind, params=params, y_a=c0["y"], nodata_a=c0["nodata"], out_a=r0["out"], lopt_a=r0.get("lopt"),
                                       y_b=c["y"], nodata_b=c["nodata"], out_b=r["out"], lopt_b=r.get("lopt")),
                                  "result depends on the placeholder that marks the missing cells"))
                break
    failing, claims, errors = [], [], []
    for chk, claim in (("check_gu", "claim_gu"), ("check_v", "claim_v"), ("check_g", "claim_g")):
        idx = [i for i, f in enumerate(fn) if f == chk]
        if not idx:
            continue
        r1 = core.eval_cases("C02", chk, wc.PRE, [coq[i] for i in idx], chk, shard=8, scope="Z")
        r2 = core.eval_cases("C02", claim, wc.PRE, [coq[i] for i in idx], claim, shard=8, scope="Z")
        failing += [idx[j] for j in r1["failing"]]
        claims += [idx[j] for j in r2["failing"]]
        errors += r1["errors"] + r2["errors"]
    ctx.cov["evaluations"] = len(coq)
    ctx.cov["distinct_nontrivial"] = len(set(coq))
    ctx.cov["rule"] = ("for each of the 9 variant configurations (8 smoothers, GCV with and without robust weights) %d base series (length 4..%d) "
                       "with gap patterns isolated/runs/leading/trailing/all-but-k (k = 0..6) are encoded with 3 nodata values below / inside / "
                       "above the data range and, where the smoother promises it, NaN and +-inf; all encodings of a series must give one band "
                       "and one lambda; every encoding is also compared bit-for-bit with the model" % (N, 200 if ctx.thorough else 90))
    ctx.notes.update(input_distribution=dist, cases_bit_exact=len(coq) - len(claims), out_of_claim_dropped=len(claims),
                     model_vs_impl_mismatches=len(failing), spec_failures=len(spec_fail))
    ctx.add_samples([meta[0], meta[len(meta) // 3], meta[-1]])
    ctx.assumptions += ["placeholder independence of the V-curve kernels is proved in exact arithmetic; in binary64 it is observed on the "
                        "implementation (finite placeholders times weight 0 are exact zeros)",
                        "cases whose fitted curve leaves int16 are outside the claim (dropped and counted)"]
    for si, lg in errors:
        ctx.violation("Coq could not evaluate cases", dict(kind="coq-eval-error", log=lg), found_input=False)
    if spec_fail:
        spec_fail.sort(key=lambda t: len(str(t[0])))
        m, why = spec_fail[0]
        ctx.violation(why, dict(kind="spec", case=m, n_failing=len(spec_fail)))
    elif failing:
        bad = sorted((meta[i] for i in failing), key=lambda m: m["n"])
        ctx.violation("model and implementation disagree (Corr/C03-C05 bit-exact checks); placeholder independence and the minimum-count "
                      "thresholds hold on all explored inputs", dict(kind="correspondence", correspondence="Corr/C03.v, Corr/C04.v, Corr/C05.v",
                                                                     case=bad[0], n_disagree=len(failing)), found_input=False)


def replay(ctx, path):
    import json
    rp = json.load(open(path))
    print(json.dumps(rp.get("case"))[:3000])
    return 2
