"""C16 — zonal mean is the exact mean and count of valid pixels per zone."""
from fractions import Fraction

import numpy as np

from vlib import core
from vlib.core import zlist, zlit, flit, blit

PRE = "From HDC Require Import Base.Prelude Base.Float Base.Ops Model.Zonal Corr.C16.\nFrom Coq Require Import PrimFloat.\n"


def ulp(v, dtype):
    return float(np.spacing(np.float32(abs(v)))) if dtype == "float32" else float(np.spacing(np.float64(abs(v))))


def spec_zone(pix, zones, k, nodata, znodata, mean, count, dtype):
    mem = [p for p, z in zip(pix, zones) if z == k and z != znodata and p != nodata and p == p]
    if not mem:
        if not (mean != mean and count == 0):
            return "empty zone %d gives mean %r count %r" % (k, mean, count)
        return None
    exact = Fraction(sum(Fraction(p) for p in mem), len(mem))
    want_c = float(np.float32(len(mem))) if dtype == "float32" else float(len(mem))
    if count != want_c:
        return "zone %d: count %r, there are %d valid pixels" % (k, count, len(mem))
    if abs(Fraction(mean) - exact) > Fraction(ulp(float(exact), dtype)):
        return "zone %d: mean %r, exact mean %r" % (k, mean, float(exact))
    return None


def run(ctx):
    ctx.proofs(["Props/C16.v"])
    rng = np.random.default_rng(ctx.seed)
    kernel = []
    N = 120 if ctx.thorough else 40
    for it in range(N):
        T = int(rng.integers(1, 4))
        ny, nx = int(rng.integers(1, 30)), int(rng.integers(1, 30))
        nz = int(rng.choice([1, 2, 3, 8, int(rng.integers(4, 40))]))
        nodata = int(rng.choice([-9999, 0, 255, -1]))
        znodata = int(rng.choice([-1, 255, nz]))
        dtype = str(rng.choice(["int16", "uint8", "float32", "float64"]))
        lo, hi = (0, 250) if dtype == "uint8" else (-3000, 10000)
        px = rng.integers(lo, hi, size=(T, ny, nx))
        px[rng.random(px.shape) < rng.choice([0.0, 0.2, 0.9])] = nodata if (dtype != "uint8" or 0 <= nodata <= 255) else 0
        zz = rng.integers(0, nz, size=(ny, nx))
        zz[rng.random(zz.shape) < 0.15] = znodata
        if it % 5 == 0 and nz > 1:
            zz[zz == nz - 1] = 0                       # an empty zone
        nd = nodata if (dtype != "uint8" or 0 <= nodata <= 255) else 0
        kernel.append(dict(pix=px.tolist(), zones=zz.tolist(), num_zones=nz, nodata=nd, znodata=znodata, dtype=dtype,
                           out=str(rng.choice(["float32", "float64"])), permute=(it % 3 == 0)))
    # pixel rearrangements: same multiset of (pixel, zone) pairs in another raster order
    extra = []
    for c in kernel:
        if c["permute"]:
            px, zz = np.array(c["pix"]), np.array(c["zones"])
            perm = rng.permutation(zz.size)
            c2 = dict(c, pix=px.reshape(px.shape[0], -1)[:, perm].reshape(px.shape).tolist(), zones=zz.reshape(-1)[perm].reshape(zz.shape).tolist(),
                      permute=False, permuted_of=len(extra))
            extra.append((c, c2))
    kernel_all = kernel + [e[1] for e in extra]
    big = []
    for k, (shape, dt, out) in enumerate([((1500, 1500), "int16", "float32"), ((1200, 1200), "uint8", "float32"), ((1000, 1100), "float32", "float64")] +
                                         ([((4300, 4300), "int16", "float32"), ((5100, 5100), "uint8", "float32"), ((4200, 4200), "int16", "float64")] if ctx.thorough else
                                          [((4200, 4200), "uint8", "float32")])):
        big.append(dict(shape=list(shape), dtype=dt, out=out, lo=0 if dt == "uint8" else -2000, hi=250 if dt == "uint8" else 9000,
                        nodata=255 if dt == "uint8" else -9999, nodata_frac=[0.0, 0.1, 0.5][k % 3], other_rows=k % 2, seed=int(rng.integers(1, 10 ** 6))))
    acc = []
    for k in range(12 if ctx.thorough else 6):
        T, ny, nx, nz = 3, int(rng.integers(2, 12)), int(rng.integers(2, 12)), int(rng.integers(1, 6))
        px = rng.integers(0, 5000, size=(T, ny, nx)).astype(float)
        pl = px.tolist()
        dtype = ["float32", "float64", "int16"][k % 3]
        if dtype != "int16":
            for t in range(T):
                for a in range(ny):
                    for b in range(nx):
                        if rng.random() < 0.1:
                            pl[t][a][b] = None          # NaN pixels must be treated like nodata
        zz = rng.integers(0, nz, size=(ny, nx))
        # zone rasters come in several integer types, each with its customary nodata (all-ones for unsigned types)
        zdtype, znd = [("int16", -1), ("uint16", 65535), ("uint8", 255), ("int32", -9999), ("uint32", 4294967295), ("int64", -1)][k % 6]
        zz[rng.random(zz.shape) < 0.15] = znd
        acc.append(dict(pix=pl, zones=zz.tolist(), num_zones=nz + 1, nodata=-9999, znodata=znd, zdtype=zdtype, dtype=dtype, out=["float32", "float64"][k % 2],
                        name=[None, "zm"][k % 2]))
        if dtype != "int16":
            # float rasters whose declared nodata is NaN itself (the customary encoding of float rasters): NaN pixels are the missing ones
            acc.append(dict(acc[-1], nodata=None, nodata_nan=True))
            # a fill value that binary32 cannot hold exactly (1e20, the customary _FillValue of model output): the raster's cells carry
            # float32(1e20), the attribute the double 1e20 - they are the same marker
            base = acc[-2]
            pl2 = [[[(1e20 if (v is not None and rng.random() < 0.15) else v) for v in row] for row in t] for t in base["pix"]]
            acc.append(dict(base, pix=pl2, nodata=1e20))
    res, log = core.run_impl("c16_impl.py", dict(kernel=kernel_all, big=big, acc=acc), timeout=3000)
    if res is None:
        ctx.violation("implementation run failed", dict(kind="impl-crash", log=log[-3000:]), found_input=False)
        return
    spec_fail, coq, meta = [], [], []
    dist = dict(kernel_cases=len(kernel_all), zones_checked=0, empty_zones=0, rearrangements=len(extra), big_zone_pixels=[], accessor=len(acc),
                out_dtypes={}, in_dtypes={})
    for c, r in zip(kernel_all, res["kernel"]):
        m = dict(shape=[len(c["pix"]), len(c["zones"]), len(c["zones"][0])], num_zones=c["num_zones"], dtype=c["dtype"], out=c["out"],
                 nodata=c["nodata"], znodata=c["znodata"])
        if "error" in r:
            spec_fail.append((dict(m, pix=c["pix"], zones=c["zones"]), "do_mean raised %s" % r["error"]))
            continue
        dist["out_dtypes"][c["out"]] = dist["out_dtypes"].get(c["out"], 0) + 1
        dist["in_dtypes"][c["dtype"]] = dist["in_dtypes"].get(c["dtype"], 0) + 1
        if r["dtype"] != c["out"] or not r["repeat_equal"]:
            spec_fail.append((m, "output dtype %s / repeated calls differ" % r["dtype"]))
        zflat = [z for row in c["zones"] for z in row]
        small = len(zflat) <= 30
        for t, tres in enumerate(r["res"]):
            pflat = [p for row in c["pix"][t] for p in row]
            for k, (mean, count) in enumerate(tres):
                dist["zones_checked"] += 1
                dist["empty_zones"] += 1 if count == 0 else 0
                why = spec_zone(pflat, zflat, k, c["nodata"], c["znodata"], mean, count, c["out"])
                if why:
                    spec_fail.append((dict(m, t=t, pix=pflat if small else None, zones=zflat if small else None), why))
            coq.append("ZC %s %s %s %s %d%%nat %s [%s]" % (zlist(pflat), zlist(zflat), zlit(c["nodata"]), zlit(c["znodata"]), c["num_zones"],
                                                         blit(c["out"] == "float32"), "; ".join("(%s, %s)" % (flit(a), flit(b)) for a, b in tres)))
            meta.append(dict(m, t=t, pix=pflat if small else None, zones=zflat if small else None, res=tres if small else None))
    for i, (c, c2) in enumerate(extra):
        r1, r2 = res["kernel"][kernel.index(c)], res["kernel"][len(kernel) + i]
        if "error" not in r1 and "error" not in r2 and c["dtype"] in ("int16", "uint8"):
            a, b = np.array(r1["res"]), np.array(r2["res"])
            if not np.array_equal(a, b, equal_nan=True):
                spec_fail.append((dict(shape=list(a.shape), dtype=c["dtype"], out=c["out"]), "rearranging the pixels changes the result"))
    for c, r in zip(big, res["big"]):
        m = dict(big_zone=c)
        if "error" in r:
            spec_fail.append((m, "do_mean raised %s" % r["error"]))
            continue
        dist["big_zone_pixels"].append(r["exact_count"])
        exact = Fraction(int(r["exact_sum"]), r["exact_count"]) if c["dtype"] != "float32" else Fraction(float(r["exact_sum"])) / r["exact_count"]
        want_c = float(np.float32(r["exact_count"])) if c["out"] == "float32" else float(r["exact_count"])
        if r["count"] != want_c:
            spec_fail.append((dict(m, count=r["count"], valid=r["exact_count"]), "count %r for a zone of %d valid pixels" % (r["count"], r["exact_count"])))
        elif abs(Fraction(r["mean"]) - exact) > 2 * Fraction(ulp(float(exact), c["out"])) + (Fraction(1, 10 ** 9) * abs(exact) if c["dtype"] == "float32" else 0):
            spec_fail.append((dict(m, mean=r["mean"], exact=float(exact)), "mean %r of a zone of %d pixels, exact %r: not accurate to the output dtype"
                              % (r["mean"], r["exact_count"], float(exact))))
    for c, r in zip(acc, res["acc"]):
        m = dict(accessor=dict(shape=[len(c["pix"]), len(c["zones"]), len(c["zones"][0])], dtype=c["dtype"], out=c["out"]))
        if "error" in r:
            spec_fail.append((m, "zonal.mean raised %s" % r["error"]))
            continue
        if r["dims"] != ["time", "zid", "stat"] or r["stat"] != ["mean", "valid"] or r["dtype"] != c["out"] or not r["dask_equal"]:
            spec_fail.append((dict(m, dims=r["dims"], dask_equal=r["dask_equal"]), "accessor dims / coords / dtype / dask result"))
        zflat = [z for row in c["zones"] for z in row]
        for t, tres in enumerate(r["res"]):
            pflat = [float("nan") if p is None else p for row in c["pix"][t] for p in row]
            for k, (mean, count) in enumerate(tres):
                why = spec_zone(pflat, zflat, k, float("nan") if c.get("nodata_nan") else c["nodata"], c["znodata"], mean, count, c["out"])
                if why:
                    small = len(zflat) <= 40
                    spec_fail.append((dict(m, t=t, nodata="nan" if c.get("nodata_nan") else c["nodata"], pix=[None if p != p else p for p in pflat] if small else None,
                                           zones=zflat if small else None, zone=k, mean=None if mean != mean else mean, count=count),
                                      why + " (accessor; NaN pixels must count as nodata)"))
    r1 = core.eval_cases("C16", "z", PRE, coq, "check_zonal", shard=30, scope="Z")
    ctx.cov["evaluations"] = len(coq) + len(big)
    ctx.cov["distinct_nontrivial"] = len(set(coq))
    ctx.cov["rule"] = ("seeded rasters (1..29 x 1..29 pixels, 1..39 zones incl. empty ones, nodata share 0/20/90%%, zone-nodata cells, input dtypes "
                       "int16/uint8/float32/float64, output float32/float64) compared bit-for-bit with the model per time step; pixel rearrangements; "
                       "single zones of %s pixels checked against the exact sum/count; accessor on numpy and dask inputs with NaN pixels"
                       % ("1.2e6..2.6e7" if ctx.thorough else "1.2e6..1.8e7"))
    ctx.notes.update(input_distribution=dist, cases_bit_exact=len(coq), model_vs_impl_mismatches=len(r1["failing"]), spec_failures=len(spec_fail))
    ctx.add_samples([m for m in meta if m.get("pix")][:3] or meta[:2])
    ctx.assumptions += ["the accuracy clause (mean within 1 ulp of the output dtype, count exact up to the output dtype's rounding) is measured against "
                        "exact rationals, not proved; pixel values are integral in the bit-exact cases"]
    for si, lg in r1["errors"]:
        ctx.violation("Coq could not evaluate the cases", dict(kind="coq-eval-error", log=lg), found_input=False)
    if spec_fail:
        spec_fail.sort(key=lambda t: len(str(t[0])))
        m, why = spec_fail[0]
        ctx.violation(why, dict(kind="spec", case=m, n_failing=len(spec_fail)))
    elif r1["failing"]:
        ctx.violation("model and implementation disagree (Corr/C16.v check_zonal, bit-exact); mean/count spec holds on all explored inputs",
                      dict(kind="correspondence", correspondence="Corr/C16.v check_zonal", case=meta[r1["failing"][0]], n_disagree=len(r1["failing"])),
                      found_input=False)


def replay(ctx, path):
    import json
    rp = json.load(open(path))
    print(json.dumps(rp.get("case"))[:3000])
    return 2
