"""Runs get_calibration_indices / to_linspace / DataArray.hdc.algo.spi (windows, groups) from /repo."""
import json
import sys
import warnings

import numpy as np

warnings.filterwarnings("ignore")
import pandas as pd  # noqa: E402
import xarray as xr  # noqa: E402
import hdc.algo  # noqa: F401,E402
from hdc.algo.utils import get_calibration_indices, to_linspace  # noqa: E402

T0 = pd.Timestamp("2000-01-01")


def ts(k):
    return T0 + pd.Timedelta(hours=int(k))


def pos(tix, stamp):
    return int((pd.Timestamp(stamp) - T0) // pd.Timedelta(hours=1))


def main():
    P = json.load(sys.stdin)
    out = {}
    res = []
    for c in P.get("calidx", []):
        tix = pd.DatetimeIndex([ts(k) for k in c["time"]])
        b, e = ts(c["b"]), ts(c["e"])
        if c.get("as_str") == "date":
            b, e = (str(v.date()) if v == v.normalize() else str(v) for v in (b, e))
        elif c.get("as_str"):
            b, e = str(b), str(e)
        try:
            if c.get("groups") is None:
                r = get_calibration_indices(tix, (b, e))
                res.append(dict(out=[[int(r[0]), int(r[1])]]))
            else:
                g = np.array(c["groups"], dtype="int16")
                if c.get("num_groups") is None:
                    r = get_calibration_indices(tix, (b, e), g)
                else:
                    r = get_calibration_indices(tix, (b, e), g, c["num_groups"])
                res.append(dict(out=[[int(a), int(bb)] for a, bb in r], dtype=str(r.dtype)))
        except Exception as ex:  # noqa
            res.append(dict(error="%s: %s" % (type(ex).__name__, ex)))
    out["calidx"] = res
    res = []
    for c in P.get("linspace", []):
        x = np.array(c["x"], dtype=c.get("dtype", "int64"))
        if c.get("shape"):
            x = x.reshape(c["shape"])
        lin, keys = to_linspace(x)
        res.append(dict(lin=[int(v) for v in np.asarray(lin).ravel()], keys=[k.item() if hasattr(k, "item") else k for k in keys],
                        shape=list(np.asarray(lin).shape)))
    out["linspace"] = res
    res = []
    for c in P.get("spi", []):
        tix = pd.DatetimeIndex([ts(k) for k in c["time"]])
        data = np.array(c["data"], dtype=c.get("dtype", "int16"))          # (y, x, t)
        da = xr.DataArray(data, dims=("y", "x", "time"), coords={"time": tix}, attrs={"nodata": c["nodata"]})
        kw = {}
        def bound(k):
            # a Timestamp, its full string, or - for an instant at midnight - the date-only string (which names that instant,
            # not the whole day)
            if c.get("as_str") == "date" and ts(k) == ts(k).normalize():
                return str(ts(k).date())
            return str(ts(k)) if c.get("as_str") else ts(k)
        if c["b"] is not None:
            kw["calibration_begin"] = bound(c["b"])
        if c["e"] is not None:
            kw["calibration_end"] = bound(c["e"])
        rec = {}

        def call(d, groups=None, **k2):
            try:
                r = d.hdc.algo.spi(groups=groups, **k2)
                return dict(raised=None, vals=r.values.astype("int64").tolist(), dtype=str(r.dtype), dims=list(r.dims),
                            battr=pos(tix, r.attrs["spi_calibration_begin"]), eattr=pos(tix, r.attrs["spi_calibration_end"]))
            except ValueError as ex:
                return dict(raised="ValueError: %s" % ex)
            except Exception as ex:  # noqa
                return dict(raised="%s: %s" % (type(ex).__name__, ex))
        if c.get("groups") is None:
            rec["main"] = call(da, None, **kw)
        else:
            labels = c["groups"]
            rec["main"] = call(da, labels, **kw)
            # the same partition spelled differently
            rec["alts"] = [call(da, alt, **kw) for alt in c.get("alt_labelings", [])]
            # per group: ungrouped SPI of the sub-series under the same window
            subs = {}
            for g in sorted(set(map(str, labels))):
                mask = np.array([str(v) == g for v in labels])
                subs[g] = dict(mask=mask.tolist(), res=call(da.isel(time=np.where(mask)[0]), None, **kw))
            rec["subs"] = subs
        # the same call with the observations OUTSIDE the calibration window scaled (positive stays positive, zero stays zero, nodata
        # stays nodata): the fit sees the window's samples only, so the indices of the cells inside the window must not move
        if rec["main"].get("raised") is None:
            bv = c["time"][0] if c["b"] is None else c["b"]
            ev = c["time"][-1] if c["e"] is None else c["e"]
            inside = np.array([bv <= t <= ev for t in c["time"]])
            d2 = data.copy()
            sel = (~inside)[None, None, :] & (d2 != c["nodata"]) & (d2 > 0)
            d2[sel] = np.minimum(d2[sel].astype("int64") * 3 + 1, 30000).astype(d2.dtype)
            da2 = xr.DataArray(d2, dims=("y", "x", "time"), coords={"time": tix}, attrs={"nodata": c["nodata"]})
            rec["outside_scaled"] = dict(inside=inside.tolist(), n_changed=int(sel.sum()), res=call(da2, c.get("groups"), **kw))
        res.append(rec)
    out["spi"] = res
    print("@@RESULT@@" + json.dumps(out))


main()
