(** Common imports and small executable helpers used by every model and case file. *)
From Coq Require Export ZArith List Bool Lia.
Export ListNotations.

(** Indices (offset by [k]) of the cases on which a boolean check fails. *)
Fixpoint failing {A : Type} (f : A -> bool) (l : list A) (k : Z) : list Z :=
  match l with
  | [] => []
  | x :: r => if f x then failing f r (k + 1)%Z else k :: failing f r (k + 1)%Z
  end.

Definition zeqb_list (a b : list Z) : bool :=
  (Nat.eqb (length a) (length b)) && forallb (fun p => Z.eqb (fst p) (snd p)) (combine a b).

Definition opt_zeqb (a b : option Z) : bool :=
  match a, b with
  | Some x, Some y => Z.eqb x y
  | None, None => true
  | _, _ => false
  end.

Lemma zeqb_list_true (a b : list Z) : zeqb_list a b = true <-> a = b.
Proof.
  unfold zeqb_list. revert b; induction a as [|x a IH]; intros [|y b]; simpl; split; intro H;
    try reflexivity; try discriminate.
  - apply andb_true_iff in H as [Hl H]. apply andb_true_iff in H as [Hxy H].
    apply Z.eqb_eq in Hxy. subst y. f_equal. apply IH. rewrite Hl. exact H.
  - injection H as -> ->. rewrite Z.eqb_refl. simpl.
    apply IH. reflexivity.
Qed.
