(** Model of [hdc/algo/ops/autocorr.py] (as repaired by the fix: commit): single-pass sums over
    X = data[:-1], Y = data[1:], covariance / variances of the mean-filled vectors, thresholds,
    and the float32 store of the drivers.  The float kernel is generic in the carrier; the integer
    kernel keeps its int64 sums exact in Z.  Executable definitions only. *)
From HDC Require Import Base.Prelude Base.Ops.

Section Autocorr.
  Context {F : Type} (O : Ops F).
  Notation "x + y" := (fadd O x y). Notation "x - y" := (fsub O x y).
  Notation "x * y" := (fmul O x y). Notation "x / y" := (fdiv O x y).

  (** running sums: Sxy Sx_ Sy_ nxy | Sx Sxx nx | Sy Syy ny *)
  Record sums := mk { s_xy : F; s_x_ : F; s_y_ : F; n_xy : F; s_x : F; s_xx : F; n_x : F; s_y : F; s_yy : F; n_y : F }.
  Definition sums0 : sums := mk (f0 O) (f0 O) (f0 O) (f0 O) (f0 O) (f0 O) (f0 O) (f0 O) (f0 O) (f0 O).

  (** one loop iteration; [None] = missing (NaN) *)
  Definition step (s : sums) (xy : option F * option F) : sums :=
    let s1 := match fst xy with
              | Some x => mk (s_xy s) (s_x_ s) (s_y_ s) (n_xy s) (s_x s + x) (s_xx s + x * x) (n_x s + f1 O) (s_y s) (s_yy s) (n_y s)
              | None => s end in
    let s2 := match snd xy with
              | Some y => mk (s_xy s1) (s_x_ s1) (s_y_ s1) (n_xy s1) (s_x s1) (s_xx s1) (n_x s1) (s_y s1 + y) (s_yy s1 + y * y) (n_y s1 + f1 O)
              | None => s1 end in
    match fst xy, snd xy with
    | Some x, Some y => mk (s_xy s2 + x * y) (s_x_ s2 + x) (s_y_ s2 + y) (n_xy s2 + f1 O) (s_x s2) (s_xx s2) (n_x s2) (s_y s2) (s_yy s2) (n_y s2)
    | _, _ => s2
    end.

  (** X = data[:-1], Y = data[1:] *)
  Fixpoint pairs (data : list (option F)) : list (option F * option F) :=
    match data with
    | a :: ((b :: _) as r) => (a, b) :: pairs r
    | _ => []
    end.

  (** result from the sums; [thr] = 1e-8 *)
  Definition finish (thr : F) (s : sums) : F :=
    if feqb O (n_xy s) (f0 O) then f0 O
    else
      let A := ((n_x s * n_y s) * s_xy s - (n_y s * s_x s) * s_y_ s - (n_x s * s_y s) * s_x_ s) + (n_xy s * s_x s) * s_y s in
      let vx := (n_x s * s_xx s - s_x s * s_x s) * n_x s in
      let vy := (n_y s * s_yy s - s_y s * s_y s) * n_y s in
      if fltb O vx thr || fltb O vy thr then f0 O
      else (A * (f1 O / fsqrt O vx)) * (f1 O / fsqrt O vy).

  Definition autocorr_float (thr : F) (data : list (option F)) : F :=
    finish thr (fold_left step (pairs data) sums0).
End Autocorr.
