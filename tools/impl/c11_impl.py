"""Enumerates dates / dekads on the running implementation (hdc.algo.dekad.Dekad and the .dekad
accessor), checks the partition property against an independent calendar (calendar/date.toordinal)
and returns records for the Coq-side comparison with the generated model."""
import calendar
import json
import sys
import warnings
from datetime import date, datetime, timedelta

import numpy as np

warnings.filterwarnings("ignore")

from hdc.algo.dekad import Dekad  # noqa: E402

US = timedelta(microseconds=1)
US_PER_DAY = 86400 * 10 ** 6
DTMIN = datetime(1, 1, 1)


def us_of(dt):
    return (dt - DTMIN) // US + US_PER_DAY


def dekad_record(k):
    d = Dekad(k)
    rec = dict(k=k, year=d.year, month=d.month, day=d.day, idx=d.idx, yidx=d.yidx, raw=d.raw, label=str(d),
               start=us_of(d.start_date))
    last = (d.year == 9999 and d.month == 12 and d.idx == 3)
    if not last:
        rec["end"] = us_of(d.end_date)
        rec["ndays"] = d.ndays
    return rec


def check_dekad(k, fails, lim=40):
    """Independent statement of the property for dekad k (year 1..9999)."""
    d = Dekad(k)
    y, r = divmod(k, 36)
    m, i = r // 3 + 1, r % 3 + 1

    def bad(msg):
        if len(fails) < lim:
            fails.append(dict(kind="dekad", k=k, label="%04d%02dd%d" % (y, m, i), what=msg))
    if (d.year, d.month, d.idx, d.raw) != (y, m, i, k):
        bad("fields %s" % ((d.year, d.month, d.idx, d.raw),))
    if d.yidx != 3 * (m - 1) + i or d.day != (1, 11, 21)[i - 1]:
        bad("yidx/day %s %s" % (d.yidx, d.day))
    s = "%04d%02dd%d" % (y, m, i)
    if str(d) != s:
        bad("str %r" % str(d))
    try:
        if Dekad(str(d)).raw != k or not (Dekad(str(d)) == d) or Dekad(d.raw).raw != k:
            bad("label/raw round trip")
    except Exception as e:  # noqa
        bad("label round trip raised %r" % e)
    if d.start_date != datetime(y, m, (1, 11, 21)[i - 1]):
        bad("start_date %s" % d.start_date)
    if Dekad(d.start_date).raw != k or Dekad(d.start_date.date()).raw != k:
        bad("Dekad(start_date) != self")
    if hash(d) != hash(Dekad(k)) or hash(d) != hash(Dekad(str(d))):
        bad("hash")
    if (y, m, i) == (9999, 12, 3):
        return
    dim = calendar.monthrange(y, m)[1]
    nd = 10 if i < 3 else dim - 20
    if d.ndays != nd:
        bad("ndays %s, calendar says %s" % (d.ndays, nd))
    endd = (1 + 9, 20, dim)[i - 1]
    if d.end_date != datetime(y, m, endd, 23, 59, 59, 999999):
        bad("end_date %s" % d.end_date)
    nxt = d + 1
    if nxt.start_date != d.end_date + US:
        bad("next dekad does not abut: %s vs %s" % (nxt.start_date, d.end_date))
    if Dekad(d.end_date).raw != k:
        bad("Dekad(end_date) != self")
    if not (d < nxt and nxt > d and d <= nxt and nxt >= d and d != nxt and not (nxt < d) and d <= d and d >= d):
        bad("ordering with successor")
    if (nxt - d) != 1 or (nxt - 1).raw != k or (1 + d).raw != k + 1:
        bad("integer translation")


def check_date(dt, fails, lim=40):
    d = Dekad(dt)
    y, m, dd = dt.year, dt.month, dt.day
    i = 1 if dd <= 10 else 2 if dd <= 20 else 3

    def bad(msg):
        if len(fails) < lim:
            fails.append(dict(kind="date", date=dt.isoformat(), what=msg))
    if (d.year, d.month, d.idx) != (y, m, i):
        bad("Dekad(date) = %s" % d)
        return d.raw
    if not (d.year == 9999 and d.month == 12 and d.idx == 3):
        dtt = dt if isinstance(dt, datetime) else datetime(y, m, dd)
        if not (d.start_date <= dtt <= d.end_date):
            bad("instant outside [%s, %s]" % (d.start_date, d.end_date))
    return d.raw


def main():
    P = json.load(sys.stdin)
    rng = np.random.default_rng(P["seed"])
    fails = []
    n_dates = n_dekads = 0
    date_recs, dekad_recs = [], []
    years = list(range(1, 10000)) if P["all"] else P["years"]
    stride = P.get("coq_stride", 1)
    for y in years:
        for m in range(1, 13):
            dim = calendar.monthrange(y, m)[1]
            for dd in range(1, dim + 1):
                k = check_date(date(y, m, dd), fails)
                n_dates += 1
                if (n_dates % stride) == 0 or dd in (10, 11, 20, 21, dim):
                    if not P["all"] or (n_dates % stride) == 0:
                        date_recs.append(dict(y=y, m=m, d=dd, t=0, k=k))
            for i in (1, 2, 3):
                k = 36 * y + 3 * (m - 1) + (i - 1)
                check_dekad(k, fails)
                n_dekads += 1
                if not P["all"] or (n_dekads % max(1, stride // 8)) == 0:
                    dekad_recs.append(dekad_record(k))
    # intra-day instants (datetime) around the dekad boundaries and at random
    tods = [0, 1, 43200 * 10 ** 6, US_PER_DAY - 1000000, US_PER_DAY - 500000, US_PER_DAY - 1]
    for _ in range(P["n_instants"]):
        y = int(rng.integers(1, 10000))
        m = int(rng.integers(1, 13))
        dim = calendar.monthrange(y, m)[1]
        dd = int(rng.choice([1, 10, 11, 20, 21, dim, int(rng.integers(1, dim + 1))]))
        t = int(rng.choice(tods + [int(rng.integers(0, US_PER_DAY))]))
        dt = datetime(y, m, dd) + timedelta(microseconds=t)
        k = check_date(dt, fails)
        n_dates += 1
        date_recs.append(dict(y=y, m=m, d=dd, t=t, k=k))
    # operators on random pairs
    op_recs = []
    for _ in range(P["n_ops"]):
        a = int(rng.integers(36, 36 * 10000 - 1))
        n = int(rng.integers(-400, 400))
        if not (36 <= a + n < 36 * 10000 - 1):
            n = 0
        b = int(rng.integers(36, 36 * 10000 - 1))
        da, db = Dekad(a), Dekad(b)
        rec = dict(a=a, n=n, b=b, add=(da + n).raw, radd=(n + da).raw, subi=(da - n).raw, subd=(db - da),
                   eq=bool(da == db), lt=bool(da < db), gt=bool(da > db), le=bool(da <= db), ge=bool(da >= db),
                   heq=bool(hash(da) == hash(db)))
        if ((da + n) - da) != n or ((da + n) - n).raw != a:
            fails.append(dict(kind="ops", a=a, n=n, what="(d+n)-d / (d+n)-n"))
        chrono = (da.start_date < db.start_date)
        if rec["lt"] != chrono or rec["gt"] != (db.start_date < da.start_date) or rec["eq"] != (a == b):
            fails.append(dict(kind="ops", a=a, b=b, what="comparison is not chronological"))
        # mixed-type comparisons use the same order
        if (da == str(db)) != rec["eq"] or (da < b) != rec["lt"] or (da <= db.start_date) != (a <= b):
            fails.append(dict(kind="ops", a=a, b=b, what="comparison with str/int/date operand"))
        op_recs.append(rec)
    # accessor vs scalar class
    import xarray as xr
    import pandas as pd
    import hdc.algo  # noqa
    acc_n = 0
    for rep in range(P["n_acc"]):
        n = int(rng.integers(1, 40))
        stamps = []
        for _ in range(n):
            y = int(rng.integers(1680, 2260))
            m = int(rng.integers(1, 13))
            dim = calendar.monthrange(y, m)[1]
            dd = int(rng.choice([1, 10, 11, 20, 21, dim, int(rng.integers(1, dim + 1))]))
            t = int(rng.choice(tods + [int(rng.integers(0, US_PER_DAY))]))
            stamps.append(datetime(y, m, dd) + timedelta(microseconds=t))
        stamps = sorted(set(stamps))
        # the time coordinate in every resolution pandas offers (coarser units truncate the instants; the expectation follows)
        unit = ["ns", "us", "ms", "s"][rep % 4]
        tix = pd.DatetimeIndex(stamps).as_unit(unit).unique()
        stamps = [pd.Timestamp(v).to_pydatetime() for v in tix]
        da = xr.DataArray(np.zeros(len(stamps)), dims=("time",), coords={"time": tix})
        acc = da.time.dekad
        got = dict(idx=acc.idx.values.tolist(), yidx=acc.yidx.values.tolist(), ndays=acc.ndays.values.tolist(),
                   label=acc.label.values.tolist(), raw=acc.raw.values.tolist(), linspace=acc.linspace.values.tolist(),
                   year=acc.year.values.tolist(), month=acc.month.values.tolist(),
                   start_date=[pd.Timestamp(v).to_pydatetime() for v in acc.start_date.values],
                   end_date=[pd.Timestamp(v).to_pydatetime() for v in acc.end_date.values])
        for j, dt in enumerate(stamps):
            d = Dekad(dt)
            acc_n += 1
            exp = dict(idx=d.idx, yidx=d.yidx, ndays=d.ndays, label=str(d), raw=d.raw, linspace=d.yidx - 1,
                       year=dt.year, month=dt.month, start_date=d.start_date, end_date=d.end_date)
            for key, v in exp.items():
                if got[key][j] != v:
                    if len(fails) < 40:
                        fails.append(dict(kind="accessor", stamp=dt.isoformat(), attr=key, got=str(got[key][j]), scalar=str(v),
                                          what=".dekad.%s differs from the scalar class" % key))
    out = dict(fails=fails, n_dates=n_dates, n_dekads=n_dekads, n_acc=acc_n, date_recs=date_recs,
               dekad_recs=dekad_recs, op_recs=op_recs)
    print("@@RESULT@@" + json.dumps(out))


main()
