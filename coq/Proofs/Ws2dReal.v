(** The Whittaker kernel model at the real numbers satisfies the abstract LDL' recurrences of
    [Proofs/LDL.v]; hence its pivots are positive, it solves the normal equations and it is the
    unique minimiser of the penalised least-squares objective (property C01). *)
From Coq Require Import ZArith Reals Lra Lia Bool List.
From HDC Require Import Base.Prelude Base.Ops Model.Ws2d Proofs.Ws2dIndex Proofs.RSums Proofs.Penalty Proofs.LDL.
Open Scope R_scope.

Section Real.
  Variables y w : list R.
  Variable lam : R.
  Let n := length y.
  Hypothesis Hlen : length w = length y.
  Hypothesis Hn : (4 <= length y)%nat.

  Let rows := ws2d_rows OpsR y lam w.
  Definition Dk (k : Z) : R := rd (rowZ OpsR rows k).
  Definition Ck (k : Z) : R := rc (rowZ OpsR rows k).
  Definition Ek (k : Z) : R := re (rowZ OpsR rows k).
  Definition Uk (k : Z) : R := ru (rowZ OpsR rows k).
  Definition Wk (k : Z) : R := vecZ OpsR w k.
  Definition Yk (k : Z) : R := vecZ OpsR y k.
  Definition Zk (k : Z) : R := vecZ OpsR (ws2d OpsR y lam w) k.

  Notation N := (Z.of_nat (length y)).
  Notation A0 := (a0 (length y) Wk lam). Notation A1 := (a1 (length y) lam). Notation A2 := (a2 (length y) lam).

  Lemma rows_out k : (k < 0 \/ N <= k)%Z -> rowZ OpsR rows k = zrow OpsR.
  Proof. intros H. unfold rows. apply rowZ_out; assumption. Qed.

  Lemma row_out k : (k < 0 \/ N <= k)%Z -> Dk k = 0 /\ Ck k = 0 /\ Ek k = 0 /\ Uk k = 0.
  Proof. intros H. unfold Dk, Ck, Ek, Uk, rows. rewrite (rowZ_out OpsR y lam w k Hlen H). repeat split. Qed.

  Lemma W_out k : (k < 0 \/ N <= k)%Z -> Wk k = 0.
  Proof.
    intros H. unfold Wk, vecZ. destruct (k <? 0)%Z eqn:E; [reflexivity|]. apply nth_overflow. rewrite Hlen. lia.
  Qed.

  Lemma A_out :
    (forall k, (k < 0 \/ N <= k)%Z -> A0 k = 0) /\ (forall k, (k < 0 \/ N - 1 <= k)%Z -> A1 k = 0) /\
    (forall k, (k < 0 \/ N - 2 <= k)%Z -> A2 k = 0).
  Proof.
    unfold a0, a1, a2. repeat split; intros k Hk; try rewrite (W_out k) by lia;
      repeat (match goal with
              | |- context [mask _ ?j] => first [rewrite (mask_out (length y) j) by lia]
              end); ring.
  Qed.

  (** the five kinds of rows *)
  Lemma position k : (0 <= k < N)%Z -> (k = 0 \/ k = 1 \/ (2 <= k <= N - 3) \/ k = N - 2 \/ k = N - 1)%Z.
  Proof. lia. Qed.

  Lemma row_eq k : (0 <= k < N)%Z ->
    rowZ OpsR rows k = fstep OpsR (Z.to_nat k) (length y) lam (rowZ OpsR rows (k - 1)) (rowZ OpsR rows (k - 2)) (Wk k) (Yk k).
  Proof. intros H. unfold rows. apply rowZ_step; assumption. Qed.

  Lemma last_rows : Ck (N - 1) = 0 /\ Ek (N - 1) = 0 /\ Ek (N - 2) = 0.
  Proof.
    unfold Ck, Ek. rewrite (row_eq (N - 1)) by lia. rewrite (row_eq (N - 2)) by lia.
    rewrite (fstep_last OpsR (Z.to_nat (N - 1))) by lia. rewrite (fstep_prelast OpsR (Z.to_nat (N - 2))) by lia.
    repeat split.
  Qed.

  (** recurrences of the in-range rows; c_k and e_k are quotients, so their equations need d_k <> 0 *)
  Lemma row_facts k : (0 <= k < N)%Z ->
    Dk k = A0 k - Ck (k - 1) * Ck (k - 1) * Dk (k - 1) - Ek (k - 2) * Ek (k - 2) * Dk (k - 2) /\
    (Dk k <> 0 -> Ck k * Dk k = A1 k - Dk (k - 1) * Ck (k - 1) * Ek (k - 1) /\ Ek k * Dk k = A2 k) /\
    Uk k = Wk k * Yk k - Ck (k - 1) * Uk (k - 1) - Ek (k - 2) * Uk (k - 2).
  Proof.
    intros Hk. destruct (coefficients (length y) Wk lam Hn) as (c00 & c01 & c0i & c0p & c0l & c10 & c1i & c1p & c1l & c2i & c2p & c2l).
    unfold Dk, Ck, Ek, Uk. rewrite (row_eq k Hk).
    destruct (position k Hk) as [-> | [-> | [Hi | [-> | ->]]]].
    - (* row 0 *)
      change (Z.to_nat 0) with 0%nat. rewrite fstep_0. cbn zeta. cbn [rd rc re ru fadd fsub fmul fdiv fofZ OpsR].
      rewrite !rows_out by lia. cbn [rd rc re ru zrow f0 OpsR].
      rewrite c00, c10, (c2i 0%Z) by lia. split; [ring|]. split; [|ring]. intros Hd. split; field; exact Hd.
    - (* row 1 *)
      change (Z.to_nat 1) with 1%nat. rewrite fstep_1. cbn zeta. cbn [rd rc re ru fadd fsub fmul fdiv fofZ OpsR].
      replace (1 - 1)%Z with 0%Z by lia. replace (1 - 2)%Z with (-1)%Z by lia.
      rewrite (rows_out (-1)%Z) by lia. cbn [rd rc re ru zrow f0 OpsR].
      rewrite c01, (c1i 1%Z), (c2i 1%Z) by lia. split; [ring|]. split; [|ring]. intros Hd. split; field; exact Hd.
    - (* interior *)
      rewrite (fstep_interior OpsR (Z.to_nat k)) by lia. cbn zeta. cbn [rd rc re ru fadd fsub fmul fdiv fofZ OpsR].
      rewrite (c0i k), (c1i k), (c2i k) by lia. split; [ring|]. split; [|ring]. intros Hd. split; field; exact Hd.
    - (* row n-2 *)
      rewrite (fstep_prelast OpsR (Z.to_nat (N - 2))) by lia. cbn zeta. cbn [rd rc re ru fadd fsub fmul fdiv fofZ f0 OpsR].
      rewrite c0p, c1p, c2p. split; [ring|]. split; [|ring]. intros Hd. split; [field; exact Hd|ring].
    - (* row n-1 *)
      rewrite (fstep_last OpsR (Z.to_nat (N - 1))) by lia. cbn zeta. cbn [rd rc re ru fadd fsub fmul fdiv fofZ f0 OpsR].
      destruct last_rows as (_ & _ & E2). unfold Ek in E2. replace (N - 1 - 1)%Z with (N - 2)%Z by lia. rewrite E2.
      rewrite c0l, c1l, c2l. split; [ring|]. split; [|ring]. intros Hd. split; ring.
  Qed.

  Lemma c_zero_from k : (N - 1 <= k)%Z -> Ck k = 0.
  Proof.
    intros H. destruct (Z.eq_dec k (N - 1)) as [->|Ne]; [apply last_rows|]. apply row_out. lia.
  Qed.
  Lemma e_zero_from k : (N - 2 <= k)%Z -> Ek k = 0.
  Proof.
    intros H. destruct (Z.eq_dec k (N - 1)) as [->|Ne]; [apply last_rows|].
    destruct (Z.eq_dec k (N - 2)) as [->|Ne2]; [apply last_rows|]. apply row_out. lia.
  Qed.

  Lemma F1_all k : F1 (length y) Wk lam Dk Ck Ek k.
  Proof.
    unfold F1. destruct (Z_lt_ge_dec k 0) as [L|G0]; [|destruct (Z_lt_ge_dec k N) as [L|G]].
    - destruct A_out as (A & _). rewrite A by lia.
      destruct (row_out k ltac:(lia)) as (-> & _). destruct (row_out (k - 1)%Z ltac:(lia)) as (-> & _).
      destruct (row_out (k - 2)%Z ltac:(lia)) as (-> & _). ring.
    - apply (row_facts k). lia.
    - destruct A_out as (A & _). rewrite A by lia. destruct (row_out k ltac:(lia)) as (-> & _).
      rewrite (c_zero_from (k - 1)%Z) by lia. rewrite (e_zero_from (k - 2)%Z) by lia. ring.
  Qed.

  Lemma F23_cond k : ((0 <= k < N)%Z -> Dk k <> 0) -> F2 (length y) lam Dk Ck Ek k /\ F3 (length y) lam Dk Ek k.
  Proof.
    intros Hd. unfold F2, F3. destruct (Z_lt_ge_dec k 0) as [L|G0]; [|destruct (Z_lt_ge_dec k N) as [L|G]].
    - destruct A_out as (_ & A1o & A2o). rewrite A1o, A2o by lia.
      destruct (row_out k ltac:(lia)) as (-> & -> & -> & _). destruct (row_out (k - 1)%Z ltac:(lia)) as (-> & _). split; ring.
    - apply (row_facts k ltac:(lia)). apply Hd. lia.
    - destruct A_out as (_ & A1o & A2o). rewrite A1o, A2o by lia.
      destruct (row_out k ltac:(lia)) as (-> & -> & -> & _). rewrite (c_zero_from (k - 1)%Z) by lia. split; ring.
  Qed.

  Lemma F4_all k : F4 Wk Yk Ck Ek Uk k.
  Proof.
    unfold F4. destruct (Z_lt_ge_dec k 0) as [L|G0]; [|destruct (Z_lt_ge_dec k N) as [L|G]].
    - rewrite (W_out k) by lia. destruct (row_out k ltac:(lia)) as (_ & _ & _ & ->).
      destruct (row_out (k - 1)%Z ltac:(lia)) as (_ & -> & _). destruct (row_out (k - 2)%Z ltac:(lia)) as (_ & _ & -> & _). ring.
    - apply (row_facts k). lia.
    - rewrite (W_out k) by lia. destruct (row_out k ltac:(lia)) as (_ & _ & _ & ->).
      rewrite (c_zero_from (k - 1)%Z) by lia. rewrite (e_zero_from (k - 2)%Z) by lia. ring.
  Qed.

  Lemma B_cond k : ((0 <= k < N)%Z -> Dk k <> 0) -> Bk Dk Ck Ek Uk Zk k.
  Proof.
    intros Hd. unfold Bk. destruct (Z_lt_ge_dec k 0) as [L|G0]; [|destruct (Z_lt_ge_dec k N) as [L|G]].
    - unfold Zk. rewrite (zZ_out OpsR y lam w k Hlen Hn) by lia. destruct (row_out k ltac:(lia)) as (-> & _ & _ & ->).
      cbn [f0 OpsR]. ring.
    - specialize (Hd ltac:(lia)). unfold Zk at 1. rewrite (zZ_step OpsR y lam w k Hlen Hn) by lia.
      fold (Zk (k + 1)) (Zk (k + 2)). fold rows.
      destruct (Z.eq_dec k (N - 1)) as [->|N1]; [|destruct (Z.eq_dec k (N - 2)) as [->|N2]].
      + replace (length y - 1 - Z.to_nat (N - 1))%nat with 0%nat by lia. unfold bstep. cbn [Nat.eqb fdiv OpsR].
        destruct last_rows as (c1 & e1 & _). rewrite c1, e1. unfold Dk, Uk in *. field. exact Hd.
      + replace (length y - 1 - Z.to_nat (N - 2))%nat with 1%nat by lia. unfold bstep. cbn [Nat.eqb fdiv fsub fmul OpsR].
        destruct last_rows as (_ & _ & e2). rewrite e2. unfold Dk, Uk, Ck in *. field. exact Hd.
      + destruct (length y - 1 - Z.to_nat k)%nat as [|[|j]] eqn:Ej; try lia.
        unfold bstep. cbn [Nat.eqb fdiv fsub fmul OpsR]. unfold Dk, Uk, Ck, Ek in *. field. exact Hd.
    - unfold Zk. rewrite (zZ_out OpsR y lam w k Hlen Hn) by lia. destruct (row_out k ltac:(lia)) as (-> & _ & _ & ->).
      cbn [f0 OpsR]. ring.
  Qed.

  (** ** the three results *)
  Hypothesis W_nonneg : forall i, (0 <= i < N)%Z -> 0 <= Wk i.
  Hypothesis lam_pos : 0 < lam.
  Hypothesis two_weights : exists p q, (0 <= p < q)%Z /\ (q < N)%Z /\ 0 < Wk p /\ 0 < Wk q.

  Theorem pivots_pos : forall k, (0 <= k < N)%Z -> 0 < Dk k.
  Proof.
    apply (ldl_pivots_pos (length y) Wk lam Dk Ck Ek ltac:(lia) W_nonneg lam_pos two_weights F1_all).
    intros k Hk. apply F23_cond. exact Hk.
  Qed.

  Lemma pivots_nonzero k : (0 <= k < N)%Z -> Dk k <> 0.
  Proof. intros Hk. pose proof (pivots_pos k Hk). lra. Qed.

  Theorem normal_equations : forall i, Aop (length y) Wk lam Zk i = Wk i * Yk i.
  Proof.
    apply (ldl_normal_equations (length y) Wk Yk lam Dk Ck Ek Uk Zk F1_all).
    - intros k. apply (F23_cond k). apply pivots_nonzero.
    - intros k. apply (F23_cond k). apply pivots_nonzero.
    - apply F4_all.
    - intros k. apply B_cond. apply pivots_nonzero.
  Qed.

  Theorem minimises : forall z' : Z -> R,
    Sobj (length y) Wk Yk lam Zk <= Sobj (length y) Wk Yk lam z' /\
    (Sobj (length y) Wk Yk lam z' = Sobj (length y) Wk Yk lam Zk -> forall i, (0 <= i < N)%Z -> z' i = Zk i).
  Proof.
    apply (normal_equations_minimise (length y) Wk Yk lam W_nonneg lam_pos two_weights Zk ltac:(lia)).
    intros i _. apply normal_equations.
  Qed.
End Real.
