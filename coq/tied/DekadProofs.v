(** Proofs about the definitions that tools/translate_dekad.py regenerates from
    hdc/algo/dekad.py on every run ([HDC.gen.DekadGen]).  This file is compiled by the C11
    check after regeneration, so the proofs are re-checked against what the code says now. *)
From Coq Require Import ZArith Bool List Lia ZifyBool Ascii String.
From HDC Require Import Base.Civil Base.PyStr gen.DekadGen.
Import ListNotations.
Open Scope Z_scope.
Ltac Zify.zify_post_hook ::= Z.to_euclidean_division_equations.

(** ** raw integer <-> (year, month, idx) *)

Lemma ymd_of_raw k :
  1 <= month k <= 12 /\ 1 <= idx k <= 3 /\ of_ymd (year k) (month k) (idx k) = k /\
  day k = 1 + 10 * (idx k - 1) /\ of_ymd_asserts (year k) (month k) (idx k) = true.
Proof. unfold month, idx, year, day, of_ymd, of_ymd_asserts. lia. Qed.

Lemma raw_of_ymd y m i :
  1 <= m <= 12 -> 1 <= i <= 3 ->
  year (of_ymd y m i) = y /\ month (of_ymd y m i) = m /\ idx (of_ymd y m i) = i.
Proof. unfold month, idx, year, of_ymd. lia. Qed.

Lemma yidx_range k : 1 <= yidx k <= 36 /\ k = 36 * year k + (yidx k - 1).
Proof. unfold yidx, month, idx, year. lia. Qed.

(** ** construction from a date *)

Lemma of_date_fields y m d :
  1 <= m <= 12 -> 1 <= d <= 31 ->
  year (of_date y m d) = y /\ month (of_date y m d) = m /\
  idx (of_date y m d) = 1 + Z.min 2 ((d - 1) / 10) /\
  day (of_date y m d) <= d /\
  (idx (of_date y m d) < 3 -> d <= day (of_date y m d) + 9) /\
  (d <= 10 <-> idx (of_date y m d) = 1) /\ (11 <= d <= 20 <-> idx (of_date y m d) = 2) /\
  (21 <= d <-> idx (of_date y m d) = 3).
Proof. intros Hm Hd. unfold month, idx, year, day, of_date. lia. Qed.

(** ** calendar facts *)

Lemma dim_range y m : 1 <= m <= 12 -> 28 <= days_in_month y m <= 31.
Proof.
  intros H. assert (m = 1 \/ m = 2 \/ m = 3 \/ m = 4 \/ m = 5 \/ m = 6 \/ m = 7 \/ m = 8 \/ m = 9 \/
                    m = 10 \/ m = 11 \/ m = 12) as C by lia.
  repeat (destruct C as [->|C]); try subst m; cbn; try destruct (is_leap y); lia.
Qed.

Lemma next_month y m :
  1 <= m <= 11 -> days_before_month y (m + 1) = days_before_month y m + days_in_month y m.
Proof.
  intros H. assert (m = 1 \/ m = 2 \/ m = 3 \/ m = 4 \/ m = 5 \/ m = 6 \/ m = 7 \/ m = 8 \/ m = 9 \/
                    m = 10 \/ m = 11) as C by lia.
  repeat (destruct C as [->|C]); try subst m; cbn; destruct (is_leap y); lia.
Qed.

Lemma next_year y :
  days_before_year (y + 1) = days_before_year y + days_before_month y 12 + 31.
Proof.
  unfold days_before_year, days_before_month, is_leap. cbn [Z.ltb Z.compare Pos.compare Pos.compare_cont andb].
  replace (y + 1 - 1) with y by lia.
  destruct (y mod 4 =? 0) eqn:E4; destruct (y mod 100 =? 0) eqn:E100; destruct (y mod 400 =? 0) eqn:E400;
    cbn [andb orb negb]; lia.
Qed.

(** number of days of a dekad, stated without reference to the code *)
Definition ndays_spec (k : Z) : Z :=
  if idx k <? 3 then 10 else days_in_month (year k) (month k) - 20.

(** consecutive dekads abut: the next one starts exactly [ndays_spec] days later *)
Lemma start_succ k : start_date (add k 1) = start_date k + ndays_spec k * US_PER_DAY.
Proof.
  unfold add, of_int, start_date, ndays_spec, datetime, ordinal.
  destruct (ymd_of_raw k) as (Hm & Hi & Hk & Hd & _).
  assert (idx k = 1 \/ idx k = 2 \/ idx k = 3) as [I|[I|I]] by lia.
  - (* first dekad of a month *)
    assert (year (k + 1) = year k /\ month (k + 1) = month k /\ day (k + 1) = day k + 10) as (-> & -> & ->).
    { unfold year, month, day, idx in *. lia. }
    rewrite I. cbn [Z.ltb Z.compare Pos.compare Pos.compare_cont]. lia.
  - assert (year (k + 1) = year k /\ month (k + 1) = month k /\ day (k + 1) = day k + 10) as (-> & -> & ->).
    { unfold year, month, day, idx in *. lia. }
    rewrite I. cbn [Z.ltb Z.compare Pos.compare Pos.compare_cont]. lia.
  - rewrite I. cbn [Z.ltb Z.compare Pos.compare Pos.compare_cont].
    destruct (Z.eq_dec (month k) 12) as [M|M].
    + assert (year (k + 1) = year k + 1 /\ month (k + 1) = 1 /\ day (k + 1) = 1) as (-> & -> & ->).
      { unfold year, month, day, idx in *. lia. }
      rewrite M, next_year. cbn [days_in_month]. rewrite Hd, I.
      unfold days_before_month at 2. cbn [Z.ltb Z.compare Pos.compare Pos.compare_cont andb]. lia.
    + assert (year (k + 1) = year k /\ month (k + 1) = month k + 1 /\ day (k + 1) = 1) as (-> & -> & ->).
      { unfold year, month, day, idx in *. lia. }
      rewrite next_month by lia. rewrite Hd, I. lia.
Qed.

Lemma ndays_spec_pos k : 8 <= ndays_spec k <= 11.
Proof.
  unfold ndays_spec. destruct (ymd_of_raw k) as (Hm & _).
  pose proof (dim_range (year k) (month k) Hm). destruct (idx k <? 3); lia.
Qed.

Lemma us_per_day_pos : 0 < US_PER_DAY. Proof. reflexivity. Qed.

Lemma ndays_correct k : ndays k = ndays_spec k.
Proof.
  unfold ndays, end_date, timedelta_us, timedelta_days. rewrite start_succ.
  replace (start_date k + ndays_spec k * US_PER_DAY - 1 - start_date k + 1) with (ndays_spec k * US_PER_DAY) by lia.
  apply Z.div_mul. pose proof us_per_day_pos. lia.
Qed.

(** the three dekads of a month have 10, 10 and (month length - 20) days: they sum to the month *)
Lemma ndays_sum y m :
  1 <= m <= 12 ->
  ndays (of_ymd y m 1) + ndays (of_ymd y m 2) + ndays (of_ymd y m 3) = days_in_month y m.
Proof.
  intros Hm. rewrite !ndays_correct. unfold ndays_spec.
  destruct (raw_of_ymd y m 1 Hm ltac:(lia)) as (-> & -> & ->).
  destruct (raw_of_ymd y m 2 Hm ltac:(lia)) as (_ & _ & ->).
  destruct (raw_of_ymd y m 3 Hm ltac:(lia)) as (-> & -> & ->).
  cbn [Z.ltb Z.compare Pos.compare Pos.compare_cont]. lia.
Qed.

(** start dates are strictly increasing in the raw integer: chronological order *)
Lemma start_lt_succ k : start_date k < start_date (k + 1).
Proof.
  change (k + 1) with (add k 1). rewrite start_succ.
  pose proof (ndays_spec_pos k). pose proof us_per_day_pos. nia.
Qed.

Lemma start_mono_nat k n : start_date k < start_date (k + 1 + Z.of_nat n).
Proof.
  induction n as [|n IH].
  - replace (k + 1 + Z.of_nat 0) with (k + 1) by lia. apply start_lt_succ.
  - replace (k + 1 + Z.of_nat (S n)) with ((k + 1 + Z.of_nat n) + 1) by lia.
    eapply Z.lt_trans; [exact IH|apply start_lt_succ].
Qed.

Lemma start_mono k1 k2 : k1 < k2 <-> start_date k1 < start_date k2.
Proof.
  split.
  - intros H. replace k2 with (k1 + 1 + Z.of_nat (Z.to_nat (k2 - k1 - 1))) by lia. apply start_mono_nat.
  - intros H. destruct (Z.lt_ge_cases k1 k2) as [L|L]; [exact L|exfalso].
    destruct (Z.eq_dec k1 k2) as [->|N]; [lia|].
    assert (k2 < k1) as L2 by lia.
    replace k1 with (k2 + 1 + Z.of_nat (Z.to_nat (k1 - k2 - 1))) in H by lia.
    pose proof (start_mono_nat k2 (Z.to_nat (k1 - k2 - 1))). lia.
Qed.

(** ** every instant lies in the dekad constructed from its date, and in no other *)

Lemma date_in_dekad y m d t :
  valid_date y m d -> 0 <= t < US_PER_DAY ->
  let k := of_date y m d in
  start_date k <= datetime_at y m d t <= end_date k /\ year k = y /\ month k = m /\ day k <= d.
Proof.
  intros [Hm Hd] Ht k.
  pose proof (dim_range y m Hm) as Hdim.
  destruct (of_date_fields y m d Hm ltac:(lia)) as (Ey & Em & Ei & Hlo & Hhi & H1 & H2 & H3).
  fold k in Ey, Em, Ei, Hlo, Hhi, H1, H2, H3.
  destruct (ymd_of_raw k) as (_ & Hi & _ & Hday & _).
  split; [|repeat split; assumption].
  unfold end_date, timedelta_us. rewrite start_succ.
  unfold start_date, datetime_at, datetime, ordinal. rewrite Ey, Em.
  unfold ndays_spec. rewrite Ey, Em.
  pose proof us_per_day_pos as P.
  destruct (idx k <? 3) eqn:E3.
  - apply Z.ltb_lt in E3. specialize (Hhi E3). nia.
  - apply Z.ltb_ge in E3. assert (idx k = 3) as I3 by lia. rewrite Hday, I3. nia.
Qed.

Lemma dekad_unique k k' x :
  start_date k <= x <= end_date k -> start_date k' <= x <= end_date k' -> k = k'.
Proof.
  unfold end_date, timedelta_us, add, of_int. intros [A1 A2] [B1 B2].
  destruct (Z.lt_trichotomy k k') as [L|[E|L]]; [exfalso|exact E|exfalso].
  - assert (start_date (k + 1) <= start_date k') as M.
    { destruct (Z.eq_dec (k + 1) k') as [->|N]; [lia|].
      assert (k + 1 < k') as L2 by lia. apply start_mono in L2. lia. }
    lia.
  - assert (start_date (k' + 1) <= start_date k) as M.
    { destruct (Z.eq_dec (k' + 1) k) as [->|N]; [lia|].
      assert (k' + 1 < k) as L2 by lia. apply start_mono in L2. lia. }
    lia.
Qed.

(** abutting: no gap, no overlap *)
Lemma abut k : start_date (add k 1) = end_date k + timedelta_us 1.
Proof. unfold end_date, timedelta_us. lia. Qed.

(** dekads start on day 1, 11, 21 *)
Lemma start_days k : day k = 1 \/ day k = 11 \/ day k = 21.
Proof. unfold day. lia. Qed.

(** ** integer translations and order *)
Lemma add_sub_laws d n :
  sub_dekad (add d n) d = n /\ sub_int (add d n) n = d /\ radd d n = add d n /\
  add (add d n) (- n) = d.
Proof. unfold sub_dekad, sub_int, add, radd, of_int. lia. Qed.

Lemma cmp_sound a b :
  (cmp_eq a b = true <-> a = b) /\ (cmp_lt a b = true <-> a < b) /\ (cmp_gt a b = true <-> a > b) /\
  (cmp_le a b = true <-> a <= b) /\ (cmp_ge a b = true <-> a >= b).
Proof. unfold cmp_eq, cmp_lt, cmp_gt, cmp_le, cmp_ge. lia. Qed.

Lemma hash_eq a b : cmp_eq a b = true -> hash_key a = hash_key b.
Proof. unfold cmp_eq, hash_key. lia. Qed.

Lemma compare_chronological a b :
  (cmp_lt a b = true <-> start_date a < start_date b) /\
  (cmp_eq a b = true <-> a = b) /\ (cmp_gt a b = true <-> cmp_lt b a = true) /\
  (cmp_le a b = true <-> cmp_gt a b = false) /\ (cmp_ge a b = true <-> cmp_lt a b = false).
Proof.
  split.
  - rewrite <- start_mono. unfold cmp_lt. lia.
  - unfold cmp_eq, cmp_lt, cmp_gt, cmp_le, cmp_ge. lia.
Qed.

(** ** label codec 'YYYYMMd{1,2,3}' *)

Definition label (k : Z) : pystr := render (str_fields k).

Definition parse_label (s : pystr) : option Z :=
  let '(s1, s2, s3) := str_slices in
  match py_slice s s1, py_slice s s2, py_slice s s3 with
  | Some a, Some b, Some c =>
      match py_int a, py_int b, py_int c with
      | Some y, Some m, Some i => if of_ymd_asserts y m i then Some (of_ymd y m i) else None  (* AssertionError *)
      | _, _, _ => None                                                                       (* ValueError *)
      end
  | _, _, _ => None
  end.

(** bounded universal quantification by computation *)
Fixpoint all_below (fuel : nat) (k : Z) (f : Z -> bool) : bool :=
  match fuel with
  | O => true
  | S n => f k && all_below n (k + 1) f
  end.

Lemma all_below_spec fuel k f :
  all_below fuel k f = true -> forall j, k <= j < k + Z.of_nat fuel -> f j = true.
Proof.
  revert k; induction fuel as [|n IH]; intros k H j Hj; [lia|].
  cbn [all_below] in H. apply andb_true_iff in H as [H0 H1].
  destruct (Z.eq_dec j k) as [->|N]; [exact H0|]. apply (IH (k + 1) H1). lia.
Qed.

Definition opt_is (o : option Z) (v : Z) : bool := match o with Some x => x =? v | None => false end.

Definition field_ok (w len v : Z) : bool :=
  (zlen (fmt_int w v) =? len) && opt_is (py_int (fmt_int w v)) v.

Lemma year_field_sweep : all_below (Z.to_nat 10000) 0 (field_ok 4 4) = true.
Proof. vm_compute. reflexivity. Qed.
Lemma month_field_sweep : all_below 12 1 (field_ok 2 2) = true.
Proof. vm_compute. reflexivity. Qed.
Lemma idx_field_sweep : all_below 3 1 (field_ok 0 1) = true.
Proof. vm_compute. reflexivity. Qed.

Lemma field_ok_elim w len v :
  field_ok w len v = true -> zlen (fmt_int w v) = len /\ py_int (fmt_int w v) = Some v.
Proof.
  unfold field_ok, opt_is. intros H. apply andb_true_iff in H as [H1 H2]. split; [lia|].
  destruct (py_int (fmt_int w v)) as [x|]; [|discriminate]. f_equal. lia.
Qed.

Lemma label_roundtrip k : 0 <= year k <= 9999 -> parse_label (label k) = Some k.
Proof.
  intros Hy. destruct (ymd_of_raw k) as (Hm & Hi & Hk & _ & Has).
  destruct (field_ok_elim _ _ _ (all_below_spec _ _ _ year_field_sweep (year k) ltac:(lia))) as [L1 P1].
  destruct (field_ok_elim _ _ _ (all_below_spec _ _ _ month_field_sweep (month k) ltac:(lia))) as [L2 P2].
  destruct (field_ok_elim _ _ _ (all_below_spec _ _ _ idx_field_sweep (idx k) ltac:(lia))) as [L3 P3].
  unfold label, str_fields, render. cbn [map render_field List.concat list_ascii_of_string].
  unfold zlen in L1, L2, L3.
  destruct (fmt_int 4 (year k)) as [|a1 [|a2 [|a3 [|a4 [|? ?]]]]]; cbn [List.length] in L1; try lia.
  destruct (fmt_int 2 (month k)) as [|b1 [|b2 [|? ?]]]; cbn [List.length] in L2; try lia.
  destruct (fmt_int 0 (idx k)) as [|c1 [|? ?]]; cbn [List.length] in L3; try lia.
  unfold parse_label, str_slices. cbn -[py_int of_ymd of_ymd_asserts].
  change (Pos.to_nat 4) with 4%nat; change (Pos.to_nat 2) with 2%nat; change (Pos.to_nat 7) with 7%nat.
  cbn [firstn skipn].
  rewrite P1, P2, P3, Has. f_equal. exact Hk.
Qed.

(** a label is 8 characters: 4 digits, 2 digits, 'd', 1 digit *)
Lemma label_length k : 0 <= year k <= 9999 -> zlen (label k) = 8.
Proof.
  intros Hy. destruct (ymd_of_raw k) as (Hm & Hi & _).
  destruct (field_ok_elim _ _ _ (all_below_spec _ _ _ year_field_sweep (year k) ltac:(lia))) as [L1 _].
  destruct (field_ok_elim _ _ _ (all_below_spec _ _ _ month_field_sweep (month k) ltac:(lia))) as [L2 _].
  destruct (field_ok_elim _ _ _ (all_below_spec _ _ _ idx_field_sweep (idx k) ltac:(lia))) as [L3 _].
  unfold label, str_fields, render. cbn [map render_field List.concat list_ascii_of_string].
  unfold zlen in *. rewrite !app_length. cbn [List.length]. lia.
Qed.

(** ** spans: a dekad covers exactly [ndays] whole days, starting at midnight; the 36 dekads of
    a year cover that calendar year *)
Lemma dekad_span k : end_date k + timedelta_us 1 - start_date k = ndays k * US_PER_DAY.
Proof. rewrite <- abut, start_succ, ndays_correct. lia. Qed.

Lemma start_midnight k : start_date k mod US_PER_DAY = 0.
Proof. unfold start_date, datetime. apply Z.mod_mul. pose proof us_per_day_pos. lia. Qed.

Lemma year_span y :
  start_date (of_ymd (y + 1) 1 1) - start_date (of_ymd y 1 1) = (if is_leap y then 366 else 365) * US_PER_DAY.
Proof.
  destruct (raw_of_ymd y 1 1 ltac:(lia) ltac:(lia)) as (Y1 & M1 & I1).
  destruct (raw_of_ymd (y + 1) 1 1 ltac:(lia) ltac:(lia)) as (Y2 & M2 & I2).
  unfold start_date, day. unfold idx in I1, I2.
  replace (of_ymd y 1 1 mod 3) with 0 by lia. replace (of_ymd (y + 1) 1 1 mod 3) with 0 by lia.
  rewrite Y1, M1, Y2, M2. unfold datetime, ordinal. rewrite next_year.
  unfold days_before_month. cbn [Z.ltb Z.compare Pos.compare Pos.compare_cont].
  destruct (is_leap y); cbn; lia.
Qed.
