"""C01 — the Whittaker core returns the exact penalised least-squares solution."""
from fractions import Fraction

import numpy as np

from vlib import core
from vlib.core import flist, flit

PRE = ("From HDC Require Import Base.Prelude Base.Float Base.Ops Base.OpsQ Model.Ws2d Corr.C01.\n"
       "From Coq Require Import PrimFloat QArith.\n")


def qlit(fr):
    return "(%d # %d)%%Q" % (fr.numerator, fr.denominator)


def qlist(frs):
    return "[" + "; ".join(qlit(f) for f in frs) + "]"


def normal_eq_residual(y, w, lam, z):
    """max_i |(W + lam D'D) z - W y|_i in exact arithmetic, D built from its definition."""
    n = len(y)
    dz = [z[j] - 2 * z[j + 1] + z[j + 2] for j in range(n - 2)]
    worst = Fraction(0)
    for i in range(n):
        dtd = Fraction(0)
        if i <= n - 3:
            dtd += dz[i]
        if 1 <= i <= n - 2:
            dtd -= 2 * dz[i - 1]
        if 2 <= i:
            dtd += dz[i - 2]
        r = w[i] * z[i] + lam * dtd - w[i] * y[i]
        worst = max(worst, abs(r))
    return worst


def cond_number(c):
    """2-norm condition number of W + lam D'D (dense, binary64 eigenvalues; n <= ~1000)."""
    n = len(c["y"])
    D = np.zeros((n - 2, n))
    for j in range(n - 2):
        D[j, j], D[j, j + 1], D[j, j + 2] = 1, -2, 1
    ev = np.linalg.eigvalsh(np.diag(c["w"]) + c["lam"] * D.T @ D)
    return float(ev[-1] / max(ev[0], 1e-300))


KNOWN_COND = 1e10


def witness_case():
    n = 104
    w = [0.0] * n
    w[40] = w[41] = 1.0
    return dict(y=[float((i * 37) % 101 - 50) for i in range(n)], w=w, lam=82476400.52227397, exact=True, coq_exact=False,
                witness=True)


def gen(ctx, rng):
    cases = [witness_case()]
    nfloat = 1500 if ctx.thorough else 320
    nexact_coq = 60 if ctx.thorough else 24
    for it in range(nfloat):
        r = rng.random()
        if it < 40:
            n = [4, 5, 6, 7][it % 4]
        elif r < 0.8:
            n = int(np.exp(rng.uniform(np.log(4), np.log(400 if not ctx.thorough else 1000))))
        else:
            n = int(rng.integers(4, 30))
        kind = rng.random()
        if kind < 0.2:
            w = np.ones(n)
        elif kind < 0.55:
            w = (rng.random(n) >= rng.uniform(0, 0.9)).astype(float)
        elif kind < 0.7:                                   # long zero runs at start / end / interior
            w = np.ones(n)
            a = int(rng.integers(0, max(1, n // 2)))
            b = int(rng.integers(0, max(1, n // 2)))
            if rng.random() < 0.5:
                w[:a] = 0
            if rng.random() < 0.5:
                w[n - b:] = 0
            if rng.random() < 0.5 and n > 6:
                s = int(rng.integers(1, n - 3))
                w[s:s + int(rng.integers(1, n - s))] = 0
        elif kind < 0.8:                                   # exactly two positive weights
            w = np.zeros(n)
            p, q = sorted(int(v) for v in rng.choice(n, size=2, replace=False))
            w[p] = w[q] = 1
        else:                                              # real weights (p, 1-p, bisquare-like)
            w = np.round(rng.random(n), 3) * (rng.random(n) > 0.2)
        if (w > 0).sum() < 2:
            idx = rng.choice(n, size=2, replace=False)
            w[idx] = 1.0
        lam = float(10 ** rng.uniform(-6, 8)) if rng.random() < 0.7 else float(10.0 ** int(rng.integers(-6, 9)))
        y = rng.integers(-10000, 10001, size=n).astype(float) if rng.random() < 0.6 else np.round(rng.normal(0, 2000, size=n), 2)
        exact = (n <= 24 and sum(1 for c in cases if c.get("coq_exact")) < nexact_coq) or (n <= (400 if ctx.thorough else 150) and rng.random() < (0.5 if ctx.thorough else 0.35))
        c = dict(y=[float(v) for v in y], w=[float(v) for v in w], lam=lam, exact=bool(exact),
                 coq_exact=bool(exact and n <= 24 and sum(1 for c in cases if c.get("coq_exact")) < nexact_coq))
        cases.append(c)
    # series and weights that are not stored as float64 (integer series with a 0/1 mask of another dtype, float32 with a 0/1 mask):
    # the values are exactly representable, so the float64 model applies unchanged
    for it in range(36 if ctx.thorough else 12):
        n = int(rng.integers(4, 60))
        w = (rng.random(n) >= 0.3).astype(float)
        if (w > 0).sum() < 2:
            w[:2] = 1.0
        y = rng.integers(-10000, 10001, size=n).astype(float)
        yd, wd = [("int16", "bool"), ("int16", "int64"), ("int16", "uint8"), ("float32", "float32"), ("int32", "float32"), ("float64", "bool")][it % 6]
        cases.append(dict(y=[float(v) for v in y], w=[float(v) for v in w], lam=float(10 ** rng.uniform(-2, 6)), exact=bool(n <= 40), coq_exact=False,
                          ydtype=yd, wdtype=wd))
    # fractional weights whose total is small (the number of observations is not the sum of the weights)
    for it in range(24 if ctx.thorough else 8):
        n = int(rng.integers(4, 40))
        w = np.zeros(n)
        k = int(rng.integers(2, min(n, 6) + 1))
        w[rng.choice(n, size=k, replace=False)] = np.round(rng.uniform(0.02, 0.9, size=k) / k, 3) + 0.001
        y = rng.integers(-10000, 10001, size=n).astype(float)
        cases.append(dict(y=[float(v) for v in y], w=[float(v) for v in w], lam=float(10 ** rng.uniform(-3, 2)) * float(w.sum()), exact=bool(n <= 40), coq_exact=False))
    # interpolation regime with long zero-weight runs at an edge: the last (first) pivots become tiny (~ 3 lambda / k^3)
    for it in range(120 if ctx.thorough else 40):
        n = int(rng.integers(40, 160))
        k = int(rng.integers(25, n - 8))
        w = np.ones(n)
        if it % 3 == 0:
            w[:k] = 0
        else:
            w[n - k:] = 0
        if it % 2:
            w[rng.random(n) < 0.2] = 0
        if (w > 0).sum() < 2:
            w[:2] = 1.0
        lam = float(10 ** rng.uniform(-6, -4))
        y = rng.integers(-10000, 10001, size=n).astype(float)
        cases.append(dict(y=[float(v) for v in y], w=[float(v) for v in w], lam=lam, exact=bool(n <= 90 and it % 4 == 0), coq_exact=False))
    return cases


def run(ctx):
    ctx.proofs(["Props/C01.v"], extra_trusted=["exact rational execution is the same generic term on rational inputs "
                                               "(OpsQ instance, compared with the source run on fractions.Fraction)"])
    rng = np.random.default_rng(ctx.seed)
    cases = gen(ctx, rng)
    res, log = core.run_impl("c01_impl.py", dict(cases=[{k: c[k] for k in ("y", "w", "lam", "exact", "ydtype", "wdtype") if k in c} for c in cases]), timeout=3000)
    if res is None:
        ctx.violation("implementation run failed", dict(kind="impl-crash", log=log[-3000:]), found_input=False)
        return
    spec_fail, fcases, fmeta, qcases, qmeta = [], [], [], [], []
    findings = core.load_findings("C01")
    known_hits = []
    worst_rel = 0.0
    dist = dict(n_hist={}, lam_decades={}, zero_weight_frac=[], exact_source_runs=0, coq_exact=0, two_weights_only=0, edge_gaps=0)
    for c, r in zip(cases, res):
        n = len(c["y"])
        m = dict(kind="ws2d", n=n, lam=c["lam"], y=c["y"] if n <= 24 else None, w=c["w"] if n <= 24 else None,
                 w_zero_frac=round(1 - sum(1 for v in c["w"] if v > 0) / n, 3))
        b = "%d-%d" % (2 ** int(np.log2(n)), 2 ** (int(np.log2(n)) + 1) - 1)
        dist["n_hist"][b] = dist["n_hist"].get(b, 0) + 1
        dec = int(np.floor(np.log10(c["lam"])))
        dist["lam_decades"][dec] = dist["lam_decades"].get(dec, 0) + 1
        dist["two_weights_only"] += 1 if sum(1 for v in c["w"] if v > 0) == 2 else 0
        dist["edge_gaps"] += 1 if (c["w"][0] == 0 or c["w"][-1] == 0) else 0
        if "error" in r:
            spec_fail.append((dict(m, y=c["y"], w=c["w"]), "ws2d raised %s" % r["error"]))
            continue
        fcases.append("WC %s %s %s %s" % (flist(c["y"]), flit(c["lam"]), flist(c["w"]), flist(r["z"])))
        fmeta.append(m)
        if c["exact"]:
            if "zq" not in r:
                spec_fail.append((dict(m, y=c["y"], w=c["w"]), "source on Fractions raised %s" % r.get("error_exact")))
                continue
            dist["exact_source_runs"] += 1
            zq = [Fraction(a, b_) for a, b_ in r["zq"]]
            yq = [Fraction(v) for v in c["y"]]
            wq = [Fraction(v) for v in c["w"]]
            lq = Fraction(c["lam"])
            res_ne = normal_eq_residual(yq, wq, lq, zq)
            if res_ne != 0:
                spec_fail.append((dict(m, y=c["y"], w=c["w"]), "exact run does not satisfy (W + lam D'D) z = W y: residual %.3g" % float(res_ne)))
            scale = max(abs(v) for v in zq)
            if scale > 0 and 1e-6 <= c["lam"] <= 1e8:
                rel = max(abs(Fraction(a) - b_) for a, b_ in zip(r["z"], zq)) / scale if all(np.isfinite(r["z"])) else Fraction(10)
                worst_rel = max(worst_rel, float(rel))
                if rel > Fraction(1, 10 ** 6):
                    kappa = cond_number(c)
                    if kappa >= KNOWN_COND and findings:
                        known_hits.append((float(rel), kappa, n, c["lam"], bool(c.get("witness"))))
                    else:
                        spec_fail.append((dict(m, y=c["y"], w=c["w"], cond=kappa),
                                          "float64 result deviates from the exact solution by %.3g relative (cond %.3g)" % (float(rel), kappa)))
                elif float(rel) > 1e-9:
                    kappa = cond_number(c)
                    if float(rel) > 4 * kappa * 2.0 ** -53 + 1e-15:
                        spec_fail.append((dict(m, y=c["y"], w=c["w"], cond=kappa),
                                          "float64 error %.3g exceeds the backward-stability bound 4*cond*2^-53 (cond %.3g)" % (float(rel), kappa)))
            if c["coq_exact"]:
                dist["coq_exact"] += 1
                qcases.append("QC %s %s %s %s" % (qlist(yq), qlit(lq), qlist(wq), qlist(zq)))
                qmeta.append(m)
    r1 = core.eval_cases("C01", "f", PRE, fcases, "check_ws2d", shard=40, scope=None)
    r2 = core.eval_cases("C01", "q", PRE, qcases, "check_ws2d_q", shard=4, scope=None, timeout=1800)
    ctx.cov["evaluations"] = len(fcases) + len(qcases)
    ctx.cov["distinct_nontrivial"] = len(set(fcases))
    ctx.cov["rule"] = ("seeded (n, y, w, lambda): n in {4,5,6,7} always, log-uniform to %d; weights all-ones / random 0-1 with gap "
                       "fraction 0-90%% / zero runs at start, end, interior / exactly two positive / real-valued; lambda "
                       "log-uniform in [1e-6,1e8] and the decades; every case is distinct; a case is non-trivial when n >= 4 "
                       "(all are)" % (1000 if ctx.thorough else 400))
    ctx.notes.update(cases_bit_exact=len(fcases), cases_exact_q_in_coq=len(qcases), input_distribution=dist,
                     worst_relative_error_float_vs_exact=worst_rel, float_clause="measured, not proved (DESIGN 9)",
                     model_vs_impl_mismatches=len(r1["failing"]) + len(r2["failing"]), spec_failures=len(spec_fail))
    ctx.add_samples([fmeta[0], fmeta[1], fmeta[len(fmeta) // 2]] + qmeta[:1])
    if known_hits:
        worst = max(known_hits)
        ctx.known_finding("float64 clause fails on ill-conditioned systems (cond >= 1e10, listed finding %s): %d case(s) this run, "
                          "worst relative error %.3g at n=%d lambda=%.3g cond=%.3g; witness %s" %
                          (findings[0]["id"], len(known_hits), worst[0], worst[2], worst[3], worst[1],
                           "still fails" if any(h[4] for h in known_hits) else "no longer fails"))
        ctx.notes["known_finding_hits"] = len(known_hits)
    ctx.assumptions += ["the float64 clause (relative error <= 1e-6 for lambda in [1e-6,1e8]) is measured against the exact "
                        "rational solution on every run, not proved",
                        "exact rationals: the source itself is executed on fractions.Fraction (zeros() swapped for an object array)"]
    for r, tag in ((r1, "binary64"), (r2, "exact Q")):
        for si, lg in r["errors"]:
            ctx.violation("Coq could not evaluate the %s cases" % tag, dict(kind="coq-eval-error", log=lg), found_input=False)
    if spec_fail:
        spec_fail.sort(key=lambda t: t[0]["n"])
        m, why = spec_fail[0]
        ctx.violation(why, dict(kind="spec", case=m, n_failing=len(spec_fail)))
    else:
        bad = [fmeta[i] for i in r1["failing"]] + [qmeta[i] for i in r2["failing"]]
        if bad:
            bad.sort(key=lambda m: m["n"])
            ctx.violation("model and implementation disagree (Corr/C01.v: binary64 bit-exact / exact Q); the normal equations and "
                          "the 1e-6 clause hold on every explored input",
                          dict(kind="correspondence", correspondence="Corr/C01.v check_ws2d / check_ws2d_q", case=bad[0],
                               n_disagree=len(bad)), found_input=False)


def replay(ctx, path):
    import json
    rp = json.load(open(path))
    c = rp["case"]
    if c.get("y") is None:
        print("case too long to store; re-run with VERIF_SEED=%s" % rp.get("seed"))
        return 2
    res, log = core.run_impl("c01_impl.py", dict(cases=[dict(y=c["y"], w=c["w"], lam=c["lam"], exact=True)]))
    r = res[0]
    zq = [Fraction(a, b) for a, b in r["zq"]]
    ne = normal_eq_residual([Fraction(v) for v in c["y"]], [Fraction(v) for v in c["w"]], Fraction(c["lam"]), zq)
    rel = max(abs(Fraction(a) - b) for a, b in zip(r["z"], zq)) / max(abs(v) for v in zq)
    print("normal-equation residual of the exact run:", float(ne), "| float vs exact relative error:", float(rel))
    return 1 if (ne != 0 or rel > Fraction(1, 10 ** 6)) else 0
