(** C11 — Dekads partition the calendar and behave as an ordered integer line.
    Statements only, about the definitions regenerated from hdc/algo/dekad.py
    ([HDC.gen.DekadGen]); proofs are [exact]s into tied/DekadProofs.v. *)
From Coq Require Import ZArith Bool List.
From HDC Require Import Base.Civil Base.PyStr gen.DekadGen tied.DekadProofs.
Open Scope Z_scope.

(** every instant (date + time of day, microsecond resolution) lies between start_date and
    end_date of the dekad built from its date; that dekad has the same year and month *)
Theorem C11_instant_in_its_dekad : forall y m d t,
  valid_date y m d -> 0 <= t < US_PER_DAY ->
  let k := of_date y m d in
  start_date k <= datetime_at y m d t <= end_date k /\ year k = y /\ month k = m /\ day k <= d.
Proof. exact date_in_dekad. Qed.
Print Assumptions C11_instant_in_its_dekad.

(** ... and in no other dekad: exactly one *)
Theorem C11_dekad_unique : forall k k' x,
  start_date k <= x <= end_date k -> start_date k' <= x <= end_date k' -> k = k'.
Proof. exact dekad_unique. Qed.
Print Assumptions C11_dekad_unique.

(** days 1-10, 11-20, 21-end *)
Theorem C11_day_ranges : forall y m d,
  1 <= m <= 12 -> 1 <= d <= 31 ->
  (d <= 10 <-> idx (of_date y m d) = 1) /\ (11 <= d <= 20 <-> idx (of_date y m d) = 2) /\
  (21 <= d <-> idx (of_date y m d) = 3).
Proof. intros y m d Hm Hd. exact (proj2 (proj2 (proj2 (proj2 (proj2 (of_date_fields y m d Hm Hd)))))). Qed.
Print Assumptions C11_day_ranges.

Theorem C11_start_days : forall k, day k = 1 \/ day k = 11 \/ day k = 21.
Proof. exact start_days. Qed.
Print Assumptions C11_start_days.

(** 36 per year *)
Theorem C11_36_per_year : forall k, 1 <= yidx k <= 36 /\ k = 36 * year k + (yidx k - 1).
Proof. exact yidx_range. Qed.
Print Assumptions C11_36_per_year.

(** consecutive dekads abut without gap or overlap *)
Theorem C11_abut : forall k, start_date (add k 1) = end_date k + timedelta_us 1.
Proof. exact abut. Qed.
Print Assumptions C11_abut.

(** ndays is 10, 10, month length - 20, and sums to the month length *)
Theorem C11_ndays_values : forall k, ndays k = if idx k <? 3 then 10 else days_in_month (year k) (month k) - 20.
Proof. exact ndays_correct. Qed.
Print Assumptions C11_ndays_values.

Theorem C11_ndays_sum : forall y m, 1 <= m <= 12 ->
  ndays (of_ymd y m 1) + ndays (of_ymd y m 2) + ndays (of_ymd y m 3) = days_in_month y m.
Proof. exact ndays_sum. Qed.
Print Assumptions C11_ndays_sum.

(** raw integer <-> (year, month, idx) are mutually inverse *)
Theorem C11_raw_ymd_inverse : forall k,
  1 <= month k <= 12 /\ 1 <= idx k <= 3 /\ of_ymd (year k) (month k) (idx k) = k /\
  day k = 1 + 10 * (idx k - 1) /\ of_ymd_asserts (year k) (month k) (idx k) = true.
Proof. exact ymd_of_raw. Qed.
Print Assumptions C11_raw_ymd_inverse.

Theorem C11_ymd_raw_inverse : forall y m i, 1 <= m <= 12 -> 1 <= i <= 3 ->
  year (of_ymd y m i) = y /\ month (of_ymd y m i) = m /\ idx (of_ymd y m i) = i.
Proof. exact raw_of_ymd. Qed.
Print Assumptions C11_ymd_raw_inverse.

(** label 'YYYYMMd{1,2,3}': parsing what str() prints gives the dekad back (years 0..9999) *)
Theorem C11_label_roundtrip : forall k, 0 <= year k <= 9999 -> parse_label (label k) = Some k.
Proof. exact label_roundtrip. Qed.
Print Assumptions C11_label_roundtrip.

(** comparison is chronological order; equal dekads hash equally *)
Theorem C11_compare_chronological : forall a b,
  (cmp_lt a b = true <-> start_date a < start_date b) /\
  (cmp_eq a b = true <-> a = b) /\ (cmp_gt a b = true <-> cmp_lt b a = true) /\
  (cmp_le a b = true <-> cmp_gt a b = false) /\ (cmp_ge a b = true <-> cmp_lt a b = false).
Proof. exact compare_chronological. Qed.
Print Assumptions C11_compare_chronological.

Theorem C11_hash_eq : forall a b, cmp_eq a b = true -> hash_key a = hash_key b.
Proof. exact hash_eq. Qed.
Print Assumptions C11_hash_eq.

(** d + n, d - n, d2 - d1 are integer translations *)
Theorem C11_add_sub_laws : forall d n,
  sub_dekad (add d n) d = n /\ sub_int (add d n) n = d /\ radd d n = add d n /\ add (add d n) (- n) = d.
Proof. exact add_sub_laws. Qed.
Print Assumptions C11_add_sub_laws.

(** a dekad covers exactly ndays whole days and starts at midnight; the 36 dekads from yyyy01d1 to
    the next yyyy01d1 cover exactly that calendar year (365 or 366 days) *)
Theorem C11_dekad_span : forall k,
  end_date k + timedelta_us 1 - start_date k = ndays k * US_PER_DAY /\ start_date k mod US_PER_DAY = 0.
Proof. intros k. split; [exact (dekad_span k)|exact (start_midnight k)]. Qed.
Print Assumptions C11_dekad_span.

Theorem C11_year_span : forall y,
  of_ymd (y + 1) 1 1 = add (of_ymd y 1 1) 36 /\
  start_date (of_ymd (y + 1) 1 1) - start_date (of_ymd y 1 1) = (if is_leap y then 366 else 365) * US_PER_DAY.
Proof. intros y. split; [unfold add, of_int, of_ymd; ring|exact (year_span y)]. Qed.
Print Assumptions C11_year_span.

(** Non-vacuity: 2000-02-29 23:59:59.999999 is a valid instant; its dekad is 2000-02-d3 with 9 days. *)
Example C11_example :
  let k := of_date 2000 2 29 in
  valid_date 2000 2 29 /\ year k = 2000 /\ month k = 2 /\ idx k = 3 /\ ndays k = 9 /\
  start_date k <= datetime_at 2000 2 29 (US_PER_DAY - 1) <= end_date k /\
  parse_label (label k) = Some k /\ ndays (of_ymd 1900 2 3) = 8.
Proof. vm_compute. repeat split; discriminate. Qed.
