"""C06 — smoothers keep linear series, commute with offsets and time reversal (metamorphic, all eight variants)."""
import math

import numpy as np

from vlib import core
from props import whit_common as wc
from props.C03 import gen_series, gap_pattern
from props.C02 import VARIANTS

REVERSIBLE = {"gu", "pgu", "optv", "optvp", "optvplc"}


def variant_params(rng, kind, extra):
    p = dict(extra)
    if kind in ("gu", "pgu"):
        p["lam"] = float(10 ** rng.uniform(-2, 4))
    if kind in ("pgu", "optvp", "optvplc", "wcvp"):
        p["p"] = float(rng.choice([0.9, 0.5, 0.2, 0.7]))
    if kind in ("optv", "optvp"):
        p["llas"] = [float(v) for v in np.arange(-2, 2.2, float(rng.choice([0.2, 0.4])))]
    if kind in ("wcv", "wcvp"):
        p["llas"] = [float(v) for v in np.arange(-1.8, 4.2, float(rng.choice([0.2, 0.6])))]
    if kind == "optvplc":
        p["lc"] = float(rng.choice([0.9, 0.3]))
    return p


def run(ctx):
    ctx.proofs(["Props/C06.v"])
    rng = np.random.default_rng(ctx.seed)
    N = 14 if ctx.thorough else 4
    cases, plan = [], []            # plan: (relation, index of base case, index of transformed case, info)
    for kind, extra in VARIANTS:
        for it in range(N):
            n = int(rng.choice([5, 8, int(rng.integers(9, 50)), int(rng.integers(50, 160 if ctx.thorough else 80))]))
            params = variant_params(rng, kind, extra)
            nd = float(rng.choice([-3000, -9999, 0]))
            miss = gap_pattern(rng, n)
            need = 5 if kind in ("wcv", "wcvp") else 2
            n = max(n, need + 2)
            miss = miss[:n] if len(miss) >= n else np.concatenate([miss, np.zeros(n - len(miss), dtype=bool)])
            if (~miss).sum() < need + 1:
                miss[:] = False
                miss[int(rng.integers(0, n))] = True
            # --- linear series (gaps filled on the same line)
            a, b = int(rng.integers(-2000, 3000)), int(rng.integers(-40, 41))
            if abs(a + b * n) > 9000:
                b = 0
            line = np.array([a + b * i for i in range(n)], dtype=float)
            if nd in line:
                nd = float(nd - 1)
            nd_lin = 32767.0 if it % 3 == 2 else nd        # a sentinel above the data (the customary int16 marker) for the line
            yl = [nd_lin if m else float(v) for v, m in zip(line, miss)]
            cases.append(dict(kind=kind, y=yl, nodata=nd_lin, n=n, **params))
            plan.append(("linear", len(cases) - 1, None, dict(line=[int(v) for v in line])))
            # --- offset
            y = np.clip(gen_series(rng, n, negative_ok=True), -4500, 4500)
            y[y == nd] += 1
            c = int(rng.integers(-4000, 4001))
            base = [nd if m else float(v) for v, m in zip(y, miss)]
            shifted = [nd + c if m else float(v + c) for v, m in zip(y, miss)]
            cases.append(dict(kind=kind, y=base, nodata=nd, n=n, **params))
            cases.append(dict(kind=kind, y=shifted, nodata=nd + c, n=n, **params))
            plan.append(("offset", len(cases) - 2, len(cases) - 1, dict(c=c)))
            # --- reversal
            if kind in REVERSIBLE:
                cases.append(dict(kind=kind, y=base[::-1], nodata=nd, n=n, **params))
                plan.append(("reversal", len(cases) - 3, len(cases) - 1, {}))
                # end effects: a smooth seasonal series with an outlier at one end, on the finest grid
                m = int(rng.integers(30, 70))
                t = np.arange(m)
                ys = np.round(3000 + 1500 * np.sin(2 * np.pi * t / float(rng.uniform(15, 40))) + rng.normal(0, 30, m))
                ys[-1 if it % 2 else 0] += float(rng.choice([-1, 1])) * float(rng.integers(800, 2500))
                p2 = dict(params)
                if "llas" in p2:
                    p2["llas"] = [float(v) for v in np.arange(-2, 2.2, 0.2)]
                cases.append(dict(kind=kind, y=[float(v) for v in ys], nodata=-3000.0, n=m, **p2))
                cases.append(dict(kind=kind, y=[float(v) for v in ys[::-1]], nodata=-3000.0, n=m, **p2))
                plan.append(("reversal", len(cases) - 2, len(cases) - 1, dict(family="smooth + end outlier")))
    # directed families
    for kind, extra in VARIANTS:
        need = 5 if kind in ("wcv", "wcvp") else 2
        for it in range(4 if ctx.thorough else 2):
            params = variant_params(rng, kind, extra)
            # (a) long gaps in the interpolation regime (small lambda, values in the thousands): a line must stay a line across
            #     a gap of tens of cells, and an offset must move it rigidly
            n = int(rng.integers(60, 121))
            g0 = int(rng.integers(3, n - 55))
            miss = np.zeros(n, dtype=bool)
            miss[g0:g0 + int(rng.integers(25, 50))] = True
            if "lam" in params:
                params["lam"] = float(10 ** rng.uniform(-2.5, 0))
            a, b = int(rng.integers(3000, 7000)), int(rng.integers(-20, 21))
            line = np.array([a + b * i for i in range(n)], dtype=float)
            nd = -3000.0
            cases.append(dict(kind=kind, y=[nd if m else float(v) for v, m in zip(line, miss)], nodata=nd, n=n, **params))
            plan.append(("linear", len(cases) - 1, None, dict(line=[int(v) for v in line], family="long gap, small lambda")))
            y = np.clip(np.round(line + rng.normal(0, 150, n)), -4500, 9000)
            c = int(rng.choice([-4000, 3500, -2500]))
            if np.abs(y + c).max() < 9500:
                cases.append(dict(kind=kind, y=[nd if m else float(v) for v, m in zip(y, miss)], nodata=nd, n=n, **params))
                cases.append(dict(kind=kind, y=[nd + c if m else float(v + c) for v, m in zip(y, miss)], nodata=nd + c, n=n, **params))
                plan.append(("offset", len(cases) - 2, len(cases) - 1, dict(c=c, family="long gap, small lambda")))
            # (a') exactly two valid cells: the curve is the line through them
            if need == 2:
                n2 = int(rng.integers(4, 30))
                i0, i1 = sorted(int(v) for v in rng.choice(n2, size=2, replace=False))
                a2, b2 = int(rng.integers(-2000, 3000)), int(rng.integers(-30, 31))
                line2 = [a2 + b2 * i for i in range(n2)]
                cases.append(dict(kind=kind, y=[float(line2[i]) if i in (i0, i1) else nd for i in range(n2)], nodata=nd, n=n2, **params))
                plan.append(("linear", len(cases) - 1, None, dict(line=line2, family="two valid cells")))
            # (b) valid cells that sum to exactly zero: an antisymmetric line with symmetric gaps, an all-zero pixel with a
            #     gap, and an offset c = -mean(valid)
            h = int(rng.integers(4, 20))
            n = 2 * h + 1
            b = int(rng.integers(1, 30))
            line = np.array([b * (i - h) for i in range(n)], dtype=float)
            miss = np.zeros(n, dtype=bool)
            for j in rng.choice(h, size=int(rng.integers(1, max(2, h // 2))), replace=False):
                miss[h - 1 - j] = miss[h + 1 + j] = True
            if (~miss).sum() >= need + 1:
                cases.append(dict(kind=kind, y=[nd if m else float(v) for v, m in zip(line, miss)], nodata=nd, n=n, **params))
                plan.append(("linear", len(cases) - 1, None, dict(line=[int(v) for v in line], family="antisymmetric line, zero sum")))
                zero = [nd if m else 0.0 for m in miss]
                cases.append(dict(kind=kind, y=zero, nodata=nd, n=n, **params))
                plan.append(("linear", len(cases) - 1, None, dict(line=[0] * n, family="all-zero pixel with gaps")))
            n = int(rng.integers(12, 50))
            miss = gap_pattern(rng, n)[:n]
            miss = np.concatenate([miss, np.zeros(n - len(miss), dtype=bool)]) if len(miss) < n else miss
            if (~miss).sum() < need + 3:
                miss[:] = False
            y = np.clip(gen_series(rng, n, negative_ok=True), -4000, 4000)
            vi = np.where(~miss)[0]
            y[vi[-1]] -= float(y[vi].sum() % len(vi))              # make the mean of the valid cells an integer
            c = -int(y[vi].sum() // len(vi))
            if abs(c) <= 4500 and nd not in y and (nd + c) not in (y + c):
                cases.append(dict(kind=kind, y=[nd if m else float(v) for v, m in zip(y, miss)], nodata=nd, n=n, **params))
                cases.append(dict(kind=kind, y=[nd + c if m else float(v + c) for v, m in zip(y, miss)], nodata=nd + c, n=n, **params))
                plan.append(("offset", len(cases) - 2, len(cases) - 1, dict(c=c, family="offset to zero mean")))
    # (c) strongly asymmetric envelope on a long noisy series that sits on a large level: the reweighting iteration must run to the same
    #     fixed point whatever the level (an exit test that looks at the magnitude of the curve stops early on the shifted series)
    for it in range(100 if ctx.thorough else 40):
        n = int(rng.integers(60, 201))
        y = np.clip(np.round(float(rng.integers(-100, 100)) + rng.normal(0, 40, n).cumsum() + rng.normal(0, 60, n)), -400, 400)   # a noisy random walk
        c = int(rng.choice([-1, 1])) * int(rng.integers(8000, 9501))
        miss = np.zeros(n, dtype=bool)
        if it % 2:
            miss[rng.choice(n, size=n // 10, replace=False)] = True
        nd0 = -3000.0 if c > 0 else 3000.0
        params = dict(lam=float(10 ** rng.uniform(-1, [0, 1][it % 2])), p=float([0.95, 0.05, 0.95, 0.9][it % 4]))
        cases.append(dict(kind="pgu", y=[nd0 if m else float(v) for v, m in zip(y, miss)], nodata=nd0, n=n, **params))
        cases.append(dict(kind="pgu", y=[nd0 + c if m else float(v + c) for v, m in zip(y, miss)], nodata=nd0 + c, n=n, **params))
        plan.append(("offset", len(cases) - 2, len(cases) - 1, dict(c=c, family="strong envelope, large level")))
    # (d) robust GCV on smooth seasonal curves that carry only +-1 count of jitter, near zero and lifted by +-9000: the decision whether
    #     the residual scale is "rounding noise" must not depend on the level the series sits on
    for it in range(24 if ctx.thorough else 10):
        n = int(rng.integers(18, 80))
        t = np.arange(n)
        amp, period, phase = float(rng.choice([12, 25, 40, 80])), float(rng.uniform(12, 60)), float(rng.uniform(0, 6))
        jitter = ((t * 7 + t // 3 + it) % 3) - 1
        y = np.rint(amp * np.sin(2 * np.pi * t / period + phase)) + jitter
        miss = np.zeros(n, dtype=bool)
        miss[rng.choice(np.arange(2, n - 2), size=int(rng.integers(0, 4)), replace=False)] = True
        c = int(rng.choice([-9000, 9000]))
        nd0 = -3000.0 if c > 0 else 3000.0
        kind = ["wcv", "wcvp"][it % 2]
        params = dict(llas=[float(v) for v in np.arange(-1.8, 4.2, 0.2)], robust=True)
        if kind == "wcvp":
            params["p"] = float(rng.choice([0.9, 0.7]))
        cases.append(dict(kind=kind, y=[nd0 if m else float(v) for v, m in zip(y, miss)], nodata=nd0, n=n, **params))
        cases.append(dict(kind=kind, y=[nd0 + c if m else float(v + c) for v, m in zip(y, miss)], nodata=nd0 + c, n=n, **params))
        plan.append(("offset", len(cases) - 2, len(cases) - 1, dict(c=c, family="robust, smooth with +-1 jitter, large level")))
    # the listed finding C06-extreme-envelope-offset: its witness, run on every pass (reported as KNOWN-FINDING while it fails)
    findings = core.load_findings("C06")
    for f in findings:
        wtn = f.get("witness", {})
        if wtn.get("kind") == "pgu":
            yy, cc, ndw = [float(v) for v in wtn["y"]], int(wtn["c"]), float(wtn["nodata"])
            cases.append(dict(kind="pgu", y=yy, nodata=ndw, n=len(yy), lam=float(wtn["lam"]), p=float(wtn["p"])))
            cases.append(dict(kind="pgu", y=[v + cc for v in yy], nodata=ndw + cc, n=len(yy), lam=float(wtn["lam"]), p=float(wtn["p"])))
            plan.append(("offset", len(cases) - 2, len(cases) - 1, dict(c=cc, family="listed finding", finding=f["id"])))
    res, log = core.run_impl("whit_impl.py", dict(kernels=cases), timeout=3000)
    if res is None:
        ctx.violation("implementation run failed", dict(kind="impl-crash", log=log[-3000:]), found_input=False)
        return
    grids = res["grids"]
    K = res["kernels"]
    spec_fail = []
    dist = dict(linear=0, offset=0, reversal=0, off_by_one_cells=0, lambda_ties_skipped=0, by_variant={})

    def describe(i):
        c = cases[i]
        return dict(kind=c["kind"], n=c["n"], nodata=c["nodata"], params={k: c[k] for k in ("lam", "p", "lc", "robust") if k in c},
                    y=c["y"], out=K[i].get("out"), lopt=K[i].get("lopt"))

    def criterion_tied(c):
        """is the selection criterion (nearly) tied between its two best grid values? (float re-computation)"""
        valid = np.array([v != c["nodata"] for v in c["y"]], dtype=float)
        y = np.where(valid > 0, np.array(c["y"]), 0.0)
        if c["kind"] in ("optv", "optvp", "optvplc"):
            llas = c.get("llas") or (grids["hi"] if c.get("lc", 0) > 0.5 else grids["lo"])
            v, (fits, pens) = wc.vcurve_float(y, valid, llas, c.get("p"))
            # a fit or a roughness at rounding-noise level (exactly constant / linear valid cells): the exact criterion is
            # log 0 at every grid value - undefined, every lambda is tied with every other
            floor_ = math.log(1e-18 * max(1.0, float(np.sum(valid * y * y))))
            if min(fits) < floor_ or min(pens) < floor_:
                dist["degenerate_criterion"] = dist.get("degenerate_criterion", 0) + 1
                return True
        elif c.get("robust"):
            # robust mode: the lambda is decided among the best score of the first scan and the scores of the second (reweighted) scan;
            # scores at rounding-noise level (the weighted cells are fitted exactly, e.g. a constant series whose only deviating cell was
            # weighted out) are all tied with one another
            cand = wc.gcv_robust_candidates(y, valid, c["llas"])
            if cand is None:
                return False
            sc = sorted(v_ for v_, _ in cand)
            noise = 1e-18 * max(1.0, float(np.sum(valid * y * y)))
            if sc[0] <= noise:
                dist["degenerate_criterion"] = dist.get("degenerate_criterion", 0) + 1
                return True
            return len(sc) > 1 and (sc[1] - sc[0]) <= 1e-6 * abs(sc[0])
        else:
            v = wc.gcv_float(y, valid, c["llas"])
        s = sorted(v)
        return len(s) > 1 and (s[1] - s[0]) <= 1e-6 * max(abs(s[0]), 1e-300)

    for rel, i, j, info in plan:
        c, r = cases[i], K[i]
        key = c["kind"] + ("+robust" if c.get("robust") else "")
        dist["by_variant"][key] = dist["by_variant"].get(key, 0) + 1
        dist[rel] += 1
        if "error" in r or (j is not None and "error" in K[j]):
            spec_fail.append((describe(i), "kernel raised %s" % (r.get("error") or K[j].get("error"))))
            continue
        if rel == "linear":
            if r["out"] != info["line"]:
                spec_fail.append((dict(describe(i), line=info["line"]), "a series that is exactly linear in time is not returned unchanged (gaps on the line)"))
            continue
        r2 = K[j]
        if r.get("lopt") != r2.get("lopt"):
            if r.get("lopt") is not None and abs(r["lopt"] - r2["lopt"]) <= 1e-12 * abs(r["lopt"]):
                pass
            elif c["n"] <= 80 and criterion_tied(c):
                dist["lambda_ties_skipped"] += 1
                continue
            else:
                spec_fail.append((dict(a=describe(i), b=describe(j), relation=rel, **info),
                                  "%s changes the selected lambda (%r vs %r)" % (rel, r.get("lopt"), r2.get("lopt"))))
                continue
        expect = [v + info["c"] for v in r["out"]] if rel == "offset" else r["out"][::-1]
        diff = [abs(a - b) for a, b in zip(expect, r2["out"])]
        ones = sum(1 for d in diff if d == 1)
        dist["off_by_one_cells"] += ones
        if info.get("finding"):
            # a listed finding is identified by its signature: extreme envelope and the 10-pass cap reached on either series
            extreme = c.get("p") is not None and (c["p"] >= 0.99 or c["p"] <= 0.01)
            capped = max(r.get("passes") or 0, r2.get("passes") or 0) >= 11
            if max(diff) > 1 and extreme and capped:
                ctx.known_finding("offset clause fails for an extreme envelope whose reweighting does not settle in 10 passes (listed finding %s): "
                                  "ws2dpgu(y + %d) - %d differs from ws2dpgu(y) by up to %d units on y=%s, lambda=%g, p=%g; witness still fails"
                                  % (info["finding"], info["c"], info["c"], max(diff), [int(v) for v in c["y"]], c["lam"], c["p"]))
                ctx.notes["known_finding_hits"] = ctx.notes.get("known_finding_hits", 0) + 1
                continue
        if max(diff) > 1 or ones > max(1, c["n"] // 50):
            spec_fail.append((dict(a=describe(i), b=describe(j), relation=rel, **info),
                              "%s does not commute with the smoother: %d cells differ (max %d), more than rounding ties can explain"
                              % (rel, sum(1 for d in diff if d), max(diff))))
    # ---- bit-exact correspondence of every run
    coq, fn, meta = [], [], []
    for c, r in zip(cases, K):
        if "error" in r:
            continue
        term, chk, claim = wc.coq_case(c, r, grids)
        coq.append(term)
        fn.append(chk)
        meta.append(dict(kind=c["kind"], n=c["n"], nodata=c["nodata"], params={k: c[k] for k in ("lam", "p", "lc", "robust") if k in c},
                         y=c["y"] if c["n"] <= 30 else None, out=r["out"] if c["n"] <= 30 else None, lopt=r.get("lopt")))
    failing, claims, errors = [], [], []
    for chk, claim in (("check_gu", "claim_gu"), ("check_v", "claim_v"), ("check_g", "claim_g")):
        idx = [i for i, f in enumerate(fn) if f == chk]
        if not idx:
            continue
        r1 = core.eval_cases("C06", chk, wc.PRE, [coq[i] for i in idx], chk, shard=8, scope="Z")
        r2 = core.eval_cases("C06", claim, wc.PRE, [coq[i] for i in idx], claim, shard=8, scope="Z")
        failing += [idx[j] for j in r1["failing"]]
        claims += [idx[j] for j in r2["failing"]]
        errors += r1["errors"] + r2["errors"]
    ctx.cov["evaluations"] = len(cases)
    ctx.cov["distinct_nontrivial"] = len(set(coq))
    ctx.cov["rule"] = ("for each of the 9 variant configurations %d rounds of: an exactly linear series with gaps; a random series and the same series "
                       "with valid cells and nodata shifted by an integer c in [-4000, 4000]; the reversed series (fixed-lambda and V-curve "
                       "variants); lengths 5..%d; relations are checked on the implementation (+-1 only at rounding ties, other lambda only at "
                       "criterion ties) and every run is compared bit-for-bit with the model" % (N, 160 if ctx.thorough else 80))
    ctx.notes.update(input_distribution=dist, cases_bit_exact=len(coq) - len(claims), out_of_claim_dropped=len(claims),
                     model_vs_impl_mismatches=len(failing), spec_failures=len(spec_fail))
    ctx.add_samples([meta[0], meta[1], meta[2]])
    ctx.assumptions += ["the three laws are proved for the solver and lifted to ws2dgu; for the selecting and asymmetric variants they are "
                        "checked on the implementation (DESIGN 7, C06: partial)",
                        "a +-1 difference is accepted on at most max(1, n/50) cells per pair (rounding ties); a different lambda only when the "
                        "re-computed criterion is tied to 1e-6"]
    for si, lg in errors:
        ctx.violation("Coq could not evaluate cases", dict(kind="coq-eval-error", log=lg), found_input=False)
    if spec_fail:
        spec_fail.sort(key=lambda t: len(str(t[0])))
        m, why = spec_fail[0]
        ctx.violation(why, dict(kind="spec", case=m, n_failing=len(spec_fail)))
    elif failing:
        bad = sorted((meta[i] for i in failing), key=lambda m: m["n"])
        ctx.violation("model and implementation disagree (Corr/C03-C05 bit-exact checks); linearity, offset and reversal relations hold on all "
                      "explored inputs", dict(kind="correspondence", correspondence="Corr/C03.v, Corr/C04.v, Corr/C05.v", case=bad[0],
                                              n_disagree=len(failing)), found_input=False)


def replay(ctx, path):
    import json
    rp = json.load(open(path))
    print(json.dumps(rp.get("case"))[:3000])
    return 2
