"""Shared machinery of the /verif checks: building the Coq development, compiling generated
files, running the implementation out of process, writing evidence and reporting violations."""
import fcntl
import hashlib
import json
import os
import re
import shutil
import subprocess
import sys
import time
from concurrent.futures import ThreadPoolExecutor
from pathlib import Path

VERIF = Path(__file__).resolve().parents[2]
import sys as _sys
if hasattr(_sys, "set_int_max_str_digits"):
    _sys.set_int_max_str_digits(0)
REPO = Path(os.environ.get("HDC_REPO", "/repo"))
COQ = VERIF / "coq"
GEN = COQ / "gen"
EVID = VERIF / "evidence"
REPLAY = EVID / "replay"
PY = "/venv/bin/python"
NCPU = os.cpu_count() or 4


def sh(cmd, timeout=600, cwd=None, env=None, inp=None):
    """Run a command under a hard timeout; returns (rc, combined output)."""
    e = dict(os.environ)
    if env:
        e.update(env)
    try:
        p = subprocess.run(cmd, cwd=cwd, env=e, input=inp, stdout=subprocess.PIPE,
                           stderr=subprocess.STDOUT, timeout=timeout, text=True,
                           shell=isinstance(cmd, str))
        return p.returncode, p.stdout
    except subprocess.TimeoutExpired as ex:
        out = ex.stdout or ""
        if isinstance(out, bytes):
            out = out.decode("utf8", "replace")
        return 124, out + "\n[timeout after %ss]" % timeout


# ------------------------------------------------------------------ Coq build

def ensure_built(timeout=3000):
    """Full .vo build of the hand-written development (no -vos). Serialised by a file lock."""
    lock = open(VERIF / ".build.lock", "w")
    fcntl.flock(lock, fcntl.LOCK_EX)
    try:
        GEN.mkdir(exist_ok=True)
        if not (COQ / "Makefile").exists() or \
                (COQ / "Makefile").stat().st_mtime < (COQ / "_CoqProject").stat().st_mtime:
            rc, out = sh(["coq_makefile", "-f", "_CoqProject", "-o", "Makefile"], 120, cwd=COQ)
            if rc != 0:
                return False, out
        rc, out = sh(["timeout", str(timeout), "make", "-j%d" % NCPU], timeout + 30, cwd=COQ)
        return rc == 0, out
    finally:
        fcntl.flock(lock, fcntl.LOCK_UN)
        lock.close()


def coqc(vfile, timeout=900, extra=()):
    """Compile one .v file (path relative to coq/ or absolute) against the built theory."""
    cmd = ["timeout", str(timeout), "coqc", "-Q", str(COQ), "HDC", *extra, str(vfile)]
    t0 = time.time()
    rc, out = sh(cmd, timeout + 30, cwd=COQ, env={"OCAMLRUNPARAM": "l=4G"})
    return rc, out, time.time() - t0


THEOREM_RE = re.compile(r"^\s*(Theorem|Corollary)\s+([A-Za-z0-9_']+)", re.M)


def compile_props(relpath, timeout=900):
    """Re-check a property file now and collect what `Print Assumptions` says.

    Returns dict(ok, theorems=[names], assumptions={name: text}, log, cmd)."""
    path = COQ / relpath
    src = path.read_text()
    names = [m.group(2) for m in THEOREM_RE.finditer(src)]
    rc, out, wall = coqc(path, timeout)
    assumptions = {}
    # Print Assumptions output: either "Closed under the global context" or "Axioms:\n name : type ..."
    blocks = re.split(r"(?=Closed under the global context|Axioms:)", out)
    printed = [b.strip() for b in blocks if b.startswith("Closed under") or b.startswith("Axioms:")]
    pa = re.findall(r"Print Assumptions\s+([A-Za-z0-9_'.]+)", src)
    for i, n in enumerate(pa):
        if i < len(printed):
            assumptions[n] = printed[i]
    return dict(ok=(rc == 0), theorems=names, assumptions=assumptions, log=out, wall=wall,
                cmd="coqc -Q %s HDC %s" % (COQ, path))


def axioms_of(assumptions):
    """Flatten Print Assumptions blocks into a sorted list of axiom names."""
    ax = set()
    for txt in assumptions.values():
        if txt.startswith("Closed under"):
            continue
        for line in txt.splitlines()[1:]:
            m = re.match(r"^([A-Za-z_][A-Za-z0-9_'.]*)\s*(:|$)", line)
            if m and not line.startswith(" "):
                ax.add(m.group(1))
    return sorted(ax)


# ------------------------------------------------------------------ Coq literals

def zlit(v):
    v = int(v)
    return "%d" % v if v >= 0 else "(%d)" % v


def zlist(vs):
    return "[" + "; ".join(zlit(v) for v in vs) + "]"


def flit(x):
    """Exact Coq PrimFloat literal for a Python float (hex, no decimal round trip)."""
    import math
    x = float(x)
    if math.isnan(x):
        return "nan"
    if math.isinf(x):
        return "infinity" if x > 0 else "neg_infinity"
    if x == 0.0:
        return "neg_zero" if math.copysign(1.0, x) < 0 else "zero"
    h = x.hex()
    if h.startswith("-"):
        return "(-%s)%%float" % h[1:]
    return "(%s)%%float" % h


def flist(xs):
    return "[" + "; ".join(flit(x) for x in xs) + "]"


def blit(b):
    return "true" if b else "false"


def optlit(v, f):
    return "None" if v is None else "(Some %s)" % f(v)


# ------------------------------------------------------------------ case evaluation

RES_RE = re.compile(r"=\s*(\[.*?\]|nil)\s*:\s*list", re.S)


def _parse_zlist(txt):
    txt = txt.strip()
    if txt in ("nil", "[]"):
        return []
    inner = txt.strip()[1:-1]
    return [int(t.replace("%Z", "").replace("(", "").replace(")", "").strip())
            for t in inner.split(";") if t.strip()]


def eval_cases(pid, tag, preamble, cases, check_fn, shard=400, timeout=900, scope="Z"):
    """Evaluate `check_fn : case -> bool` on every case inside Coq (vm_compute).

    `cases` are Coq terms (strings). Returns dict(failing=[indices], errors=[(shard, log)], wall)."""
    GEN.mkdir(exist_ok=True)
    # one scratch directory per run (concurrent runs do not collide), removed when the evaluation is over
    rundir = GEN / ("run_%s_%s_%d" % (pid, tag, os.getpid()))
    shutil.rmtree(rundir, ignore_errors=True)
    rundir.mkdir()
    files = []
    for si, lo in enumerate(range(0, len(cases), shard)):
        chunk = cases[lo:lo + shard]
        name = "cases_%s_%s_%d" % (pid, tag, si)
        body = [preamble, "Open Scope %s_scope." % scope if scope else "",
                "Definition cases := ["]
        body.append(";\n".join("  " + c for c in chunk))
        body.append("].")
        body.append("Eval vm_compute in (failing %s cases %d)." % (check_fn, lo))
        (rundir / (name + ".v")).write_text("\n".join(body) + "\n")
        files.append((si, lo, rundir / (name + ".v")))
    failing, errors = [], []
    t0 = time.time()

    def one(f):
        si, lo, path = f
        rc, out, _ = coqc(path, timeout, extra=("-noglob",))
        return si, lo, rc, out

    with ThreadPoolExecutor(max_workers=NCPU) as ex:
        for si, lo, rc, out in ex.map(one, files):
            m = RES_RE.search(out)
            if rc != 0 or not m:
                errors.append((si, out[-3000:]))
                continue
            failing.extend(_parse_zlist(m.group(1)))
    shutil.rmtree(rundir, ignore_errors=True)
    return dict(failing=sorted(failing), errors=errors, wall=time.time() - t0, n=len(cases))


def coq_eval(pid, tag, preamble, expr, timeout=600):
    """Evaluate one expression with vm_compute and return Coq's printed answer."""
    GEN.mkdir(exist_ok=True)
    path = GEN / ("eval_%s_%s.v" % (pid, tag))
    path.write_text(preamble + "\nEval vm_compute in (%s).\n" % expr)
    rc, out, _ = coqc(path, timeout)
    return rc, out


# ------------------------------------------------------------------ implementation side

def run_impl(script, payload, timeout=1200, env=None):
    """Run tools/impl/<script> with /venv/bin/python against /repo's working tree."""
    e = {"PYTHONPATH": str(REPO), "PYTHONHASHSEED": "0", "PYTHONDONTWRITEBYTECODE": "1",
         "NUMBA_DISABLE_JIT": "0", "HDC_ALGO_VERIF": "1", "OMP_NUM_THREADS": "1"}
    if env:
        e.update(env)
    rc, out = sh([PY, str(VERIF / "tools" / "impl" / script)], timeout, cwd=str(VERIF / "tools" / "impl"),
                 env=e, inp=json.dumps(payload))
    marker = "@@RESULT@@"
    if rc != 0 or marker not in out:
        return None, out
    return json.loads(out.split(marker, 1)[1]), out


# ------------------------------------------------------------------ known findings

def load_findings(pid):
    p = VERIF / "known_findings.json"
    if not p.exists():
        return []
    data = json.loads(p.read_text())
    return [f for f in data.get("findings", []) if f.get("property") == pid and f.get("status") == "open"]


# ------------------------------------------------------------------ context

# evidence 'level' = the category claimed in MANIFEST.json (tools/manifest.py)
def _levels():
    try:
        m = json.loads((VERIF / "MANIFEST.json").read_text())
        return {c["property_id"]: c["level_claimed"]["category"] for c in m.get("checks", [])}
    except Exception:  # noqa
        return {}


LEVELS = _levels()


class Ctx:
    def __init__(self, pid, tier, seed):
        self.pid, self.tier, self.seed = pid, tier, seed
        self.t0 = time.time()
        self.violations = []          # (replay path, found_input)
        self.known = []
        self.cov = dict(evaluations=0, distinct_nontrivial=0, samples=[], obligations=0, discharged=0,
                        checker_cmd="", trusted_base=[], rule="")
        self.assumptions = []
        self.level = LEVELS.get(pid, "proof")
        # runs against a scratch copy of the repository (HDC_REPO, used by the seeded-change sweeps) leave the evidence files alone
        self.write_evidence = str(REPO) == "/repo"
        self.notes = {}

    @property
    def thorough(self):
        return self.tier == "thorough"

    # --- reporting
    def violation(self, what, replay, found_input=True):
        REPLAY.mkdir(parents=True, exist_ok=True)
        blob = json.dumps(replay, sort_keys=True, default=str)
        h = hashlib.sha1(blob.encode()).hexdigest()[:10]
        path = REPLAY / ("%s_%s.json" % (self.pid, h))
        replay = dict(replay)
        replay.update(property=self.pid, what=what, found_failing_input=found_input,
                      seed=self.seed, tier=self.tier)
        path.write_text(json.dumps(replay, indent=1, default=str))
        self.violations.append((str(path), found_input, what))

    def known_finding(self, what):
        self.known.append(what)

    def add_samples(self, samples, cap=6):
        for s in samples:
            if len(self.cov["samples"]) < cap:
                self.cov["samples"].append(s)

    def finish(self):
        wall = time.time() - self.t0
        ev = dict(property_id=self.pid, tier=self.tier, seed=self.seed, level=self.level,
                  coverage=self.cov, assumptions=self.assumptions, wall_s=round(wall, 2),
                  violations=len(self.violations))
        if self.notes:
            ev["coverage"].update(self.notes)
        EVID.mkdir(exist_ok=True)
        if getattr(self, "write_evidence", True):
            (EVID / ("%s.json" % self.pid)).write_text(json.dumps(ev, indent=1, default=str))
        for k in self.known:
            print("KNOWN-FINDING: property=%s %s" % (self.pid, k))
        seen = set()
        for path, found, what in self.violations:
            if path in seen:
                continue
            seen.add(path)
            tail = "" if found else " no-failing-input-found"
            print("VIOLATION property=%s replay=%s%s" % (self.pid, path, tail))
        print("[%s] tier=%s seed=%d wall=%.1fs obligations=%d discharged=%d evaluations=%d violations=%d"
              % (self.pid, self.tier, self.seed, wall, self.cov.get("obligations", 0),
                 self.cov.get("discharged", 0), self.cov.get("evaluations", 0), len(seen)))
        return 1 if seen else 0

    # --- proof side shared by all properties
    def proofs(self, relpaths, extra_trusted=()):
        """Build the theory, re-check the property file(s), record obligations/assumptions.

        Returns True when every obligation was discharged."""
        ok, log = ensure_built()
        if not ok:
            self.cov["checker_cmd"] = "make -C %s" % COQ
            tail = log[-4000:]
            self.violation("the Coq development does not build", dict(kind="proof-broken", log=tail,
                                                                      theorem="(build)"), found_input=False)
            return False
        allok = True
        cmds, tb = [], set()
        for rp in relpaths:
            r = compile_props(rp)
            cmds.append(r["cmd"])
            self.cov["obligations"] += len(r["theorems"])
            if r["ok"]:
                self.cov["discharged"] += len(r["theorems"])
            else:
                allok = False
                self.violation("property file %s no longer checks" % rp,
                               dict(kind="proof-broken", file=str(rp), log=r["log"][-4000:]),
                               found_input=False)
            for a in axioms_of(r["assumptions"]):
                if a.startswith(("PrimFloat.", "PrimInt63.", "Uint63.")):
                    tb.add("primitive: Coq's native binary64 / 63-bit integer operations (PrimFloat.*, PrimInt63.*), "
                           "listed by Print Assumptions because they have no Gallina body")
                else:
                    tb.add("axiom: " + a)
            self.notes.setdefault("theorems", []).extend(r["theorems"])
            self.notes.setdefault("print_assumptions", {}).update(
                {k: v[:1500] for k, v in r["assumptions"].items()})
        self.cov["checker_cmd"] = "make -C %s && " % COQ + " && ".join(cmds)
        self.cov["trusted_base"] = sorted(tb | {"Coq 8.16.1 kernel + vm_compute (no native_compute)"}
                                          | set(extra_trusted))
        return allok
