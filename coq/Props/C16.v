(** C16 — zonal mean is the exact mean and count of valid pixels per zone. Statements only
    (exact arithmetic; the binary64 / binary32 accuracy clause is measured, see DESIGN). *)
From Coq Require Import ZArith Reals Lra List Sorting.Permutation.
From HDC Require Import Base.Prelude Base.Ops Model.Zonal Proofs.SmoothersProofs Proofs.ZonalProofs.
Open Scope R_scope.

(** for zone k: the arithmetic mean of the valid pixels whose zone is k, with their count; NaN and 0 for an empty zone *)
Theorem C16_zone_mean : forall k px,
  zone_mean OpsR k px =
  (if Nat.eqb (length (members k px)) 0 then None else Some (rsum (members k px) / INR (length (members k px))),
   INR (length (members k px))).
Proof. exact zone_mean_spec. Qed.
Print Assumptions C16_zone_mean.

Theorem C16_excluded_cells : forall k p z r,
  members k ((None, z) :: r) = members k r /\ members k ((p, None) :: r) = members k r.
Proof. exact excluded_cells. Qed.
Print Assumptions C16_excluded_cells.

(** invariant under any rearrangement of the pixels *)
Theorem C16_rearrangement : forall n px px', Permutation px px' -> do_mean OpsR n px = do_mean OpsR n px'.
Proof. exact do_mean_perm. Qed.
Print Assumptions C16_rearrangement.

(** zones are isolated: zone k's mean and count depend on the cells whose zone id is k and on nothing else *)
Theorem C16_zone_isolated : forall k px px',
  filter (in_zone k) px = filter (in_zone k) px' -> zone_mean OpsR k px = zone_mean OpsR k px'.
Proof. exact zone_isolated. Qed.
Print Assumptions C16_zone_isolated.

(** a mean is never outside the range of the pixels it averages *)
Theorem C16_mean_within_range : forall k px lo hi m c,
  Forall (fun x => lo <= x <= hi) (members k px) -> zone_mean OpsR k px = (Some m, c) -> lo <= m <= hi.
Proof. exact zone_mean_bounds. Qed.
Print Assumptions C16_mean_within_range.

(** the counts partition the valid pixels with an in-range zone id: none lost, none counted twice *)
Theorem C16_counts_partition : forall lo n px, count_sum lo n px = in_range_count lo n px.
Proof. exact counts_partition. Qed.
Print Assumptions C16_counts_partition.

Theorem C16_count_column : forall n px,
  map snd (do_mean OpsR n px) = map (fun k => INR (length (members (Z.of_nat k) px))) (seq 0 n).
Proof. exact do_mean_counts. Qed.
Print Assumptions C16_count_column.

Example C16_partition_example :
  let px := [(Some 1, Some 0%Z); (Some 2, Some 1%Z); (None, Some 1%Z); (Some 3, Some 1%Z); (Some 9, None); (Some 4, Some 7%Z)] in
  (count_sum 0 3 px, in_range_count 0 3 px) = (3, 3)%nat.
Proof. reflexivity. Qed.

Example C16_example :
  map (fun k => length (members k [(Some 1, Some 0%Z); (Some 2, Some 1%Z); (None, Some 1%Z); (Some 3, Some 1%Z); (Some 9, None)])) [0%Z; 1%Z; 2%Z]
  = [1; 2; 0]%nat.
Proof. reflexivity. Qed.

(** Non-vacuity of the isolation and range theorems: two rasters which differ outside zone 1 only, and a
    zone whose pixels lie in [2, 3]. *)
Example C16_isolation_example :
  let px  := [(Some 1, Some 0%Z); (Some 2, Some 1%Z); (None, Some 1%Z); (Some 3, Some 1%Z)] in
  let px' := [(Some 7, Some 0%Z); (Some 2, Some 1%Z); (None, Some 1%Z); (Some 3, Some 1%Z); (Some 5, None)] in
  filter (in_zone 1) px = filter (in_zone 1) px' /\ px <> px' /\
  Forall (fun x => 2 <= x <= 3) (members 1%Z px).
Proof.
  cbn. split; [reflexivity|]. split; [intros H; discriminate H|]. repeat constructor; lra.
Qed.
