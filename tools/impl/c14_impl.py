"""Runs every kernel of hdc.algo.ops compiled with NUMBA_BOUNDSCHECK=1 on boundary-sized and random in-contract inputs.

* an IndexError (numba's bounds check) is an out-of-bounds access;
* gufunc outputs are passed in explicitly, pre-filled with two different poison patterns: the two results must be equal;
* functions that return arrays are also run from their source in the interpreter with np.empty / np.empty_like filled
  with two different poisons: the two results must be equal (an element that is never written keeps the poison);
* out-of-contract controls (liveness of the harness): inputs that are known to go out of bounds / leave cells unwritten."""
import json
import os
import sys
import warnings

assert os.environ.get("NUMBA_BOUNDSCHECK") == "1"
import numpy as np  # noqa: E402

warnings.filterwarnings("ignore")
import hdc.algo  # noqa: F401,E402
from hdc.algo.ops import autocorr as m_ac, lroo as m_lroo, stats as m_st, tinterpolate as m_ti, ws2d as m_ws, zonal as m_zo  # noqa: E402,F401
import importlib  # noqa: E402

from interp import interpreted, NPProxy  # noqa: E402

from kernel_cases import K, cases  # noqa: E402


def same(a, b):
    if isinstance(a, tuple):
        return len(a) == len(b) and all(same(x, y) for x, y in zip(a, b))
    a, b = np.asarray(a), np.asarray(b)
    if a.shape != b.shape:
        return False
    if a.dtype.kind == "f" or b.dtype.kind == "f":
        return bool(np.array_equal(a, b, equal_nan=True))
    return bool(np.array_equal(a, b))


def brief(v):
    if isinstance(v, np.ndarray):
        return dict(dtype=str(v.dtype), shape=list(v.shape), data=v.ravel()[:400].tolist())
    if isinstance(v, (np.generic,)):
        return v.item()
    if isinstance(v, type):
        return str(v)
    return v


RETURNS_ARRAY = {"ws2d", "_ws2doptvp", "_ws2dwcvp", "ws2doptvplc_tyx", "autocorr", "autocorr_tyx", "do_mean", "gammastd", "gammastd_yxt",
                 "mann_kendall_trend_yxt"}
POISON = {"i": (85, 42), "u": (85, 42), "f": (1.2345e30, -7.7e-21)}


class PoisonNP(NPProxy):
    def __init__(self, which):
        super().__init__(None)
        self._which = which

    def _fill(self, a):
        a[...] = POISON[a.dtype.kind if a.dtype.kind in POISON else "f"][self._which]
        return a

    def empty(self, *a, **k):
        return self._fill(np.empty(*a, **k))

    def empty_like(self, *a, **k):
        return self._fill(np.empty_like(*a, **k))


def run_source_poisoned(fn, args, which):
    f = interpreted(fn, None, extra=dict(np=PoisonNP(which), zeros=np.zeros, isnan=np.isnan))
    return f(*[a.copy() if isinstance(a, np.ndarray) else a for a in args])


def main():
    P = json.load(sys.stdin)
    rng = np.random.default_rng(P["seed"])
    res = dict(runs=0, per_kernel={}, failures=[], controls={})
    for c in cases(rng, P.get("thorough", False)):
        name, mod, kind, args, tag = c[:5]
        k = K(mod, name)
        pk = res["per_kernel"].setdefault(name, dict(runs=0, index_errors=0, poison_diffs=0, other_errors=0))
        pk["runs"] += 1
        res["runs"] += 1
        desc = dict(kernel=name, tag=tag, args=[brief(a) for a in args])
        try:
            if kind == "gu":
                outs = []
                for which in (0, 1):
                    bufs = []
                    for dt, shp in c[5]:
                        b = np.empty(shp, dtype=dt)
                        b[...] = POISON[np.dtype(dt).kind][which]
                        bufs.append(b)
                    k(*[a.copy() if isinstance(a, np.ndarray) else a for a in args], *bufs)
                    outs.append(tuple(bufs))
                if not same(outs[0], outs[1]):
                    pk["poison_diffs"] += 1
                    res["failures"].append(dict(desc, what="an output element is not written: results differ with the pre-fill of the output buffer",
                                                out_a=[brief(b) for b in outs[0]], out_b=[brief(b) for b in outs[1]]))
            else:
                r1 = k(*[a.copy() if isinstance(a, np.ndarray) else a for a in args])
                r2 = k(*[a.copy() if isinstance(a, np.ndarray) else a for a in args])
                if not same(r1, r2):
                    pk["poison_diffs"] += 1
                    res["failures"].append(dict(desc, what="repeated calls on the same input give different results"))
                if name in RETURNS_ARRAY and P.get("poison_source", True) and np.asarray(args[0]).size <= 200:
                    s1 = run_source_poisoned(k, args, 0)
                    s2 = run_source_poisoned(k, args, 1)
                    if not same(s1, s2):
                        pk["poison_diffs"] += 1
                        res["failures"].append(dict(desc, what="an element of the returned array is never written: the source run with "
                                                               "np.empty / np.empty_like pre-filled with two different patterns gives two results"))
        except IndexError as e:
            pk["index_errors"] += 1
            res["failures"].append(dict(desc, what="out-of-bounds access (IndexError from the bounds-checked kernel): %s" % e))
        except Exception as e:  # noqa
            pk["other_errors"] += 1
            res["failures"].append(dict(desc, what="kernel raised %s: %s" % (type(e).__name__, e), other=True))
    # through the accessor: the output buffer of the interpolation kernel is sized by the accessor glue (one cell per distinct daily
    # label), independently of the number of observations
    import xarray as xr
    from kernel_cases import tinterp_case
    for (nobs, gap, nper) in [(6, 8, 10), (4, 16, 10), (5, 10, 10), (9, 5, 7)]:
        x, template, labels, tout = tinterp_case(rng, nobs, gap, nper)
        pk = res["per_kernel"].setdefault("whitint (accessor)", dict(runs=0, index_errors=0, poison_diffs=0, other_errors=0))
        pk["runs"] += 1
        res["runs"] += 1
        desc = dict(kernel="whitint (accessor)", tag="obs=%d days=%d periods=%d" % (len(x), len(template), len(tout)),
                    args=[brief(x), brief(template), brief(labels)])
        try:
            cube = np.stack([x, x[::-1].copy(), x])[:, None, :]
            da = xr.DataArray(cube, dims=("y", "x", "time"))
            r = da.hdc.whit.whitint(labels, template).values
            want = np.stack([K("tinterpolate", "tinterpolate")(cube[i, 0], template, labels, tout) for i in range(3)])[:, None, :]
            if r.shape != want.shape or not np.array_equal(r, want):
                pk["poison_diffs"] += 1
                res["failures"].append(dict(desc, what="whitint through the accessor differs from the kernel on a correctly sized output (%s vs %s): "
                                                       "output cells not written / wrong output length" % (list(r.shape), list(want.shape))))
        except IndexError as e:
            pk["index_errors"] += 1
            res["failures"].append(dict(desc, what="out-of-bounds access (IndexError from the bounds-checked kernel) through the whitint accessor: %s" % e))
        except Exception as e:  # noqa
            pk["other_errors"] += 1
            res["failures"].append(dict(desc, what="whitint accessor raised %s: %s" % (type(e).__name__, e), other=True))
    # zonal mean through the accessor: what reaches the kernel as zone raster is prepared by the accessor glue; unzoned pixels carry the
    # (negative) zone nodata and must never be used as an index
    for (zdt, znd) in [("int16", -1), ("int32", -9999), ("int16", -32768)]:
        pk = res["per_kernel"].setdefault("zonal.mean (accessor)", dict(runs=0, index_errors=0, poison_diffs=0, other_errors=0))
        pk["runs"] += 1
        res["runs"] += 1
        pix = np.round(rng.gamma(2.0, 50.0, size=(3, 6, 7))).astype("float32")
        zz = rng.integers(0, 4, size=(6, 7)).astype(zdt)
        zz[rng.random(zz.shape) < 0.3] = znd
        desc = dict(kernel="zonal.mean (accessor)", tag="zones %s nodata %d" % (zdt, znd), args=[brief(pix), brief(zz)])
        try:
            da = xr.DataArray(pix, dims=("time", "y", "x"), coords={"time": np.arange(3)}, attrs={"nodata": -9999.0})
            zda = xr.DataArray(zz, dims=("y", "x"), attrs={"nodata": znd})
            r = da.hdc.zonal.mean(zda, [0, 1, 2, 3]).values
            want = K("zonal", "do_mean")(pix, zz, 4, -9999.0, znd)
            if not same(r, want):
                pk["poison_diffs"] += 1
                res["failures"].append(dict(desc, what="zonal.mean through the accessor differs from the kernel on the same rasters (unzoned pixels counted?)"))
        except IndexError as e:
            pk["index_errors"] += 1
            res["failures"].append(dict(desc, what="out-of-bounds access (IndexError from the bounds-checked kernel) through the zonal.mean accessor: %s" % e))
        except Exception as e:  # noqa
            pk["other_errors"] += 1
            res["failures"].append(dict(desc, what="zonal.mean accessor raised %s: %s" % (type(e).__name__, e), other=True))
    # grouped mean through the accessor: the number of groups the kernel loops over is worked out by the accessor glue; every time step
    # belongs to a group and must be written, whatever the order of the labels (last label not the largest, cut cycles, descending)
    for gi, glab in enumerate([list(np.arange(54) % 36), [0, 1, 2, 0, 1], [3, 2, 1, 0], [1, 0], list(np.arange(20) % 7)]):
        pk = res["per_kernel"].setdefault("mean_grp (accessor)", dict(runs=0, index_errors=0, poison_diffs=0, other_errors=0))
        pk["runs"] += 1
        res["runs"] += 1
        T = len(glab)
        dt = ["int16", "float32", "int64"][gi % 3]
        data = np.round(rng.gamma(2.0, 60.0, size=(2, 2, T))).astype(dt)
        data[0, 0, ::5] = -9999
        desc = dict(kernel="mean_grp (accessor)", tag="labels %s... dtype %s" % (glab[:8], dt), args=[brief(data), brief(np.array(glab))])
        try:
            da = xr.DataArray(data, dims=("y", "x", "time"), coords={"time": np.arange(T)}, attrs={"nodata": -9999})
            want = np.full(data.shape, -9999.0)
            for g in set(glab):
                ix = [i for i, v in enumerate(glab) if v == g]
                for a in range(2):
                    for b in range(2):
                        v = [float(data[a, b, i]) for i in ix if data[a, b, i] != -9999]
                        if v:
                            want[a, b, ix] = float(np.float32(sum(v) / len(v)))
            outs = []
            for rep in range(2):
                junk = [np.full(data.size * 4, [12345.0, -777.0][rep], dtype="float32") for _ in range(8)]      # dirty the heap differently
                del junk
                outs.append(np.asarray(da.hdc.algo.mean_grp(np.array(glab, dtype="int16")).transpose("y", "x", "time").values, dtype="float64"))
            if not same(outs[0], outs[1]) or not np.allclose(outs[0], want, rtol=1e-6, atol=1e-6):
                pk["poison_diffs"] += 1
                res["failures"].append(dict(desc, what="mean_grp through the accessor: time steps of some group were never written (stale memory) or "
                                                       "differ from the group means"))
        except IndexError as e:
            pk["index_errors"] += 1
            res["failures"].append(dict(desc, what="out-of-bounds access (IndexError from the bounds-checked kernel) through the mean_grp accessor: %s" % e))
        except Exception as e:  # noqa
            pk["other_errors"] += 1
            res["failures"].append(dict(desc, what="mean_grp accessor raised %s: %s" % (type(e).__name__, e), other=True))
    # controls: the harness must see a real out-of-bounds access and a real unwritten cell
    from numba import njit

    @njit
    def _probe(a, i):
        return a[i]
    try:
        _probe(np.zeros(3), 3)
        res["controls"]["boundscheck_enabled"] = False
    except IndexError:
        res["controls"]["boundscheck_enabled"] = True
    try:                                                   # informational: out-of-contract inputs of the repository's kernels
        K("ws2d", "ws2d")(np.array([1.0]), 10.0, np.array([1.0]))
        res["info"] = dict(ws2d_n1="no error")
    except Exception as e:  # noqa
        res["info"] = dict(ws2d_n1=type(e).__name__)
    try:
        bufs = []
        for which in (0, 1):
            b = np.empty(4, dtype="float32")
            b[...] = POISON["f"][which]
            K("stats", "mean_grp")(np.array([1, 2, 3, 4], dtype="int16"), np.array([0, 1, 5, 0], dtype="int16"), 2.0, -9999.0, b)
            bufs.append(b)
        res["info"]["mean_grp_label_out_of_range_unwritten"] = not same(bufs[0], bufs[1])
    except Exception as e:  # noqa
        res["info"]["mean_grp_label_out_of_range_unwritten"] = type(e).__name__
    bufs = []
    for which in (0, 1):
        b = np.empty(3, dtype="float32")
        b[...] = POISON["f"][which]
        b[:2] = 0
        bufs.append(b)
    res["controls"]["poison_comparison_sees_unwritten_cell"] = not same(bufs[0], bufs[1])
    print("@@RESULT@@" + json.dumps(res))


main()
