"""Fail-closed translator: hdc/algo/dekad.py (Python ast) -> coq/gen/DekadGen.v (Gallina over Z).

Every method of class Dekad must match the grammar below; anything else raises Untranslatable,
which the C11 check reports as a broken tie.  Integer expressions: names, int constants,
+ - * // %, unary -, min(a, b), attribute reads self.<property>, self._dkd, <var>.year/.month/.day.
`//` -> Z.div and `%` -> Z.modulo (both floor, as Python's on ints).
"""
import ast
import sys


class Untranslatable(Exception):
    pass


def fail(node, msg):
    raise Untranslatable("dekad.py line %s: %s" % (getattr(node, "lineno", "?"), msg))


BINOPS = {ast.Add: "+", ast.Sub: "-", ast.Mult: "*", ast.FloorDiv: "/", ast.Mod: "mod"}
CMPOPS = {ast.Eq: "=?", ast.Lt: "<?", ast.LtE: "<=?", ast.Gt: ">?", ast.GtE: ">=?"}
PROPS = {"year", "month", "day", "idx", "yidx", "raw"}


class Expr:
    """Integer expression translator. env maps python names/attribute paths to Coq terms."""

    def __init__(self, env, self_term="dkd"):
        self.env = env
        self.self_term = self_term

    def tr(self, n):
        if isinstance(n, ast.Constant) and isinstance(n.value, int) and not isinstance(n.value, bool):
            return str(n.value) if n.value >= 0 else "(%d)" % n.value
        if isinstance(n, ast.Name):
            if n.id in self.env:
                return self.env[n.id]
            fail(n, "unknown name %s" % n.id)
        if isinstance(n, ast.UnaryOp) and isinstance(n.op, ast.USub):
            return "(- %s)" % self.tr(n.operand)
        if isinstance(n, ast.BinOp) and type(n.op) in BINOPS:
            return "(%s %s %s)" % (self.tr(n.left), BINOPS[type(n.op)], self.tr(n.right))
        if isinstance(n, ast.Call) and isinstance(n.func, ast.Name) and n.func.id == "min" \
                and len(n.args) == 2 and not n.keywords:
            return "(Z.min %s %s)" % (self.tr(n.args[0]), self.tr(n.args[1]))
        if isinstance(n, ast.Attribute):
            path = attr_path(n)
            if path in self.env:
                return self.env[path]
            if path == "self._dkd":
                return self.self_term
            if path.startswith("self.") and path[5:] in PROPS:
                return "(%s %s)" % (path[5:], self.self_term)
            fail(n, "unknown attribute %s" % path)
        fail(n, "expression outside the grammar: %s" % ast.dump(n)[:80])


def attr_path(n):
    parts = []
    while isinstance(n, ast.Attribute):
        parts.append(n.attr)
        n = n.value
    if isinstance(n, ast.Name):
        parts.append(n.id)
        return ".".join(reversed(parts))
    return "?"


def body_wo_doc(fn):
    b = fn.body
    if b and isinstance(b[0], ast.Expr) and isinstance(b[0].value, ast.Constant) and isinstance(b[0].value.value, str):
        b = b[1:]
    return b


def single_return(fn):
    b = body_wo_doc(fn)
    if len(b) != 1 or not isinstance(b[0], ast.Return) or b[0].value is None:
        fail(fn, "%s: expected a single return statement" % fn.name)
    return b[0].value


def is_isinstance(n, var, types):
    if not (isinstance(n, ast.Call) and isinstance(n.func, ast.Name) and n.func.id == "isinstance" and len(n.args) == 2):
        return False
    if not (isinstance(n.args[0], ast.Name) and n.args[0].id == var):
        return False
    t = n.args[1]
    names = [e.id for e in t.elts] if isinstance(t, ast.Tuple) and all(isinstance(e, ast.Name) for e in t.elts) \
        else ([t.id] if isinstance(t, ast.Name) else None)
    return names is not None and sorted(names) == sorted(types)


def slice_of(n, var):
    """dekad[:4] / dekad[4:6] / dekad[-1] -> ('slice', lo, hi) | ('index', k)"""
    if not (isinstance(n, ast.Subscript) and isinstance(n.value, ast.Name) and n.value.id == var):
        fail(n, "expected a subscript of %s" % var)
    s = n.slice

    def const(c):
        if c is None:
            return None
        if isinstance(c, ast.Constant) and isinstance(c.value, int):
            return c.value
        if isinstance(c, ast.UnaryOp) and isinstance(c.op, ast.USub) and isinstance(c.operand, ast.Constant):
            return -c.operand.value
        fail(c, "non-constant slice bound")
    if isinstance(s, ast.Slice):
        if s.step is not None:
            fail(n, "slice step")
        return ("slice", const(s.lower), const(s.upper))
    return ("index", const(s))


def translate(src):
    mod = ast.parse(src)
    classes = [n for n in mod.body if isinstance(n, ast.ClassDef) and n.name == "Dekad"]
    if len(classes) != 1:
        raise Untranslatable("class Dekad not found exactly once")
    cls = classes[0]
    methods = {}
    for item in cls.body:
        if isinstance(item, ast.FunctionDef):
            decos = [d.id if isinstance(d, ast.Name) else attr_path(d) for d in item.decorator_list]
            if "overload" in decos:
                continue
            if item.name in methods:
                fail(item, "method %s defined twice" % item.name)
            methods[item.name] = (item, decos)
        elif isinstance(item, (ast.Expr, ast.Assign)):
            if isinstance(item, ast.Assign):
                if not (len(item.targets) == 1 and isinstance(item.targets[0], ast.Name) and item.targets[0].id == "__slots__"):
                    fail(item, "unexpected class-level assignment")
        else:
            fail(item, "unexpected class-level statement")
    known = {"__init__", "year", "month", "day", "idx", "yidx", "raw", "__str__", "__repr__", "__hash__", "__eq__",
             "__lt__", "__gt__", "__le__", "__ge__", "start_date", "end_date", "date_range", "ndays", "__radd__",
             "__add__", "__sub__"}
    extra = set(methods) - known
    if extra:
        raise Untranslatable("methods outside the translated set: %s" % sorted(extra))
    missing = known - set(methods)
    if missing:
        raise Untranslatable("methods missing: %s" % sorted(missing))
    out = ["(* GENERATED by tools/translate_dekad.py from hdc/algo/dekad.py -- do not edit *)",
           "From Coq Require Import ZArith Bool List String.",
           "From HDC Require Import Base.Civil Base.PyStr.",
           "Import ListNotations.", "Open Scope Z_scope.", ""]

    # ---- __init__
    init, _ = methods["__init__"]
    args = [a.arg for a in init.args.args]
    if args != ["self", "dekad"]:
        fail(init, "__init__ signature")
    b = body_wo_doc(init)
    if len(b) != 1 or not isinstance(b[0], ast.If):
        fail(init, "__init__: expected one if/elif/else")
    if1 = b[0]
    if not is_isinstance(if1.test, "dekad", ["str"]):
        fail(if1, "__init__: first branch must test isinstance(dekad, str)")
    sb = if1.body
    # year, month, idx = int(dekad[:4]), int(dekad[4:6]), int(dekad[-1])
    if not (isinstance(sb[0], ast.Assign) and isinstance(sb[0].targets[0], ast.Tuple)
            and [e.id for e in sb[0].targets[0].elts] == ["year", "month", "idx"]
            and isinstance(sb[0].value, ast.Tuple) and len(sb[0].value.elts) == 3):
        fail(sb[0], "__init__ str branch: expected `year, month, idx = int(..), int(..), int(..)`")
    slices = []
    for e in sb[0].value.elts:
        if not (isinstance(e, ast.Call) and isinstance(e.func, ast.Name) and e.func.id == "int" and len(e.args) == 1):
            fail(e, "expected int(<slice>)")
        slices.append(slice_of(e.args[0], "dekad"))
    asserts = []
    k = 1
    while k < len(sb) and isinstance(sb[k], ast.Assert):
        t = sb[k].test
        if not (isinstance(t, ast.Compare) and len(t.ops) == 2 and all(isinstance(o, ast.LtE) for o in t.ops)
                and isinstance(t.comparators[0], ast.Name)):
            fail(sb[k], "assert outside the grammar (expected a <= name <= b)")
        ex = Expr({"year": "year", "month": "month", "idx": "idx"})
        asserts.append((t.comparators[0].id, ex.tr(t.left), ex.tr(t.comparators[1])))
        k += 1
    if not (k == len(sb) - 1 and isinstance(sb[k], ast.Assign) and attr_path(sb[k].targets[0]) == "self._dkd"):
        fail(if1, "__init__ str branch: expected final `self._dkd = ...`")
    e_str = Expr({"year": "year", "month": "month", "idx": "idx"}).tr(sb[k].value)
    out.append("(** str branch: fields are cut out by these slices of the label *)")

    def sl(s):
        if s[0] == "slice":
            return "(Slice %s %s)" % tuple("None" if v is None else "(Some %s)" % (v if v >= 0 else "(%d)" % v) for v in s[1:])
        return "(Index %s)" % (s[1] if s[1] >= 0 else "(%d)" % s[1])
    out.append("Definition str_slices : pyslice * pyslice * pyslice := (%s, %s, %s)." % tuple(sl(s) for s in slices))
    out.append("Definition of_ymd (year month idx : Z) : Z := %s." % e_str)
    conj = " && ".join("((%s <=? %s) && (%s <=? %s))" % (lo, v, v, hi) for v, lo, hi in asserts) or "true"
    out.append("Definition of_ymd_asserts (year month idx : Z) : bool := %s." % conj)
    # elif date/datetime
    if not (len(if1.orelse) == 1 and isinstance(if1.orelse[0], ast.If)):
        fail(if1, "__init__: expected elif")
    if2 = if1.orelse[0]
    if not is_isinstance(if2.test, "dekad", ["date", "datetime"]):
        fail(if2, "__init__: second branch must test isinstance(dekad, (date, datetime))")
    env = {}
    stm = if2.body
    if len(stm) == 2 and isinstance(stm[0], ast.Assign) and isinstance(stm[0].targets[0], ast.Name) \
            and isinstance(stm[0].value, ast.Name) and stm[0].value.id == "dekad":
        v = stm[0].targets[0].id
        stm = stm[1:]
    else:
        v = "dekad"
    env.update({v + ".year": "d_year", v + ".month": "d_month", v + ".day": "d_day"})
    if not (len(stm) == 1 and isinstance(stm[0], ast.Assign) and attr_path(stm[0].targets[0]) == "self._dkd"):
        fail(if2, "__init__ date branch: expected `self._dkd = ...`")
    out.append("Definition of_date (d_year d_month d_day : Z) : Z := %s." % Expr(env).tr(stm[0].value))
    # else
    el = if2.orelse
    if not (len(el) == 1 and isinstance(el[0], ast.Assign) and attr_path(el[0].targets[0]) == "self._dkd"
            and isinstance(el[0].value, ast.Name) and el[0].value.id == "dekad"):
        fail(if2, "__init__ else branch: expected `self._dkd = dekad`")
    out.append("Definition of_int (dekad : Z) : Z := dekad.")
    out.append("")

    # ---- integer properties
    for name in ["year", "month", "day", "idx", "yidx", "raw"]:
        fn, decos = methods[name]
        if decos != ["property"]:
            fail(fn, "%s must be a property" % name)
        out.append("Definition %s (dkd : Z) : Z := %s." % (name, Expr({}).tr(single_return(fn))))
    out.append("")

    # ---- comparisons
    for name, tag in [("__eq__", "cmp_eq"), ("__lt__", "cmp_lt"), ("__gt__", "cmp_gt"), ("__le__", "cmp_le"),
                      ("__ge__", "cmp_ge")]:
        fn, _ = methods[name]
        b = body_wo_doc(fn)
        ok = (len(b) == 3 and isinstance(b[0], ast.If) and is_isinstance(b[0].test, "other", ["str", "int", "datetime", "date"])
              and len(b[0].body) == 1 and not b[0].orelse
              and isinstance(b[1], ast.If) and isinstance(b[1].test, ast.UnaryOp) and isinstance(b[1].test.op, ast.Not)
              and is_isinstance(b[1].test.operand, "other", ["Dekad"])
              and isinstance(b[2], ast.Return) and isinstance(b[2].value, ast.Compare) and len(b[2].value.ops) == 1)
        if not ok:
            fail(fn, "%s: body outside the comparison template" % name)
        a0 = b[0].body[0]
        if not (isinstance(a0, ast.Assign) and isinstance(a0.value, ast.Call) and isinstance(a0.value.func, ast.Name)
                and a0.value.func.id == "Dekad" and isinstance(a0.value.args[0], ast.Name) and a0.value.args[0].id == "other"):
            fail(fn, "%s: expected `other = Dekad(other)`" % name)
        c = b[2].value
        if type(c.ops[0]) not in CMPOPS:
            fail(fn, "%s: comparison operator" % name)
        ex = Expr({"other._dkd": "other"}, self_term="dkd")
        out.append("Definition %s (dkd other : Z) : bool := (%s %s %s)." % (tag, ex.tr(c.left), CMPOPS[type(c.ops[0])],
                                                                          ex.tr(c.comparators[0])))
    # ---- hash: hash(<int expr of self>)
    fn, _ = methods["__hash__"]
    r = single_return(fn)
    if not (isinstance(r, ast.Call) and isinstance(r.func, ast.Name) and r.func.id == "hash" and len(r.args) == 1):
        fail(fn, "__hash__: expected hash(<expr>)")
    out.append("(** __hash__ = hash(hash_key): Python's hash is a function, so equal keys hash equally *)")
    out.append("Definition hash_key (dkd : Z) : Z := %s." % Expr({}).tr(r.args[0]))
    out.append("")

    # ---- arithmetic
    for name, tag in [("__add__", "add"), ("__radd__", "radd")]:
        fn, _ = methods[name]
        if [a.arg for a in fn.args.args] != ["self", "n"]:
            fail(fn, "%s signature" % name)
        r = single_return(fn)
        if not (isinstance(r, ast.Call) and isinstance(r.func, ast.Name) and r.func.id == "Dekad" and len(r.args) == 1):
            fail(fn, "%s: expected Dekad(<expr>)" % name)
        out.append("Definition %s (dkd n : Z) : Z := of_int %s." % (tag, Expr({"n": "n"}).tr(r.args[0])))
    fn, _ = methods["__sub__"]
    b = body_wo_doc(fn)
    ok = (len(b) == 2 and isinstance(b[0], ast.If) and is_isinstance(b[0].test, "other", ["int"]) and len(b[0].body) == 1
          and isinstance(b[0].body[0], ast.Return) and isinstance(b[1], ast.Return))
    if not ok:
        fail(fn, "__sub__: template")
    r = b[0].body[0].value
    if not (isinstance(r, ast.Call) and isinstance(r.func, ast.Name) and r.func.id == "Dekad"):
        fail(fn, "__sub__: expected Dekad(<expr>)")
    out.append("Definition sub_int (dkd other : Z) : Z := of_int %s." % Expr({"other": "other"}).tr(r.args[0]))
    out.append("Definition sub_dekad (dkd other : Z) : Z := %s." % Expr({"other._dkd": "other"}).tr(b[1].value))
    out.append("")

    # ---- dates
    fn, decos = methods["start_date"]
    r = single_return(fn)
    if not (isinstance(r, ast.Call) and isinstance(r.func, ast.Name) and r.func.id == "datetime" and len(r.args) == 3
            and not r.keywords):
        fail(fn, "start_date: expected datetime(y, m, d)")
    ymd = [Expr({}).tr(a) for a in r.args]
    out.append("Definition start_ymd (dkd : Z) : Z * Z * Z := (%s, %s, %s)." % tuple(ymd))
    out.append("Definition start_date (dkd : Z) : Z := datetime %s %s %s." % tuple(ymd))
    fn, _ = methods["end_date"]
    r = single_return(fn)
    # (self + k).start_date - timedelta(microseconds=u)
    ok = (isinstance(r, ast.BinOp) and isinstance(r.op, ast.Sub) and isinstance(r.left, ast.Attribute)
          and r.left.attr == "start_date" and isinstance(r.left.value, ast.BinOp) and isinstance(r.left.value.op, ast.Add)
          and isinstance(r.left.value.left, ast.Name) and r.left.value.left.id == "self")
    if not ok:
        fail(fn, "end_date: expected (self + k).start_date - timedelta(microseconds=u)")
    k = Expr({}).tr(r.left.value.right)
    out.append("Definition end_date (dkd : Z) : Z := start_date (add dkd %s) - %s." % (k, timedelta(r.right)))
    fn, _ = methods["ndays"]
    r = single_return(fn)
    ok = (isinstance(r, ast.Attribute) and r.attr == "days" and isinstance(r.value, ast.BinOp)
          and isinstance(r.value.op, ast.Add) and isinstance(r.value.left, ast.BinOp) and isinstance(r.value.left.op, ast.Sub)
          and attr_path(r.value.left.left) == "self.end_date" and attr_path(r.value.left.right) == "self.start_date")
    if not ok:
        fail(fn, "ndays: expected (self.end_date - self.start_date + timedelta(..)).days")
    out.append("Definition ndays (dkd : Z) : Z := timedelta_days (end_date dkd - start_date dkd + %s)." % timedelta(r.value.right))
    fn, _ = methods["date_range"]
    r = single_return(fn)
    if not (isinstance(r, ast.Tuple) and [attr_path(e) for e in r.elts] == ["self.start_date", "self.end_date"]):
        fail(fn, "date_range: expected (self.start_date, self.end_date)")
    out.append("Definition date_range (dkd : Z) : Z * Z := (start_date dkd, end_date dkd).")
    out.append("")

    # ---- __str__: f-string fields
    fn, _ = methods["__str__"]
    r = single_return(fn)
    if not isinstance(r, ast.JoinedStr):
        fail(fn, "__str__: expected an f-string")
    fields = []
    for v in r.values:
        if isinstance(v, ast.Constant) and isinstance(v.value, str):
            fields.append('FLit "%s"%%string' % v.value.replace('"', '""'))
        elif isinstance(v, ast.FormattedValue):
            term = Expr({}).tr(v.value)
            if v.conversion != -1:
                fail(v, "__str__: conversion")
            if v.format_spec is None:
                fields.append("FInt 0 %s" % term)
            else:
                fs = v.format_spec
                if not (isinstance(fs, ast.JoinedStr) and len(fs.values) == 1 and isinstance(fs.values[0], ast.Constant)):
                    fail(v, "__str__: format spec")
                spec = fs.values[0].value
                import re
                m = re.fullmatch(r"0(\d)d", spec)
                if not m:
                    fail(v, "__str__: format spec %r outside 0<w>d" % spec)
                fields.append("FInt %s %s" % (m.group(1), term))
        else:
            fail(v, "__str__: f-string part")
    out.append("Definition str_fields (dkd : Z) : list fmt_field := [%s]." % "; ".join(fields))
    fn, _ = methods["__repr__"]
    single_return(fn)
    out.append("")
    return "\n".join(out) + "\n"


def timedelta(n):
    if not (isinstance(n, ast.Call) and isinstance(n.func, ast.Name) and n.func.id == "timedelta" and not n.args
            and len(n.keywords) == 1 and n.keywords[0].arg == "microseconds"):
        fail(n, "expected timedelta(microseconds=k)")
    return "timedelta_us %s" % Expr({}).tr(n.keywords[0].value)


if __name__ == "__main__":
    src = open(sys.argv[1]).read()
    try:
        txt = translate(src)
    except Untranslatable as e:
        print("UNTRANSLATABLE:", e)
        sys.exit(2)
    open(sys.argv[2], "w").write(txt)
