(** Proofs about [Model/Rolling.v] (property C17). *)
From HDC Require Import Base.Prelude Base.ListLemmas Model.Rolling.
Open Scope Z_scope.

Definition is_valid (nd x : Z) : bool := negb (x =? nd).
Definition valid_cells (nd : Z) (l : list Z) : list Z := filter (is_valid nd) l.
Definition zsum (l : list Z) : Z := fold_right Z.add 0 l.
Definition zlen (l : list Z) : Z := Z.of_nat (length l).

Lemma fold_win_step nd l a k :
  fold_left (win_step nd) l (a, k) = (a + zsum (valid_cells nd l), k + zlen (valid_cells nd l)).
Proof.
  revert a k; induction l as [|x l IH]; intros a k; cbn [fold_left valid_cells filter zsum fold_right].
  - unfold zlen; simpl. f_equal; lia.
  - unfold win_step at 2, is_valid. destruct (x =? nd) eqn:E; cbn [negb fst snd].
    + apply IH.
    + rewrite IH. unfold valid_cells, zlen, zsum, is_valid. cbn [fold_right length]. f_equal; lia.
Qed.

(** The window really is the [ws] cells ending at [ii]. *)
Lemma window_length xx ii ws :
  (ws <= ii + 1)%nat -> (ii < length xx)%nat -> length (window xx ii ws) = ws.
Proof.
  intros H1 H2. unfold window. rewrite firstn_length, skipn_length. lia.
Qed.

Lemma window_nth xx ii ws k d :
  (ws <= ii + 1)%nat -> (k < ws)%nat ->
  nth k (window xx ii ws) d = nth (ii + 1 - ws + k) xx d.
Proof.
  intros H1 H2. unfold window. rewrite nth_firstn_lt by exact H2. apply nth_skipn'.
Qed.

(** Declarative value of one output position. *)
Definition rolling_spec (nd : Z) (win : list Z) : Z :=
  match valid_cells nd win with
  | [] => nd
  | v => zsum v
  end.

Lemma rolling_at_spec xx ws nd ii :
  (ws <= ii + 1)%nat ->
  rolling_at xx ws nd ii = rolling_spec nd (window xx ii ws).
Proof.
  intros H. unfold rolling_at.
  destruct (ii + 1 <? ws)%nat eqn:E; [apply Nat.ltb_lt in E; lia|].
  rewrite fold_win_step. cbn [fst snd]. unfold rolling_spec, zlen.
  destruct (valid_cells nd (window xx ii ws)) as [|v vs]; cbn [length].
  - reflexivity.
  - destruct (0 + Z.of_nat (S (length vs)) =? 0) eqn:E2; [apply Z.eqb_eq in E2; lia|]. lia.
Qed.

Lemma valid_cells_all nd l : Forall (fun x => x <> nd) l -> valid_cells nd l = l.
Proof.
  induction 1 as [|x l Hx _ IH]; [reflexivity|]. unfold valid_cells in *. cbn [filter]. unfold is_valid at 1.
  destruct (x =? nd) eqn:E; [apply Z.eqb_eq in E; contradiction|]. cbn [negb]. now rewrite IH.
Qed.

Lemma valid_cells_none nd l : Forall (fun x => x = nd) l -> valid_cells nd l = [].
Proof.
  induction 1 as [|x l Hx _ IH]; [reflexivity|]. unfold valid_cells in *. cbn [filter]. unfold is_valid at 1.
  rewrite Hx, Z.eqb_refl. exact IH.
Qed.

Lemma complete_window xx ws nd ii :
  (1 <= ws)%nat -> (ws <= ii + 1)%nat -> (ii < length xx)%nat ->
  Forall (fun x => x <> nd) (window xx ii ws) ->
  rolling_at xx ws nd ii = zsum (window xx ii ws).
Proof.
  intros H0 H1 H2 Hall. rewrite rolling_at_spec by exact H1. unfold rolling_spec.
  rewrite valid_cells_all by exact Hall.
  pose proof (window_length xx ii ws H1 H2) as L.
  destruct (window xx ii ws); [simpl in L; lia|reflexivity].
Qed.

Lemma all_nodata xx ws nd ii :
  (ws <= ii + 1)%nat -> Forall (fun x => x = nd) (window xx ii ws) ->
  rolling_at xx ws nd ii = nd.
Proof.
  intros H1 Hall. rewrite rolling_at_spec by exact H1. unfold rolling_spec.
  now rewrite valid_cells_none.
Qed.

Lemma mixed xx ws nd ii :
  (ws <= ii + 1)%nat ->
  rolling_at xx ws nd ii = nd \/ rolling_at xx ws nd ii = zsum (valid_cells nd (window xx ii ws)).
Proof.
  intros H1. rewrite rolling_at_spec by exact H1. unfold rolling_spec.
  destruct (valid_cells nd (window xx ii ws)); [left|right]; reflexivity.
Qed.

(** some valid cell => exactly the sum of the valid cells (stronger than the property asks) *)
Lemma mixed_sum xx ws nd ii :
  (ws <= ii + 1)%nat -> valid_cells nd (window xx ii ws) <> [] ->
  rolling_at xx ws nd ii = zsum (valid_cells nd (window xx ii ws)).
Proof.
  intros H1 Hne. rewrite rolling_at_spec by exact H1. unfold rolling_spec.
  destruct (valid_cells nd (window xx ii ws)); [contradiction|reflexivity].
Qed.

Lemma prefix_nodata xx ws nd ii : (ii + 1 < ws)%nat -> rolling_at xx ws nd ii = nd.
Proof.
  intros H. unfold rolling_at. destruct (ii + 1 <? ws)%nat eqn:E; [reflexivity|].
  apply Nat.ltb_ge in E. lia.
Qed.

Lemma rolling_sum_length xx ws nd : length (rolling_sum xx ws nd) = length xx.
Proof. unfold rolling_sum. now rewrite map_length, seq_length. Qed.

Lemma rolling_sum_nth xx ws nd i :
  (i < length xx)%nat -> nth i (rolling_sum xx ws nd) 0 = rolling_at xx ws nd i.
Proof.
  intros H. unfold rolling_sum.
  rewrite (nth_indep _ 0 (rolling_at xx ws nd 0)) by now rewrite map_length, seq_length.
  rewrite map_nth, seq_nth by exact H. reflexivity.
Qed.

Lemma accessor_length xx ws nd :
  length (rolling_accessor xx ws nd) = (length xx - (ws - 1))%nat.
Proof. unfold rolling_accessor. now rewrite skipn_length, rolling_sum_length. Qed.

Lemma accessor_nth xx ws nd k :
  (k + (ws - 1) < length xx)%nat ->
  nth k (rolling_accessor xx ws nd) 0 = rolling_at xx ws nd (k + (ws - 1)).
Proof.
  intros H. unfold rolling_accessor. rewrite nth_skipn'.
  rewrite rolling_sum_nth by lia. f_equal; lia.
Qed.

(** *** Independence of the numeric nodata value.  A series is abstracted to its cells
    ([None] = missing); two encodings of the same cells give the same result up to the echo. *)
Definition cell (nd x : Z) : option Z := if x =? nd then None else Some x.
Definition cells (nd : Z) (l : list Z) : list (option Z) := map (cell nd) l.

Fixpoint present (l : list (option Z)) : list Z :=
  match l with [] => [] | None :: r => present r | Some x :: r => x :: present r end.

Lemma valid_cells_present nd l : valid_cells nd l = present (cells nd l).
Proof.
  induction l as [|x l IH]; [reflexivity|]. unfold valid_cells, cells in *. cbn [filter map].
  unfold is_valid at 1, cell at 1. destruct (x =? nd); cbn [negb present]; now rewrite IH.
Qed.

Lemma cells_window nd xx ii ws :
  cells nd (window xx ii ws) = firstn ws (skipn (ii + 1 - ws) (cells nd xx)).
Proof. unfold cells, window. now rewrite skipn_map, firstn_map. Qed.

Definition echo (nd : Z) (o : option Z) : Z := match o with None => nd | Some s => s end.

Definition abstract_out (c : list (option Z)) : option Z :=
  match present c with [] => None | v => Some (zsum v) end.

Lemma rolling_at_abstract xx ws nd ii :
  (ws <= ii + 1)%nat ->
  rolling_at xx ws nd ii = echo nd (abstract_out (firstn ws (skipn (ii + 1 - ws) (cells nd xx)))).
Proof.
  intros H. rewrite rolling_at_spec by exact H. unfold rolling_spec, abstract_out.
  rewrite <- cells_window, <- valid_cells_present.
  destruct (valid_cells nd (window xx ii ws)); reflexivity.
Qed.

Lemma nodata_value_indep xx1 xx2 nd1 nd2 ws ii :
  cells nd1 xx1 = cells nd2 xx2 -> (ws <= ii + 1)%nat ->
  exists o, rolling_at xx1 ws nd1 ii = echo nd1 o /\ rolling_at xx2 ws nd2 ii = echo nd2 o.
Proof.
  intros E H. exists (abstract_out (firstn ws (skipn (ii + 1 - ws) (cells nd1 xx1)))).
  split; [now apply rolling_at_abstract|]. rewrite E. now apply rolling_at_abstract.
Qed.

(** *** mean_grp *)
Definition members (xx groups : list Z) (g : Z) : list Z :=
  map fst (filter (fun p => snd p =? g) (combine xx groups)).

Lemma fold_grp_step nd g l a k :
  fold_left (grp_step nd g) l (a, k) =
  (a + zsum (valid_cells nd (map fst (filter (fun p => snd p =? g) l))),
   k + zlen (valid_cells nd (map fst (filter (fun p => snd p =? g) l)))).
Proof.
  revert a k; induction l as [|[x h] l IH]; intros a k; cbn [fold_left filter map].
  - unfold zlen; simpl. f_equal; lia.
  - unfold grp_step at 2. cbn [snd]. destruct (h =? g) eqn:E.
    + cbn [map fst valid_cells filter]. unfold is_valid. destruct (x =? nd) eqn:E2; cbn [negb fst snd].
      * apply IH.
      * rewrite IH. unfold valid_cells, zlen, zsum, is_valid. cbn [fold_right length]. f_equal; lia.
    + apply IH.
Qed.

Definition mean_spec (nd : Z) (mem : list Z) : mcell :=
  match valid_cells nd mem with
  | [] => NoData
  | v => Mean (zsum v) (zlen v)
  end.

Lemma mean_grp_at_spec xx groups ng nd g :
  0 <= g < ng -> mean_grp_at xx groups ng nd g = mean_spec nd (members xx groups g).
Proof.
  intros Hg. unfold mean_grp_at.
  destruct ((0 <=? g) && (g <? ng)) eqn:E.
  2:{ apply andb_false_iff in E as [E|E]; [apply Z.leb_gt in E|apply Z.ltb_ge in E]; lia. }
  unfold grp_acc. rewrite fold_grp_step. cbn [fst snd]. unfold mean_spec, members, zlen.
  destruct (valid_cells nd _) as [|v vs]; cbn [length].
  - reflexivity.
  - destruct (0 + Z.of_nat (S (length vs)) =? 0) eqn:E2; [apply Z.eqb_eq in E2; lia|].
    f_equal; lia.
Qed.

Lemma mean_grp_nth xx groups ng nd i :
  (i < length xx)%nat -> length groups = length xx ->
  nth i (mean_grp xx groups ng nd) Unwritten = mean_grp_at xx groups ng nd (nth i groups 0).
Proof.
  intros H L. unfold mean_grp. rewrite <- L, firstn_all.
  rewrite (nth_indep _ Unwritten (mean_grp_at xx groups ng nd 0)) by (rewrite map_length; lia).
  now rewrite map_nth.
Qed.

(** every output cell is written when all labels are in range (C14 uses this) *)
Lemma mean_grp_all_written xx groups ng nd :
  length groups = length xx -> Forall (fun g => 0 <= g < ng) groups ->
  Forall (fun c => c <> Unwritten) (mean_grp xx groups ng nd).
Proof.
  intros L H. unfold mean_grp. rewrite <- L, firstn_all. apply Forall_map.
  eapply Forall_impl; [|exact H]. intros g Hg. cbn beta. rewrite mean_grp_at_spec by exact Hg.
  unfold mean_spec. destruct (valid_cells nd _); discriminate.
Qed.

Lemma members_cells nd1 nd2 xx1 xx2 groups g :
  cells nd1 xx1 = cells nd2 xx2 ->
  cells nd1 (members xx1 groups g) = cells nd2 (members xx2 groups g).
Proof.
  unfold members, cells. revert xx2 groups; induction xx1 as [|x xx1 IH]; intros [|y xx2] [|h groups] E;
    try reflexivity; try discriminate.
  cbn in E. injection E as E1 E2. cbn [combine filter snd]. destruct (h =? g); cbn [map fst].
  - rewrite E1. f_equal. now apply IH.
  - now apply IH.
Qed.

Definition mean_abstract (c : list (option Z)) : mcell :=
  match present c with [] => NoData | v => Mean (zsum v) (zlen v) end.

Lemma mean_spec_abstract nd mem : mean_spec nd mem = mean_abstract (cells nd mem).
Proof. unfold mean_spec, mean_abstract. now rewrite valid_cells_present. Qed.

Lemma mean_grp_nodata_value_indep xx1 xx2 nd1 nd2 groups ng g :
  cells nd1 xx1 = cells nd2 xx2 -> 0 <= g < ng ->
  mean_grp_at xx1 groups ng nd1 g = mean_grp_at xx2 groups ng nd2 g.
Proof.
  intros E Hg. rewrite !mean_grp_at_spec by exact Hg. rewrite !mean_spec_abstract.
  now rewrite (members_cells nd1 nd2 xx1 xx2 groups g E).
Qed.

(** ** locality: an output cell is a function of its own window, wherever the window sits *)
Lemma rolling_at_local xx yy ws nd ii jj :
  (ws <= ii + 1)%nat -> (ws <= jj + 1)%nat -> window xx ii ws = window yy jj ws ->
  rolling_at xx ws nd ii = rolling_at yy ws nd jj.
Proof.
  intros Hi Hj H. unfold rolling_at.
  destruct (Nat.ltb_spec (ii + 1) ws); [lia|]. destruct (Nat.ltb_spec (jj + 1) ws); [lia|]. now rewrite H.
Qed.

Lemma window_prefix pre xx ws ii :
  (ws <= ii + 1)%nat -> window (pre ++ xx) (length pre + ii) ws = window xx ii ws.
Proof.
  intros H. unfold window. f_equal. rewrite skipn_app.
  rewrite skipn_all2 by lia. cbn [app]. f_equal. lia.
Qed.

(** history before the window is irrelevant: prepending any earlier data leaves every complete-window sum unchanged *)
Theorem rolling_at_prefix pre xx ws nd ii :
  (ws <= ii + 1)%nat -> rolling_at (pre ++ xx) ws nd (length pre + ii) = rolling_at xx ws nd ii.
Proof. intros H. apply rolling_at_local; [lia|lia|now apply window_prefix]. Qed.

(** the future is irrelevant as well: appending later data changes no earlier output *)
Theorem rolling_at_suffix xx post ws nd ii :
  (ii < length xx)%nat -> rolling_at (xx ++ post) ws nd ii = rolling_at xx ws nd ii.
Proof.
  intros H. unfold rolling_at. destruct (Nat.ltb_spec (ii + 1) ws) as [|Hw]; [reflexivity|].
  replace (window (xx ++ post) ii ws) with (window xx ii ws); [reflexivity|].
  unfold window. rewrite skipn_app, firstn_app.
  replace (ii + 1 - ws - length xx)%nat with 0%nat by lia. cbn [skipn].
  replace (ws - length (skipn (ii + 1 - ws) xx))%nat with 0%nat by (rewrite skipn_length; lia).
  cbn [firstn]. now rewrite app_nil_r.
Qed.
