(** Vocabulary of the generated index-safety obligations (gen/C14Gen.v, written by tools/vcgen.py):
    Python's slice arithmetic and the tactic that closes an obligation. *)
From Coq Require Import ZArith Lia.
Open Scope Z_scope.

(** bound of a slice after Python's normalisation: negative counts from the end, then clamp to [0, d] *)
Definition pynorm (x d : Z) : Z := if x <? 0 then Z.max 0 (x + d) else Z.min x d.
(** len(a[l:u]) for len(a) = d *)
Definition slice_len (d l u : Z) : Z := Z.max 0 (pynorm u d - pynorm l d).

Lemma slice_len_le d l u : 0 <= d -> 0 <= slice_len d l u <= d.
Proof. unfold slice_len, pynorm. intros. destruct (Z.ltb_spec u 0), (Z.ltb_spec l 0); lia. Qed.

Ltac vc_split :=
  repeat match goal with
         | H : _ /\ _ |- _ => destruct H
         | H : exists _, _ |- _ => destruct H
         end.

Ltac vc_tac :=
  intros; unfold slice_len, pynorm in *;
  repeat match goal with
         | H : context [?a <? ?b] |- _ => destruct (Z.ltb_spec a b)
         | |- context [?a <? ?b] => destruct (Z.ltb_spec a b)
         end;
  vc_split; lia.
