(** C06, lifted through lambda selection: the symmetric V-curve smoother commutes with adding a constant -
    the reported lambda is the same and the curve moves by the constant. (For the asymmetric variants the
    iteration starts from the zero curve, which is not shift-invariant; the law is checked on the implementation
    with the property's tie rule, not proved.) *)
From Coq Require Import ZArith Reals Lra Lia List Bool.
From HDC Require Import Base.Prelude Base.Ops Model.Ws2d Model.Smoothers Model.VCurve Proofs.Ws2dIndex Proofs.RSums Proofs.Penalty
  Proofs.Ws2dReal Proofs.Ws2dLaws.
Import ListNotations.
Open Scope R_scope.

Definition shiftl (c : R) (l : list R) : list R := map (fun v => v + c) l.

Section Lift.
  Variables (y w : list R) (c : R).
  Hypothesis Hl : length w = length y.
  Hypothesis Hn : (4 <= length y)%nat.
  Hypothesis Wn : forall i, (0 <= i < Z.of_nat (length y))%Z -> 0 <= Wk w i.
  Hypothesis W2 : exists p q, (0 <= p < q)%Z /\ (q < Z.of_nat (length y))%Z /\ 0 < Wk w p /\ 0 < Wk w q.

  Lemma ws2d_shift_list lam : 0 < lam -> ws2d OpsR (shiftl c y) lam w = shiftl c (ws2d OpsR y lam w).
  Proof.
    intros Hlam. unfold shiftl.
    assert (length (map (fun v => v + c) y) = length y) as Ly by apply map_length.
    assert (length (ws2d OpsR (map (fun v => v + c) y) lam w) = length y) as L1 by (rewrite ws2d_length; rewrite ?Ly; lia).
    assert (length (ws2d OpsR y lam w) = length y) as L2 by (apply ws2d_length; lia).
    apply (nth_ext _ _ 0 0).
    - rewrite map_length. congruence.
    - intros k Hk. rewrite L1 in Hk.
      pose proof (ws2d_shift y w lam c Hl Hn Wn Hlam W2 (Z.of_nat k) ltac:(lia)) as E.
      unfold Zk in E. rewrite !vecZ_in in E by (rewrite ?L1, ?L2; lia). rewrite Nat2Z.id in E.
      rewrite E. rewrite (nth_indep (map (fun v => v + c) (ws2d OpsR y lam w)) 0 (0 + c)) by (rewrite map_length, L2; lia).
      symmetry. apply (map_nth (fun v => v + c)).
  Qed.

  (** residual sums and second differences do not see the constant *)
  Lemma log_fit_shift_gen (w0 : list R) : forall (y0 z0 : list R) acc,
    fold_left (fun acc t => let '(wi, (yi, zi)) := t in fadd OpsR acc (sq OpsR (fmul OpsR wi (fsub OpsR yi zi))))
              (combine w0 (combine (shiftl c y0) (shiftl c z0))) acc =
    fold_left (fun acc t => let '(wi, (yi, zi)) := t in fadd OpsR acc (sq OpsR (fmul OpsR wi (fsub OpsR yi zi))))
              (combine w0 (combine y0 z0)) acc.
  Proof.
    induction w0 as [|a w' IH]; intros [|b y'] [|d z'] acc; try reflexivity.
    cbn [shiftl map combine fold_left]. cbn [fsub OpsR]. replace (b + c - (d + c)) with (b - d) by ring. apply IH.
  Qed.

  Lemma log_fit_shift z : log_fit OpsR w (shiftl c y) (shiftl c z) = log_fit OpsR w y z.
  Proof. unfold log_fit. f_equal. apply log_fit_shift_gen. Qed.

  Lemma diffs_shift z : diffs OpsR (shiftl c z) = diffs OpsR z.
  Proof.
    induction z as [|a [|b r] IH]; try reflexivity.
    change (shiftl c (a :: b :: r)) with ((a + c) :: shiftl c (b :: r)).
    change (shiftl c (b :: r)) with ((b + c) :: shiftl c r) in *.
    cbn [diffs]. cbn [fsub OpsR]. replace (b + c - (a + c)) with (b - a) by ring. f_equal. exact IH.
  Qed.

  Lemma log_pen_shift z : log_pen OpsR (shiftl c z) = log_pen OpsR z.
  Proof. unfold log_pen. now rewrite diffs_shift. Qed.

  Theorem optv_core_shift llas :
    optv_core OpsR (shiftl c y) w llas =
    match optv_core OpsR y w llas with
    | VFit z lopt => VFit (shiftl c z) lopt
    | r => r
    end.
  Proof.
    unfold optv_core.
    assert (forall l, 0 < fpow10 OpsR l) as P by (intros l; cbn; apply exp_pos).
    assert (map (fun l => ws2d OpsR (shiftl c y) (fpow10 OpsR l) w) llas = map (shiftl c) (map (fun l => ws2d OpsR y (fpow10 OpsR l) w) llas)) as ->.
    { rewrite map_map. apply map_ext. intros l. apply ws2d_shift_list. apply P. }
    set (zs := map (fun l => ws2d OpsR y (fpow10 OpsR l) w) llas).
    assert (forall z, In z zs -> length z = length y) as Lz.
    { intros z Hz. unfold zs in Hz. apply in_map_iff in Hz as (l & <- & _). apply ws2d_length; lia. }
    assert (map (log_fit OpsR w (shiftl c y)) (map (shiftl c) zs) = map (log_fit OpsR w y) zs) as ->.
    { rewrite map_map. apply map_ext. intros z. apply log_fit_shift. }
    assert (map (log_pen OpsR) (map (shiftl c) zs) = map (log_pen OpsR) zs) as ->.
    { rewrite map_map. apply map_ext. intros z. apply log_pen_shift. }
    unfold lopt_of. destruct (select OpsR (vcurve OpsR (llastep OpsR llas) llas (map (log_fit OpsR w y) zs) (map (log_pen OpsR) zs))) as [[v lamid]|]; [|reflexivity].
    f_equal. apply ws2d_shift_list. apply P.
  Qed.
End Lift.

(** ** reversal of time, lifted through the symmetric V-curve selection *)
Section LiftRev.
  Variables (y w : list R).
  Hypothesis Hl : length w = length y.
  Hypothesis Hn : (4 <= length y)%nat.
  Hypothesis Wn : forall i, (0 <= i < Z.of_nat (length y))%Z -> 0 <= Wk w i.
  Hypothesis W2 : exists p q, (0 <= p < q)%Z /\ (q < Z.of_nat (length y))%Z /\ 0 < Wk w p /\ 0 < Wk w q.

  Lemma ws2d_rev_list lam : 0 < lam -> ws2d OpsR (rev y) lam (rev w) = rev (ws2d OpsR y lam w).
  Proof.
    intros Hlam.
    assert (length (rev y) = length y) as Ly by apply rev_length.
    assert (length (rev w) = length (rev y)) as Lw by (rewrite !rev_length; exact Hl).
    assert (length (ws2d OpsR (rev y) lam (rev w)) = length y) as L1 by (rewrite ws2d_length; rewrite ?Ly; lia).
    assert (length (ws2d OpsR y lam w) = length y) as L2 by (apply ws2d_length; lia).
    apply (nth_ext _ _ 0 0).
    - rewrite rev_length. congruence.
    - intros k Hk. rewrite L1 in Hk.
      pose proof (ws2d_rev y w lam Hl Hn Wn Hlam W2 (Z.of_nat k) ltac:(lia)) as E.
      unfold Zk in E. rewrite !vecZ_in in E by (rewrite ?L1, ?L2; lia). rewrite Nat2Z.id in E.
      rewrite E. rewrite rev_nth by (rewrite L2; lia). rewrite L2. f_equal. lia.
  Qed.

  (** a sum does not depend on the order of its terms *)
  Lemma fold_add_rev {A} (g : R -> A -> R) (f : A -> R) : (forall a t, g a t = a + f t) ->
    forall (l : list A) acc, fold_left g (rev l) acc = fold_left g l acc.
  Proof.
    intros Hg.
    assert (forall l acc, fold_left g l acc = acc + fold_left g l 0) as Sh.
    { induction l as [|x r IH]; intros acc; cbn [fold_left]; [ring|]. rewrite IH, (IH (g 0 x)), !Hg. ring. }
    induction l as [|x r IH]; intros acc; [reflexivity|]. cbn [rev]. rewrite fold_left_app. cbn [fold_left].
    rewrite IH. rewrite (Sh r acc), (Sh r (g acc x)), !Hg. ring.
  Qed.

  Lemma combine_rev3 (a b c : list R) : length a = length b -> length b = length c ->
    combine (rev a) (combine (rev b) (rev c)) = rev (combine a (combine b c)).
  Proof.
    intros H1 H2.
    assert (forall (X Y : Type) (p : list X) (q : list Y), length p = length q -> combine (rev p) (rev q) = rev (combine p q)) as CR.
    { clear. intros X Y p. induction p as [|x p IH]; intros [|y q] H; cbn [length] in H; try lia; [reflexivity|].
      cbn [rev combine]. rewrite <- IH by lia.
      assert (forall (p' : list X) (q' : list Y) x y, length p' = length q' -> combine (p' ++ [x]) (q' ++ [y]) = combine p' q' ++ [(x, y)]) as CA.
      { clear. induction p' as [|a p' IH]; intros [|b q'] x y H; cbn [length] in H; try lia; [reflexivity|]. cbn. f_equal. apply IH. lia. }
      apply CA. rewrite !rev_length. lia. }
    rewrite (CR _ _ b c H2). apply CR. rewrite combine_length. lia.
  Qed.

  Lemma log_fit_rev z : length z = length y -> log_fit OpsR (rev w) (rev y) (rev z) = log_fit OpsR w y z.
  Proof.
    intros Hz. unfold log_fit. f_equal. rewrite combine_rev3 by congruence.
    apply (fold_add_rev _ (fun t : R * (R * R) => let '(wi, (yi, zi)) := t in sq OpsR (fmul OpsR wi (fsub OpsR yi zi)))).
    intros a [wi [yi zi]]. reflexivity.
  Qed.

  Lemma diffs_app_one (l : list R) a b : diffs OpsR (l ++ [a; b]) = diffs OpsR (l ++ [a]) ++ [b - a].
  Proof.
    induction l as [|x [|x' r] IH]; [reflexivity|reflexivity|].
    change ((x :: x' :: r) ++ [a; b]) with (x :: ((x' :: r) ++ [a; b])).
    change ((x :: x' :: r) ++ [a]) with (x :: ((x' :: r) ++ [a])).
    cbn [diffs app] in *. rewrite IH. reflexivity.
  Qed.

  Lemma diffs_rev (l : list R) : diffs OpsR (rev l) = map Ropp (rev (diffs OpsR l)).
  Proof.
    induction l as [|a [|b r] IH]; [reflexivity|reflexivity|].
    change (diffs OpsR (a :: b :: r)) with ((b - a) :: diffs OpsR (b :: r)).
    cbn [rev] in *. rewrite <- app_assoc. cbn [app]. rewrite diffs_app_one. rewrite IH.
    rewrite map_app. cbn [map]. f_equal. f_equal. ring.
  Qed.

  Lemma diffs_map_opp (l : list R) : diffs OpsR (map Ropp l) = map Ropp (diffs OpsR l).
  Proof.
    induction l as [|a [|b r] IH]; [reflexivity|reflexivity|].
    change (map Ropp (a :: b :: r)) with (- a :: map Ropp (b :: r)). change (map Ropp (b :: r)) with (- b :: map Ropp r) in *.
    cbn [diffs map]. cbn [fsub OpsR]. f_equal; [ring|exact IH].
  Qed.

  Lemma diffs2_rev (z : list R) : diffs OpsR (diffs OpsR (rev z)) = rev (diffs OpsR (diffs OpsR z)).
  Proof.
    rewrite (diffs_rev z), diffs_map_opp, (diffs_rev (diffs OpsR z)), map_map.
    rewrite (map_ext (fun x => - - x) (fun x => x)) by (intros; ring). now rewrite map_id.
  Qed.

  Lemma log_pen_rev z : log_pen OpsR (rev z) = log_pen OpsR z.
  Proof.
    unfold log_pen. f_equal. rewrite diffs2_rev.
    apply (fold_add_rev _ (fun d => sq OpsR d)). intros; reflexivity.
  Qed.

  Theorem optv_core_rev llas :
    optv_core OpsR (rev y) (rev w) llas =
    match optv_core OpsR y w llas with
    | VFit z lopt => VFit (rev z) lopt
    | r => r
    end.
  Proof.
    unfold optv_core.
    assert (forall l, 0 < fpow10 OpsR l) as P by (intros l; cbn; apply exp_pos).
    assert (map (fun l => ws2d OpsR (rev y) (fpow10 OpsR l) (rev w)) llas = map (@rev R) (map (fun l => ws2d OpsR y (fpow10 OpsR l) w) llas)) as ->.
    { rewrite map_map. apply map_ext. intros l. apply ws2d_rev_list. apply P. }
    set (zs := map (fun l => ws2d OpsR y (fpow10 OpsR l) w) llas).
    assert (forall z, In z zs -> length z = length y) as Lz.
    { intros z Hz. unfold zs in Hz. apply in_map_iff in Hz as (l & <- & _). apply ws2d_length; lia. }
    assert (map (log_fit OpsR (rev w) (rev y)) (map (@rev R) zs) = map (log_fit OpsR w y) zs) as ->.
    { rewrite map_map. apply map_ext_in. intros z Hz. apply log_fit_rev. apply Lz. exact Hz. }
    assert (map (log_pen OpsR) (map (@rev R) zs) = map (log_pen OpsR) zs) as ->.
    { rewrite map_map. apply map_ext. intros z. apply log_pen_rev. }
    unfold lopt_of. destruct (select OpsR (vcurve OpsR (llastep OpsR llas) llas (map (log_fit OpsR w y) zs) (map (log_pen OpsR) zs))) as [[v lamid]|]; [|reflexivity].
    f_equal. apply ws2d_rev_list. apply P.
  Qed.
End LiftRev.

(** ** the offset law through the (non-robust) GCV selection: the scan over the lambda grid sees the same scores *)
From HDC Require Import Model.Gcv.

Section LiftGcv.
  Variable K : gconsts (F := R).
  Variables (y wt : list R) (c : R).
  Hypothesis Hl : length wt = length y.
  Hypothesis Hn : (4 <= length y)%nat.
  Hypothesis Wn : forall i, (0 <= i < Z.of_nat (length y))%Z -> 0 <= Wk wt i.
  Hypothesis W2 : exists p q, (0 <= p < q)%Z /\ (q < Z.of_nat (length y))%Z /\ 0 < Wk wt p /\ 0 < Wk wt q.

  Lemma gcv_score_shift de s z : gcv_score OpsR de s wt (shiftl c y) (shiftl c z) = gcv_score OpsR de s wt y z.
  Proof.
    unfold gcv_score. f_equal. f_equal. clear.
    revert y z. induction wt as [|a w' IH]; intros [|b y'] [|d z']; try reflexivity.
    cbn [shiftl map combine]. cbn [fsub OpsR]. replace (b + c - (d + c)) with (b - d) by ring. f_equal. apply IH.
  Qed.

  Lemma gcv_scan_shift de lams : (forall s, In s lams -> 0 < s) -> forall sc0 s0 z0,
    gcv_scan OpsR de wt (shiftl c y) lams (sc0, s0, shiftl c z0) =
    (let '(sc, s, z) := gcv_scan OpsR de wt y lams (sc0, s0, z0) in (sc, s, shiftl c z)).
  Proof.
    induction lams as [|s r IH]; intros Hp sc0 s0 z0; cbn [gcv_scan]; [reflexivity|].
    assert (0 < s) as Hs by (apply Hp; left; reflexivity).
    rewrite (ws2d_shift_list y wt c Hl Hn Wn W2 s Hs). rewrite gcv_score_shift. cbn [fst].
    destruct (fltb OpsR (gcv_score OpsR de s wt y (ws2d OpsR y s wt)) sc0); apply IH; intros; apply Hp; right; assumption.
  Qed.
End LiftGcv.
