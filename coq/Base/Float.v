(** IEEE binary64 helpers on Coq's primitive floats: bitwise equality, exact conversions
    from/to [Z], rounding to binary32 (float32 stores) and round-half-even to an integer.
    Only [PrimFloat]/[Uint63]/[SpecFloat]/[FloatOps] are imported (not [Floats]), so no
    axiom enters through this file: everything here is *computed with*. *)
From Coq Require Import ZArith List Bool.
From Coq Require Import Uint63 PrimFloat SpecFloat FloatOps.
Import ListNotations.

Definition sf_eqb (a b : spec_float) : bool :=
  match a, b with
  | S754_zero s, S754_zero t => Bool.eqb s t
  | S754_infinity s, S754_infinity t => Bool.eqb s t
  | S754_nan, S754_nan => true
  | S754_finite s m e, S754_finite t n f => Bool.eqb s t && Pos.eqb m n && Z.eqb e f
  | _, _ => false
  end.

(** Same IEEE datum (NaN payloads are not distinguished; +0 and -0 are). *)
Definition feq_bits (x y : float) : bool := sf_eqb (Prim2SF x) (Prim2SF y).

(** Same value where an integer store follows (-0 = +0). *)
Definition feq_val (x y : float) : bool :=
  (is_nan x && is_nan y) || PrimFloat.eqb x y.

Fixpoint flist_eq_bits (a b : list float) : bool :=
  match a, b with
  | [], [] => true
  | x :: a', y :: b' => feq_bits x y && flist_eq_bits a' b'
  | _, _ => false
  end.

(** Correctly rounded conversion of any integer to binary64 (exact below 2^53). *)
Definition f_of_Z (z : Z) : float := SF2Prim (binary_normalize prec emax z 0 false).

(** Round a binary64 value to the binary32 grid (round-to-nearest-even, binary32 subnormals
    and overflow to infinity included); the result is again represented in binary64. *)
Definition to_f32 (x : float) : float :=
  match Prim2SF x with
  | S754_finite s m e => SF2Prim (binary_round 24 128 s m e)
  | _ => x
  end.

(** Round half to even to an integer ([np.round(.,0)], Python [round]); [None] for NaN/inf. *)
Definition rne_pos (m : positive) (e : Z) : Z :=
  match e with
  | Z0 => Zpos m
  | Zpos _ => Zpos m * 2 ^ e
  | Zneg k =>
      let d := (2 ^ Zpos k)%Z in
      let q := (Zpos m / d)%Z in
      let r := (Zpos m mod d)%Z in
      match (2 * r ?= d)%Z with
      | Lt => q
      | Gt => (q + 1)%Z
      | Eq => if Z.even q then q else (q + 1)%Z
      end
  end.

Definition f_rne (x : float) : option Z :=
  match Prim2SF x with
  | S754_zero _ => Some 0%Z
  | S754_finite s m e => Some (if s then (- rne_pos m e)%Z else rne_pos m e)
  | _ => None
  end.

(** Exact value of a finite float as a pair (numerator, power-of-two exponent): x = n * 2^e. *)
Definition f_dyadic (x : float) : option (Z * Z) :=
  match Prim2SF x with
  | S754_zero _ => Some (0%Z, 0%Z)
  | S754_finite s m e => Some ((if s then Zneg m else Zpos m), e)
  | _ => None
  end.

(** float64 -> int16 store as the compiled code performs it for in-range finite values.
    Out-of-range and non-finite values are undefined behaviour in C; callers decide. *)
Definition in_int16 (z : Z) : bool := (Z.leb (-32768) z && Z.leb z 32767)%Z.
