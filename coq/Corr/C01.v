(** Correspondence cases for C01: the binary64 instance of the model against the compiled ws2d. *)
From HDC Require Import Base.Prelude Base.Float Base.Ops Model.Ws2d.
From Coq Require Import PrimFloat.
Record wcase := WC { w_y : list float; w_l : float; w_w : list float; w_out : list float }.
Definition check_ws2d (c : wcase) : bool :=
  flist_eq_bits (ws2d (OpsF no_oracles) (w_y c) (w_l c) (w_w c)) (w_out c).
