(** Correspondence cases for C16 (zonal mean). *)
From HDC Require Import Base.Prelude Base.Float Base.Ops Model.Zonal.
From Coq Require Import PrimFloat.
Open Scope Z_scope.

(** pixels (integral values), their zone ids, nodata values, number of zones, float32 output?,
    observed (mean, count) per zone; a NaN mean is [nan] *)
Record zcase := ZC { z_pix : list Z; z_zone : list Z; z_nd : Z; z_znd : Z; z_n : nat; z_f32 : bool;
                     z_out : list (float * float) }.

Definition cells (c : zcase) : list (option float * option Z) :=
  map (fun pz => ((if fst pz =? z_nd c then None else Some (f_of_Z (fst pz))),
                  (if snd pz =? z_znd c then None else Some (snd pz)))) (combine (z_pix c) (z_zone c)).

Definition store (f32 : bool) (x : float) : float := if f32 then to_f32 x else x.

Fixpoint out_eq (f32 : bool) (m : list (option float * float)) (o : list (float * float)) : bool :=
  match m, o with
  | [], [] => true
  | (mm, mc) :: m', (om, oc) :: o' =>
      feq_val (store f32 (match mm with Some v => v | None => nan end)) om && feq_val (store f32 mc) oc && out_eq f32 m' o'
  | _, _ => false
  end.

Definition check_zonal (c : zcase) : bool :=
  out_eq (z_f32 c) (do_mean (OpsF no_oracles) (z_n c) (cells c)) (z_out c).
