(** Model of the Mann-Kendall functions of [hdc/algo/ops/stats.py]: [mk_score], [mk_variance_s],
    [mk_z_score], [mk_p_value], [mk_sens_slope], [mann_kendall_trend_1d] and the two gufunc
    wrappers.  The combinatorial part (S, tie-corrected variance numerator) is exact over [Z];
    the floating-point part is executed in binary64 ([PrimFloat]) exactly as the compiled code
    does, with [erf] entering as a recorded oracle value and the float32/int8 stores on top.
    Executable definitions only. *)
From HDC Require Import Base.Prelude Base.Float Model.Calib.
From Coq Require Import PrimFloat.
Open Scope Z_scope.

(** ** exact part *)
(** contribution of the pair (x[k], x[kk]), k < kk: +1 if x[kk] > x[k], -1 if x[kk] < x[k] *)
Definition sgn_pair (a b : Z) : Z := if b >? a then 1 else if b <? a then -1 else 0.
Fixpoint row_s (a : Z) (r : list Z) : Z :=
  match r with [] => 0 | b :: r' => sgn_pair a b + row_s a r' end.
Fixpoint mk_s (x : list Z) : Z :=
  match x with [] => 0 | a :: r => row_s a r + mk_s r end.

(** the literal double loop with the two counters _s1, _s2 *)
Fixpoint row_counts (a : Z) (r : list Z) (s12 : Z * Z) : Z * Z :=
  match r with
  | [] => s12
  | b :: r' => row_counts a r' ((if b >? a then fst s12 + 1 else fst s12), (if b <? a then snd s12 + 1 else snd s12))
  end.
Fixpoint score_counts (x : list Z) (s12 : Z * Z) : Z * Z :=
  match x with [] => s12 | a :: r => score_counts r (row_counts a r s12) end.
Definition mk_score_lit (x : list Z) : Z := let s12 := score_counts x (0, 0) in fst s12 - snd s12.

Definition zcount (u : Z) (x : list Z) : Z := Z.of_nat (length (filter (Z.eqb u) x)).
Definition tie_term (t : Z) : Z := t * (t - 1) * (2 * t + 5).
Definition zsum (l : list Z) : Z := fold_right Z.add 0 l.

(** numerator of the variance: var(S) = var_num / 18 *)
Definition var_num (x : list Z) : Z :=
  let n := Z.of_nat (length x) in
  let xu := sort_uniq x in                                  (* np.unique *)
  if Z.of_nat (length xu) =? n then n * (n - 1) * (2 * n + 5)
  else n * (n - 1) * (2 * n + 5) - zsum (map (fun u => tie_term (zcount u x)) xu).

(** numerator of Z: continuity correction *)
Definition z_num (s : Z) : Z := if s >? 0 then s - 1 else if s <? 0 then s + 1 else 0.

(** ** binary64 part *)
Definition fabs (x : float) : float := abs x.

Fixpoint fmerge (a : list float) : list float -> list float :=
  match a with
  | [] => fun b => b
  | x :: a' =>
      fix inner (b : list float) : list float :=
        match b with
        | [] => a
        | y :: b' => if leb x y then x :: fmerge a' b else y :: inner b'
        end
  end.
Fixpoint merge_pairs (l : list (list float)) : list (list float) :=
  match l with
  | a :: b :: r => fmerge a b :: merge_pairs r
  | _ => l
  end.
Fixpoint msort_passes (fuel : nat) (l : list (list float)) : list float :=
  match fuel with
  | O => concat l
  | S f => match l with [] => [] | [a] => a | _ => msort_passes f (merge_pairs l) end
  end.
Definition fsort (l : list float) : list float := msort_passes (S (length l)) (map (fun x => [x]) l).

(** np.nanmedian on a NaN-free array: middle element, or mean of the two middle ones *)
Definition fmedian (l : list float) : float :=
  let s := fsort l in
  let n := length s in
  if Nat.even n then (nth (n / 2 - 1) s nan + nth (n / 2) s nan) / 2 else nth (n / 2) s nan.

(** d[ix] = (x[j] - x[i]) / (j - i), i < j, in loop order *)
Fixpoint row_slopes (xi : float) (r : list float) (dist : Z) : list float :=
  match r with
  | [] => []
  | xj :: r' => ((xj - xi) / f_of_Z dist)%float :: row_slopes xi r' (dist + 1)
  end.
Fixpoint slopes (x : list float) : list float :=
  match x with [] => [] | xi :: r => row_slopes xi r 1 ++ slopes r end.

Record mkout := { o_tau : float; o_p : float; o_slope : float; o_trend : Z }.

(** [erf] is a libm call: the harness records (argument, value) of the one call a series makes;
    the model insists on having been called with bit-identical argument. [thr] = ndtri(1 - 0.05/2). *)
Definition mk_trend_1d (x : list Z) (xf : list float) (erf_arg erf_val thr : float) : option mkout :=
  let n := Z.of_nat (length x) in
  let s := mk_score_lit x in
  let tau := (f_of_Z s / (0.5 * f_of_Z n * f_of_Z (n - 1)))%float in
  let vs := (f_of_Z (var_num x) / 18)%float in
  let z := if s >? 0 then (f_of_Z (s - 1) / sqrt vs)%float
           else if s <? 0 then (f_of_Z (s + 1) / sqrt vs)%float else zero in
  let arg := (fabs z * sqrt 0.5)%float in
  if negb (feq_bits arg erf_arg) then None
  else
    let p := (2 * (1 - (0.5 * (1 + erf_val))))%float in
    let h := ltb thr (fabs z) in
    let slope := fmedian (slopes xf) in
    let trend := if h then (if ltb 0 z then 1 else if ltb z 0 then -1 else 0) else 0 in
    Some {| o_tau := to_f32 tau; o_p := to_f32 p; o_slope := to_f32 slope; o_trend := trend |}.

(** _mann_kendall_trend_gu_nd: all cells equal to nodata -> (nodata, nodata, nodata, -2) *)
Definition mk_trend_nd (x : list Z) (xf : list float) (nodata : Z) (ndf : float) (erf_arg erf_val thr : float) : option mkout :=
  if existsb (fun v => negb (v =? nodata)) x then mk_trend_1d x xf erf_arg erf_val thr
  else Some {| o_tau := to_f32 ndf; o_p := to_f32 ndf; o_slope := to_f32 ndf; o_trend := -2 |}.
