(** Temporal interpolation (property C20): the daily curve of a constant series is that constant,
    of a series that is linear in day number that line; the outputs are the means of the daily
    curve over the runs of equal labels, one per run. *)
From Coq Require Import ZArith Reals Lra Lia Bool List.
From HDC Require Import Base.Prelude Base.ListLemmas Base.Ops Model.Ws2d Model.Tinterp Proofs.Ws2dIndex Proofs.RSums
     Proofs.Penalty Proofs.Ws2dReal Proofs.Ws2dLaws Proofs.SmoothersProofs Proofs.VCurveProofs Proofs.PlaceholderProofs Proofs.C06Proofs.
Open Scope R_scope.

(** ** run-length means *)
(** the runs of consecutive equal labels, with the corresponding stretches of the curve *)
Fixpoint group_runs (labels : list Z) (z : list R) (prev : Z) (cur : list R) : list (list R) :=
  match labels, z with
  | l :: ls, zi :: zs => if Z.eqb l prev then group_runs ls zs prev (cur ++ [zi]) else cur :: group_runs ls zs l [zi]
  | _, _ => [cur]
  end.
Definition runs (labels : list Z) (z : list R) : list (list R) :=
  match labels, z with l0 :: ls, z0 :: zs => group_runs ls zs l0 [z0] | _, _ => [] end.

Definition mean (l : list R) : R := rsum l / INR (length l).

Lemma rsum_app a b : rsum (a ++ b) = rsum a + rsum b.
Proof. induction a as [|x a IH]; cbn [app rsum]; [ring|]. rewrite IH. ring. Qed.

Lemma run_means_spec labels : forall z prev cur,
  cur <> [] ->
  run_means OpsR labels z prev (rsum cur) (Z.of_nat (length cur)) = map mean (group_runs labels z prev cur).
Proof.
  induction labels as [|l ls IH]; intros z prev cur Hc; cbn [run_means group_runs].
  - cbn [map]. unfold mean. cbn [fdiv fofZ OpsR]. now rewrite <- INR_IZR_INZ.
  - destruct z as [|zi zs]; [cbn [map]; unfold mean; cbn [fdiv fofZ OpsR]; now rewrite <- INR_IZR_INZ|].
    destruct (Z.eqb l prev).
    + specialize (IH zs prev (cur ++ [zi])). rewrite rsum_app, app_length in IH. cbn [rsum length] in IH.
      cbn [fadd OpsR]. replace (rsum cur + (zi + 0)) with (rsum cur + zi) in IH by ring.
      replace (Z.of_nat (length cur + 1)) with (Z.of_nat (length cur) + 1)%Z in IH by lia.
      apply IH. intros E. apply app_eq_nil in E as [_ E]. discriminate.
    + cbn [map]. f_equal; [unfold mean; cbn [fdiv fofZ OpsR]; now rewrite <- INR_IZR_INZ|].
      specialize (IH zs l [zi]). cbn [rsum length] in IH. replace (zi + 0) with zi in IH by ring.
      apply IH. discriminate.
Qed.

(** each output is the mean of the daily curve over one run of equal labels, in order, one per run *)
Theorem period_means_are_run_means labels z :
  period_means OpsR labels z = map mean (runs labels z).
Proof.
  unfold period_means, runs. destruct labels as [|l0 ls]; [reflexivity|]. destruct z as [|z0 zs]; [reflexivity|].
  pose proof (run_means_spec ls zs l0 [z0] ltac:(discriminate)) as H. cbn [rsum length] in H.
  replace (z0 + 0) with z0 in H by ring. exact H.
Qed.

Lemma group_runs_concat labels : forall z prev cur,
  length labels = length z -> concat (group_runs labels z prev cur) = cur ++ z.
Proof.
  induction labels as [|l ls IH]; intros [|zi zs] prev cur Hl; cbn in Hl; try lia; cbn [group_runs concat].
  - now rewrite !app_nil_r.
  - destruct (Z.eqb l prev); [rewrite IH by lia; now rewrite <- app_assoc|]. cbn [concat]. rewrite IH by lia. reflexivity.
Qed.

(** the runs tile the daily curve: nothing is dropped, nothing is counted twice *)
Theorem runs_tile labels z : length labels = length z -> concat (runs labels z) = z.
Proof.
  intros Hl. unfold runs. destruct labels as [|l0 ls]; destruct z as [|z0 zs]; cbn in Hl; try lia; [reflexivity|].
  rewrite group_runs_concat by lia. reflexivity.
Qed.

(** ** the daily curve of constant / linear observations *)
Definition marks01 (template : list R) : Prop := is01 template.

Lemma mean_const c l : l <> [] -> Forall (fun v => v = c) l -> mean l = c.
Proof.
  intros Hne H. unfold mean. assert (rsum l = c * INR (length l)) as ->.
  { induction H as [|v r Hv _ IH]; [cbn; ring|]. cbn [rsum length]. rewrite S_INR, Hv.
    destruct r as [|v' r']; [cbn; ring|]. rewrite IH by discriminate. ring. }
  field. destruct l; [contradiction|]. cbn [length]. rewrite S_INR. pose proof (pos_INR (length l)). lra.
Qed.

(** general statement: whatever sits on the marks is affine in the day number => the curve is that line *)
Theorem daily_curve_affine lam (x template : list R) a b :
  0 < lam -> (4 <= length template)%nat -> is01 template -> 1 < rsum template ->
  let temp := set_last (scatter OpsR template x) (last x 0) in
  length temp = length template ->
  (forall i, (i < length template)%nat -> nth i template 0 = 1 -> nth i temp 0 = a + b * INR i) ->
  forall i, (i < length template)%nat -> nth i (daily_curve OpsR lam x template) 0 = a + b * INR i.
Proof.
  intros Hlam Hn H01 Hs temp Ltemp Haff i Hi. unfold daily_curve. cbv zeta. change (f0 OpsR) with 0. fold temp. clearbody temp.
  assert (length template = length temp) as Hl by (symmetry; exact Ltemp).
  assert (4 <= length temp)%nat as Hn' by lia.
  destruct (contract_of_01 temp template lam Hl Hn' Hlam H01 Hs) as [HW H2].
  assert (i < length temp)%nat as Hi' by (rewrite <- Hl; exact Hi).
  rewrite (Zk_nth temp template lam i Hl Hn' Hi'). rewrite INR_IZR_INZ.
  apply (affine_fixed temp template lam Hl Hn' HW Hlam H2 a b); [|split; [apply Nat2Z.is_nonneg|apply Nat2Z.inj_lt; exact Hi']].
  intros k Hk Wpos. unfold Yk, Wk in *. rewrite vecZ_in in * by (rewrite ?Hl; lia).
  assert (nth (Z.to_nat k) template 0 = 1) as W1.
  { unfold is01 in H01. rewrite Forall_forall in H01.
    destruct (H01 (nth (Z.to_nat k) template 0)) as [E|E]; [apply nth_In; lia|rewrite E in Wpos; lra|exact E]. }
  rewrite (Haff (Z.to_nat k)); [|lia|exact W1]. rewrite INR_IZR_INZ, Z2Nat.id by lia. reflexivity.
Qed.

(** constant observations: every marked day carries the constant *)
Lemma scatter_const c (template : list R) : forall m,
  is01 template -> rsum template <= INR m ->
  forall i, (i < length template)%nat -> nth i template 0 = 1 -> nth i (scatter OpsR template (repeat c m)) 0 = c.
Proof.
  induction template as [|t r IH]; intros m H01 Hm i Hi Hw; [cbn in Hi; lia|].
  inversion H01 as [|? ? Ht Hr]; subst. cbn [scatter feqb f0 OpsR]. destruct Ht as [->| ->].
  - rewrite Reqb_refl. destruct i as [|i]; [cbn in Hw; lra|]. cbn [nth] in *. cbn [rsum] in Hm.
    apply IH; try assumption; [lra|cbn in Hi; lia].
  - rewrite (Reqb_neq 1 0) by lra. destruct m as [|m].
    + cbn [rsum INR] in Hm. pose proof (rsum01_nonneg r Hr). lra.
    + cbn [repeat]. destruct i as [|i]; [reflexivity|]. cbn [nth] in *. cbn [rsum] in Hm. rewrite S_INR in Hm.
      apply IH; try assumption; [lra|cbn in Hi; lia].
Qed.

Lemma scatter_length (template x : list R) : length (scatter OpsR template x) = length template.
Proof.
  revert x; induction template as [|t r IH]; intros x; [reflexivity|]. cbn [scatter].
  destruct (feqb OpsR t (f0 OpsR)); [cbn; now rewrite IH|]. destruct x; cbn; now rewrite IH.
Qed.

Lemma set_last_length (l : list R) v : length (set_last l v) = length l.
Proof.
  unfold set_last. destruct (rev l) as [|a r] eqn:E.
  - apply (f_equal (@length R)) in E. rewrite rev_length in E. cbn in E. destruct l; [reflexivity|discriminate].
  - rewrite rev_length. cbn [length]. apply (f_equal (@length R)) in E. rewrite rev_length in E. cbn in E. lia.
Qed.

Lemma set_last_nth (l : list R) v i :
  (i < length l)%nat -> nth i (set_last l v) 0 = if Nat.eqb (S i) (length l) then v else nth i l 0.
Proof.
  intros Hi. unfold set_last. destruct (rev l) as [|a r] eqn:E.
  - apply (f_equal (@length R)) in E. rewrite rev_length in E. cbn in E. lia.
  - assert (l = rev r ++ [a]) as -> by (rewrite <- (rev_involutive l), E; reflexivity).
    rewrite app_length in *. cbn [length rev] in *. destruct (Nat.eqb (S i) (length (rev r) + 1)) eqn:Eq.
    + apply Nat.eqb_eq in Eq. rewrite app_nth2 by lia. replace (i - length (rev r))%nat with 0%nat by lia. reflexivity.
    + apply Nat.eqb_neq in Eq. rewrite !app_nth1 by lia. reflexivity.
Qed.

(** a constant series yields that constant on every day, hence for every period *)
Theorem daily_curve_constant lam c (template : list R) m :
  0 < lam -> (4 <= length template)%nat -> is01 template -> 1 < rsum template -> rsum template <= INR m -> (1 <= m)%nat ->
  forall i, (i < length template)%nat -> nth i (daily_curve OpsR lam (repeat c m) template) 0 = c.
Proof.
  intros Hlam Hn H01 Hs Hm Hm1 i Hi.
  assert (last (repeat c m) 0 = c) as Hlast.
  { destruct m as [|m]; [lia|]. clear. induction m as [|m IH]; [reflexivity|]. cbn [repeat] in *. exact IH. }
  pose proof (daily_curve_affine lam (repeat c m) template c 0 Hlam Hn H01 Hs) as H. cbn zeta in H.
  rewrite H; [ring| |  |exact Hi].
  - rewrite set_last_length, scatter_length. reflexivity.
  - intros k Hk Wk. rewrite set_last_nth by (rewrite scatter_length; exact Hk). rewrite scatter_length, Hlast.
    destruct (Nat.eqb (S k) (length template)); [ring|]. rewrite scatter_const by assumption. ring.
Qed.

(** the seeded last day has weight 0 unless it is marked: its value cannot matter *)
Theorem last_seed_irrelevant lam (template temp : list R) v1 v2 :
  is01 template -> length temp = length template -> last template 0 = 0 ->
  ws2d OpsR (set_last temp v1) lam template = ws2d OpsR (set_last temp v2) lam template.
Proof.
  intros H01 Hl Hlast. apply ws2d_wy_indep; rewrite ?set_last_length; try exact Hl.
  assert (forall (t l1 l2 : list R), length l1 = length t -> length l2 = length t ->
            (forall i, (i < length t)%nat -> nth i t 0 * nth i l1 0 = nth i t 0 * nth i l2 0) ->
            map (fun p => fmul OpsR (fst p) (snd p)) (combine t l1) = map (fun p => fmul OpsR (fst p) (snd p)) (combine t l2)) as Ext.
  { induction t as [|a t IH]; intros [|b l1] [|c l2] H1 H2 H; cbn in H1, H2; try lia; [reflexivity|].
    cbn [combine map fst snd fmul OpsR]. f_equal; [exact (H 0%nat ltac:(cbn; lia))|].
    apply IH; try lia. intros i Hi. apply (H (S i)). cbn; lia. }
  apply Ext; rewrite ?set_last_length; try exact Hl.
  intros i Hi. rewrite !set_last_nth by (rewrite Hl; exact Hi). rewrite Hl.
  destruct (Nat.eqb (S i) (length template)) eqn:E; [|reflexivity].
  apply Nat.eqb_eq in E.
  assert (nth i template 0 = last template 0) as ->.
  { clear -E. revert i E. induction template as [|a t IH]; intros i E; [cbn in E; lia|].
    destruct t as [|b t']; [cbn in E; assert (i = 0%nat) by lia; subst; reflexivity|].
    destruct i as [|i]; [cbn in E; lia|]. change (last (a :: b :: t') 0) with (last (b :: t') 0). cbn [nth]. apply IH. cbn in *. lia. }
  rewrite Hlast. ring.
Qed.
