(** The fragment of Python string semantics that dekad.py uses: slicing / negative indexing,
    [int()] of a plain digit string, and f-string fields [{v:0<w>d}], [{v}] and literals. *)
From Coq Require Import ZArith Bool List Ascii String Lia.
Import ListNotations.
Open Scope Z_scope.

Definition pystr := list ascii.

Inductive pyslice := Slice (lo hi : option Z) | Index (k : Z).
Inductive fmt_field := FLit (s : string) | FInt (width : Z) (value : Z).

Definition zlen (s : pystr) : Z := Z.of_nat (List.length s).

(** Python slice-bound normalisation (step 1) *)
Definition norm_bound (n i : Z) : Z := if i <? 0 then Z.max 0 (n + i) else Z.min i n.

Definition py_slice (s : pystr) (sl : pyslice) : option pystr :=
  let n := zlen s in
  match sl with
  | Slice lo hi =>
      let a := match lo with None => 0 | Some v => norm_bound n v end in
      let b := match hi with None => n | Some v => norm_bound n v end in
      Some (firstn (Z.to_nat (b - a)) (skipn (Z.to_nat a) s))
  | Index k =>
      let i := if k <? 0 then n + k else k in
      if (0 <=? i) && (i <? n) then Some [nth (Z.to_nat i) s "0"%char] else None   (* IndexError *)
  end.

Definition digit_val (c : ascii) : option Z :=
  let k := Z.of_nat (nat_of_ascii c) in
  if (48 <=? k) && (k <=? 57) then Some (k - 48) else None.

Fixpoint py_int_acc (s : pystr) (acc : Z) : option Z :=
  match s with
  | [] => Some acc
  | c :: r => match digit_val c with Some d => py_int_acc r (10 * acc + d) | None => None end
  end.

(** [int(s)] for a non-empty string of ASCII digits; anything else is outside the model *)
Definition py_int (s : pystr) : option Z :=
  match s with [] => None | _ => py_int_acc s 0 end.

Definition digit_char (d : Z) : ascii := ascii_of_nat (Z.to_nat (48 + d)).

Fixpoint digits_fuel (fuel : nat) (n : Z) (acc : pystr) : pystr :=
  match fuel with
  | O => acc
  | S f => if n <? 10 then digit_char n :: acc
           else digits_fuel f (n / 10) (digit_char (n mod 10) :: acc)
  end.

(** decimal digits of a non-negative integer *)
Definition digits (n : Z) : pystr := digits_fuel (S (Z.to_nat (Z.log2_up (n + 1)))) n [].

Definition zeros (k : nat) : pystr := repeat "0"%char k.

(** [format(v, "0<w>d")]; width 0 = plain [str(v)] *)
Definition fmt_int (w v : Z) : pystr :=
  if v <? 0 then
    let d := digits (- v) in "-"%char :: zeros (Z.to_nat (w - 1) - List.length d) ++ d
  else
    let d := digits v in zeros (Z.to_nat w - List.length d) ++ d.

Definition render_field (f : fmt_field) : pystr :=
  match f with
  | FLit s => list_ascii_of_string s
  | FInt w v => fmt_int w v
  end.

Definition render (fs : list fmt_field) : pystr := List.concat (map render_field fs).
