(** Missing cells carry zero weight in the V-curve smoothers (property C02), over the reals:
    each kernel gives the same result on y and on y with its zero-weight cells replaced by 0,
    hence the same result for any two encodings of the same cells. *)
From Coq Require Import ZArith Reals Lra Lia Bool List.
From HDC Require Import Base.Prelude Base.ListLemmas Base.Ops Model.Ws2d Model.Smoothers Model.VCurve Proofs.Ws2dIndex
     Proofs.SmoothersProofs Proofs.VCurveProofs.
Open Scope R_scope.

Lemma ws2d_zero_missing (w y : list R) lam (ww : list R) :
  is01 w -> length w = length y -> length ww = length y ->
  (forall i, nth i w 0 = 0 -> nth i ww 0 = 0) ->
  ws2d OpsR (zero_missing OpsR w y) lam ww = ws2d OpsR y lam ww.
Proof.
  intros H01 Hl Hww Hz. apply ws2d_wy_indep; [rewrite zero_missing_length; [symmetry; exact Hww|exact Hl]|symmetry; exact Hww|].
  unfold zero_missing. revert y ww Hl Hww Hz. induction w as [|a w IH]; intros [|b y] [|c ww] Hl Hww Hz; cbn in Hl, Hww; try lia; [reflexivity|].
  inversion H01 as [|? ? Ha Hw]; subst. cbn [combine map fst snd fmul feqb f0 OpsR].
  rewrite IH; try assumption; try lia; [|intros i; apply (Hz (S i))]. f_equal.
  destruct Ha as [->| ->].
  - pose proof (Hz 0%nat eq_refl) as C0. cbn in C0. subst c. ring.
  - replace (Reqb 1 0) with false; [reflexivity|]. symmetry. apply not_true_is_false. intros E. apply Reqb_true in E. lra.
Qed.

Lemma fit_fold_zero_missing (w : list R) : forall (y z : list R) acc,
  is01 w -> length w = length y ->
  fold_left (fun acc0 t => let '(wi, (yi, zi)) := t in fadd OpsR acc0 (sq OpsR (fmul OpsR wi (fsub OpsR yi zi))))
            (combine w (combine (zero_missing OpsR w y) z)) acc =
  fold_left (fun acc0 t => let '(wi, (yi, zi)) := t in fadd OpsR acc0 (sq OpsR (fmul OpsR wi (fsub OpsR yi zi))))
            (combine w (combine y z)) acc.
Proof.
  unfold zero_missing. induction w as [|a w IH]; intros [|b y] z acc H01 Hl; cbn in Hl; try lia; [reflexivity|].
  inversion H01 as [|? ? Ha Hw]; subst. destruct z as [|c z]; [reflexivity|].
  cbn [combine map fst snd fold_left].
  match goal with |- fold_left ?f ?l1 ?a1 = fold_left ?f ?l2 ?a2 => assert (a1 = a2) as -> end.
  { cbn [fadd fmul fsub feqb f0 OpsR]. unfold sq. cbn [fmul OpsR]. destruct Ha as [->| ->].
    - ring.
    - replace (Reqb 1 0) with false by (symmetry; apply not_true_is_false; intros E; apply Reqb_true in E; lra).
      reflexivity. }
  apply IH; [exact Hw|lia].
Qed.

Lemma log_fit_zero_missing (w y z : list R) :
  is01 w -> length w = length y ->
  log_fit OpsR w (zero_missing OpsR w y) z = log_fit OpsR w y z.
Proof. intros H01 Hl. unfold log_fit. f_equal. now apply fit_fold_zero_missing. Qed.

Lemma nth_01_self (w : list R) i : is01 w -> nth i w 0 = 0 -> nth i w 0 = 0.
Proof. auto. Qed.

Theorem optv_core_zero_missing (w y llas : list R) :
  is01 w -> length w = length y ->
  optv_core OpsR (zero_missing OpsR w y) w llas = optv_core OpsR y w llas.
Proof.
  intros H01 Hl. unfold optv_core.
  assert (forall lam, ws2d OpsR (zero_missing OpsR w y) lam w = ws2d OpsR y lam w) as Ws
      by (intros lam; apply ws2d_zero_missing; auto).
  assert (map (fun l => ws2d OpsR (zero_missing OpsR w y) (fpow10 OpsR l) w) llas =
          map (fun l => ws2d OpsR y (fpow10 OpsR l) w) llas) as -> by (apply map_ext; intros; apply Ws).
  assert (map (log_fit OpsR w (zero_missing OpsR w y)) (map (fun l => ws2d OpsR y (fpow10 OpsR l) w) llas) =
          map (log_fit OpsR w y) (map (fun l => ws2d OpsR y (fpow10 OpsR l) w) llas)) as ->
      by (apply map_ext; intros; now apply log_fit_zero_missing).
  destruct (lopt_of OpsR llas _ _); [|reflexivity]. now rewrite Ws.
Qed.

Lemma sweep_zero_missing p p1 (w y : list R) llas : forall z,
  is01 w -> length w = length y -> (4 <= length y)%nat -> length z = length y ->
  sweep OpsR p p1 w (zero_missing OpsR w y) llas z = sweep OpsR p p1 w y llas z.
Proof.
  induction llas as [|l r IH]; intros z H01 Hl Hn Hz; cbn [sweep]; [reflexivity|].
  rewrite zero_missing_length by exact Hl. rewrite irls_zero_missing by assumption.
  destruct (irls OpsR 10 p p1 (fpow10 OpsR l) w y z (zeros OpsR (length y))) as [ww z'] eqn:E.
  destruct (irls_final 10 p p1 (fpow10 OpsR l) w y z _ ww z' Hn Hl Hz ltac:(lia) E) as (_ & Lz' & _).
  f_equal. now apply IH.
Qed.

Theorem optvp_core_zero_missing (w y : list R) p llas :
  is01 w -> length w = length y -> (4 <= length y)%nat ->
  optvp_core OpsR (zero_missing OpsR w y) w p llas = optvp_core OpsR y w p llas.
Proof.
  intros H01 Hl Hn. unfold optvp_core. rewrite zero_missing_length by exact Hl.
  rewrite sweep_zero_missing; try assumption; [|unfold zeros; apply repeat_length].
  set (zs := sweep OpsR p (fsub OpsR (f1 OpsR) p) w y llas (zeros OpsR (length y))).
  assert (map (log_fit OpsR w (zero_missing OpsR w y)) zs = map (log_fit OpsR w y) zs) as ->
      by (apply map_ext; intros; now apply log_fit_zero_missing).
  destruct (lopt_of OpsR llas _ _); [|reflexivity]. now rewrite asym_fit_zero_missing.
Qed.

(** two encodings of the same cells (missing = equal to the encoding's nodata) *)
Definition same_cells_eq (nd1 nd2 : R) (y1 y2 : list R) : Prop :=
  Forall2 (fun a b => (a = nd1 /\ b = nd2) \/ (a <> nd1 /\ b <> nd2 /\ a = b)) y1 y2.

Lemma Reqb_refl x : Reqb x x = true.
Proof. now apply Reqb_true. Qed.
Lemma Reqb_neq x y : x <> y -> Reqb x y = false.
Proof. intros H. apply not_true_is_false. intros E. apply Reqb_true in E. contradiction. Qed.

Lemma same_cells_eq_weights nd1 nd2 y1 y2 :
  same_cells_eq nd1 nd2 y1 y2 ->
  weights_eq OpsR nd1 y1 = weights_eq OpsR nd2 y2 /\
  zero_missing OpsR (weights_eq OpsR nd1 y1) y1 = zero_missing OpsR (weights_eq OpsR nd2 y2) y2.
Proof.
  unfold weights_eq, zero_missing. induction 1 as [|a b r1 r2 H _ [IH1 IH2]]; [split; reflexivity|].
  cbn [map combine fst snd]. rewrite IH2, IH1. cbn [feqb f0 f1 OpsR].
  destruct H as [[-> ->]|(Ha & Hb & ->)].
  - rewrite !Reqb_refl. split; reflexivity.
  - rewrite (Reqb_neq b nd1 Ha), (Reqb_neq b nd2 Hb), (Reqb_neq 1 0) by lra. split; reflexivity.
Qed.

Theorem optv_placeholder_indep nd1 nd2 y1 y2 llas :
  same_cells_eq nd1 nd2 y1 y2 -> ws2doptv OpsR y1 nd1 llas = ws2doptv OpsR y2 nd2 llas.
Proof.
  intros H. destruct (same_cells_eq_weights _ _ _ _ H) as [Ew Ez]. unfold ws2doptv. rewrite <- Ew.
  set (w := weights_eq OpsR nd1 y1) in *. destruct (fltb OpsR (f1 OpsR) (fsum OpsR w)); [|reflexivity].
  assert (length w = length y1) as L1 by (unfold w, weights_eq; apply map_length).
  assert (length w = length y2) as L2 by (rewrite Ew; unfold weights_eq; apply map_length).
  rewrite <- (optv_core_zero_missing w y1 llas (weights_eq_01 nd1 y1) L1).
  rewrite <- (optv_core_zero_missing w y2 llas (weights_eq_01 nd1 y1) L2).
  rewrite Ez, <- Ew. reflexivity.
Qed.

Theorem optvp_placeholder_indep nd1 nd2 y1 y2 p llas :
  (4 <= length y1)%nat -> same_cells_eq nd1 nd2 y1 y2 -> ws2doptvp OpsR y1 nd1 p llas = ws2doptvp OpsR y2 nd2 p llas.
Proof.
  intros Hn H. destruct (same_cells_eq_weights _ _ _ _ H) as [Ew Ez]. unfold ws2doptvp. rewrite <- Ew.
  set (w := weights_eq OpsR nd1 y1) in *. destruct (fltb OpsR (f1 OpsR) (fsum OpsR w)); [|reflexivity].
  assert (length w = length y1) as L1 by (unfold w, weights_eq; apply map_length).
  assert (length w = length y2) as L2 by (rewrite Ew; unfold weights_eq; apply map_length).
  rewrite <- (optvp_core_zero_missing w y1 p llas (weights_eq_01 nd1 y1) L1 Hn).
  rewrite <- (optvp_core_zero_missing w y2 p llas (weights_eq_01 nd1 y1) L2 ltac:(lia)).
  rewrite Ez, <- Ew. reflexivity.
Qed.
