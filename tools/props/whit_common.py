"""Shared pieces of the Whittaker-smoother checks (C02-C06): Coq case builders for the three
correspondence files, an independent exact (Fraction) penalised-least-squares solver, rounding
with the properties' tie rule, and float re-computations of the V-curve / GCV criteria."""
import math
from fractions import Fraction

import numpy as np

from vlib.core import flist, flit, zlist, optlit, blit

PRE = ("From HDC Require Import Base.Prelude Base.Float Base.Ops Model.Ws2d Model.Smoothers Model.VCurve Model.Gcv "
       "Corr.C03 Corr.C04 Corr.C05.\nFrom Coq Require Import PrimFloat.\n")


def fnum(v):
    return float("nan") if v is None else float(v)


def ylist(y):
    return flist([fnum(v) for v in y])


def tab(pairs):
    return "[" + "; ".join("(%s, %s)" % (flit(a), flit(b)) for a, b in pairs) + "]"


def coq_case(c, r, grids):
    """Coq term + checker name + claim-checker name for one kernel case and its observed result."""
    k = c["kind"]
    if k in ("gu", "pgu"):
        return ("GU %s %s %s %s %s" % (ylist(c["y"]), flit(c["lam"]), flit(c["nodata"]), optlit(c.get("p") if k == "pgu" else None, flit),
                                       zlist(r["out"])), "check_gu", "claim_gu")
    if k in ("optv", "optvp", "optvplc"):
        if k == "optv":
            kk = "KOptv"
        elif k == "optvp":
            kk = "(KOptvp %s)" % flit(c["p"])
        else:
            kk = "(KOptvplc %s %s %s %s)" % (flit(c["p"]), flit(c["lc"]), flist(grids["hi"]), flist(grids["lo"]))
        return ("VC %s %s %s %s %s %s %s %s" % (kk, ylist(c["y"]), flit(c["nodata"]), flist(c.get("llas", [])), tab(r["log"]), tab(r["pow"]),
                                                zlist(r["out"]), flit(r["lopt"])), "check_v", "claim_v")
    return ("WV %s %s %s %s %s %s %s %s %s" % (ylist(c["y"]), flit(c["nodata"]), optlit(c.get("p") if k == "wcvp" else None, flit),
                                              flist(c["llas"]), blit(c["robust"]), tab(r["cos"]), tab(r["pow"]), zlist(r["out"]),
                                              flit(r["lopt"])), "check_g", "claim_g")


# ---------------------------------------------------------------- exact reference

def pls_exact(y, w, lam):
    """Unique minimiser of sum w (y - z)^2 + lam sum (D2 z)^2 in exact rationals (dense elimination)."""
    n = len(y)
    A = [[Fraction(0)] * n for _ in range(n)]
    for i in range(n):
        A[i][i] += w[i]
    for j in range(n - 2):
        row = {j: 1, j + 1: -2, j + 2: 1}
        for a, ca in row.items():
            for b, cb in row.items():
                A[a][b] += lam * ca * cb
    b = [w[i] * y[i] for i in range(n)]
    for i in range(n):
        piv = A[i][i]
        for r in range(i + 1, min(n, i + 3)):
            f = A[r][i] / piv
            if f:
                for cc in range(i, min(n, i + 3)):
                    A[r][cc] -= f * A[i][cc]
                b[r] -= f * b[i]
    z = [Fraction(0)] * n
    for i in range(n - 1, -1, -1):
        s = b[i]
        for cc in range(i + 1, min(n, i + 3)):
            s -= A[i][cc] * z[cc]
        z[i] = s / A[i][i]
    return z


def rne(q):
    f = math.floor(q)
    r = q - f
    if r < Fraction(1, 2):
        return f
    if r > Fraction(1, 2):
        return f + 1
    return f if f % 2 == 0 else f + 1


def near_tie(q, eps=Fraction(1, 10 ** 7)):
    r = q - math.floor(q)
    return abs(r - Fraction(1, 2)) < eps


def rounded_matches(out, zexact):
    """out_i == rne(z_i), +-1 tolerated only where z_i sits on (within 1e-7 of) a rounding tie; returns (ok, ties)"""
    ties = 0
    for o, z in zip(out, zexact):
        e = rne(z)
        if o == e:
            continue
        if near_tie(z) and abs(o - e) <= 1:
            ties += 1
            continue
        return False, ties
    return True, ties


def irls_exact(y, w, lam, p, passes=10):
    """The property's operational definition of the expectile curve, in exact rationals.
    Returns (curve, fragile) - fragile when some |y_i - z_i| < 1e-9 on a weighted cell during the iteration."""
    n = len(y)
    z = [Fraction(0)] * n
    fragile = False
    ww = [Fraction(0)] * n
    for _ in range(passes):
        for i in range(n):
            if w[i] != 0 and abs(y[i] - z[i]) < Fraction(1, 10 ** 9):
                fragile = True
        ww = [w[i] * (p if y[i] > z[i] else 1 - p) for i in range(n)]
        znew = pls_exact(y, ww, lam)
        if all(a == b for a, b in zip(znew, z)):
            break
        z = znew
    return pls_exact(y, ww, lam), fragile


def in_int16(z):
    return all(-32768 <= rne(v) <= 32767 for v in z)


# ---------------------------------------------------------------- float criteria (independent re-computation)

def ws2d_dense(y, w, lam):
    n = len(y)
    D = np.zeros((n - 2, n))
    for j in range(n - 2):
        D[j, j], D[j, j + 1], D[j, j + 2] = 1, -2, 1
    return np.linalg.solve(np.diag(w) + lam * D.T @ D, w * y)


def vcurve_float(y, w, llas, p=None):
    """V-curve ordinates computed independently (dense solves); asymmetric: warm-started IRLS like the property says."""
    n = len(y)
    fits, pens = [], []
    z = np.zeros(n)
    for l in llas:
        lam = 10.0 ** l
        if p is None:
            z = ws2d_dense(y, w, lam)
        else:
            for _ in range(10):
                ww = w * np.where(y > z, p, 1 - p)
                znew = ws2d_dense(y, ww, lam)
                if np.sum(np.abs(znew - z)) < 1e-9 * max(1.0, np.max(np.abs(z))):
                    break
                z = znew
        fits.append(math.log(max(1e-300, float(np.sum((w * (y - z)) ** 2)))))
        pens.append(math.log(max(1e-300, float(np.sum(np.diff(z, 2) ** 2)))))
    step = llas[1] - llas[0]
    v = [math.hypot(fits[i + 1] - fits[i], pens[i + 1] - pens[i]) / (math.log(10) * step) for i in range(len(llas) - 1)]
    mids = [(llas[i] + llas[i + 1]) / 2 for i in range(len(llas) - 1)]
    return v, (fits, pens)


def gcv_float(y, w, llas):
    n = len(y)
    nv = w.sum()
    de = -2 + 2 * np.cos(np.arange(n) * np.pi / n)
    de[0] = 1e-15
    scores = []
    for l in llas:
        s = 10.0 ** l
        z = ws2d_dense(y, w, s)
        gam = w / (w + s * de ** 2)
        trh = gam.sum()
        wsse = float(np.sum(w * (y - z) ** 2))
        scores.append(wsse / (w.sum() * (1 - trh / w.sum()) ** 2))
    return scores


def gcv_robust_candidates(y, w, llas):
    """The GCV scores that decide the lambda reported in robust mode, re-computed independently with dense solves: the best score of the
    first scan (unit weights on valid cells) and every score of the second scan (after one bisquare reweighting from the residuals of
    the weighted cells, kept only when the MAD is above rounding noise and two valid cells keep weight).  Used only to recognise ties."""
    n = len(y)
    nv = float(w.sum())
    de = -2 + 2 * np.cos(np.arange(n) * np.pi / n)
    de[0] = 1e-15
    rw = np.ones(n)
    best, zbest, cand = (1e15, 0.0), np.zeros(n), []
    for it in range(2):
        wt = w * rw
        for l in llas:
            s = 10.0 ** l
            if np.count_nonzero(wt) < 2:
                return None
            z = ws2d_dense(y, wt, s)
            trh = float((wt / (wt + s * de ** 2)).sum())
            sc = float(np.sum(wt * (y - z) ** 2)) / (wt.sum() * (1 - trh / wt.sum()) ** 2)
            if it == 1:
                cand.append((sc, s))
            if sc < best[0]:
                best, zbest = (sc, s), z
        if it == 0:
            cand.append(best)
            s = best[1]
            r = y - zbest
            sel = r[wt != 0]
            mad = float(np.median(np.abs(sel - np.median(sel))))
            if mad > 1e-9 * max(1.0, float(np.max(np.abs(y)))):
                h = float((wt / (wt + s * de ** 2)).sum()) / nv
                u = r / (1.4826 * mad * math.sqrt(max(1e-300, 1 - h)))
                new = (1 - (u / 4.685) ** 2) ** 2
                new[np.abs(u / 4.685) > 1] = 0
                new[r > 0] = 1
                if np.count_nonzero(w * new) >= 2:
                    rw = new
    return cand
