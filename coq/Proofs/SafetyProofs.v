(** Hand proofs for the index-safety / all-written obligations that tools/vcgen.py cannot generate as
    linear-arithmetic lemmas: cursor variables advanced under data-dependent conditions
    (tinterpolate, mk_sens_slope) and scatter through boolean masks (mean_grp, gammastd_grp).
    Each is a statement about a small *checked* model of the loop: the model performs the same cursor
    updates and records whether every access was inside its array. *)
From Coq Require Import List Arith Lia Bool.
Import ListNotations.

(** * tinterpolate, first loop:
    ii = jj = 0; for tt in temp: (if tt != 0: temp[ii] = x[jj]; jj += 1); ii += 1
    [marks] = the template as booleans, m = len(temp), n = len(x) *)
Fixpoint scatter_ok (marks : list bool) (ii jj m n : nat) : bool :=
  match marks with
  | [] => true
  | t :: r => (if t then (ii <? m) && (jj <? n) else true) && scatter_ok r (S ii) (if t then S jj else jj) m n
  end.

Lemma scatter_ok_gen marks : forall ii jj m n,
  ii + length marks <= m -> jj + count_occ bool_dec marks true <= n -> scatter_ok marks ii jj m n = true.
Proof.
  induction marks as [|t r IH]; intros ii jj m n Hm Hn; cbn [scatter_ok]; [reflexivity|].
  cbn [length count_occ] in *. destruct t.
  - destruct (bool_dec true true) as [_|C]; [|contradiction]. cbn [count_occ] in Hn.
    rewrite (proj2 (Nat.ltb_lt ii m)) by lia. rewrite (proj2 (Nat.ltb_lt jj n)) by lia. cbn [andb].
    apply IH; lia.
  - destruct (bool_dec false true) as [C|_]; [discriminate|]. cbn [andb]. apply IH; lia.
Qed.

(** contract: as many marks as observations *)
Theorem tinterp_scatter_safe marks n :
  count_occ bool_dec marks true <= n -> scatter_ok marks 0 0 (length marks) n = true.
Proof. intros H. apply scatter_ok_gen; lia. Qed.

(** * tinterpolate, second loop:
    ii = 1; kk = 0; for ll in labels[1:]: (if ll == labels[ii-1]: v += z[ii] else: out[kk] = ..; kk += 1; v = z[ii]); ii += 1
    out[kk] = ..          [labels] over nat, m = len(labels) = len(z), l = len(out) *)
Fixpoint runs_ok (prev : nat) (rest : list nat) (ii kk m l : nat) : bool * nat :=
  match rest with
  | [] => (kk <? l, kk)                                  (* the final out[kk] *)
  | x :: r => let inb := (ii - 1 <? m) && (ii <? m) in      (* labels[ii-1], z[ii] *)
              if Nat.eqb x prev then let '(b, k) := runs_ok x r (S ii) kk m l in (inb && b, k)
              else let '(b, k) := runs_ok x r (S ii) (S kk) m l in (inb && (kk <? l) && b, k)
  end.

(** number of places where the label changes *)
Fixpoint changes (prev : nat) (rest : list nat) : nat :=
  match rest with [] => 0 | x :: r => (if Nat.eqb x prev then 0 else 1) + changes x r end.

Lemma runs_ok_gen rest : forall prev ii kk m l,
  1 <= ii -> ii + length rest <= m -> kk + changes prev rest < l ->
  runs_ok prev rest ii kk m l = (true, kk + changes prev rest).
Proof.
  induction rest as [|x r IH]; intros prev ii kk m l H1 Hm Hl; cbn [runs_ok changes length] in *.
  - rewrite (proj2 (Nat.ltb_lt kk l)) by lia. f_equal. lia.
  - assert ((ii - 1 <? m) && (ii <? m) = true) as ->.
    { rewrite (proj2 (Nat.ltb_lt (ii - 1) m)) by lia. rewrite (proj2 (Nat.ltb_lt ii m)) by lia. reflexivity. }
    destruct (Nat.eqb x prev).
    + rewrite (IH x (S ii) kk m l) by lia. cbn [andb]. f_equal.
    + rewrite (IH x (S ii) (S kk) m l) by lia. rewrite (proj2 (Nat.ltb_lt kk l)) by lia. cbn [andb]. f_equal. lia.
Qed.

(** contract: contiguous labels and one output per run, i.e. len(out) = number of runs = changes + 1 *)
Theorem tinterp_runs_safe first rest l :
  l = S (changes first rest) ->
  fst (runs_ok first rest 1 0 (S (length rest)) l) = true.
Proof. intros ->. rewrite runs_ok_gen by lia. reflexivity. Qed.

(** every cell 0 .. l-1 of out is stored exactly once: the cursor takes the values 0, 1, .., changes in order and the
    last store is at kk = l - 1 *)
Theorem tinterp_out_all_written first rest l :
  l = S (changes first rest) ->
  snd (runs_ok first rest 1 0 (S (length rest)) l) = l - 1.
Proof. intros ->. rewrite runs_ok_gen by lia. cbn [snd]. lia. Qed.

(** * mk_sens_slope: ix = 0; for i in range(n-1): for j in range(i+1, n): d[ix] = ..; ix += 1   with len(d) = n(n-1)/2 *)
Fixpoint inner_ok (steps ix nd : nat) : bool * nat :=
  match steps with 0 => (true, ix) | S s => let '(b, k) := inner_ok s (S ix) nd in ((ix <? nd) && b, k) end.

Fixpoint outer_ok (rows : nat) (i n ix nd : nat) : bool * nat :=
  match rows with
  | 0 => (true, ix)
  | S r => let '(b1, k1) := inner_ok (n - (i + 1)) ix nd in
           let '(b2, k2) := outer_ok r (S i) n k1 nd in (b1 && b2, k2)
  end.

Lemma inner_ok_gen steps : forall ix nd, ix + steps <= nd -> inner_ok steps ix nd = (true, ix + steps).
Proof.
  induction steps as [|s IH]; intros ix nd H; cbn [inner_ok]; [f_equal; lia|].
  rewrite IH by lia. rewrite (proj2 (Nat.ltb_lt ix nd)) by lia. cbn [andb]. f_equal. lia.
Qed.

(** cells still to be used by rows i, i+1, .., i+rows-1 *)
Fixpoint remaining (rows i n : nat) : nat :=
  match rows with 0 => 0 | S r => (n - (i + 1)) + remaining r (S i) n end.

Lemma outer_ok_gen rows : forall i n ix nd, ix + remaining rows i n <= nd -> outer_ok rows i n ix nd = (true, ix + remaining rows i n).
Proof.
  induction rows as [|r IH]; intros i n ix nd H; cbn [outer_ok remaining] in *; [f_equal; lia|].
  rewrite inner_ok_gen by lia. rewrite IH by lia. cbn [andb]. f_equal. lia.
Qed.

Lemma remaining_closed rows : forall i n, i + rows + 1 = n -> 2 * remaining rows i n = rows * (rows + 1).
Proof.
  induction rows as [|r IH]; intros i n H; cbn [remaining]; [reflexivity|].
  pose proof (IH (S i) n ltac:(lia)) as E. replace (n - (i + 1)) with (S r) by lia. nia.
Qed.

(** the loop nest of the source runs rows = n - 1 outer iterations from i = 0 and uses exactly n(n-1)/2 cells *)
Theorem sens_slope_cursor_safe n :
  fst (outer_ok (n - 1) 0 n 0 (n * (n - 1) / 2)) = true.
Proof.
  destruct n as [|k]; [reflexivity|]. replace (S k - 1) with k by lia.
  pose proof (remaining_closed k 0 (S k) ltac:(lia)) as H.
  assert (remaining k 0 (S k) = S k * k / 2) as E.
  { apply Nat.div_unique_exact; lia. }
  rewrite outer_ok_gen by (rewrite E; lia). reflexivity.
Qed.

(** * mean_grp / gammastd_grp: for grp in range(num_groups): yy[groups == grp] = ..
    position p is stored in the iteration grp = groups[p]; every position is stored iff every label is below num_groups *)
Definition stored_by (groups : list nat) (num_groups p : nat) : bool :=
  existsb (fun grp => Nat.eqb (nth p groups num_groups) grp) (seq 0 num_groups).

Theorem group_scatter_covers groups num_groups :
  (forall g, In g groups -> g < num_groups) ->
  forall p, p < length groups -> stored_by groups num_groups p = true.
Proof.
  intros H p Hp. unfold stored_by. apply existsb_exists. exists (nth p groups num_groups). split.
  - apply in_seq. pose proof (H _ (nth_In groups num_groups Hp)). lia.
  - apply Nat.eqb_refl.
Qed.

(** and a label outside 0 .. num_groups-1 leaves its positions unwritten - the contract is needed *)
Theorem group_scatter_needs_contract groups num_groups p :
  p < length groups -> num_groups <= nth p groups num_groups -> stored_by groups num_groups p = false.
Proof.
  intros Hp Hg. unfold stored_by. apply not_true_is_false. intros E. apply existsb_exists in E as [g [Hin Heq]].
  apply in_seq in Hin. apply Nat.eqb_eq in Heq. lia.
Qed.
