(** Index-level view of [Model/Ws2d.v], for any carrier: row k of the forward pass is [fstep]
    applied to rows k-1 and k-2; entry k of the result is [bstep] applied to entries k+1, k+2. *)
From HDC Require Import Base.Prelude Base.ListLemmas Base.Ops Model.Ws2d.

Section Index.
  Context {F : Type} (O : Ops F).

  Lemma fwd_length ws : forall ys k n l p1 p2,
    length ws = length ys -> length (fwd O k n l p1 p2 ws ys) = length ws.
  Proof.
    induction ws as [|w ws IH]; intros [|y ys] k n l p1 p2 H; cbn in *; try lia. f_equal. apply IH. lia.
  Qed.

  Lemma fwd_nth ws : forall ys k0 n l p1 p2 i,
    length ws = length ys -> (i < length ws)%nat ->
    nth i (fwd O k0 n l p1 p2 ws ys) (zrow O) =
    fstep O (k0 + i) n l
      (match i with 0%nat => p1 | S i' => nth i' (fwd O k0 n l p1 p2 ws ys) (zrow O) end)
      (match i with 0%nat => p2 | 1%nat => p1 | S (S i'') => nth i'' (fwd O k0 n l p1 p2 ws ys) (zrow O) end)
      (nth i ws (f0 O)) (nth i ys (f0 O)).
  Proof.
    induction ws as [|w ws IH]; intros [|y ys] k0 n l p1 p2 i Hl Hi; cbn [length] in *; try lia.
    cbn [fwd]. destruct i as [|[|i]].
    - cbn [nth]. now rewrite Nat.add_0_r.
    - cbn [nth]. rewrite (IH ys (S k0) n l _ p1 0%nat) by lia. cbn [nth].
      replace (S k0 + 0)%nat with (k0 + 1)%nat by lia. reflexivity.
    - cbn [nth]. rewrite (IH ys (S k0) n l _ p1 (S i)) by lia.
      replace (S k0 + S i)%nat with (k0 + S (S i))%nat by lia. destruct i; reflexivity.
  Qed.

  Lemma bwd_length rs : forall j z1 z2, length (bwd O j rs z1 z2) = length rs.
  Proof. induction rs as [|r rs IH]; intros j z1 z2; cbn; [reflexivity|]. now rewrite IH. Qed.

  Lemma bwd_nth rs : forall j0 z1 z2 i,
    (i < length rs)%nat ->
    nth i (bwd O j0 rs z1 z2) (f0 O) =
    bstep O (j0 + i) (nth i rs (zrow O))
      (match i with 0%nat => z1 | S i' => nth i' (bwd O j0 rs z1 z2) (f0 O) end)
      (match i with 0%nat => z2 | 1%nat => z1 | S (S i'') => nth i'' (bwd O j0 rs z1 z2) (f0 O) end).
  Proof.
    induction rs as [|r rs IH]; intros j0 z1 z2 i Hi; cbn [length] in *; try lia.
    cbn [bwd]. destruct i as [|[|i]].
    - cbn [nth]. now rewrite Nat.add_0_r.
    - cbn [nth]. rewrite (IH (S j0) _ z1 0%nat) by lia. cbn [nth].
      replace (S j0 + 0)%nat with (j0 + 1)%nat by lia. reflexivity.
    - cbn [nth]. rewrite (IH (S j0) _ z1 (S i)) by lia.
      replace (S j0 + S i)%nat with (j0 + S (S i))%nat by lia. destruct i; reflexivity.
  Qed.

  (** zero-extended, integer-indexed views *)
  Definition rowZ (rows : list (row (F := F))) (k : Z) : row :=
    if (k <? 0)%Z then zrow O else nth (Z.to_nat k) rows (zrow O).
  Definition vecZ (v : list F) (k : Z) : F :=
    if (k <? 0)%Z then f0 O else nth (Z.to_nat k) v (f0 O).

  Lemma rowZ_step y l w k :
    length w = length y -> (0 <= k < Z.of_nat (length y))%Z ->
    rowZ (ws2d_rows O y l w) k =
    fstep O (Z.to_nat k) (length y) l (rowZ (ws2d_rows O y l w) (k - 1)) (rowZ (ws2d_rows O y l w) (k - 2))
      (vecZ w k) (vecZ y k).
  Proof.
    intros Hl Hk. unfold rowZ, vecZ, ws2d_rows.
    replace (k <? 0)%Z with false by lia.
    rewrite (fwd_nth w y 0 (length y) l (zrow O) (zrow O) (Z.to_nat k)) by lia.
    cbn [Nat.add]. f_equal.
    - destruct (Z.to_nat k) as [|i] eqn:E.
      + replace (k - 1 <? 0)%Z with true by lia. reflexivity.
      + replace (k - 1 <? 0)%Z with false by lia. replace (Z.to_nat (k - 1)) with i by lia. reflexivity.
    - destruct (Z.to_nat k) as [|[|i]] eqn:E.
      + replace (k - 2 <? 0)%Z with true by lia. reflexivity.
      + replace (k - 2 <? 0)%Z with true by lia. reflexivity.
      + replace (k - 2 <? 0)%Z with false by lia. replace (Z.to_nat (k - 2)) with i by lia. reflexivity.
  Qed.

  Lemma rowZ_out y l w k :
    length w = length y -> (k < 0 \/ Z.of_nat (length y) <= k)%Z -> rowZ (ws2d_rows O y l w) k = zrow O.
  Proof.
    intros Hl Hk. unfold rowZ. destruct (k <? 0)%Z eqn:E; [reflexivity|].
    apply nth_overflow. unfold ws2d_rows. rewrite fwd_length by exact Hl. lia.
  Qed.

  Lemma ws2d_length y l w :
    length w = length y -> (4 <= length y)%nat -> length (ws2d O y l w) = length y.
  Proof.
    intros Hl Hn. unfold ws2d. replace (length y <? 4)%nat with false by (symmetry; apply Nat.ltb_ge; lia).
    rewrite rev_length, bwd_length, rev_length. unfold ws2d_rows. now rewrite fwd_length.
  Qed.

  Lemma zZ_step y l w k :
    length w = length y -> (4 <= length y)%nat -> (0 <= k < Z.of_nat (length y))%Z ->
    vecZ (ws2d O y l w) k =
    bstep O (length y - 1 - Z.to_nat k) (rowZ (ws2d_rows O y l w) k)
      (vecZ (ws2d O y l w) (k + 1)) (vecZ (ws2d O y l w) (k + 2)).
  Proof.
    intros Hl Hn Hk. set (n := length y) in *.
    assert (length (ws2d_rows O y l w) = n) as Lr by (unfold ws2d_rows; rewrite fwd_length; lia).
    assert (forall q, (0 <= q < Z.of_nat n)%Z ->
              vecZ (ws2d O y l w) q = nth (n - 1 - Z.to_nat q) (bwd O 0 (rev (ws2d_rows O y l w)) (f0 O) (f0 O)) (f0 O)) as Get.
    { intros q Hq. unfold vecZ, ws2d. fold n. replace (n <? 4)%nat with false by (symmetry; apply Nat.ltb_ge; lia).
      replace (q <? 0)%Z with false by lia. rewrite rev_nth by (rewrite bwd_length, rev_length; lia).
      rewrite bwd_length, rev_length, Lr. f_equal. lia. }
    assert (forall q, (Z.of_nat n <= q)%Z -> vecZ (ws2d O y l w) q = f0 O) as Out.
    { intros q Hq. unfold vecZ. replace (q <? 0)%Z with false by lia. apply nth_overflow.
      rewrite ws2d_length by assumption. fold n. lia. }
    rewrite (Get k Hk).
    rewrite (bwd_nth (rev (ws2d_rows O y l w)) 0 (f0 O) (f0 O) (n - 1 - Z.to_nat k)) by (rewrite rev_length; lia).
    cbn [Nat.add]. f_equal.
    - unfold rowZ. replace (k <? 0)%Z with false by lia. rewrite rev_nth by lia. rewrite Lr. f_equal. lia.
    - destruct (n - 1 - Z.to_nat k)%nat as [|i] eqn:E.
      + symmetry. apply Out. lia.
      + rewrite (Get (k + 1)%Z) by lia. f_equal. lia.
    - destruct (n - 1 - Z.to_nat k)%nat as [|[|i]] eqn:E.
      + symmetry. apply Out. lia.
      + symmetry. apply Out. lia.
      + rewrite (Get (k + 2)%Z) by lia. f_equal. lia.
  Qed.

  Lemma zZ_out y l w k :
    length w = length y -> (4 <= length y)%nat -> (k < 0 \/ Z.of_nat (length y) <= k)%Z -> vecZ (ws2d O y l w) k = f0 O.
  Proof.
    intros Hl Hn Hk. unfold vecZ. destruct (k <? 0)%Z eqn:E; [reflexivity|]. apply nth_overflow.
    rewrite ws2d_length by assumption. lia.
  Qed.

  (** which branch of [fstep] a row takes *)
  Lemma fstep_0 n l p1 p2 w y :
    fstep O 0 n l p1 p2 w y =
    let d := fadd O w l in mkrow d (fdiv O (fmul O (fofZ O (-2)) l) d) (fdiv O l d) (fmul O w y).
  Proof. reflexivity. Qed.

  Lemma fstep_1 n l p1 p2 w y :
    fstep O 1 n l p1 p2 w y =
    let d := fsub O (fadd O w (fmul O (fofZ O 5) l)) (fmul O (rd p1) (fmul O (rc p1) (rc p1))) in
    mkrow d (fdiv O (fsub O (fmul O (fofZ O (-4)) l) (fmul O (fmul O (rd p1) (rc p1)) (re p1))) d) (fdiv O l d)
          (fsub O (fmul O w y) (fmul O (rc p1) (ru p1))).
  Proof. reflexivity. Qed.

  Lemma fstep_last k n l p1 p2 w y :
    (2 <= k)%nat -> S k = n ->
    fstep O k n l p1 p2 w y =
    let d := fsub O (fsub O (fadd O w l) (fmul O (fmul O (rc p1) (rc p1)) (rd p1))) (fmul O (fmul O (re p2) (re p2)) (rd p2)) in
    mkrow d (f0 O) (f0 O) (fsub O (fsub O (fmul O w y) (fmul O (rc p1) (ru p1))) (fmul O (re p2) (ru p2))).
  Proof.
    intros Hk Hn. unfold fstep.
    replace (k =? 0)%nat with false by (symmetry; apply Nat.eqb_neq; lia).
    replace (k =? 1)%nat with false by (symmetry; apply Nat.eqb_neq; lia).
    replace (S k =? n)%nat with true by (symmetry; apply Nat.eqb_eq; lia). reflexivity.
  Qed.

  Lemma fstep_prelast k n l p1 p2 w y :
    (2 <= k)%nat -> S (S k) = n ->
    fstep O k n l p1 p2 w y =
    let d := fsub O (fsub O (fadd O w (fmul O (fofZ O 5) l)) (fmul O (fmul O (rc p1) (rc p1)) (rd p1)))
                  (fmul O (fmul O (re p2) (re p2)) (rd p2)) in
    mkrow d (fdiv O (fsub O (fmul O (fofZ O (-2)) l) (fmul O (fmul O (rd p1) (rc p1)) (re p1))) d) (f0 O)
          (fsub O (fsub O (fmul O w y) (fmul O (rc p1) (ru p1))) (fmul O (re p2) (ru p2))).
  Proof.
    intros Hk Hn. unfold fstep.
    replace (k =? 0)%nat with false by (symmetry; apply Nat.eqb_neq; lia).
    replace (k =? 1)%nat with false by (symmetry; apply Nat.eqb_neq; lia).
    replace (S k =? n)%nat with false by (symmetry; apply Nat.eqb_neq; lia).
    replace (S (S k) =? n)%nat with true by (symmetry; apply Nat.eqb_eq; lia). reflexivity.
  Qed.

  Lemma fstep_interior k n l p1 p2 w y :
    (2 <= k)%nat -> (S (S k) < n)%nat ->
    fstep O k n l p1 p2 w y =
    let d := fsub O (fsub O (fadd O w (fmul O (fofZ O 6) l)) (fmul O (fmul O (rc p1) (rc p1)) (rd p1)))
                  (fmul O (fmul O (re p2) (re p2)) (rd p2)) in
    mkrow d (fdiv O (fsub O (fmul O (fofZ O (-4)) l) (fmul O (fmul O (rd p1) (rc p1)) (re p1))) d) (fdiv O l d)
          (fsub O (fsub O (fmul O w y) (fmul O (rc p1) (ru p1))) (fmul O (re p2) (ru p2))).
  Proof.
    intros Hk Hn. unfold fstep.
    replace (k =? 0)%nat with false by (symmetry; apply Nat.eqb_neq; lia).
    replace (k =? 1)%nat with false by (symmetry; apply Nat.eqb_neq; lia).
    replace (S k =? n)%nat with false by (symmetry; apply Nat.eqb_neq; lia).
    replace (S (S k) =? n)%nat with false by (symmetry; apply Nat.eqb_neq; lia). reflexivity.
  Qed.
End Index.
