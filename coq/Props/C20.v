(** C20 — temporal interpolation averages the daily Whittaker curve per period. Statements only. *)
From Coq Require Import ZArith Reals Lra List.
From HDC Require Import Base.Prelude Base.Ops Model.Ws2d Model.Tinterp Proofs.SmoothersProofs Proofs.VCurveProofs Proofs.TinterpProofs.
Open Scope R_scope.

(** one output per run of equal daily labels, in order: the mean of the daily curve over that run;
    the runs tile the daily curve (nothing dropped, nothing counted twice) *)
Theorem C20_outputs_are_run_means : forall lam x template labels,
  tinterpolate OpsR lam x template labels = map mean (runs labels (daily_curve OpsR lam x template)).
Proof. intros. unfold tinterpolate. apply period_means_are_run_means. Qed.
Print Assumptions C20_outputs_are_run_means.

Theorem C20_runs_tile : forall labels z, length labels = length z -> concat (runs labels z) = z.
Proof. exact runs_tile. Qed.
Print Assumptions C20_runs_tile.

(** a constant series yields that constant on every day (hence for every period) *)
Theorem C20_constant : forall lam c template m,
  0 < lam -> (4 <= length template)%nat -> is01 template -> 1 < rsum template -> rsum template <= INR m -> (1 <= m)%nat ->
  forall i, (i < length template)%nat -> nth i (daily_curve OpsR lam (repeat c m) template) 0 = c.
Proof. exact daily_curve_constant. Qed.
Print Assumptions C20_constant.

Theorem C20_mean_of_constant : forall c l, l <> nil -> Forall (fun v => v = c) l -> mean l = c.
Proof. exact mean_const. Qed.
Print Assumptions C20_mean_of_constant.

(** observations that are linear in the day number of their marks yield exactly that line on every day *)
Theorem C20_linear : forall lam x template a b,
  0 < lam -> (4 <= length template)%nat -> is01 template -> 1 < rsum template ->
  let temp := set_last (scatter OpsR template x) (last x 0) in
  length temp = length template ->
  (forall i, (i < length template)%nat -> nth i template 0 = 1 -> nth i temp 0 = a + b * INR i) ->
  forall i, (i < length template)%nat -> nth i (daily_curve OpsR lam x template) 0 = a + b * INR i.
Proof. exact daily_curve_affine. Qed.
Print Assumptions C20_linear.

(** the seeded last day (temp[-1] = x[-1]) has weight 0 unless it is marked *)
Theorem C20_last_seed_irrelevant : forall lam (template temp : list R) v1 v2,
  is01 template -> length temp = length template -> last template 0 = 0 ->
  ws2d OpsR (set_last temp v1) lam template = ws2d OpsR (set_last temp v2) lam template.
Proof. exact last_seed_irrelevant. Qed.
Print Assumptions C20_last_seed_irrelevant.
