"""C17 — rolling sum and grouped mean reduce exactly the valid cells."""
import itertools

import numpy as np

from vlib import core
from vlib.core import zlist, zlit, flist

PRE = "From HDC Require Import Base.Prelude Base.Float Model.Rolling Corr.C17.\nFrom Coq Require Import PrimFloat.\n"
ND = -9999


# ---------------------------------------------------------------- spec (independent, python ints)

def f32(v):
    return float(np.float32(v))


def spec_rolling(xx, ws, nd, out, kernel=True):
    """Return None if `out` (float32 values) satisfies the property, else a description."""
    n = len(xx)
    ndf = f32(nd)
    off = 0 if kernel else ws - 1
    if len(out) != n - off:
        return "length %d, expected %d" % (len(out), n - off)
    for i in range(max(ws - 1, 0), n):
        win = xx[i - ws + 1:i + 1]
        valid = [v for v in win if v != nd]
        o = out[i - off]
        if len(valid) == len(win):
            if o != f32(sum(win)):
                return "pos %d: complete window %s gives %s, expected %s" % (i, win, o, sum(win))
        elif not valid:
            if o != ndf:
                return "pos %d: all-nodata window gives %s" % (i, o)
        elif o != ndf and o != f32(sum(valid)):
            return "pos %d: mixed window %s gives %s (neither nodata nor %s)" % (i, win, o, sum(valid))
    return None


def spec_mean(xx, grp, nd, out):
    from fractions import Fraction
    for i, g in enumerate(grp):
        mem = [x for x, h in zip(xx, grp) if h == g and x != nd]
        o = out[i]
        if not mem:
            if o != float(np.float32(nd)):
                return "pos %d: empty group gives %s" % (i, o)
        else:
            exact = Fraction(sum(mem), len(mem))
            # the value is stored in float32: one unit in its last place around the exact mean (a float64 accumulation rounded once stays
            # within half a unit; a float32 accumulation of a long or wide-ranged group does not)
            tol = max(abs(exact), 1) * Fraction(1, 2 ** 23)
            if not np.isfinite(o) or abs(Fraction(o) - exact) > tol:
                return "pos %d: group %d mean %s, exact %s (more than one float32 unit in the last place away)" % (i, g, o, float(exact))
    return None


# ---------------------------------------------------------------- generators

def surjective_labelings(L, k):
    for lab in itertools.product(range(k), repeat=L):
        if set(lab) == set(range(k)):
            yield list(lab)


def gen(ctx, rng):
    exh_len = 8 if ctx.thorough else 5
    alphabet = [ND, -2, 0, 1]
    rolling = []    # batches
    for L in range(1, exh_len + 1):
        allx = [list(t) for t in itertools.product(alphabet, repeat=L)]
        for ws in range(1, L + 1):
            dt = ["int16", "int64", "float32"][(L + ws) % 3] if L > 3 else None
            for dtype in ([dt] if dt else ["int16", "int64", "float32"]):
                rolling.append(dict(xx=allx, ws=ws, nd=ND, dtype=dtype, exhaustive=True))
    # random longer series, every dtype, several nodata values
    nrand = 400 if ctx.thorough else 60
    for _ in range(nrand):
        L = int(rng.integers(2, 120))
        ws = int(rng.integers(1, L + 1))
        dtype = str(rng.choice(["int16", "int32", "int64", "float32"]))
        nd = int(rng.choice([ND, 0, -1, 255, 32767, -32768, 7]))
        if dtype in ("int32", "int64") and rng.random() < 0.5:   # sentinels that binary32 cannot represent
            nd = int(rng.choice([2147483647, -2147483647, 16777217, -99999999, -2147483648]))
        rows = []
        for _r in range(4):
            gapf = rng.choice([0.0, 0.1, 0.5, 0.9, 1.0])
            x = rng.integers(-300, 300, size=L)
            x = np.where(x == nd, nd + 1, x)
            x = np.where(rng.random(L) < gapf, nd, x)
            rows.append([int(v) for v in x])
        rolling.append(dict(xx=rows, ws=ws, nd=nd, dtype=dtype, exhaustive=False))
    # float32 series with a large dynamic range: a cell of 2**24..2**26 among cells of order 1 enters and leaves the window; every window
    # is the sum of ITS cells (a running total that adds the entering and subtracts the leaving cell keeps what the big cell absorbed).
    # Kept only when adding the window's cells one after the other in binary32 gives the once-rounded exact sum (no claim beyond that).
    def seq32_ok(x, ws):
        for i in range(ws - 1, len(x)):
            acc = np.float32(0)
            for v in x[i - ws + 1:i + 1]:
                acc = np.float32(acc + np.float32(v))
            if float(acc) != f32(sum(x[i - ws + 1:i + 1])):
                return False
        return True
    for k in range(40 if ctx.thorough else 16):
        L = int(rng.integers(6, 30))
        ws = int(rng.integers(2, 5))
        x = [int(v) for v in rng.integers(0, 6, size=L)]
        for _b in range(int(rng.integers(1, 3))):
            x[int(rng.integers(0, L - ws))] = int(rng.choice([2 ** 24, 2 ** 25, 2 ** 26, -2 ** 25, 2 ** 24 + 2]))
        if k % 4 == 0:
            x = [2 ** 25, 1, 1, 1, 1, 1][:max(L, 6)] + x[6:]
            ws = 2
        if seq32_ok(x, ws):
            rolling.append(dict(xx=[x], ws=ws, nd=ND, dtype="float32", exhaustive=False))
    # nodata-independence pairs: same cells, two encodings (second batch follows the first)
    pairs = []
    for _ in range(60 if ctx.thorough else 20):
        L = int(rng.integers(2, 40))
        ws = int(rng.integers(1, L + 1))
        vals = rng.integers(-50, 50, size=L)
        miss = rng.random(L) < rng.choice([0.2, 0.5, 0.8])
        nd1, nd2 = 1000, -777
        x1 = [int(nd1 if m else v) for v, m in zip(vals, miss)]
        x2 = [int(nd2 if m else v) for v, m in zip(vals, miss)]
        pairs.append((dict(xx=[x1], ws=ws, nd=nd1, dtype="int16", exhaustive=False),
                      dict(xx=[x2], ws=ws, nd=nd2, dtype="int16", exhaustive=False)))
    # accessor cubes
    acc = []
    for k in range(14 if ctx.thorough else 7):
        L = int(rng.integers(3, 12))
        ws = int(rng.integers(1, L + 1))
        dtype = ["int16", "int64", "float32", "int32", "int64", "int32", "int16"][k % 7]
        nd = ND
        if k % 7 in (3, 4, 5):                         # wide integer cubes with sentinels that binary32 cannot represent
            nd = [2147483647, 2 ** 40 + 1, -99999999][k % 7 - 3]
        cube = rng.integers(-20, 20, size=(2, 3, L)).astype("int64")
        cube = np.where(cube == nd, 0, cube)
        cube = np.where(rng.random(cube.shape) < 0.35, nd, cube)
        cube[0, 0, :] = nd
        acc.append(dict(xx=cube.tolist(), ws=ws, nd=nd, dtype=dtype, attr=bool(k % 2)))
    # the dimension keyword: rolling along y or x of a (y, x, time) cube
    for k, dim in enumerate(["x", "y"] + (["x", "y"] if ctx.thorough else [])):
        shape = (int(rng.integers(4, 9)), int(rng.integers(4, 9)), 3)
        ws = int(rng.integers(2, 4))
        cube = rng.integers(-20, 20, size=shape).astype("int64")
        cube = np.where(rng.random(cube.shape) < 0.3, ND, cube)
        acc.append(dict(xx=cube.tolist(), ws=ws, nd=ND, dtype=["int16", "float32"][k % 2], attr=False, dim=dim))
    # mean_grp: exhaustive small scope + random
    mean = []
    exh_m = 5 if ctx.thorough else 4
    for L in range(1, exh_m + 1):
        allx = [list(t) for t in itertools.product(alphabet, repeat=L)]
        for k in range(1, min(3, L) + 1):
            for lab in surjective_labelings(L, k):
                mean.append(dict(xx=allx, grp=lab, ng=k, nd=ND,
                                 dtype=["int16", "int32", "int64", "float32"][(L + k + sum(lab)) % 4], exhaustive=True))
    for _ in range(200 if ctx.thorough else 40):
        L = int(rng.integers(2, 80))
        k = int(rng.integers(1, min(L, 36) + 1))
        lab = list(range(k)) + [int(v) for v in rng.integers(0, k, size=L - k)]
        rng.shuffle(lab)
        nd = int(rng.choice([ND, 0, -1, 32767]))
        rows = []
        for _r in range(3):
            x = rng.integers(-3000, 3000, size=L)
            x = np.where(x == nd, nd + 1, x)
            x = np.where(rng.random(L) < rng.choice([0.0, 0.3, 0.9]), nd, x)
            rows.append([int(v) for v in x])
        mean.append(dict(xx=rows, grp=[int(g) for g in lab], ng=k, nd=nd,
                         dtype=str(rng.choice(["int16", "int32", "int64", "float32"])), exhaustive=False))
    # float32 series whose running sum leaves the 24-bit mantissa: large dynamic range inside a group, and long groups
    mean.append(dict(xx=[[16777216, 1, 1, 1], [16777216, 3, 5, 7], [1, 1, 1, 16777216]], grp=[0, 0, 0, 0], ng=1, nd=ND, dtype="float32", exhaustive=False))
    mean.append(dict(xx=[[16777216, 1, ND, 1, 2, 33554432], [3, 16777216, 1, 1, 1, 5]], grp=[0, 1, 0, 1, 0, 1], ng=2, nd=ND, dtype="float32", exhaustive=False))
    for L in ([4000, 20000] if ctx.thorough else [4000]):
        x = rng.integers(5000, 6001, size=L)
        x = np.where(rng.random(L) < 0.1, ND, x)
        lab = [int(v) for v in rng.integers(0, 2, size=L)]
        lab[0], lab[1] = 0, 1
        mean.append(dict(xx=[[int(v) for v in x]], grp=lab, ng=2, nd=ND, dtype="float32", exhaustive=False))
    macc = []
    for k in range(6 if ctx.thorough else 3):
        L = int(rng.integers(3, 10))
        ng = int(rng.integers(1, 4))
        lab = list(range(ng)) + [int(v) for v in rng.integers(0, ng, size=L - ng)] if L >= ng else [0] * L
        cube = rng.integers(-20, 20, size=(2, 2, L))
        cube = np.where(rng.random(cube.shape) < 0.3, ND, cube)
        macc.append(dict(xx=cube.tolist(), grp=lab[:L], nd=ND, dtype=["int16", "float32", "int32"][k % 3]))
    # labelings whose last element is not the largest label: cyclic indices ending mid-cycle, descending blocks
    for k, lab in enumerate([[0, 1, 2, 0, 1], [1, 1, 0], [2, 2, 1, 1, 0, 0], [0, 1, 2, 3, 0, 1, 2, 3, 0]]):
        cube = rng.integers(-20, 20, size=(2, 2, len(lab)))
        cube = np.where(rng.random(cube.shape) < 0.2, ND, cube)
        macc.append(dict(xx=cube.tolist(), grp=lab, nd=ND, dtype=["int16", "float32", "int32", "int64"][k % 4]))
    # the nodata keyword (value 0 included) with the attribute absent or different
    for k, (ndk, kw) in enumerate([(0, "noattr"), (0, "other"), (-1, "other"), (255, "noattr")]):
        lab = [0, 0, 1, 1, 2, 2, 0, 1]
        cube = rng.integers(1, 40, size=(2, 2, len(lab)))
        cube = np.where(rng.random(cube.shape) < 0.3, ndk, cube)
        macc.append(dict(xx=cube.tolist(), grp=lab, nd=ndk, dtype=["int16", "float32", "int32", "int64"][k % 4], kw=kw))
    return rolling, pairs, acc, mean, macc


def as_ints(vals):
    out = []
    for v in vals:
        if v != v or v in (float("inf"), float("-inf")) or v != int(v):
            return None
        out.append(int(v))
    return out


def run(ctx):
    ctx.proofs(["Props/C17.v"])
    rng = np.random.default_rng(ctx.seed)
    rolling, pairs, acc, mean, macc = gen(ctx, rng)
    flat_roll = rolling + [b for p in pairs for b in p]
    payload = dict(rolling=[{k: b[k] for k in ("xx", "ws", "nd", "dtype")} for b in flat_roll],
                   rolling_acc=acc,
                   mean=[{k: b[k] for k in ("xx", "grp", "ng", "nd", "dtype")} for b in mean],
                   mean_acc=macc)
    res, log = core.run_impl("c17_impl.py", payload)
    if res is None:
        ctx.violation("implementation run failed", dict(kind="impl-crash", log=log[-3000:]), found_input=False)
        return
    cases, meta, spec_fail = [], [], []
    n_exh = 0
    dist = dict(rolling=0, rolling_acc=0, mean=0, mean_acc=0, lengths={}, mixed_windows=0, nodata_windows=0)

    def note_len(L):
        dist["lengths"][L] = dist["lengths"].get(L, 0) + 1

    # ---- rolling kernel
    for b, r in zip(flat_roll, res["rolling"]):
        for x, o in zip(b["xx"], r["out"]):
            oi = o
            m = dict(kind="rolling_sum", xx=x, ws=b["ws"], nd=b["nd"], dtype=b["dtype"], out=o)
            dist["rolling"] += 1
            note_len(len(x))
            n_exh += 1 if b["exhaustive"] else 0
            if r["dtype"] != "float32":
                spec_fail.append((m, "output dtype %s" % r["dtype"]))
            why = spec_rolling(x, b["ws"], b["nd"], oi)
            if why:
                spec_fail.append((m, why))
            nmiss = sum(1 for v in x if v == b["nd"])
            if 0 < nmiss < len(x):
                dist["mixed_windows"] += 1
            if nmiss:
                dist["nodata_windows"] += 1
            cases.append("RC %s %d%%nat %s %s" % (zlist(x), b["ws"], zlit(b["nd"]), flist(oi)))
            meta.append(m)
    # nodata-independence pairs on the implementation
    base = len(rolling)
    for i, (b1, b2) in enumerate(pairs):
        o1 = res["rolling"][base + 2 * i]["out"][0]
        o2 = res["rolling"][base + 2 * i + 1]["out"][0]
        for j, (u, v) in enumerate(zip(o1, o2)):
            if j < b1["ws"] - 1:
                continue
            if not ((u == f32(b1["nd"]) and v == f32(b2["nd"])) or u == v):
                spec_fail.append((dict(kind="rolling_pair", a=b1, b=b2, out_a=o1, out_b=o2),
                                  "pos %d: %s vs %s under two nodata encodings" % (j, u, v)))
    r1 = core.eval_cases("C17", "roll", PRE, cases, "check_rolling", shard=2500)
    # ---- accessor
    acases, ameta = [], []
    for b, r in zip(acc, res["rolling_acc"]):
        cube = np.array(b["xx"])
        o = np.array(r["out"])
        m0 = dict(kind="rolling_accessor", ws=b["ws"], nd=b["nd"], dtype=b["dtype"], attr=b["attr"], dimension=b.get("dim", "time"))
        if "error" in r:
            spec_fail.append((m0, "rolling.sum(dimension=%r) raised %s" % (b.get("dim"), r["error"])))
            continue
        if b.get("dim"):
            ax = {"y": 0, "x": 1}[b["dim"]]
            cube = np.moveaxis(cube, ax, -1)            # the rolled dimension last, like the transposed result
            if r["dims"][-1] != b["dim"] or list(o.shape[:-1]) != list(cube.shape[:-1]):
                spec_fail.append((dict(m0, dims=r["dims"], shape=list(o.shape)), "rolling.sum(dimension=%r): dims / shape changed" % b["dim"]))
                continue
        elif r["dims"] != ["y", "x", "time"]:
            spec_fail.append((dict(m0, dims=r["dims"]), "dims changed"))
            continue
        for yy in range(cube.shape[0]):
            for xi in range(cube.shape[1]):
                x = [int(v) for v in cube[yy, xi]]
                oi = o[yy, xi].tolist()
                m = dict(m0, xx=x, out=o[yy, xi].tolist())
                dist["rolling_acc"] += 1
                why = spec_rolling(x, b["ws"], b["nd"], oi, kernel=False)
                if why:
                    spec_fail.append((m, why))
                acases.append("RC %s %d%%nat %s %s" % (zlist(x), b["ws"], zlit(b["nd"]), flist(oi)))
                ameta.append(m)
    r2 = core.eval_cases("C17", "racc", PRE, acases, "check_rolling_acc", shard=2500)
    # ---- mean_grp kernel
    mcases, mmeta = [], []
    for b, r in zip(mean, res["mean"]):
        for x, o in zip(b["xx"], r["out"]):
            m = dict(kind="mean_grp", xx=x, grp=b["grp"], ng=b["ng"], nd=b["nd"], dtype=b["dtype"], out=o)
            dist["mean"] += 1
            n_exh += 1 if b["exhaustive"] else 0
            why = spec_mean(x, b["grp"], b["nd"], o)
            if why:
                spec_fail.append((m, why))
            mcases.append("MC %s %s %s %s %s" % (zlist(x), zlist(b["grp"]), zlit(b["ng"]), zlit(b["nd"]), flist(o)))
            mmeta.append(m)
    for b, r in zip(macc, res["mean_acc"]):
        cube = np.array(b["xx"])
        if "error" in r:
            spec_fail.append((dict(kind="mean_grp_accessor", nd=b["nd"], keyword=b.get("kw"), xx=b["xx"], grp=b["grp"]),
                              "mean_grp(groups, nodata=%r) raised %s" % (b["nd"], r["error"])))
            continue
        o = np.array(r["out"])
        ng = len(set(b["grp"]))
        if r["dims"] != ["y", "x", "time"]:
            spec_fail.append((dict(kind="mean_grp_accessor", dims=r["dims"]), "dims changed"))
            continue
        for yy in range(cube.shape[0]):
            for xi in range(cube.shape[1]):
                x = [int(v) for v in cube[yy, xi]]
                oo = o[yy, xi].tolist()
                m = dict(kind="mean_grp_accessor", xx=x, grp=b["grp"], ng=ng, nd=b["nd"], dtype=b["dtype"], out=oo)
                dist["mean_acc"] += 1
                why = spec_mean(x, b["grp"], b["nd"], oo)
                if why:
                    spec_fail.append((m, why))
                mcases.append("MC %s %s %s %s %s" % (zlist(x), zlist(b["grp"]), zlit(ng), zlit(b["nd"]), flist(oo)))
                mmeta.append(m)
    r3 = core.eval_cases("C17", "mean", PRE, mcases, "check_mean_grp", shard=1500, scope="Z")

    total = len(cases) + len(acases) + len(mcases)
    ctx.cov["evaluations"] = total
    ctx.cov["distinct_nontrivial"] = len({c for c in cases if "(-9999)" in c or "1000" in c}) + \
        len({c for c in mcases})
    ctx.cov["rule"] = ("exhaustive series over {nodata,-2,0,1} up to length %d x all windows (rolling) and up to "
                       "length %d x all surjective labelings with <=3 groups (mean_grp), plus seeded random longer "
                       "series over int16/int32/int64/float32, nodata-encoding pairs and accessor cubes; a rolling "
                       "case is non-trivial when it contains a nodata cell, every distinct mean_grp case counts"
                       % (8 if ctx.thorough else 5, 5 if ctx.thorough else 4))
    ctx.cov["exhaustive"] = True
    ctx.notes.update(cases_exact=total, exhaustive_cases=n_exh, input_distribution=dist,
                     model_vs_impl_mismatches=len(r1["failing"]) + len(r2["failing"]) + len(r3["failing"]),
                     spec_failures=len(spec_fail), pairs_checked=len(pairs))
    ctx.add_samples([meta[i] for i in (0, len(meta) // 2, len(meta) - 1)] + mmeta[-2:])
    ctx.assumptions += ["values are integers (float32 inputs are integral) small enough that every partial sum is "
                        "exact in binary32 (|sum| < 2^24); the float32 store of means is modelled by Base/Float.to_f32",
                        "implementation run through /venv/bin/python with PYTHONPATH=/repo"]
    for r, tag in ((r1, "rolling"), (r2, "rolling accessor"), (r3, "mean_grp")):
        for si, lg in r["errors"]:
            ctx.violation("Coq could not evaluate the %s cases" % tag, dict(kind="coq-eval-error", log=lg), found_input=False)
    # ---- break protocol
    if spec_fail:
        spec_fail.sort(key=lambda t: len(str(t[0])))
        m, why = spec_fail[0]
        ctx.violation(why, dict(kind="spec", case=m, n_failing=len(spec_fail)))
    else:
        bad = [meta[i] for i in r1["failing"]] + [ameta[i] for i in r2["failing"]] + [mmeta[i] for i in r3["failing"]]
        if bad:
            bad.sort(key=lambda m: len(str(m.get("xx", ""))))
            ctx.violation("model and implementation disagree (correspondence Corr/C17.v), property spec holds on all "
                          "explored inputs", dict(kind="correspondence", correspondence="Corr/C17.v check_*",
                                                  case=bad[0], n_disagree=len(bad)), found_input=False)


def replay(ctx, path):
    import json
    rp = json.load(open(path))
    c = rp.get("case", {})
    if c.get("kind") in ("rolling_sum",):
        res, log = core.run_impl("c17_impl.py", dict(rolling=[dict(xx=[c["xx"]], ws=c["ws"], nd=c["nd"], dtype=c["dtype"])]))
        o = res["rolling"][0]["out"][0]
        why = spec_rolling(c["xx"], c["ws"], c["nd"], o)
        print("replay:", c, "->", o, "|", why or "property holds")
        return 1 if why else 0
    if c.get("kind") == "mean_grp":
        res, log = core.run_impl("c17_impl.py", dict(mean=[dict(xx=[c["xx"]], grp=c["grp"], ng=c["ng"], nd=c["nd"], dtype=c["dtype"])]))
        o = res["mean"][0]["out"][0]
        why = spec_mean(c["xx"], c["grp"], c["nd"], o)
        print("replay:", c, "->", o, "|", why or "property holds")
        return 1 if why else 0
    print("replay of kind %s: re-run ./check C17" % c.get("kind"))
    return 2
