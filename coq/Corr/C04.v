(** Correspondence cases for the V-curve smoothers (C04; also used by C02, C06). *)
From HDC Require Import Base.Prelude Base.Float Base.Ops Model.Ws2d Model.Smoothers Model.VCurve Corr.C03.
From Coq Require Import PrimFloat.
Open Scope Z_scope.

Inductive vkind := KOptv | KOptvp (p : float) | KOptvplc (p lc : float) (ghi glo : list float).
Record vcase := VC { v_kind : vkind; v_y : list float; v_nd : float; v_llas : list float;
                     v_log : oracle_table; v_pow : oracle_table; v_out : list Z; v_lopt : float }.

Definition run_v (c : vcase) : vresult :=
  let O := OpsF {| t_log := v_log c; t_pow10 := v_pow c; t_cos := [] |} in
  match v_kind c with
  | KOptv => ws2doptv O (v_y c) (v_nd c) (v_llas c)
  | KOptvp p => ws2doptvp O (v_y c) (v_nd c) p (v_llas c)
  | KOptvplc p lc ghi glo => ws2doptvplc O ghi glo (v_y c) (v_nd c) p lc
  end.

Definition claim_v (c : vcase) : bool :=
  match run_v c with
  | VPass => match store16 (v_y c) with Some _ => true | None => false end
  | VFit z _ => match store16 z with Some _ => true | None => false end
  | VStuck => false
  end.

Definition check_v (c : vcase) : bool :=
  match run_v c with
  | VPass => match store16 (v_y c) with Some v => zeqb_list v (v_out c) && feq_bits (v_lopt c) zero | None => true end
  | VFit z l => feq_bits l (v_lopt c) && match store16 z with Some v => zeqb_list v (v_out c) | None => true end
  | VStuck => false
  end.
