(** The expectile (asymmetric least squares) problem behind ws2dpgu / the asymmetric V-curve and GCV smoothers:
    objective   A(z) = sum_i W_i * rho_p(Y_i - z_i) + lam * |D2 z|^2,   rho_p(r) = (p if r > 0 else 1 - p) * r^2.
    A curve z that is a fixed point of the reweighting (it solves the weighted normal equations for the weights
    it induces itself) is the global minimiser of A, with a quadratic margin; it is the unique one when two
    weights are positive.  This is the statement "the returned curve is the expectile curve" for every run of
    the reweighting loop that stops on an unchanged pass. *)
From Coq Require Import ZArith Reals Lra Lia Bool Psatz.
From HDC Require Import Proofs.RSums Proofs.Penalty.
Open Scope R_scope.

Section Expectile.
  Variable n : nat.
  Variables W Y : Z -> R.
  Variables lam p : R.
  Hypothesis W_nonneg : forall i, (0 <= i < Z.of_nat n)%Z -> 0 <= W i.
  Hypothesis lam_pos : 0 < lam.
  Hypothesis p_range : 0 < p < 1.

  (** the factor the reweighting gives a cell with residual r = y - z  ("p if y > z else 1 - p") *)
  Definition cw (r : R) : R := if Rlt_dec 0 r then p else 1 - p.
  Definition rho (r : R) : R := cw r * r ^ 2.
  Definition Aobj (z : Z -> R) : R :=
    sumn (fun i => W i * rho (Y i - z i)) n + lam * sumn (fun j => (D2 z j) ^ 2) (n - 2).

  Definition m : R := Rmin p (1 - p).
  Lemma m_pos : 0 < m.
  Proof. unfold m. apply Rmin_glb_lt; lra. Qed.
  Lemma m_le_p : m <= p. Proof. apply Rmin_l. Qed.
  Lemma m_le_q : m <= 1 - p. Proof. apply Rmin_r. Qed.

  (** rho is convex with modulus m: it lies above its tangent parabola *)
  Lemma rho_tangent r h : rho r - 2 * cw r * r * h + m * h ^ 2 <= rho (r - h).
  Proof.
    pose proof m_le_p. pose proof m_le_q. pose proof m_pos.
    unfold rho, cw. destruct (Rlt_dec 0 r) as [Hr|Hr]; destruct (Rlt_dec 0 (r - h)) as [Hs|Hs].
    - (* both positive: p (r-h)^2 - p r^2 + 2 p r h = p h^2 *)
      assert (0 <= (p - m) * h ^ 2) by (apply Rmult_le_pos; [lra|nra]). nra.
    - (* r > 0 >= r - h: with v = h - r >= 0 the gap is (1-p-m) v^2 + (p-m) r^2 + 2 (p-m) r v *)
      assert (0 <= h - r) by lra.
      assert (0 <= (1 - p - m) * (h - r) ^ 2) by (apply Rmult_le_pos; [lra|nra]).
      assert (0 <= (p - m) * r ^ 2) by (apply Rmult_le_pos; [lra|nra]).
      assert (0 <= (p - m) * (r * (h - r))) by (apply Rmult_le_pos; [lra|nra]). nra.
    - (* r <= 0 < r - h: with u = -r >= 0, v = r - h > 0 the gap is (p-m) v^2 + (1-p-m) u^2 + 2 (1-p-m) u v *)
      assert (0 <= - r) by lra.
      assert (0 <= (p - m) * (r - h) ^ 2) by (apply Rmult_le_pos; [lra|nra]).
      assert (0 <= (1 - p - m) * r ^ 2) by (apply Rmult_le_pos; [lra|nra]).
      assert (0 <= (1 - p - m) * (- r * (r - h))) by (apply Rmult_le_pos; [lra|nra]). nra.
    - assert (0 <= (1 - p - m) * h ^ 2) by (apply Rmult_le_pos; [lra|nra]). nra.
  Qed.

  (** ** a fixed point of the reweighting *)
  Variable z : Z -> R.
  Definition WW (i : Z) : R := W i * cw (Y i - z i).
  Hypothesis fixed_point : forall i, (0 <= i < Z.of_nat n)%Z -> Aop n WW lam z i = WW i * Y i.

  Lemma WW_nonneg i : (0 <= i < Z.of_nat n)%Z -> 0 <= WW i.
  Proof. intros Hi. unfold WW, cw. specialize (W_nonneg i Hi). destruct (Rlt_dec 0 (Y i - z i)); nra. Qed.

  (** the linear term of the expansion vanishes at the fixed point *)
  Lemma linear_term_zero h : (2 <= n)%nat ->
    sumn (fun i => WW i * h i * (z i - Y i)) n + lam * sumn (fun j => D2 h j * D2 z j) (n - 2) = 0.
  Proof.
    intros Hn. rewrite <- (adjoint n h z Hn). rewrite <- sumn_scal, <- sumn_plus.
    apply sumn_all_zero. intros i Hi. pose proof (fixed_point i Hi) as E. rewrite Aop_DtD in E.
    transitivity (h i * ((WW i * z i + lam * DtD n z i) - WW i * Y i)); [ring|]. rewrite E. ring.
  Qed.

  Definition Qm (h : Z -> R) : R := sumn (fun i => m * W i * (h i) ^ 2) n + lam * sumn (fun j => (D2 h j) ^ 2) (n - 2).

  Theorem expectile_fixed_point_minimises z' : (2 <= n)%nat ->
    Aobj z + Qm (fun i => z' i - z i) <= Aobj z'.
  Proof.
    intros Hn. set (h := fun i => z' i - z i). unfold Aobj, Qm.
    pose proof (linear_term_zero h Hn) as L.
    assert (forall j, D2 z' j = D2 z j + D2 h j) as Dl by (intros; unfold D2, h; ring).
    rewrite (sumn_ext (fun j => D2 z' j ^ 2) (fun j => D2 z j ^ 2 + (D2 h j ^ 2 + 2 * (D2 h j * D2 z j))) (n - 2))
      by (intros; rewrite Dl; ring).
    rewrite !sumn_plus, !sumn_scal.
    (* the data term, cell by cell *)
    assert (sumn (fun i => W i * rho (Y i - z i)) n + sumn (fun i => m * W i * h i ^ 2) n
            + 2 * sumn (fun i => WW i * h i * (z i - Y i)) n <= sumn (fun i => W i * rho (Y i - z' i)) n) as D.
    { rewrite <- sumn_scal, <- !sumn_plus.
      assert (forall f g k, (forall i, (0 <= i < Z.of_nat k)%Z -> f i <= g i) -> sumn f k <= sumn g k) as Mono.
      { intros f g k Hfg. assert (0 <= sumn (fun i => g i - f i) k) as N0 by (apply sumn_nonneg; intros i Hi; specialize (Hfg i Hi); lra).
        assert (sumn (fun i => g i - f i) k = sumn g k - sumn f k) as E.
        { rewrite (sumn_ext (fun i => g i - f i) (fun i => g i + (-1) * f i)) by (intros; ring). rewrite sumn_plus, sumn_scal. ring. }
        lra. }
      apply Mono. intros i Hi. specialize (W_nonneg i Hi).
      pose proof (rho_tangent (Y i - z i) (h i)) as T.
      replace (Y i - z i - h i) with (Y i - z' i) in T by (unfold h; ring).
      unfold WW. nra. }
    nra.
  Qed.

  (** hence z minimises A, and any other minimiser coincides with it when two weights are positive *)
  Corollary expectile_minimum z' : (2 <= n)%nat -> Aobj z <= Aobj z'.
  Proof.
    intros Hn. pose proof (expectile_fixed_point_minimises z' Hn) as H.
    assert (0 <= Qm (fun i => z' i - z i)).
    { unfold Qm. pose proof m_pos.
      assert (0 <= sumn (fun i => m * W i * (z' i - z i) ^ 2) n) by (apply sumn_nonneg; intros i Hi; pose proof (W_nonneg i Hi); apply Rmult_le_pos; [apply Rmult_le_pos; [left; exact m_pos|assumption]|apply pow2_ge_0]).
      assert (0 <= sumn (fun j => D2 (fun i => z' i - z i) j ^ 2) (n - 2)) by (apply sumn_nonneg; intros; nra). nra. }
    lra.
  Qed.

  Hypothesis two_weights : exists a b, (0 <= a < b)%Z /\ (b < Z.of_nat n)%Z /\ 0 < W a /\ 0 < W b.

  Corollary expectile_unique z' : (2 <= n)%nat -> Aobj z' = Aobj z -> forall i, (0 <= i < Z.of_nat n)%Z -> z' i = z i.
  Proof.
    intros Hn E i Hi. pose proof (expectile_fixed_point_minimises z' Hn) as H.
    set (h := fun i => z' i - z i) in *.
    assert (Qm h = Q n (fun i => m * W i) lam h) as EQ by reflexivity.
    pose proof m_pos as Mp.
    assert (forall i, (0 <= i < Z.of_nat n)%Z -> 0 <= m * W i) as Wn by (intros k Hk; specialize (W_nonneg k Hk); nra).
    assert (0 <= Q n (fun i => m * W i) lam h) as Qn by (apply Q_nonneg; assumption).
    assert (Q n (fun i => m * W i) lam h = 0) as Q0 by lra.
    assert (exists a b, (0 <= a < b)%Z /\ (b < Z.of_nat n)%Z /\ 0 < m * W a /\ 0 < m * W b) as TW.
    { destruct two_weights as (a & b & Hab & Hb & Wa & Wb). exists a, b. repeat split; try lia; nra. }
    pose proof (Q_definite n (fun i => m * W i) lam Wn lam_pos TW h Hn Q0 i Hi) as H0. unfold h in H0. lra.
  Qed.
End Expectile.
