(** Zonal mean (property C16), exact arithmetic: per zone the mean and the count of the valid
    pixels whose zone id is that zone; invariant under any rearrangement of the pixels. *)
From Coq Require Import ZArith Reals Lra Lia Bool List Sorting.Permutation.
From HDC Require Import Base.Prelude Base.Ops Model.Zonal Proofs.SmoothersProofs.
Open Scope R_scope.

Definition cell := (option R * option Z)%type.

(** the valid pixels of zone k *)
Fixpoint members (k : Z) (px : list cell) : list R :=
  match px with
  | [] => []
  | (Some p, Some z) :: r => if Z.eqb z k then p :: members k r else members k r
  | _ :: r => members k r
  end.

Lemma zone_acc_spec k px : forall s c,
  fold_left (zstep OpsR k) px (s, c) = (s + rsum (members k px), c + INR (length (members k px))).
Proof.
  induction px as [|[op oz] r IH]; intros s c; cbn [fold_left members].
  - cbn. f_equal; ring.
  - destruct op as [p|]; destruct oz as [z|]; unfold zstep at 2; cbn [fst snd]; try apply IH.
    destruct (Z.eqb z k); [|apply IH]. rewrite IH. cbn [rsum length fadd f1 OpsR]. rewrite S_INR. f_equal; ring.
Qed.

Theorem zone_mean_spec k px :
  zone_mean OpsR k px =
  (if Nat.eqb (length (members k px)) 0 then None else Some (rsum (members k px) / INR (length (members k px))),
   INR (length (members k px))).
Proof.
  unfold zone_mean, zone_acc. cbn [f0 OpsR]. rewrite zone_acc_spec. rewrite !Rplus_0_l. cbn [fltb fdiv OpsR].
  destruct (length (members k px)) as [|n] eqn:E.
  - cbn [INR Nat.eqb]. replace (Rltb 0 0) with false; [reflexivity|]. symmetry. apply not_true_is_false. intros H. apply Rltb_true in H. lra.
  - cbn [Nat.eqb]. replace (Rltb 0 (INR (S n))) with true; [reflexivity|]. symmetry. apply Rltb_true. apply lt_0_INR. lia.
Qed.

(** pixels whose zone equals the zone raster's nodata, and nodata / NaN pixels, contribute nowhere *)
Theorem excluded_cells k p z r :
  members k ((None, z) :: r) = members k r /\ members k ((p, None) :: r) = members k r.
Proof. split; [reflexivity|destruct p; reflexivity]. Qed.

Definition sel (k : Z) (c : cell) : list R :=
  match c with (Some p, Some z) => if Z.eqb z k then [p] else [] | _ => [] end.

Lemma members_flat_map k px : members k px = flat_map (sel k) px.
Proof.
  induction px as [|[op oz] r IH]; [reflexivity|]. cbn [members flat_map sel].
  destruct op as [p|]; destruct oz as [z|]; try exact IH. destruct (Z.eqb z k); cbn [app]; now rewrite IH.
Qed.

Lemma members_perm k px px' : Permutation px px' -> Permutation (members k px) (members k px').
Proof. intros P. rewrite !members_flat_map. now apply Permutation_flat_map. Qed.

Lemma rsum_perm l l' : Permutation l l' -> rsum l = rsum l'.
Proof. induction 1; cbn [rsum]; lra. Qed.

(** the result does not depend on the order in which the pixels are visited *)
Theorem zone_mean_perm k px px' : Permutation px px' -> zone_mean OpsR k px = zone_mean OpsR k px'.
Proof.
  intros P. rewrite !zone_mean_spec. pose proof (members_perm k px px' P) as M.
  rewrite (rsum_perm _ _ M), (Permutation_length M). reflexivity.
Qed.

Theorem do_mean_perm n px px' : Permutation px px' -> do_mean OpsR n px = do_mean OpsR n px'.
Proof. intros P. unfold do_mean. apply map_ext. intros k. now apply zone_mean_perm. Qed.

(** ---- zones are isolated from one another ---- *)

(** a pixel of another zone (or with an id outside the zones asked for) contributes nothing to zone k *)
Theorem other_zone_cell k p z r : z <> k -> members k ((p, Some z) :: r) = members k r.
Proof.
  intros H. destruct p as [p|]; cbn [members]; [|reflexivity].
  destruct (Z.eqb_spec z k) as [E|_]; [contradiction|reflexivity].
Qed.

(** the cells of zone k, in order *)
Definition in_zone (k : Z) (c : cell) : bool :=
  match snd c with Some z => Z.eqb z k | None => false end.

Lemma members_filter k px : members k (filter (in_zone k) px) = members k px.
Proof.
  induction px as [|[op oz] r IH]; [reflexivity|]. cbn [filter].
  destruct oz as [z|]; unfold in_zone at 1; cbn [snd].
  - destruct (Z.eqb z k) eqn:E.
    + destruct op as [p|]; cbn [members]; rewrite ?E, ?IH; reflexivity.
    + rewrite IH. destruct op as [p|]; cbn [members]; rewrite ?E; reflexivity.
  - rewrite IH. destruct op; reflexivity.
Qed.

(** zone k's result is a function of zone k's own cells: two rasters which agree on the cells
    whose zone id is k give the same mean and count for k, whatever the other cells hold *)
Theorem zone_isolated k px px' :
  filter (in_zone k) px = filter (in_zone k) px' -> zone_mean OpsR k px = zone_mean OpsR k px'.
Proof.
  intros H. rewrite !zone_mean_spec, <- (members_filter k px), <- (members_filter k px'), H. reflexivity.
Qed.

(** ---- the mean lies within the range of the pixels it averages ---- *)

Lemma rsum_bounds lo hi l : Forall (fun x => lo <= x <= hi) l ->
  INR (length l) * lo <= rsum l <= INR (length l) * hi.
Proof.
  induction 1 as [|x r Hx _ IH]; [cbn; lra|]. cbn [rsum length]. rewrite S_INR. lra.
Qed.

Theorem zone_mean_bounds k px lo hi m c :
  Forall (fun x => lo <= x <= hi) (members k px) ->
  zone_mean OpsR k px = (Some m, c) -> lo <= m <= hi.
Proof.
  intros HB. rewrite zone_mean_spec. destruct (Nat.eqb (length (members k px)) 0) eqn:E; [discriminate|].
  intros H. injection H as <- _. apply Nat.eqb_neq in E.
  assert (0 < INR (length (members k px))) as Hn by (apply lt_0_INR; lia).
  pose proof (rsum_bounds lo hi _ HB) as [H1 H2]. unfold Rdiv. split.
  - apply Rmult_le_reg_r with (INR (length (members k px))); [exact Hn|].
    rewrite Rmult_assoc, Rinv_l by lra. lra.
  - apply Rmult_le_reg_r with (INR (length (members k px))); [exact Hn|].
    rewrite Rmult_assoc, Rinv_l by lra. lra.
Qed.

(** ---- the counts of the zones partition the valid in-range pixels ---- *)

(** number of valid pixels whose zone id lies in [lo, lo + n) *)
Fixpoint in_range_count (lo : Z) (n : nat) (px : list cell) : nat :=
  match px with
  | [] => 0
  | (Some _, Some z) :: r => (if (Z.leb lo z && Z.ltb z (lo + Z.of_nat n))%bool then 1 else 0) + in_range_count lo n r
  | _ :: r => in_range_count lo n r
  end%nat.

Fixpoint count_sum (lo : Z) (n : nat) (px : list cell) : nat :=
  match n with
  | O => 0
  | S m => length (members lo px) + count_sum (lo + 1) m px
  end%nat.

Lemma count_sum_nil lo n : count_sum lo n [] = 0%nat.
Proof. revert lo; induction n as [|n IH]; intros lo; cbn [count_sum members length]; [reflexivity|now rewrite IH]. Qed.

Lemma count_sum_skip lo n c r :
  (forall k, members k (c :: r) = members k r) -> count_sum lo n (c :: r) = count_sum lo n r.
Proof. intros H. revert lo; induction n as [|n IH]; intros lo; cbn [count_sum]; [reflexivity|]. now rewrite H, IH. Qed.

Lemma count_sum_cons lo n p z r :
  count_sum lo n ((Some p, Some z) :: r) =
  ((if (Z.leb lo z && Z.ltb z (lo + Z.of_nat n))%bool then 1 else 0) + count_sum lo n r)%nat.
Proof.
  revert lo; induction n as [|n IH]; intros lo.
  - cbn [count_sum]. replace (lo + Z.of_nat 0)%Z with lo by lia.
    destruct (Z.leb_spec lo z), (Z.ltb_spec z lo); cbn [andb]; try reflexivity; lia.
  - cbn [count_sum]. rewrite IH. cbn [members].
    destruct (Z.eqb_spec z lo) as [->|Hne].
    + destruct (Z.leb_spec (lo + 1) lo); [lia|]. cbn [andb length].
      destruct (Z.leb_spec lo lo); [|lia]. destruct (Z.ltb_spec lo (lo + Z.of_nat (S n))); [|lia]. cbn [andb]. lia.
    + destruct (Z.leb_spec (lo + 1) z), (Z.ltb_spec z (lo + 1 + Z.of_nat n)), (Z.leb_spec lo z), (Z.ltb_spec z (lo + Z.of_nat (S n)));
        cbn [andb]; lia.
Qed.

(** every valid pixel with an in-range zone id is counted in exactly one zone: the counts add up
    to the number of such pixels (none lost, none counted twice) *)
Theorem counts_partition lo n px : count_sum lo n px = in_range_count lo n px.
Proof.
  induction px as [|[op oz] r IH]; [apply count_sum_nil|].
  destruct op as [p|]; destruct oz as [z|].
  - rewrite count_sum_cons. cbn [in_range_count]. now rewrite IH.
  - rewrite count_sum_skip; [exact IH|reflexivity].
  - rewrite count_sum_skip; [exact IH|reflexivity].
  - rewrite count_sum_skip; [exact IH|reflexivity].
Qed.

(** tie to [do_mean]: its count column is the per-zone member count *)
Lemma do_mean_counts n px :
  map snd (do_mean OpsR n px) = map (fun k => INR (length (members (Z.of_nat k) px))) (seq 0 n).
Proof. unfold do_mean. rewrite map_map. apply map_ext. intros k. now rewrite zone_mean_spec. Qed.
