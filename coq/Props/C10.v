(** C10 — Mann-Kendall trend follows its definition and symmetries. Statements only. *)
From HDC Require Import Base.Prelude Model.Calib Model.MK Proofs.MKProofs Proofs.MKReal.
From Coq Require Import Reals Sorting.Permutation Sorting.Sorted.
Open Scope Z_scope.

(** the double loop with its two counters computes S = sum_{k<kk} sign(x[kk] - x[k]) *)
Theorem C10_s_def : forall x, mk_score_lit x = mk_s x.
Proof. exact mk_score_lit_spec. Qed.
Print Assumptions C10_s_def.

(** tau-a = S / (n(n-1)/2) lies in [-1, 1] *)
Theorem C10_tau_range : forall x,
  let n := Z.of_nat (length x) in - (n * (n - 1)) <= 2 * mk_s x <= n * (n - 1).
Proof. exact mk_s_bound. Qed.
Print Assumptions C10_tau_range.

(** the bounds are attained exactly by the monotone series: tau = 1 for a strictly increasing series,
    tau = -1 for a strictly decreasing one, and S = 0 for a constant one *)
Theorem C10_tau_extremes : forall x,
  let n := Z.of_nat (length x) in
  (StronglySorted Z.lt x -> 2 * mk_s x = n * (n - 1)) /\
  (StronglySorted Z.gt x -> 2 * mk_s x = - (n * (n - 1))) /\
  (forall c, Forall (fun b => b = c) x -> mk_s x = 0).
Proof.
  intros x. split; [exact (mk_s_increasing x)|split; [exact (mk_s_decreasing x)|intros c; exact (mk_s_constant c x)]].
Qed.
Print Assumptions C10_tau_extremes.

(** tie-corrected variance numerator: n(n-1)(2n+5) - sum over tie groups t(t-1)(2t+5), and the
    tie-free shortcut of the code agrees with it; any duplicate-free enumeration of the values works *)
Theorem C10_var_ties : forall x,
  let n := Z.of_nat (length x) in
  var_num x = n * (n - 1) * (2 * n + 5) - zsum (map (fun u => tie_term (zcount u x)) (sort_uniq x)).
Proof. exact var_num_ties. Qed.
Print Assumptions C10_var_ties.

Theorem C10_tie_sum_any_enumeration : forall x U1 U2,
  NoDup U1 -> NoDup U2 -> (forall v, In v U1 <-> In v U2) ->
  zsum (map (fun u => tie_term (zcount u x)) U1) = zsum (map (fun u => tie_term (zcount u x)) U2).
Proof. exact tie_sum_any_enum. Qed.
Print Assumptions C10_tie_sum_any_enumeration.

(** S and var(S) - hence tau, Z, p and the flag, which are functions of (S, var S, n) - are unchanged
    by every strictly increasing transformation of the values *)
Theorem C10_strict_mono_inv : forall f x,
  strictly_increasing f -> mk_s (map f x) = mk_s x /\ var_num (map f x) = var_num x /\ length (map f x) = length x.
Proof.
  intros f x Hf. split; [now apply mk_s_strict_mono|]. split; [|apply map_length].
  apply var_num_inj. intros a b E. destruct (Z.lt_trichotomy a b) as [L|[->|L]]; [|reflexivity|];
    apply Hf in L; lia.
Qed.
Print Assumptions C10_strict_mono_inv.

(** negation and time reversal flip the sign of S and keep var(S) *)
Theorem C10_neg_rev : forall x,
  mk_s (map Z.opp x) = - mk_s x /\ var_num (map Z.opp x) = var_num x /\
  mk_s (rev x) = - mk_s x /\ var_num (rev x) = var_num x.
Proof.
  intros x. split; [apply mk_s_neg|]. split; [apply var_num_inj; intros a b; lia|].
  split; [apply mk_s_rev|]. apply var_num_perm, Permutation_sym, Permutation_rev.
Qed.
Print Assumptions C10_neg_rev.

(** ... so Z flips sign, p is unchanged and the flag flips sign *)
Theorem C10_z_p_flag_symmetry : forall (erf : R -> R) (thr : R) s v,
  mk_z (- s) v = (- mk_z s v)%R /\
  p_of erf (mk_z (- s) v) = p_of erf (mk_z s v) /\
  flag thr (mk_z (- s) v) = - flag thr (mk_z s v).
Proof.
  intros erf thr s v. rewrite mk_z_opp. split; [reflexivity|]. split; [apply p_even|apply flag_odd].
Qed.
Print Assumptions C10_z_p_flag_symmetry.

(** the flag is sign(Z) when p < alpha and 0 otherwise, provided the critical value used by the
    code (ndtri(1 - alpha/2)) is the point where the p-value crosses alpha *)
Theorem C10_flag : forall (erf : R -> R) (thr alpha : R),
  (forall a, (0 <= a)%R ->
     ((2 * (1 - (1 / 2) * (1 + erf (a * sqrt (1 / 2)))) < alpha)%R <-> (thr < a)%R)) ->
  forall z, flag thr z = if Rlt_dec (p_of erf z) alpha then sign_R z else 0.
Proof. exact flag_is_significance. Qed.
Print Assumptions C10_flag.

(** Sen's slope (the median of the pairwise slopes, well defined) scales linearly *)
Theorem C10_sens_scale : forall a b x m,
  (0 < a)%R -> is_median (slopesR x) m -> is_median (slopesR (map (fun v => a * v + b)%R x)) (a * m)%R.
Proof. exact sens_scale. Qed.
Print Assumptions C10_sens_scale.

Theorem C10_sens_neg : forall x m, is_median (slopesR x) m -> is_median (slopesR (map Ropp x)) (- m)%R.
Proof. exact sens_neg. Qed.
Print Assumptions C10_sens_neg.

Theorem C10_median_unique : forall l m1 m2, is_median l m1 -> is_median l m2 -> m1 = m2.
Proof. exact median_unique. Qed.
Print Assumptions C10_median_unique.

(** a pixel that is entirely nodata yields (nodata, nodata, nodata, -2) *)
Theorem C10_all_nodata : forall x xf nd ndf ea ev thr,
  Forall (fun v => v = nd) x ->
  mk_trend_nd x xf nd ndf ea ev thr =
  Some {| o_tau := Base.Float.to_f32 ndf; o_p := Base.Float.to_f32 ndf; o_slope := Base.Float.to_f32 ndf; o_trend := -2 |}.
Proof.
  intros x xf nd ndf ea ev thr H. unfold mk_trend_nd.
  replace (existsb (fun v => negb (v =? nd)) x) with false; [reflexivity|].
  symmetry. apply not_true_is_false. intros E. apply existsb_exists in E as (v & Iv & Ev).
  rewrite Forall_forall in H. rewrite (H v Iv), Z.eqb_refl in Ev. discriminate.
Qed.
Print Assumptions C10_all_nodata.

Example C10_example :
  mk_s [1; 3; 2; 2; 5] = 5 /\ var_num [1; 3; 2; 2; 5] = 5 * 4 * 15 - 2 * 1 * 9 /\
  mk_s (map (fun v => v * v * v + 7) [1; 3; 2; 2; 5]) = 5 /\ mk_s (rev [1; 3; 2; 2; 5]) = -5 /\
  strictly_increasing (fun v => 2 * v + 1).
Proof. repeat split; try (vm_compute; reflexivity). intros u v H. lia. Qed.
