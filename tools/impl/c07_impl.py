"""Runs the SPI kernels (gammastd_yxt, gammastd_grp) and DataArray.hdc.algo.spi from /repo; records the oracle
calls (log, digamma, gammainc, ndtri) by running gammastd's own source in the interpreter; evaluates an independent
SciPy reference of the textbook definition."""
import json
import sys
import warnings

import numpy as np

warnings.filterwarnings("ignore")
import scipy.special as sc  # noqa: E402
import scipy.stats as st  # noqa: E402
import scipy.optimize as so  # noqa: E402
import xarray as xr  # noqa: E402
import pandas as pd  # noqa: E402
import hdc.algo  # noqa: F401,E402
from hdc.algo.ops.stats import gammastd, gammastd_grp, gammastd_yxt  # noqa: E402

from interp import Recorder, interpreted  # noqa: E402


def reference(x, nodata, c0, c1, x32=False):
    """round(1000 * ndtri(p0 + (1 - p0) * G(x; alpha, beta))) with the ML gamma fit of SciPy; None = nodata / undefined"""
    x = np.asarray(x, dtype="float64")
    valid = (x != nodata) & (x >= 0)
    if valid.sum() == 0:
        return [None] * len(x), None
    p0 = float((x[valid] == 0).sum()) / float(valid.sum())
    cal = x[c0:c1]
    pos = cal[(cal > 0) & (cal != nodata)]
    if p0 > 0.9 or len(pos) == 0 or np.all(pos == pos[0]):
        return [None] * len(x), dict(p0=p0)
    try:
        a, _, b = st.gamma.fit(pos, floc=0)
    except Exception:  # noqa
        return None, dict(p0=p0, fit="scipy could not fit")
    out = []
    for v, ok in zip(x, valid):
        if not ok:
            out.append(None)
        else:
            out.append(float(1000.0 * sc.ndtri(p0 + (1 - p0) * sc.gammainc(a, v / b))))
    info = dict(p0=p0, alpha=float(a), beta=float(b))
    if x32:
        # interval oracle: the fit takes logarithms, their mean and the mean of the data in single precision
        pos = pos.astype("float64")
        m, ml = float(pos.mean()), float(np.log(pos).mean())
        s = np.log(m) - ml
        ds = (len(pos) + 4) * 2.0 ** -24 * (1.0 + float(np.abs(np.log(pos)).max()) + abs(np.log(m)))
        if s - ds <= 0:
            return None, dict(info, fit="single-precision interval reaches s <= 0")
        lo, hi = [np.inf] * len(x), [-np.inf] * len(x)
        for ss in (s - ds, s - ds / 2, s, s + ds / 2, s + ds):
            aa = so.brentq(lambda t: np.log(t) - sc.digamma(t) - ss, 1e-8, 1e12, xtol=1e-14, rtol=1e-14, maxiter=500)
            for mm in (m * (1 - (len(pos) + 2) * 2.0 ** -24), m * (1 + (len(pos) + 2) * 2.0 ** -24)):
                bb = mm / aa
                for i, (v, ok) in enumerate(zip(x, valid)):
                    if ok:
                        z = float(1000.0 * sc.ndtri(p0 + (1 - p0) * sc.gammainc(aa, v / bb)))
                        lo[i], hi[i] = min(lo[i], z), max(hi[i], z)
        info["interval"] = [[None if not ok else lo[i], None if not ok else hi[i]] for i, ok in enumerate(valid)]
        info["ds"] = ds
    return out, info


def main():
    P = json.load(sys.stdin)
    out = []
    for c in P["cases"]:
        rec = {}
        try:
            x = np.array(c["x"], dtype=c["dtype"])
            nd = float(c["nodata"])
            c0, c1 = c["c0"], c["c1"]
            r = gammastd_yxt(x.reshape(1, 1, -1), nd, c0, c1)[0, 0]
            rec["out"] = [int(v) for v in r]
            rec["dtype"] = str(r.dtype)
            if c["dtype"] in ("int16", "float32"):
                g = gammastd_grp(x, np.zeros(len(x), dtype="int16"), 1, nd, np.array([[c0, c1]], dtype="int16"))
                rec["grp"] = [int(v) for v in g]
            if c.get("record", True) and c["dtype"] != "float32":
                R = Recorder()
                f = interpreted(gammastd, R, helpers=["gammafit", "brentq"])
                try:
                    s = f(x.astype("float64") if c["dtype"] == "int16" else x, nd, c0, c1)
                    rec["tables"] = dict(log=R.table("log"), digamma=R.table("digamma"), ndtri=R.table("ndtri"), gammainc=R.table("gammainc", 2))
                except ZeroDivisionError as e:
                    rec["interp_error"] = str(e)
            try:
                ref, info = reference(x, nd, c0, c1, c["dtype"] == "float32")
            except Exception as e:  # noqa
                ref, info = None, dict(fit="reference failed: %s" % e)
            rec["ref"], rec["ref_info"] = ref, info
        except Exception as e:  # noqa
            rec["error"] = "%s: %s" % (type(e).__name__, e)
        out.append(rec)
    cubes = []
    for c in P.get("cubes", []):
        rec = {}
        try:
            cube = np.array(c["cube"], dtype=c["dtype"])             # (y, x, t)
            nd = float(c["nodata"])
            r = gammastd_yxt(cube, nd, 0, cube.shape[2])
            rec["out"] = r.astype("int64").tolist()
            single = np.zeros_like(r)
            for a in range(cube.shape[0]):
                for b in range(cube.shape[1]):
                    single[a, b] = gammastd_yxt(cube[a:a + 1, b:b + 1], nd, 0, cube.shape[2])[0, 0]
            rec["pixelwise_equal"] = bool(np.array_equal(r, single))
            t = pd.date_range("2000-01-01", periods=cube.shape[2], freq="10D")
            da = xr.DataArray(cube, dims=("y", "x", "time"), coords={"time": t}, attrs={"nodata": nd})
            a = da.hdc.algo.spi()
            rec["acc_equal"] = bool(np.array_equal(a.values, r))
            rec["acc_dtype"] = str(a.dtype)
            if cube.dtype in (np.dtype("int16"), np.dtype("float32")):
                g = da.hdc.algo.spi(groups=[0] * cube.shape[2])
                rec["grp_equal"] = bool(np.array_equal(g.values, r))
            # the nodata keyword, with the value 0, must win over a missing or different attribute
            cube0 = np.where((cube == nd) | (cube < 0), 0, cube).astype(cube.dtype)
            r0 = gammastd_yxt(cube0, 0.0, 0, cube.shape[2])
            try:
                k1 = xr.DataArray(cube0, dims=("y", "x", "time"), coords={"time": t}).hdc.algo.spi(nodata=0)
                k2 = xr.DataArray(cube0, dims=("y", "x", "time"), coords={"time": t}, attrs={"nodata": nd}).hdc.algo.spi(nodata=0)
                rec["kw_nodata0_equal"] = bool(np.array_equal(k1.values, r0) and np.array_equal(k2.values, r0))
            except Exception as e:  # noqa
                rec["kw_nodata0_equal"] = "%s: %s" % (type(e).__name__, e)
        except Exception as e:  # noqa
            rec["error"] = "%s: %s" % (type(e).__name__, e)
        cubes.append(rec)
    # grouped kernel on integer input = the ungrouped kernel on each group's sub-series, value for value
    grouped = []
    for c in P.get("grouped", []):
        try:
            x = np.array(c["x"], dtype=c["dtype"])
            groups = np.array(c["groups"], dtype="int16")
            ng = int(c["ng"])
            nd = float(c["nodata"])
            ci = np.array([[0, int((groups == k).sum())] for k in range(ng)], dtype="int16")
            g = gammastd_grp(x, groups, ng, nd, ci)
            r = np.zeros(len(x), dtype="int16")
            for k in range(ng):
                ix = groups == k
                r[ix] = gammastd_yxt(x[ix].reshape(1, 1, -1), nd, 0, int(ix.sum()))[0, 0]
            bad = np.where(r != g)[0]
            grouped.append(dict(n=len(x), differ=int(len(bad)), first=None if not len(bad) else dict(step=int(bad[0]), group=int(groups[bad[0]]), x=float(x[bad[0]]),
                                                                                                  grouped=int(g[bad[0]]), ungrouped=int(r[bad[0]]))))
        except Exception as e:  # noqa
            grouped.append(dict(error="%s: %s" % (type(e).__name__, e)))
    # the accessor with groups and a calibration window: every (pixel, group) against the definition evaluated on that
    # group's members inside the window
    acc = []
    for c in P.get("accessor", []):
        rec = dict(failures=[], compared=0)
        try:
            data = np.array(c["cube"], dtype=c["dtype"])             # (t, y, x)
            nd = float(c["nodata"])
            t = pd.DatetimeIndex(c["time"])
            da = xr.DataArray(data, dims=("time", "y", "x"), coords={"time": t}, attrs={"nodata": nd})
            kw = {}
            if c.get("begin"):
                kw["calibration_begin"] = c["begin"]
            if c.get("end"):
                kw["calibration_end"] = c["end"]
            groups = c.get("groups")
            r = da.hdc.algo.spi(groups=groups, **kw).transpose("time", "y", "x").values
            lo = pd.Timestamp(c["begin"]) if c.get("begin") else t[0]
            hi = pd.Timestamp(c["end"]) if c.get("end") else t[-1]
            glist = groups if groups is not None else [0] * len(t)
            for g in sorted(set(glist)):
                ix = [i for i, v in enumerate(glist) if v == g]
                inwin = [k for k, i in enumerate(ix) if lo <= t[i] <= hi]
                if len(inwin) < 2:
                    continue
                c0, c1 = inwin[0], inwin[-1] + 1
                for a in range(data.shape[1]):
                    for b in range(data.shape[2]):
                        x = data[ix, a, b].astype("float64")
                        ref, info = reference(x, nd, c0, c1, c["dtype"] == "float32")
                        if ref is None:
                            continue
                        got = r[ix, a, b]
                        rec["compared"] += 1
                        for k, (o, w_) in enumerate(zip(got, ref)):
                            if w_ is None:
                                ok = int(o) == int(nd) or info.get("alpha") is None
                            elif w_ != w_ or abs(w_) > 7000:
                                ok = True
                            else:
                                tol = 3 if c["dtype"] == "float32" else 1
                                ok = abs(int(o) - w_) <= tol + 0.5 and int(o) != int(nd)
                            if not ok:
                                rec["failures"].append(dict(group=str(g), pixel=[a, b], step=int(ix[k]), time=str(t[ix[k]]), x=float(x[k]), spi=int(o),
                                                            definition=w_, window=[c0, c1]))
                                break
        except Exception as e:  # noqa
            rec["error"] = "%s: %s" % (type(e).__name__, e)
        acc.append(rec)
    print("@@RESULT@@" + json.dumps(dict(cases=out, cubes=cubes, accessor=acc, grouped=grouped, k06=1 - 0.4, k14=1 + 0.4)))


main()
