"""C13 — compiled kernels compute what their Python source says (compiled vs interpreted source, all 35 programs)."""
import json

from vlib import core


def run(ctx):
    ctx.proofs(["Props/C13.v"], extra_trusted=[
        "tools/impl/interp.py runs a kernel's own code object in the interpreter; it substitutes only what the interpreter cannot express: "
        "C semantics for log/sqrt/pow domain errors and float division by zero (inf / nan instead of exceptions), np.round into an integer "
        "output array (NumPy refuses the cast numba performs), numba's arange and literal-integer powers (last-bit differences, inside the "
        "property's 1e-9), prange = range",
        "numba / LLVM themselves are not modelled: the property is decided by running both executions"])
    res, log = core.run_impl("c13_impl.py", dict(seed=ctx.seed, thorough=ctx.thorough), timeout=6000)
    if res is None:
        ctx.violation("the compiled-vs-source run crashed", dict(kind="impl-crash", log=log[-3000:]), found_input=False)
        return
    ctx.cov["evaluations"] = res["runs"] + res["special"]["evaluations"]
    ctx.cov["distinct_nontrivial"] = res["runs"]
    ctx.cov["rule"] = ("every one of the 35 njit / guvectorize programs of hdc.algo.ops on the shared in-contract cases (lengths 2..80 x plain / gaps / all "
                       "missing / one valid / near the int16 limit, every dtype of each gufunc signature, cubes, zones, groups, windows), compiled "
                       "result vs the source run by the interpreter: integer results equal (+-1 on at most max(1, n/50) cells), float64 to 1e-9 "
                       "relative, float32 inputs/outputs to 2e-5; the parallel cube smoother three times on a 40x8x6 cube; digamma / gammainc / "
                       "ndtri called from nopython code vs scipy.special, bit for bit")
    ctx.notes.update(programs=len(res["per_kernel"]), disagreements_checked=res["runs"] + res["special"]["evaluations"], per_kernel=res["per_kernel"], integer_cells_off_by_one=res["ties"], out_of_domain_skipped=res.get("out_of_domain", 0),
                     special_function_evaluations=res["special"]["evaluations"], special_function_mismatches=res["special"]["mismatches"])
    ctx.add_samples([dict(kernel=k, **v) for k, v in list(res["per_kernel"].items())[:3]])
    ctx.assumptions += ["inputs that make the interpreter raise where compiled code follows IEEE (log(0), x/0.0) count as in-domain and are compared "
                        "with C semantics substituted in the interpreter",
                        "helpers called from a kernel run compiled in both executions; each helper is itself one of the 35 programs compared",
                        "theorems cover the integer-width part only (counters and sums stay inside int64); agreement of floating-point code is "
                        "observed on the explored inputs, not proved"]
    if len(res["per_kernel"]) < 35:
        ctx.violation("only %d of the 35 programs were exercised" % len(res["per_kernel"]), dict(kind="harness"), found_input=False)
    if res["special"]["mismatches"]:
        m = res["special"]["mismatches"][0]
        ctx.violation("SciPy special function bound into nopython code differs from scipy.special: %s" % (m,), dict(kind="special", case=m,
                                                                                                                 all=res["special"]["mismatches"]))
    fails = res["failures"]
    if fails:
        f = sorted(fails, key=lambda d: len(json.dumps(d)))[0]
        ctx.violation("%s: compiled and interpreted source disagree - %s" % (f["kernel"], f["what"]),
                      dict(kind="compiled-vs-source", case=f, n_failing=len(fails), kernels=sorted({x["kernel"] for x in fails})))


def replay(ctx, path):
    rp = json.load(open(path))
    print(json.dumps(rp.get("case"))[:3000])
    return 2
