(** C07 — SPI equals the gamma-MLE / zero-mixture / normal-quantile definition. Statements only,
    relative to the oracle functions log, digamma, gammainc (regularised lower incomplete gamma =
    gamma CDF), ndtri (inverse normal CDF), which are parameters of the model. *)
From Coq Require Import ZArith Reals Lra List.
From HDC Require Import Base.Prelude Base.Ops Model.Spi Proofs.SpiProofs.
Open Scope R_scope.

(** every valid observation x of a fittable pixel gets ndtri(p0 + (1 - p0) * G(x / beta; alpha)) *)
Theorem C07_gammastd_formula : forall (K : spi_consts) (Or : spi_oracles) x nd c0 c1 alpha beta,
  length (filter (fun v => fleb OpsR 0 v) (filter (fun v => negb (feqb OpsR v nd)) x)) <> 0%nat ->
  ~ k_09 K < p_zero_of x nd ->
  gammafit OpsR Or K (cal_window OpsR x nd c0 c1) = Some (alpha, beta) -> alpha <> 0 -> beta <> 0 ->
  gammastd OpsR Or K x nd c0 c1 =
  map (fun v => if valid_obs OpsR nd v
                then Some (o_ndtri Or (p_zero_of x nd + (1 - p_zero_of x nd) * o_gammainc Or alpha (v / beta)))
                else None) x.
Proof. exact gammastd_spec. Qed.
Print Assumptions C07_gammastd_formula.

(** the fit: beta = mean / alpha over the positive values of the calibration slice, alpha = what
    Brent's method returns for log a - digamma a = log(mean) - mean(log) on [0.6, 1.4] x Thom's estimate *)
(** what the fit sees are the calibration slice's cells other than nodata (whatever the sign of the nodata value) *)
Theorem C07_fit_sees_observations_only : forall x nd c0 c1,
  (forall v, In v (cal_window OpsR x nd c0 c1) -> v <> nd /\ In v (firstn (c1 - c0) (skipn c0 x))) /\
  (forall v, In v (firstn (c1 - c0) (skipn c0 x)) -> v <> nd -> In v (cal_window OpsR x nd c0 c1)).
Proof. exact cal_window_observations. Qed.
Print Assumptions C07_fit_sees_observations_only.

Theorem C07_gammafit : forall (K : spi_consts) (Or : spi_oracles) xs a b,
  gammafit OpsR Or K xs = Some (a, b) ->
  let pos := filter (fun x => Rltb 0 x) xs in
  let n := IZR (Z.of_nat (length pos)) in
  let mean := fold_left Rplus pos 0 / n in
  let s := o_log Or mean - fold_left (fun acc x => acc + o_log Or x) pos 0 / n in
  let a0 := ((3 - s) + sqrt ((s - 3) * (s - 3) + 24 * s)) / (12 * s) in
  length pos <> 0%nat /\ 0 < s /\ a <> 0 /\ b = mean / a /\
  exists conv, brentq OpsR K (fun t => (o_log Or t - o_digamma Or t) - s) (a0 * k_06 K) (a0 * k_14 K) = Root a conv.
Proof. exact gammafit_spec. Qed.
Print Assumptions C07_gammafit.

(** Brent's method, as transcribed: a return through the convergence test is a zero of the function
    or a sign change within (xtol + rtol |x|) of the returned point (loop invariant: the retained
    bracket end and the current point have function values of opposite sign) *)
Theorem C07_brentq_post : forall (K : spi_consts) (func : R -> R) xa xb x,
  brentq OpsR K func xa xb = Root x true -> root_enclosed K func x.
Proof. exact brentq_post. Qed.
Print Assumptions C07_brentq_post.

(** ... hence, for a continuous function, a true root within that distance: the fit IS the MLE *)
Theorem C07_root_exists : forall (K : spi_consts) (func : R -> R) x,
  0 <= k_xtol K -> 0 <= k_rtol K -> continuity func -> root_enclosed K func x ->
  exists r, func r = 0 /\ Rabs (r - x) <= 2 * delta_at K x.
Proof. exact enclosed_root_exists. Qed.
Print Assumptions C07_root_exists.
