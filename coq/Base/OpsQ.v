(** Exact rational carrier (QArith, reduced after every operation) for executing the models
    inside Coq.  sqrt/log/pow/cos do not exist in Q; models that need them are not run here. *)
From Coq Require Import ZArith QArith Qreduction Qabs Qround List.
From HDC Require Import Base.Ops.

Definition OpsQ : Ops Q := {|
  f0 := 0%Q; f1 := 1%Q;
  fadd := fun x y => Qred (x + y); fsub := fun x y => Qred (x - y);
  fmul := fun x y => Qred (x * y); fdiv := fun x y => Qred (x / y);
  fopp := fun x => Qred (- x); fabs := Qabs; fofZ := inject_Z;
  fltb := fun x y => negb (Qle_bool y x); fleb := Qle_bool; feqb := Qeq_bool;
  fnonfinite := fun _ => false;
  frne := fun x => let f := Qfloor x in let r := Qred (x - inject_Z f) in
                   Some (match Qcompare r (1 # 2) with Lt => f | Gt => (f + 1)%Z | Eq => if Z.even f then f else (f + 1)%Z end);
  fsqrt := fun x => x; flog := fun x => x; fpow10 := fun x => x; fcos := fun x => x |}.

Fixpoint qlist_eqb (a b : list Q) : bool :=
  match a, b with
  | nil, nil => true
  | x :: a', y :: b' => Qeq_bool x y && qlist_eqb a' b'
  | _, _ => false
  end.
