(** One arithmetic interface, several carriers.  Every kernel model is a Gallina term generic in
    [Ops F]; it is instantiated at the reals for theorems ([OpsR], not executable), and at IEEE
    binary64 for bit-exact execution ([OpsF], Coq's primitive floats; library calls such as
    log / pow(10,.) / cos are finite recorded tables looked up by bit pattern). *)
From Coq Require Import ZArith List Bool Reals.
From Coq Require Import PrimFloat.
From HDC Require Import Base.Float.
Import ListNotations.

Record Ops (F : Type) := mkOps {
  f0 : F; f1 : F;
  fadd : F -> F -> F; fsub : F -> F -> F; fmul : F -> F -> F; fdiv : F -> F -> F;
  fopp : F -> F; fabs : F -> F;
  fofZ : Z -> F;
  fltb : F -> F -> bool; fleb : F -> F -> bool; feqb : F -> F -> bool;
  fsqrt : F -> F;
  (* library calls (oracles) *)
  flog : F -> F; fpow10 : F -> F; fcos : F -> F
}.
Arguments f0 {F} _. Arguments f1 {F} _. Arguments fadd {F} _. Arguments fsub {F} _. Arguments fmul {F} _.
Arguments fdiv {F} _. Arguments fopp {F} _. Arguments fabs {F} _. Arguments fofZ {F} _. Arguments fltb {F} _.
Arguments fleb {F} _. Arguments feqb {F} _. Arguments fsqrt {F} _. Arguments flog {F} _. Arguments fpow10 {F} _.
Arguments fcos {F} _.

(** ** reals *)
Definition Rltb (x y : R) : bool := if Rlt_dec x y then true else false.
Definition Rleb (x y : R) : bool := if Rle_dec x y then true else false.
Definition Reqb (x y : R) : bool := if Req_EM_T x y then true else false.

Definition OpsR : Ops R := {|
  f0 := 0%R; f1 := 1%R; fadd := Rplus; fsub := Rminus; fmul := Rmult; fdiv := Rdiv; fopp := Ropp; fabs := Rbasic_fun.Rabs;
  fofZ := IZR; fltb := Rltb; fleb := Rleb; feqb := Reqb; fsqrt := R_sqrt.sqrt;
  flog := ln; fpow10 := fun x => exp (x * ln 10)%R; fcos := Rtrigo_def.cos |}.

(** ** binary64 *)
Definition oracle_table := list (float * float).
Definition oracle_miss : float := 0x1.0dead1p+1000%float.
Fixpoint lookup (t : oracle_table) (x : float) : float :=
  match t with
  | [] => oracle_miss
  | (a, v) :: r => if feq_bits a x then v else lookup r x
  end.

Record oracles := { t_log : oracle_table; t_pow10 : oracle_table; t_cos : oracle_table }.
Definition no_oracles : oracles := {| t_log := []; t_pow10 := []; t_cos := [] |}.

Definition OpsF (o : oracles) : Ops float := {|
  f0 := zero; f1 := one; fadd := PrimFloat.add; fsub := PrimFloat.sub; fmul := PrimFloat.mul; fdiv := PrimFloat.div;
  fopp := PrimFloat.opp; fabs := PrimFloat.abs; fofZ := f_of_Z;
  fltb := PrimFloat.ltb; fleb := PrimFloat.leb; feqb := PrimFloat.eqb; fsqrt := PrimFloat.sqrt;
  flog := lookup (t_log o); fpow10 := lookup (t_pow10 o); fcos := lookup (t_cos o) |}.
