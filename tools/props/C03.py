"""C03 — fixed-lambda smoothers return the rounded PLS / expectile curve."""
from fractions import Fraction

import numpy as np

from vlib import core
from props import whit_common as wc


def gen_series(rng, n, negative_ok=True):
    kind = rng.random()
    t = np.arange(n)
    if kind < 0.3:
        y = rng.integers(-3000 if negative_ok else 0, 10000, size=n)
    elif kind < 0.6:
        y = np.round(3000 + 2500 * np.sin(t / rng.uniform(2, 9)) + rng.normal(0, 300, n))
    elif kind < 0.8:
        y = np.round(np.cumsum(rng.normal(0, 200, n)))
    else:
        y = np.round(rng.normal(-500, 800, n))
    return np.clip(y, -9000, 9000).astype(float)


def gap_pattern(rng, n):
    k = rng.random()
    miss = np.zeros(n, dtype=bool)
    if k < 0.25:
        return miss
    if k < 0.5:
        return rng.random(n) < rng.uniform(0.05, 0.5)
    if k < 0.65:
        a = int(rng.integers(0, n))
        miss[a:a + int(rng.integers(1, max(2, n // 2)))] = True
        return miss
    if k < 0.8:
        miss[:int(rng.integers(1, max(2, n // 3)))] = True
        miss[n - int(rng.integers(0, max(1, n // 3))):] = True
        return miss
    keep = int(rng.integers(0, 7))                      # all-but-k
    miss[:] = True
    miss[rng.choice(n, size=min(keep, n), replace=False)] = False
    return miss


def n_valid(c):
    return sum(1 for v in c["y"] if not (v is None or v in (float("inf"), float("-inf")) or v == c["nodata"]))


def exact_violation(c, r, dist):
    """The property, stated independently in exact rationals; None when it holds (or the case is outside the claim)."""
    valid = [not (v is None or v in (float("inf"), float("-inf")) or v == c["nodata"]) for v in c["y"]]
    if c["lam"] == 0 or sum(valid) < 2:
        dist["passthrough"] += 1
        if all(v is not None and abs(v) < 3e4 for v in c["y"]) and r["out"] != [int(v) for v in c["y"]]:
            return "lambda = 0 or fewer than 2 valid cells must return the input unchanged"
        return None
    yq = [Fraction(v) if ok else Fraction(0) for v, ok in zip(c["y"], valid)]
    wq = [Fraction(1 if ok else 0) for ok in valid]
    lq = Fraction(c["lam"])
    if c["kind"] == "gu":
        zq, fragile = wc.pls_exact(yq, wq, lq), False
    else:
        zq, fragile = wc.irls_exact(yq, wq, lq, Fraction(c["p"]))
    if not wc.in_int16(zq):
        dist["out_of_claim_exact"] += 1
        return None
    if fragile:
        dist["fragile_skipped"] += 1
        return None
    dist["exact_checked"] += 1
    ok, ties = wc.rounded_matches(r["out"], zq)
    dist["ties"] += ties
    if not ok:
        return "output is not the half-even rounding of the exact %s curve" % ("PLS" if c["kind"] == "gu" else "10-pass expectile")
    return None


def run(ctx):
    ctx.proofs(["Props/C03.v"])
    rng = np.random.default_rng(ctx.seed)
    N = 700 if ctx.thorough else 200
    cases = []
    for it in range(N):
        n = int(rng.choice([4, 5, 6, int(rng.integers(7, 60)), int(rng.integers(60, 400 if ctx.thorough else 150))]))
        y = gen_series(rng, n)
        nd = float(rng.choice([-9999, -3000, 0, 5000, 32767, -32768]))
        y[y == nd] += 1
        miss = gap_pattern(rng, n)
        yl = [float(v) for v in y]
        enc = rng.random()
        for i in np.where(miss)[0]:
            if enc < 0.75 or it % 2:
                yl[i] = nd
            else:
                yl[i] = [None, float("inf"), float("-inf")][int(rng.integers(0, 3))]
        lam = float(10 ** rng.uniform(-3, 5))
        if it % 17 == 0:
            lam = 0.0
        c = dict(kind="gu" if it % 2 == 0 else "pgu", y=yl, nodata=nd, lam=lam, n=n, miss=int(miss.sum()))
        if c["kind"] == "pgu":
            c["p"] = float(rng.choice([0.5, 0.9, 0.1, 0.99, 0.01, 0.9999, 0.0001, float(rng.uniform(0.01, 0.99))]))
        cases.append(c)
    # asymmetric fits whose reweighting does not settle within its 10 passes (extreme envelopes on noisy data)
    for it in range(120 if ctx.thorough else 40):
        n = int(rng.integers(40, 200))
        y = np.round(rng.normal(2000, 900, n))
        nd = -3000.0
        yl = [float(v) for v in y]
        for i in np.where(rng.random(n) < (0.15 if it % 2 else 0.0))[0]:
            yl[i] = nd
        cases.append(dict(kind="pgu", y=yl, nodata=nd, lam=float(10 ** rng.uniform(-1, 3)), n=n, miss=sum(1 for v in yl if v == nd),
                          p=float(rng.choice([0.99999, 0.00001, 0.9999, 0.0001]))))
    # low-amplitude noisy series: many cells sit within a unit of the curve, so late reweighting passes still change the
    # envelope while moving the curve by less than the rounding step (an early stop shows as +-1 in a few cells of ~1% of them)
    for it in range(900 if ctx.thorough else 300):
        n = int(rng.integers(12, 60))
        amp = float(rng.choice([3, 5, 8, 12, 20, 40]))
        t = np.arange(n)
        y = np.rint(amp * np.sin(2 * np.pi * t / rng.integers(6, 30) + rng.uniform(0, 6)) + rng.normal(0, amp / 2, n) + rng.integers(-50, 50))
        nd = -3000.0
        yl = [float(v) for v in y]
        if it % 3 == 0:
            for i in np.where(rng.random(n) < 0.15)[0]:
                yl[i] = nd
        cases.append(dict(kind="pgu", y=yl, nodata=nd, lam=float(10 ** rng.uniform(-1, 3)), n=n, miss=sum(1 for v in yl if v == nd),
                          p=float(rng.choice([0.1, 0.25, 0.6, 0.75, 0.9, 0.95]))))
    # accessor cubes: constant s, per-pixel sgrid incl. -inf, envelope, dims in three orders
    acc = []
    for k in range(9 if ctx.thorough else 5):
        T = int(rng.integers(5, 30))
        cube = np.stack([np.stack([gen_series(rng, T, negative_ok=bool(k % 2)) for _ in range(3)]) for _ in range(2)])
        nd = -3000.0
        cube[cube == nd] += 1
        cube[rng.random(cube.shape) < 0.15] = nd
        a = dict(op="whits", cube=cube.tolist(), nodata=nd, order=[("time", "y", "x"), ("y", "x", "time"), ("x", "time", "y")][k % 3],
                 attr_nodata=[None, -9999, 0][(k + 1) % 3])
        if k % 2:
            sg = rng.uniform(-1, 3, size=(2, 3)).tolist()
            sg[0][1] = None                              # -inf: lambda = 0
            a["sg"] = sg
            if k % 4 == 1:
                a["sg_order"] = ["x", "y"]
        else:
            a["s"] = float(10 ** rng.uniform(-1, 3))
        if k % 3 == 0:
            a["p"] = float(rng.choice([0.9, 0.3]))
        acc.append(a)
    res, log = core.run_impl("whit_impl.py", dict(kernels=cases, accessors=acc), timeout=3000)
    if res is None:
        ctx.violation("implementation run failed", dict(kind="impl-crash", log=log[-3000:]), found_input=False)
        return
    spec_fail, coq, meta, kcase, exact_done = [], [], [], {}, set()
    dist = dict(gu=0, pgu=0, lam0=0, with_gaps=0, nonfinite_cells=0, exact_checked=0, ties=0, fragile_skipped=0,
                out_of_claim_exact=0, passthrough=0, accessor_pixels=0, max_n=0, irls_passes={})
    # kernel cases + accessor pixels are all expressed as GU cases
    def add(c, r, origin):
        if "error" in r:
            spec_fail.append((dict(origin=origin, case=c), "kernel raised %s" % r["error"]))
            return
        term, chk, claim = wc.coq_case(c, r, None)
        coq.append(term)
        meta.append(dict(origin=origin, kind=c["kind"], n=len(c["y"]), lam=c["lam"], p=c.get("p"), nodata=c["nodata"],
                         y=c["y"] if len(c["y"]) <= 30 else None, out=r["out"] if len(c["y"]) <= 30 else None))
    for c, r in zip(cases, res["kernels"]):
        dist[c["kind"]] += 1
        if r.get("passes") is not None:
            dist["irls_passes"][str(r["passes"]) if r["passes"] <= 10 else "ran out (10 passes, no unchanged pass)"] = \
                dist["irls_passes"].get(str(r["passes"]) if r["passes"] <= 10 else "ran out (10 passes, no unchanged pass)", 0) + 1
        dist["lam0"] += 1 if c["lam"] == 0 else 0
        dist["with_gaps"] += 1 if c["miss"] else 0
        dist["max_n"] = max(dist["max_n"], c["n"])
        dist["nonfinite_cells"] += sum(1 for v in c["y"] if v is None or v in (float("inf"), float("-inf")))
        add(c, r, "kernel")
        if "error" in r:
            continue
        kcase[len(meta) - 1] = (c, r)
        # ---- independent exact statement of the property (budgeted sample; failing correspondences are all re-checked below)
        n = c["n"]
        if c["lam"] == 0 or n_valid(c) < 2 or (n <= (80 if ctx.thorough else 48) and dist["exact_checked"] < (260 if ctx.thorough else 90)):
            why = exact_violation(c, r, dist)
            if why:
                spec_fail.append((dict(meta[-1], y=c["y"], out=r["out"]), why))
            exact_done.add(len(meta) - 1)
    for a, r in zip(acc, res["accessors"]):
        if "error" in r:
            spec_fail.append((dict(origin="accessor", case={k: a[k] for k in a if k != "cube"}), "whits raised %s" % r["error"]))
            continue
        if r["dtype"] != "int16" or sorted(r["dims_in"]) != sorted(r["dims_out"]):
            spec_fail.append((dict(origin="accessor", dtype=r["dtype"], dims=r["dims_out"]), "whits dtype/dims"))
        cube = a["cube"]
        for yy in range(len(cube)):
            for xx in range(len(cube[0])):
                lam = a["s"] if r["lam"] is None else r["lam"][yy][xx]
                c = dict(kind="pgu" if a.get("p") is not None else "gu", y=cube[yy][xx], nodata=a["nodata"], lam=float(lam), p=a.get("p"))
                dist["accessor_pixels"] += 1
                add(c, dict(out=r["band"][yy][xx]), "accessor whits(order=%s,%s)" % (a["order"], "sg" if a.get("sg") else "s"))
    r1 = core.eval_cases("C03", "gu", wc.PRE, coq, "check_gu", shard=30, scope="Z")
    r2 = core.eval_cases("C03", "claim", wc.PRE, coq, "claim_gu", shard=30, scope="Z")
    # directed search: every case on which model and implementation disagree is held against the exact definition
    for i in r1["failing"]:
        if i in kcase and i not in exact_done and len(kcase[i][0]["y"]) <= 200:
            c, r = kcase[i]
            why = exact_violation(c, r, dist)
            if why:
                spec_fail.append((dict(meta[i], y=c["y"], out=r["out"]), why))
    ctx.cov["evaluations"] = len(coq)
    ctx.cov["distinct_nontrivial"] = len(set(coq))
    ctx.cov["rule"] = ("seeded series (length 4..%d, |values| <= 9000, negative data, sinusoidal/random-walk/noise), gap patterns "
                       "isolated/runs/leading/trailing/all-but-k, placeholders nodata/NaN/+-inf, lambda in 10^[-3,5] and 0, p in (0,1); "
                       "accessor whits with s / per-pixel sgrid incl. -inf / p in three dim orders; distinct cases counted"
                       % (400 if ctx.thorough else 150))
    ctx.notes.update(input_distribution=dist, cases_bit_exact=len(coq) - len(r2["failing"]), out_of_claim_dropped=len(r2["failing"]),
                     tie_skipped=dist["ties"], model_vs_impl_mismatches=len(r1["failing"]), spec_failures=len(spec_fail))
    ctx.add_samples([meta[0], meta[1], meta[-1]])
    ctx.assumptions += ["float64 rounding: the exact-arithmetic curve is compared with the tie rule (+-1 only within 1e-7 of a "
                        "half-integer); cases where an IRLS residual is within 1e-9 of zero are skipped (counted)",
                        "cases whose fitted curve leaves int16 are outside the claim (counted as dropped)"]
    for r, tag in ((r1, "check"), (r2, "claim")):
        for si, lg in r["errors"]:
            ctx.violation("Coq could not evaluate the %s cases" % tag, dict(kind="coq-eval-error", log=lg), found_input=False)
    if spec_fail:
        spec_fail.sort(key=lambda t: len(str(t[0])))
        m, why = spec_fail[0]
        ctx.violation(why, dict(kind="spec", case=m, n_failing=len(spec_fail)))
    elif r1["failing"]:
        bad = sorted((meta[i] for i in r1["failing"]), key=lambda m: m["n"])
        ctx.violation("model and implementation disagree (Corr/C03.v check_gu, bit-exact); the exact-curve spec holds on all "
                      "explored inputs", dict(kind="correspondence", correspondence="Corr/C03.v check_gu", case=bad[0],
                                              n_disagree=len(bad)), found_input=False)


def replay(ctx, path):
    import json
    rp = json.load(open(path))
    print(json.dumps(rp.get("case"))[:3000])
    return 2
