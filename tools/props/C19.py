"""C19 — iterative aggregation yields exactly the complete trailing windows."""
import bisect

import numpy as np

from vlib import core
from vlib.core import zlist, zlit, flit, blit, optlit

PRE = ("From HDC Require Import Base.Prelude Base.Float Model.Iteragg Corr.C19.\nFrom Coq Require Import PrimFloat.\n")
METH = {None: "MNone", "pad": "MPad", "ffill": "MPad", "backfill": "MBackfill", "bfill": "MBackfill", "nearest": "MNearest"}


def locate(axis, v, method):
    """independent label lookup; None = cannot be located"""
    if method is None:
        return axis.index(v) if v in axis else None
    le = bisect.bisect_right(axis, v) - 1
    ge = bisect.bisect_left(axis, v)
    if method in ("pad", "ffill"):
        return le if le >= 0 else None
    if method in ("backfill", "bfill"):
        return ge if ge < len(axis) else None
    if le < 0:
        return ge if ge < len(axis) else None
    if ge >= len(axis):
        return le
    return le if (v - axis[le]) < (axis[ge] - v) else ge


def expected(c):
    """The property, stated independently: list of (jj, e) or 'raise'."""
    axis, n = c["axis"], c["n"]
    if c["begin"] is None:
        b = len(axis) - 1
    else:
        b = locate(axis, c["begin"], c["method"])
        if b is None:
            return "raise"
    if c["end"] is None:
        e0 = 0
    else:
        e0 = locate(axis, c["end"], c["method"])
        if e0 is None:
            return "raise"
    return [(e - n + 1, e) for e in range(b, max(e0, n - 1) - 1, -1)]


def spec(c, r):
    exp = expected(c)
    if exp == "raise":
        if r["raised"] is None:
            return "a begin/end label that cannot be located did not raise (yielded %d items)" % len(r["items"])
        if not r["raised"].startswith("ValueError"):
            return "raised %s instead of ValueError" % r["raised"]
        return None
    if r["raised"] is not None:
        return "raised %s on locatable labels" % r["raised"]
    if len(exp) != len(r["items"]):
        return "yielded %d windows, expected %d" % (len(r["items"]), len(exp))
    axis, pix = c["axis"], c["pix"]
    for (jj, e), it in zip(exp, r["items"]):
        if it["start"] != axis[jj] or it["stop"] != axis[e] or it["n"] != c["n"]:
            return "window (%d..%d): attrs start=%s stop=%s n=%s" % (jj, e, it["raw_start"], it["raw_stop"], it["n"])
        cells = [v for v in pix[jj:e + 1] if v is not None]
        if c["op"] == "full":
            if it["slice"] != pix[jj:e + 1] or it["labels"] != axis[jj:e + 1]:
                return "window (%d..%d): full slice differs" % (jj, e)
            continue
        if c["dim"] == "time" and (it["stamp"] != axis[e] or it.get("ntime") != 1):
            return "window (%d..%d): time stamp %s" % (jj, e, it["stamp"])
        if c["op"] == "sum":
            want = float(sum(cells))
        else:
            want = float(sum(cells)) / len(cells) if cells else float("nan")
        got = it["val"]
        if c.get("dtype") == "float32" and want == want:
            want = float(np.float32(want))               # the mean of a float32 window is a float32
        if not ((want != want and got != got) or want == got):
            return "window (%d..%d): %s=%s, expected %s" % (jj, e, c["op"], got, want)
    return None


def gen(ctx, rng):
    cases = []
    maxL = 12 if ctx.thorough else 7
    k = 0
    for L in range(1, maxL + 1):
        axis = [10 * (i + 1) for i in range(L)]
        if L % 3 == 0:   # irregular spacing
            axis = sorted(int(v) for v in rng.choice(np.arange(1, 20 * L), size=L, replace=False))
        for n in range(1, L + 2):
            for b in [None] + axis:
                for e in [None] + axis:
                    k += 1
                    pix = [None if rng.random() < 0.25 else int(rng.integers(-50, 50)) for _ in range(L)]
                    cases.append(dict(axis=axis, n=n, begin=b, end=e, method=None, op=["sum", "mean", "full"][k % 3],
                                      dim=["time", "band"][(k // 3) % 2], pix=pix, first=bool((k // 6) % 2), exhaustive=True,
                                      dtype=["float64", "float32"][(k // 12) % 2]))
    # labels off the axis, with and without a lookup method
    for _ in range(600 if ctx.thorough else 150):
        L = int(rng.integers(1, 13))
        axis = sorted(int(v) for v in rng.choice(np.arange(2, 20 * L + 3), size=L, replace=False))
        n = int(rng.integers(1, L + 2))
        meth = [None, "pad", "ffill", "backfill", "bfill", "nearest"][int(rng.integers(0, 6))]

        def pick():
            r = rng.random()
            if r < 0.2:
                return None
            if r < 0.45:
                return int(rng.choice(axis))
            return int(rng.integers(0, 20 * L + 6))
        pix = [None if rng.random() < 0.3 else int(rng.integers(-50, 50)) for _ in range(L)]
        if rng.random() < 0.1:
            pix = [None] * L
        cases.append(dict(axis=axis, n=n, begin=pick(), end=pick(), method=meth, op=str(rng.choice(["sum", "mean", "full"])),
                          dim=str(rng.choice(["time", "band"])), pix=pix, first=bool(rng.random() < 0.5), exhaustive=False,
                          dtype=str(rng.choice(["float64", "float32", "float32"]))))
    # the label value 0 (falsy in Python) as begin / end: on an axis that starts at 0, and off the axis (must raise like any other
    # label that is not there); non-time dimension, so that the label really is the integer 0
    for L in range(2, 7):
        for n in (1, 2, L):
            for axis in ([10 * i for i in range(L)], [10 * (i + 1) for i in range(L)], [i for i in range(L)]):
                for b, e in ((0, None), (None, 0), (0, axis[-1]), (axis[-1], 0)):
                    pix = [int(v) for v in rng.integers(-50, 50, size=L)]
                    cases.append(dict(axis=axis, n=n, begin=b, end=e, method=[None, "ffill"][(L + n) % 2], op=["sum", "mean", "full"][(L + n) % 3],
                                      dim="band", pix=pix, first=bool(L % 2), exhaustive=False, dtype="float64"))
    # integer cubes whose cells fit their dtype while the window sums do not (int16 indices around 8000, int8, int32 near 1e9): a sum is
    # the sum of the window's cells, not that sum wrapped into the input dtype
    for k in range(90 if ctx.thorough else 36):
        dt = ["int16", "int8", "int32", "int16"][k % 4]
        lo, hi = dict(int16=(7000, 10001), int8=(90, 128), int32=(900000000, 1500000001))[dt]
        L = int(rng.integers(4, 11))
        axis = [10 * (i + 1) for i in range(L)]
        n = int(rng.integers(2 if dt != "int16" else 4, L + 1)) if L >= 4 else L
        n = min(n, L)
        pix = [int(v) * (-1 if k % 7 == 3 else 1) for v in rng.integers(lo, hi, size=L)]
        cases.append(dict(axis=axis, n=n, begin=[None, axis[0], axis[1]][k % 3], end=[None, axis[-1]][k % 2], method=None, op=["sum", "sum", "mean"][k % 3],
                          dim=["time", "band"][(k // 3) % 2], pix=pix, first=bool((k // 6) % 2), exhaustive=False, dtype=dt))
    return cases


def coq_case(c, r):
    its = []
    for it in r["items"]:
        if it["start"] is None or it["stop"] is None:
            return None
        sl = "[" + "; ".join(optlit(v, zlit) for v in (it.get("slice") or [])) + "]"
        val = it["val"]
        if c.get("dtype") == "float32" and c["op"] == "mean" and val == val and it["start"] in c["axis"] and it["stop"] in c["axis"]:
            # a float32 cube yields the float32 rounding of the window mean; the model works in binary64, so hand it the binary64
            # mean when (and only when) the observed value is exactly its float32 rounding
            cells = [v for v in c["pix"][c["axis"].index(it["start"]):c["axis"].index(it["stop"]) + 1] if v is not None]
            if cells and float(np.float32(sum(cells) / len(cells))) == val:
                val = sum(cells) / len(cells)
        it = dict(it, val=val)
        its.append("IT %s %s %s %s %s %s" % (zlit(it["start"]), zlit(it["stop"]), zlit(it["n"]),
                                             optlit(it.get("stamp"), zlit), flit(it["val"]), sl))
    pix = "[" + "; ".join(optlit(v, zlit) for v in c["pix"]) + "]"
    return "IC %s %s %s %s %s %s %s %s [%s]" % (
        zlist(c["axis"]), zlit(c["n"]), optlit(c["begin"], zlit), optlit(c["end"], zlit), METH[c["method"]],
        {"sum": "OSum", "mean": "OMean", "full": "OFull"}[c["op"]], pix, blit(r["raised"] is not None), "; ".join(its))


def run(ctx):
    ctx.proofs(["Props/C19.v"])
    rng = np.random.default_rng(ctx.seed)
    cases = gen(ctx, rng)
    res, log = core.run_impl("c19_impl.py", dict(cases=[{k: v for k, v in c.items() if k != "exhaustive"} for c in cases]),
                             timeout=2400)
    if res is None:
        ctx.violation("implementation run failed", dict(kind="impl-crash", log=log[-3000:]), found_input=False)
        return
    spec_fail, coq, meta = [], [], []
    dist = dict(raised=0, windows=0, off_axis=0, methods={}, ops={}, dims={})
    for c, r in zip(cases, res):
        m = dict(case={k: c[k] for k in ("axis", "n", "begin", "end", "method", "op", "dim", "first", "pix")},
                 raised=r["raised"], n_items=len(r["items"]),
                 items=[{k: it.get(k) for k in ("start", "stop", "n", "stamp", "val")} for it in r["items"][:4]])
        why = spec(c, r)
        if why:
            spec_fail.append((m, why))
        dist["raised"] += 1 if r["raised"] else 0
        dist["windows"] += len(r["items"])
        dist["off_axis"] += 1 if any(v is not None and v not in c["axis"] for v in (c["begin"], c["end"])) else 0
        for key, val in (("methods", str(c["method"])), ("ops", c["op"]), ("dims", c["dim"])):
            dist[key][val] = dist[key].get(val, 0) + 1
        cc = coq_case(c, r)
        if cc is None:
            spec_fail.append((m, "agg_start/agg_stop is not a label of the axis"))
            continue
        coq.append(cc)
        meta.append(m)
    r1 = core.eval_cases("C19", "it", PRE, coq, "check_iteragg", shard=500)
    ctx.cov["evaluations"] = len(cases)
    ctx.cov["distinct_nontrivial"] = len(set(coq))
    ctx.cov["exhaustive"] = True
    ctx.cov["rule"] = ("axis lengths 1..%d x n in 1..len+1 x begin/end in {default} U axis exhaustively (ops, dims and layout "
                       "rotated, pixel with NaNs), plus random cases with labels off the axis and lookup methods "
                       "none/pad/ffill/backfill/bfill/nearest; the whole generator sequence (attrs, stamp, values) is compared; "
                       "distinct cases counted" % (12 if ctx.thorough else 7))
    ctx.notes.update(input_distribution=dist, model_vs_impl_mismatches=len(r1["failing"]), spec_failures=len(spec_fail),
                     exhaustive_cases=sum(1 for c in cases if c["exhaustive"]))
    ctx.add_samples([meta[3], meta[len(meta) // 2], meta[-1]])
    ctx.assumptions += ["axis labels are strictly increasing and unique (pandas get_indexer requires a unique index)",
                        "pandas Index.get_indexer is modelled (exact/pad/backfill/nearest with ties to the right) and "
                        "compared on every case; pixel values are small integers or NaN"]
    for si, lg in r1["errors"]:
        ctx.violation("Coq could not evaluate the cases", dict(kind="coq-eval-error", log=lg), found_input=False)
    if spec_fail:
        spec_fail.sort(key=lambda t: len(str(t[0])))
        m, why = spec_fail[0]
        ctx.violation(why, dict(kind="spec", case=m, n_failing=len(spec_fail)))
    elif r1["failing"]:
        bad = sorted((meta[i] for i in r1["failing"]), key=lambda m: len(str(m)))
        ctx.violation("model and implementation disagree (Corr/C19.v check_iteragg); the property's spec holds on all "
                      "explored inputs", dict(kind="correspondence", correspondence="Corr/C19.v check_iteragg", case=bad[0],
                                              n_disagree=len(bad)), found_input=False)


def replay(ctx, path):
    import json
    rp = json.load(open(path))
    c = rp["case"]["case"]
    res, log = core.run_impl("c19_impl.py", dict(cases=[c]))
    why = spec(c, res[0])
    print("replay:", c, "->", res[0]["raised"], len(res[0]["items"]), "items |", why or "property holds")
    return 1 if why else 0
