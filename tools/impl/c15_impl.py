"""Runs autocorr_1d / autocorr / autocorr_tyx and DataArray.hdc.algo.autocorr from /repo."""
import json
import sys
import warnings

import numpy as np

warnings.filterwarnings("ignore")
import xarray as xr  # noqa: E402
import hdc.algo  # noqa: F401,E402
from hdc.algo.ops import autocorr, autocorr_1d, autocorr_tyx  # noqa: E402


def variances(data, nodata):
    """binary64 mirror of the two variance terms (only to know which pow(v, -0.5) calls the kernel makes)"""
    x, y = data[:-1], data[1:]
    if nodata is None:
        okx, oky = ~np.isnan(x), ~np.isnan(y)
        f = lambda a: float(a)  # noqa
    else:
        okx, oky = x != nodata, y != nodata
        f = lambda a: float(int(a))  # noqa
    sx = sxx = nx = sy = syy = ny = 0.0 if nodata is None else 0
    for a, oa, b, ob in zip(x, okx, y, oky):
        if oa:
            sx += f(a) if nodata is None else int(a)
            sxx += f(a) * f(a) if nodata is None else int(a) * int(a)
            nx += 1
        if ob:
            sy += f(b) if nodata is None else int(b)
            syy += f(b) * f(b) if nodata is None else int(b) * int(b)
            ny += 1
    vx = (float(nx) * float(sxx) - float(sx) * float(sx)) * float(nx)
    vy = (float(ny) * float(syy) - float(sy) * float(sy)) * float(ny)
    out = []
    for v in (vx, vy):
        if v > 0:
            out.append([v, v ** -0.5])
    return out


def main():
    P = json.load(sys.stdin)
    out = []
    for c in P["cases"]:
        rec = {}
        try:
            if c["dtype"].startswith("int"):
                d = np.array(c["data"], dtype=c["dtype"])
                nd = c["nodata"]
            else:
                d = np.array([np.nan if v is None else v for v in c["data"]], dtype=c["dtype"])
                nd = None
            r1 = autocorr_1d(d) if nd is None else autocorr_1d(d, nd)
            rec["r64"] = float(r1)
            cube = d.reshape(1, 1, -1)
            a1 = autocorr(cube, nd)
            a2 = autocorr_tyx(np.ascontiguousarray(d.reshape(-1, 1, 1)), nd)
            rec["yxt"], rec["tyx"] = float(a1[0, 0]), float(a2[0, 0])
            rec["dtypes"] = [str(a1.dtype), str(a2.dtype)]
            rec["pow"] = variances(d.astype("float64") if nd is None else d, nd)
            if c.get("accessor"):
                attrs = {} if nd is None else {"nodata": nd}
                da1 = xr.DataArray(np.stack([cube, cube])[:, 0], dims=("y", "x", "time"), attrs=attrs)
                da2 = da1.transpose("time", "y", "x")
                rec["acc"] = [float(da1.hdc.algo.autocorr().values[0, 0]), float(da2.hdc.algo.autocorr().values[1, 0])]
                rec["acc_dims"] = [list(da1.hdc.algo.autocorr().dims), list(da2.hdc.algo.autocorr().dims)]
        except Exception as e:  # noqa
            rec["error"] = "%s: %s" % (type(e).__name__, e)
        out.append(rec)
    print("@@RESULT@@" + json.dumps(out))


main()
