"""C07 — SPI equals the gamma-MLE / zero-mixture / normal-quantile definition."""
import numpy as np

from vlib import core
from vlib.core import flist, flit, zlist

PRE = "From HDC Require Import Base.Prelude Base.Float Base.Ops Model.Spi Corr.C07.\nFrom Coq Require Import PrimFloat.\n"


def tab(t):
    return "[" + "; ".join("(%s, %s)" % (flit(a), flit(b)) for a, b in t) + "]"


def tab2(t):
    return "[" + "; ".join("(%s, %s, %s)" % (flit(a), flit(b), flit(c)) for a, b, c in t) + "]"


def coq_case(c, r, k06, k14):
    t = r["tables"]
    return "SP %s %s %d%%nat %d%%nat %s %s %s %s %s %s %s" % (flist(c["x"]), flit(c["nodata"]), c["c0"], c["c1"], tab(t["log"]), tab(t["digamma"]),
                                                          tab(t["ndtri"]), tab2(t["gammainc"]), flit(k06), flit(k14), zlist(r["out"]))


def gen(ctx, rng):
    cases = []
    N = 360 if ctx.thorough else 100
    for it in range(N):
        n = int(rng.choice([3, 4, 6, int(rng.integers(7, 60)), int(rng.integers(60, 400 if ctx.thorough else 150))]))
        shape = float(np.exp(rng.uniform(np.log(0.05), np.log(500))))
        scale = float(np.exp(rng.uniform(np.log(0.1), np.log(1e4))))
        x = rng.gamma(shape, scale, size=n)
        dtype = ["int16", "float64", "float64", "float32"][it % 4]
        if dtype == "int16":
            x = np.clip(np.round(x), 0, 32000)
        elif it % 8 < 4:
            x = np.round(x, 1)                          # ties
        zshare = float(rng.choice([0.0, 0.0, 0.1, 0.5, 0.9]))
        if zshare == 0.9:                              # the boundary itself: exactly 90% zeros is still in scope
            n = int(rng.choice([10, 20, 30, 40]))
            x = rng.gamma(shape, scale, size=n)
            if dtype == "int16":
                x = np.clip(np.round(x), 1, 32000)
        nz = int(round(zshare * n))
        if nz:
            x[rng.choice(n, size=nz, replace=False)] = 0.0
        # the nodata value may be positive (32767, the customary marker of int16 rasters; 255 / 65535 for unsigned ones): a nodata cell is not a
        # rainfall amount and must not enter the fit
        nd = [-9999.0, -9999.0, 32767.0, -9999.0, 32767.0][it % 5]      # (not 255: an index of 255 is a legitimate result and could not be told from nodata)
        x[x == nd] -= 1.0
        miss = rng.random(n) < rng.choice([0.0, 0.1, 0.3]) if nd < 0 else rng.random(n) < rng.choice([0.1, 0.3])
        if miss.sum() > n - 3:
            miss[:] = False
        x[miss] = nd
        if it % 3 == 0:
            c0, c1 = 0, n
        else:
            c0 = int(rng.integers(0, max(1, n - 2)))
            c1 = int(rng.integers(c0 + 2, n + 1))
        cases.append(dict(x=[float(v) for v in x], dtype=dtype, nodata=nd, c0=c0, c1=c1, shape=shape, scale=scale, zshare=zshare))
    # long integer series: the grouped kernel must treat int16 input exactly like the ungrouped one (logarithms in double
    # precision) - a single-precision fit flips the rounding of a few values in a thousand
    for it in range(16 if ctx.thorough else 8):
        n = 400
        x = np.clip(np.round(rng.gamma(float(rng.choice([0.8, 2.0, 6.0])), float(rng.choice([30.0, 120.0, 700.0])), size=n)), 0, 32000)
        x[rng.random(n) < 0.1] = 0
        x[rng.random(n) < 0.05] = -9999.0
        cases.append(dict(x=[float(v) for v in x], dtype="int16", nodata=-9999.0, c0=0, c1=n, shape=2.0, scale=100.0, zshare=0.1, record=it < 2))
    return cases


def compare_with_reference(c, r):
    """None when the output agrees with the SciPy evaluation of the definition (+-1 only at rounding ties, |SPI| <= 7000)"""
    ref = r.get("ref")
    if ref is None:
        return None
    iv = (r.get("ref_info") or {}).get("interval")
    for i, (o, w) in enumerate(zip(r["out"], ref)):
        if w is None:
            if o != int(c["nodata"]) and not (c["x"][i] != c["nodata"] and c["x"][i] >= 0 and (r.get("ref_info") or {}).get("alpha") is None):
                return "cell %d (x=%r) should be nodata, got %d" % (i, c["x"][i], o)
            continue
        if w != w or abs(w) > 7000:
            continue
        if o == int(c["nodata"]):
            return "cell %d (x=%r) is nodata, definition gives %.3f" % (i, c["x"][i], w)
        if c["dtype"] == "float32":
            lo, hi = iv[i]
            if lo != lo or hi != hi or np.floor(lo) - 1 <= o <= np.ceil(hi) + 1:
                continue
            return "cell %d (x=%r): SPI %d outside the single-precision interval [%.2f, %.2f]" % (i, c["x"][i], o, lo, hi)
        frac = abs(abs(w - np.floor(w)) - 0.5)
        if abs(o - round(w)) > 0 and not (frac < 1e-4 and abs(o - round(w)) <= 1):
            return "cell %d (x=%r): SPI %d, definition gives %.4f (alpha=%s beta=%s p0=%s)" % (
                i, c["x"][i], o, w, r["ref_info"].get("alpha"), r["ref_info"].get("beta"), r["ref_info"].get("p0"))
    return None


def run(ctx):
    ctx.proofs(["Props/C07.v"], extra_trusted=["oracle functions log/digamma/gammainc/ndtri: libm and SciPy cython_special, values recorded per call"])
    rng = np.random.default_rng(ctx.seed)
    cases = gen(ctx, rng)
    # accessor: interleaved groups (calendar month over several years) with calibration sub-windows
    acc = []
    for it in range(6 if ctx.thorough else 3):
        years = int(rng.integers(6, 11))
        t = [str(np.datetime64("2001-01-15") + np.timedelta64(30 * k, "D"))[:10] for k in range(12 * years)]
        months = [int(s[5:7]) for s in t]
        if it % 2:
            t = [s + "T12:00:00" for s in t]         # steps stamped at noon: the default window still runs to the last step
        dt = ["int16", "float32", "int16"][it % 3]
        cube = rng.gamma(2.0, 40.0, size=(len(t), 2, 2))
        cube[rng.random(cube.shape) < 0.15] = 0
        cube[rng.random(cube.shape) < 0.05] = -9999
        cube = np.where(cube == -9999, -9999, np.round(cube))
        win = [(None, None), ("2003-01-01", None), (None, "2005-12-31"), ("2002-06-01", "2006-06-30")][it % 4]
        acc.append(dict(cube=cube.tolist(), dtype=dt, nodata=-9999.0, time=t, groups=months if it % 3 != 2 else None, begin=win[0], end=win[1]))
    # wider integer types holding values beyond the int16 range (seasonal totals in 1/100 mm): the kernel must see the values as they are
    for it, dt in enumerate(["int32", "int64"] + (["uint16", "int32"] if ctx.thorough else [])):
        t = [str(np.datetime64("2001-01-15") + np.timedelta64(30 * k, "D"))[:10] + ["", "T06:00:00"][it % 2] for k in range(60)]
        cube = np.round(rng.gamma([2.0, 40.0][it % 2], [8000.0, 2500.0][it % 2] if dt != "uint16" else 900.0, size=(len(t), 2, 2)))
        cube[rng.random(cube.shape) < 0.1] = 0
        ndw = -9999.0 if dt != "uint16" else 32767.0
        cube[rng.random(cube.shape) < 0.05] = ndw
        acc.append(dict(cube=cube.tolist(), dtype=dt, nodata=ndw, time=t, groups=None, begin=[None, "2002-01-01"][it % 2], end=None))
    kw_cube = rng.gamma(2.0, 40.0, size=(2, 2, 24))
    kw_cube[rng.random(kw_cube.shape) < 0.2] = 0
    kw_cube[rng.random(kw_cube.shape) < 0.1] = -9999
    kw_cube = np.where(kw_cube == -9999, -9999, np.round(kw_cube))
    # many small groups of low-variance integer data (shape 100..400): the fit is sensitive to the precision of the logarithms
    grouped = []
    for it in range(8 if ctx.thorough else 4):
        n, ng = 360, 36
        shp = float(rng.choice([100.0, 400.0, 250.0]))
        xg = np.clip(np.round(rng.gamma(shp, 3000.0 / shp, size=n)), 1, 32000)
        grouped.append(dict(x=[float(v) for v in xg], dtype=["int16", "int16", "float32"][it % 3], groups=[int(i % ng) for i in range(n)], ng=ng, nodata=-9999.0))
    # low-variance integer data over a few hundred steps: the accessor must run the kernel on the cube as it is (a float32 copy
    # changes the fit by single-precision logarithms and flips a few values in a thousand)
    hs = float(rng.choice([300.0, 400.0]))
    hs_cube = np.clip(np.round(rng.gamma(hs, 9000.0 / hs, size=(3, 3, 360))), 1, 32000)
    res, log = core.run_impl("c07_impl.py", dict(cases=cases, accessor=acc, grouped=grouped,
                                                 cubes=[dict(cube=kw_cube.tolist(), dtype="int16", nodata=-9999.0),
                                                        dict(cube=hs_cube.tolist(), dtype="int16", nodata=-9999.0),
                                                        dict(cube=(hs_cube / 7.0).tolist(), dtype="float64", nodata=-9999.0)]), timeout=3000)
    if res is None:
        ctx.violation("implementation run failed", dict(kind="impl-crash", log=log[-3000:]), found_input=False)
        return
    spec_fail, coq, meta = [], [], []
    dist = dict(dtypes={}, zero_share={}, full_window=0, sub_window=0, all_nodata_results=0, compared_with_scipy=0, beyond_7000=0, max_n=0,
                shapes=[round(min(c["shape"] for c in cases), 3), round(max(c["shape"] for c in cases), 1)])
    for c, r in zip(cases, res["cases"]):
        n = len(c["x"])
        m = dict(n=n, dtype=c["dtype"], c0=c["c0"], c1=c["c1"], shape=round(c["shape"], 3), scale=round(c["scale"], 3),
                 x=c["x"] if n <= 20 else None, out=r.get("out") if n <= 20 else None)
        if "error" in r:
            spec_fail.append((dict(m, x=c["x"]), "SPI kernel raised %s" % r["error"]))
            continue
        dist["dtypes"][c["dtype"]] = dist["dtypes"].get(c["dtype"], 0) + 1
        dist["zero_share"][str(c["zshare"])] = dist["zero_share"].get(str(c["zshare"]), 0) + 1
        dist["full_window" if (c["c0"], c["c1"]) == (0, n) else "sub_window"] += 1
        dist["max_n"] = max(dist["max_n"], n)
        if all(o == int(c["nodata"]) for o in r["out"]):
            dist["all_nodata_results"] += 1
        dist["beyond_7000"] += sum(1 for w in (r.get("ref") or []) if w is not None and w == w and abs(w) > 7000)
        if r.get("dtype") != "int16":
            spec_fail.append((m, "output dtype %s" % r.get("dtype")))
        if "grp" in r and r["grp"] != r["out"]:
            spec_fail.append((dict(m, x=c["x"], grp=r["grp"]), "gammastd_grp with one group differs from gammastd_yxt"))
        why = compare_with_reference(c, r)
        dist["compared_with_scipy"] += 1 if r.get("ref") else 0
        if why:
            spec_fail.append((dict(m, x=c["x"], out=r["out"]), why))
        if "tables" in r:
            coq.append(coq_case(c, r, res["k06"], res["k14"]))
            meta.append(m)
    for r in (res.get("cubes") or []):
        if "error" in r:
            spec_fail.append((dict(kind="cube", n=10 ** 6), "spi on a cube raised %s" % r["error"]))
        elif r.get("kw_nodata0_equal") is not True or not r.get("acc_equal"):
            spec_fail.append((dict(kind="cube", n=10 ** 6, cube=kw_cube.tolist()), "spi(nodata=0) with a missing / different nodata attribute differs from the kernel "
                              "run with nodata 0 (%s), or the accessor differs from the kernel (%s)" % (r.get("kw_nodata0_equal"), r.get("acc_equal"))))
    for gcase, r in zip(grouped, res.get("grouped") or []):
        if "error" in r:
            spec_fail.append((dict(kind="grouped", n=10 ** 6), "gammastd_grp raised %s" % r["error"]))
        elif r["differ"]:
            spec_fail.append((dict(kind="grouped", n=10 ** 6, dtype=gcase["dtype"], first=r["first"], x=gcase["x"]), "gammastd_grp on %s input differs from the ungrouped kernel "
                              "on the groups' sub-series in %d of %d values (first: %s)" % (gcase["dtype"], r["differ"], r["n"], r["first"])))
    dist["grouped_values_compared"] = sum(r.get("n", 0) for r in (res.get("grouped") or []))
    acc_cmp = 0
    for a, r in zip(acc, res.get("accessor", [])):
        m = dict(n=10 ** 6, kind="accessor", dtype=a["dtype"], groups="calendar months" if a["groups"] else None, begin=a["begin"], end=a["end"])
        if "error" in r:
            spec_fail.append((m, "spi(groups, calibration window) raised %s" % r["error"]))
            continue
        acc_cmp += r["compared"]
        if r["failures"]:
            f = r["failures"][0]
            spec_fail.append((dict(m, failure=f, cube=a["cube"], time=a["time"]), "spi(groups=%s, begin=%s, end=%s): group %s pixel %s at %s: SPI %d, the definition "
                              "on the group's members inside the window gives %s" % (m["groups"], a["begin"], a["end"], f["group"], f["pixel"], f["time"], f["spi"], f["definition"])))
    dist["accessor_group_pixel_series_compared"] = acc_cmp
    r1 = core.eval_cases("C07", "spi", PRE, coq, "check_spi", shard=10, scope="Z")
    ctx.cov["evaluations"] = len(cases)
    ctx.cov["distinct_nontrivial"] = len(set(coq))
    ctx.cov["rule"] = ("seeded non-negative series (length 3..%d; gamma shapes 0.05..500, scales 0.1..1e4; int16, float64 incl. ties, float32), zero "
                       "share in {0, 0.1, 0.5, 0.9}, nodata placements, full and sub calibration windows (>= 2 steps); int16/float64 cases are "
                       "compared bit-for-bit with the model, all cases with the SciPy evaluation of the definition" % (400 if ctx.thorough else 150))
    ctx.notes.update(input_distribution=dist, cases_bit_exact=len(coq), model_vs_impl_mismatches=len(r1["failing"]), spec_failures=len(spec_fail))
    ctx.add_samples([meta[0], meta[1], meta[-1]])
    ctx.assumptions += ["special-function values are SciPy's / libm's (recorded per call); the model must issue bit-identical arguments",
                        "independent oracle: scipy.stats.gamma.fit(floc=0) + scipy.special.gammainc/ndtri; +-1 only within 1e-4 of a rounding tie; "
                        "|SPI| > 7000 left to C08; float32 inputs: interval oracle (s = log mean - mean log perturbed by (n+4) 2^-24 (1 + max|log x| + |log mean|), mean by (n+2) 2^-24), +-1 unit",
                        "that the +-40% bracket around Thom's estimate contains the root is not proved; a failing bracket shows as an all-nodata "
                        "pixel and is caught by the SciPy comparison"]
    for si, lg in r1["errors"]:
        ctx.violation("Coq could not evaluate the cases", dict(kind="coq-eval-error", log=lg), found_input=False)
    if spec_fail:
        spec_fail.sort(key=lambda t: len(str(t[0])))
        m, why = spec_fail[0]
        ctx.violation(why, dict(kind="spec", case=m, n_failing=len(spec_fail)))
    elif r1["failing"]:
        bad = sorted((meta[i] for i in r1["failing"]), key=lambda m: m["n"])
        ctx.violation("model and implementation disagree (Corr/C07.v check_spi, bit-exact); the SciPy evaluation of the definition agrees on all "
                      "explored inputs", dict(kind="correspondence", correspondence="Corr/C07.v check_spi", case=bad[0], n_disagree=len(bad)),
                      found_input=False)


def replay(ctx, path):
    import json
    rp = json.load(open(path))
    print(json.dumps(rp.get("case"))[:3000])
    return 2
