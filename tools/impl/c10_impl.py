"""Runs the Mann-Kendall kernels / gufuncs / accessor from /repo and records the libm erf call."""
import json
import math
import sys
import warnings

import numpy as np

warnings.filterwarnings("ignore")
import xarray as xr  # noqa: E402
import hdc.algo  # noqa: F401,E402
from scipy.special import ndtri  # noqa: E402
from hdc.algo.ops.stats import (_mann_kendall_trend_gu, _mann_kendall_trend_gu_nd, mk_score, mk_variance_s)  # noqa: E402

THR = float(ndtri(1 - 0.05 / 2))


def erf_call(x):
    """(argument, value) of the erf call the kernel makes for series x, evaluated in binary64 like the source."""
    n = len(x)
    s = 0
    for k in range(n - 1):
        for kk in range(k + 1, n):
            s += int(x[kk] > x[k]) - int(x[kk] < x[k])
    from collections import Counter
    cnt = Counter(x)
    full = n * (n - 1) * (2 * n + 5)
    num = full if len(cnt) == n else full - sum(t * (t - 1) * (2 * t + 5) for t in cnt.values())
    vs = num / 18
    if s > 0:
        z = (s - 1) / math.sqrt(vs)
    elif s < 0:
        z = (s + 1) / math.sqrt(vs)
    else:
        z = 0.0
    arg = abs(z) * math.sqrt(0.5)
    return arg, math.erf(arg)


def main():
    P = json.load(sys.stdin)
    out = dict(thr=THR)
    res = []
    for b in P.get("gu", []):                      # batches of equal-length series
        x = np.array(b["x"], dtype=b["dtype"]).reshape(len(b["x"]), -1)
        if b.get("nodata") is None:
            tau, p, slope, tr = _mann_kendall_trend_gu(x)
        else:
            tau, p, slope, tr = _mann_kendall_trend_gu_nd(x, b["nodata"])
        erfs = [erf_call([float(v) for v in row]) for row in x]
        res.append(dict(tau=[float(v) for v in np.atleast_1d(tau)], p=[float(v) for v in np.atleast_1d(p)],
                        slope=[float(v) for v in np.atleast_1d(slope)], trend=[int(v) for v in np.atleast_1d(tr)],
                        dtypes=[str(tau.dtype), str(p.dtype), str(slope.dtype), str(tr.dtype)], erf=erfs))
    out["gu"] = res
    res = []
    for b in P.get("score", []):
        x = np.array(b["x"], dtype=b["dtype"])
        s, tau = mk_score(x)
        res.append(dict(s=int(s), tau=float(tau), var=float(mk_variance_s(x))))
    out["score"] = res
    res = []
    for b in P.get("acc", []):                      # cube (y, x, t), optional nodata attr
        x = np.array(b["x"], dtype=b["dtype"])
        dims = b.get("dims", ["y", "x", "time"])
        da = xr.DataArray(x, dims=dims)
        if b.get("nodata") is not None:
            da.attrs["nodata"] = b["nodata"]
        r = da.hdc.algo.mktrend()
        res.append(dict(tau=r.tau.values.astype("float64").tolist(), p=r.pvalue.values.astype("float64").tolist(),
                        slope=r.slope.values.astype("float64").tolist(), trend=r.trend.values.astype("int64").tolist(),
                        dtypes=[str(r.tau.dtype), str(r.pvalue.dtype), str(r.slope.dtype), str(r.trend.dtype)],
                        dims=list(r.tau.dims), trend_nodata=r.trend.attrs.get("nodata")))
    out["acc"] = res
    print("@@RESULT@@" + json.dumps(out))


main()
