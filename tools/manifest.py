"""Regenerates /verif/MANIFEST.json from the table below (python3 tools/manifest.py)."""
import json
import os

HERE = os.path.dirname(os.path.dirname(os.path.abspath(__file__)))

CHECKS = {
    "C17": dict(
        cat="proof",
        text="Theorems (Props/C17.v, all lengths/windows/labelings) about a hand-written Gallina model of rolling_sum, "
             "mean_grp and the accessor trimming (window semantics, nodata handling, value independence, and locality: data before the window "
             "or after the cell never changes an output - C17_rolling_history_irrelevant / _future_irrelevant); the model is tied to /repo on every run by an exact correspondence "
             "(vm_compute) that is exhaustive over {nodata,-2,0,1}^<=5 (<=8 thorough) x all windows / labelings plus "
             "random longer series over every dtype, and by an independent integer spec evaluated on the "
             "implementation's outputs.",
        ref="7 (C17)",
        note="Trusted: Coq kernel + vm_compute; the harness (generators, literal printers, result parser); integer-valued "
             "inputs whose partial sums are exact in binary32; float32 store modelled by Base/Float.to_f32 (SpecFloat "
             "rounding). Print Assumptions: closed under the global context.",
        technique="Coq proof over list/Z model + exhaustive small-scope correspondence"),
    "C11": dict(
        cat="proof",
        text="hdc/algo/dekad.py is translated to Gallina on every run (tools/translate_dekad.py, Python ast, fail-closed) and "
             "the 16 theorems of coq/tied/C11.v (partition of the calendar, uniqueness, abutting, ndays, whole-day spans from midnight, the 36 "
             "dekads of a year spanning exactly its 365/366 days, raw/ymd/label "
             "inverses, chronological order, hash, integer translations; all integers k, no year bound except the label "
             "codec 0..9999) are re-proved against the regenerated definitions. The running class and the .dekad accessor "
             "are compared with an independent calendar over all 3,652,059 dates and 359,964 dekads (thorough; a stratified "
             "set of years at quick) and with the generated model inside Coq.",
        ref="7 (C11), 5",
        note="Trusted: Coq kernel + vm_compute; the translator; Base/Civil.v as the meaning of datetime/timedelta (CPython "
             "_ymd2ord) and Base/PyStr.v as the meaning of slicing/int()/f-string fields, both cross-checked against the "
             "interpreter on every run. Print Assumptions: closed under the global context.",
        technique="Coq proof over a model regenerated from source by a translator + exhaustive correspondence"),
    "C18": dict(
        cat="proof",
        text="Theorems (Props/C18.v) about a literal Gallina model of the lroo kernel (positions of ones, gap test, "
             "threshold, 32-bit store) and of the croo accessor pipeline (sort by time descending, NaN-absorbing cumsum, "
             "argmax, + latest value): lroo equals the declaratively specified longest run (>= 2, else 0) without "
             "wrapping for every series shorter than 2^32; croo equals the run ending at the latest time stamp, is "
             "invariant under every permutation of the stored steps, and croo <= max(lroo, 1); lroo is unchanged by time reversal, the longest "
             "run never shrinks when data is added on either side, and a value other than 1 separates runs (longest run of a ++ x :: b = max of the sides). Tied to /repo by an exact "
             "correspondence, exhaustive over all binary series <= 10 (16 thorough) and all stored orders <= 5 (6).",
        ref="7 (C18)",
        note="Trusted: Coq kernel + vm_compute; harness; xarray sortby/where/cumsum/argmax modelled by documented behaviour "
             "and compared on every case; distinct time stamps. Print Assumptions: closed under the global context.",
        technique="Coq proof (induction, sorted-permutation uniqueness) + exhaustive small-scope correspondence"),
    "C19": dict(
        cat="proof",
        text="Theorems (Props/C19.v) about a literal Gallina model of IterativeAggregation._iteragg (label lookup on a "
             "strictly increasing axis, begin_ix/end_ix with the ValueError, the descending loop with its break and "
             "completeness test, attrs, slices): the yielded windows are exactly, newest first, those of n steps whose last "
             "step runs from begin down to max(end, n-1) for every axis length, n >= 1, begin and end - no window twice, and max(0, begin_ix - "
             "max(end_ix, n-1)) of them (C19_windows_distinct_and_counted); an unlocatable label "
             "raises. Tied to /repo by comparing the whole generator sequence (attrs, stamp, values) exhaustively for axis "
             "lengths 1..7 (12 thorough) x n x begin x end, plus off-axis labels x lookup methods.",
        ref="7 (C19)",
        note="Trusted: Coq kernel + vm_compute; harness; pandas Index.get_indexer modelled (exact/pad/backfill/nearest) and "
             "compared on every case; NaN-skipping reductions on small integers. Print Assumptions: closed under the global context.",
        technique="Coq proof (loop invariant by induction on fuel, sorted-axis lookup lemmas) + exhaustive small-scope correspondence"),
    "C09": dict(
        cat="proof",
        text="Theorems (Props/C09.v) about a Gallina model of get_calibration_indices (searchsorted left/right, per group), "
             "to_linspace, the accessor's validation ladder and attrs, and the per-group gather/scatter of gammastd_grp with "
             "the per-series kernel as a parameter: the index range is exactly {i | begin <= t_i <= end} for every strictly "
             "increasing axis and every begin/end, widening the window never drops a step and the cut points stay within 0..n on any axis "
             "(C09_cal_nested_and_in_range); ValueError iff the window has < 2 steps; attrs are the first/last step in "
             "the window; to_linspace preserves the partition onto 0..k-1; the grouped result decomposes per group, is "
             "invariant under every relabelling of the partition and equals the ungrouped kernel for one group. Tied to "
             "/repo by exact correspondence of indices, re-labelling, raise/attrs, and by running the decomposition / "
             "relabelling laws on the implementation itself.",
        ref="7 (C09)",
        note="Trusted: Coq kernel + vm_compute; harness; numpy searchsorted/unique modelled by documented behaviour and "
             "compared on every case; string labels enter via an order-isomorphic integer code; axes < 32768 steps "
             "(int16 cal_indices). Print Assumptions: closed under the global context.",
        technique="Coq proof (sorted-list lemmas, gather/scatter algebra) + correspondence + metamorphic checks on the implementation"),
    "C10": dict(
        cat="proof",
        text="Theorems (Props/C10.v): the literal double loop computes S; |S| <= n(n-1)/2, attained exactly by strictly monotone series "
             "(tau = +1 / -1) and S = 0 for a constant one (C10_tau_extremes); the variance numerator equals "
             "n(n-1)(2n+5) - sum over tie groups t(t-1)(2t+5) and the tie-free shortcut agrees; S and var(S) are invariant under "
             "every strictly increasing map, flip/keep under negation and time reversal (all series, all lengths); over the "
             "reals Z flips sign, p is even, the flag is odd and equals sign(Z)*[p < alpha] given the quantile hypothesis; "
             "Sen's slope (well-defined median) scales linearly and negates; all-nodata gives (nodata x3, -2). The binary64 "
             "model of the gufuncs (float32/int8 stores, recorded erf call) is compared bit-for-bit with the compiled "
             "kernels, exhaustively over all rank patterns <= 5 (7 thorough); an independent exact definition and the "
             "metamorphic laws are evaluated on the implementation.",
        ref="7 (C10)",
        note="Trusted: Coq kernel + vm_compute; harness; libm erf (recorded per call, the model must reproduce the argument "
             "bit-exactly) and scipy ndtri(0.975); hypothesis of C10_flag (critical value = alpha-quantile) is visible in its "
             "statement. Axioms (Print Assumptions): the standard library's real-number axioms "
             "ClassicalDedekindReals.sig_forall_dec, sig_not_dec and FunctionalExtensionality.functional_extensionality_dep for "
             "the theorems stated over R; the Z/list theorems are closed.",
        technique="Coq proof (induction, permutation arguments, reals) + bit-exact correspondence incl. exhaustive rank patterns"),
    "C01": dict(
        cat="proof",
        text="Theorems (Props/C01.v, over the reals, all n >= 4, all y, all non-negative w with two positive entries, all "
             "lambda > 0): the generic Gallina model of ws2d (literal LDL' elimination with its special first/last rows and back "
             "substitution) has positive pivots (no division by zero), solves (W + lambda D'D) z = W y row by row (D' justified "
             "by a proved summation-by-parts lemma, the 1,-2|5,-4|6,-4|5,-2|1 coefficients derived from D), and is the unique "
             "minimiser of the penalised least-squares objective. The same term instantiated at binary64 is compared bit-for-bit "
             "with the compiled kernel (n to 400/1000), instantiated at Q it is compared with the source run on Fractions; the "
             "float64 1e-6 clause is measured against exact rationals on every run (not proved).",
        ref="7 (C01), 9",
        note="Trusted: Coq kernel + vm_compute; harness; the float clause is measured, and fails on ill-conditioned systems "
             "(known finding C01-illconditioned-float-clause, cond >= 1e10) where no binary64 algorithm can meet it. Axioms "
             "(Print Assumptions): ClassicalDedekindReals.sig_forall_dec, sig_not_dec, Classical_Prop.classic, "
             "FunctionalExtensionality.functional_extensionality_dep (the standard library's real numbers).",
        technique="Coq proof over R (LDL' recurrences, summation by parts, positive definiteness) + bit-exact and exact-rational correspondence"),
    "C03": dict(
        cat="proof",
        text="Theorems (Props/C03.v, reals): for lambda > 0 and >= 2 valid cells the generic model of ws2dgu returns the unique "
             "minimiser (C01) of the PLS objective with unit weight on valid cells and 0 on missing ones, gaps included; half-even "
             "rounding stays within 1/2; lambda = 0 (sg = -inf) and < 2 valid cells pass the input through; the model of ws2dpgu is "
             "the 10-pass reweighting from the zero curve with one more solve, equals the curve the loop stopped at, and is a fixed "
             "point of the reweighting when the loop stopped on an unchanged pass; every such fixed point is the expectile curve - the "
             "unique minimiser of sum w_i (p if y_i > z_i else 1-p)(y_i - z_i)^2 + lambda |D2 z|^2 (convexity with modulus min(p, 1-p), "
             "Proofs/Expectile.v) - for 0 < p < 1, n >= 4, two positive weights; at p = 1/2 the curve is the PLS curve for 2 lambda. The binary64 instance is compared bit-for-bit "
             "with the compiled kernels and the whits accessor (s / sgrid incl. -inf / p, three dim orders); an independent exact "
             "(Fraction) PLS / 10-pass expectile computation is held against the implementation with the +-1-at-ties rule.",
        ref="7 (C03)",
        note="Trusted: Coq kernel + vm_compute; harness; float64 rounding is not proved (exact curve compared with the tie rule; "
             "cases with an IRLS residual within 1e-9 of zero skipped and counted; out-of-int16 curves dropped and counted). "
             "When the 10 passes run out without an unchanged pass the result is the 10-pass iterate (as the property defines it), not "
             "claimed to be the minimiser. Axioms: the standard "
             "library's real-number axioms (sig_forall_dec, sig_not_dec, classic, functional_extensionality_dep).",
        technique="Coq proof (composition with C01, reweighting-loop lemmas) + bit-exact correspondence + exact-rational oracle"),
    "C04": dict(
        cat="proof",
        text="Theorems (Props/C04.v): for any arithmetic carrier (hence also the binary64 run) the reported lambda is 10**midpoint of two "
             "consecutive srange entries and the lc variant is the asymmetric V-curve smoother on the grid chosen by lc > 0.5 (NaN -> "
             "0..3.0); over the reals the selected V-curve point is the first minimum of the computed ordinates, and the band equals the "
             "fixed-lambda smoother (ws2dgu / ws2dpgu) at the reported lambda, for all series, grids and p. The binary64 models of "
             "ws2doptv/ws2doptvp/ws2doptvplc (log/pow10 replayed from recorded libm calls) are compared bit-for-bit (band and lambda) "
             "with the compiled kernels and through whitsvc (naming, float32 sgrid); midpoint, band/lambda self-consistency and V-curve "
             "minimality are also checked directly on the implementation.",
        ref="7 (C04)",
        note="Trusted: Coq kernel + vm_compute; harness; libm log/pow recorded by running the kernel's own source in the interpreter "
             "(the model must issue bit-identical arguments, a miss fails the case); Numba's arange grids taken from compiled code; "
             "minimality 'up to floating-point ties' is about the computed ordinates. Axioms: real-number axioms of the standard "
             "library for the theorems over R; the carrier-generic ones are closed.",
        technique="Coq proof (carrier-generic selection lemmas, reals for optimality/self-consistency) + bit-exact correspondence with oracle tables"),
    "C05": dict(
        cat="proof",
        text="Theorems (Props/C05.v): for any carrier the reported lambda is one of 10**srange (or the sentinel's 0), fewer than five "
             "valid cells pass through, and the result - robust or not - is independent of the placeholder that marks missing cells; over "
             "the reals, without robust weighting the reported lambda minimises the GCV score over the grid and the band is ws2dgu at that "
             "lambda; with robust weighting the weights of the final solve are non-negative and two valid cells keep a positive weight "
             "whatever the data, so the band is the unique PLS curve for those weights at the reported lambda (C05_robust_never_"
             "degenerates). The binary64 models of ws2dwcv / ws2dwcvp (robust iterations, MAD over weighted cells, noise floor, two-cell guard, asymmetric "
             "final fit) are compared bit-for-bit with the compiled kernels and through whitswcv with its defaults; degenerate residual "
             "families (constant, exactly linear, flat with spikes) are generated on purpose and checked not to be zeroed.",
        ref="7 (C05)",
        note="Trusted: Coq kernel + vm_compute; harness; libm cos / pow tables; np.median modelled as sort + middle; sequential sums. The "
             "robust-mode clauses 'finite curve', 'linear preserved' are checked on the implementation and by the bit-exact tie, not "
             "proved. Axioms: real-number axioms for the two theorems over R; the carrier-generic ones are closed.",
        technique="Coq proof (scan invariants, carrier-generic placeholder independence) + bit-exact correspondence with oracle tables"),
    "C02": dict(
        cat="proof",
        text="Theorems (Props/C02.v): for every carrier whose equality test tells 0 from 1 (reals, rationals, binary64 incl. NaN/inf "
             "placeholders) the fixed-lambda and the cross-validation smoothers (robust or not, with or without envelope) return the "
             "same band and lambda for any two encodings of the same cells; over the reals the three V-curve smoothers do too; the curve is "
             "defined at every cell (gap fill); fewer than 2 (5 for cross-validation) valid cells pass through. On the implementation every "
             "series is encoded with nodata below / inside / above the data range, NaN and +-inf and all encodings must give one band and "
             "one lambda, for all 9 variant configurations; every encoding is also compared bit-for-bit with the models.",
        ref="7 (C02)",
        note="Trusted: Coq kernel + vm_compute; harness; V-curve placeholder independence is proved in exact arithmetic (in binary64 a "
             "finite placeholder times weight 0 is an exact zero - observed on the implementation). Out-of-int16 curves are dropped and "
             "counted. Axioms: real-number axioms for the V-curve theorem; the carrier-generic theorems are closed.",
        technique="Coq proof (carrier-generic structural independence + exact-arithmetic independence lemmas) + metamorphic runs + bit-exact correspondence"),
    "C07": dict(
        cat="proof",
        text="Theorems (Props/C07.v, reals, every series / window / nodata placement): the generic model of gammastd returns, for each "
             "valid observation of a fittable pixel, ndtri(p0 + (1 - p0) * gammainc(alpha, x / beta)) with p0 the zero share of the valid "
             "cells and (alpha, beta) the result of gammafit on the calibration slice's cells other than nodata (whatever the sign of the nodata "
             "value); gammafit returns beta = mean / alpha and alpha = "
             "the value Brent's iteration ends on for log a - digamma a = s > 0 on [0.6 a0, 1.4 a0]; brentq (the literal 100-step loop) "
             "keeps a sign change enclosed and on convergence returns a point within the tolerance of one; a continuous function has a "
             "root in every enclosure (IVT). The binary64 instance with recorded log / digamma / gammainc / ndtri values is compared "
             "bit-for-bit with compiled gammastd_yxt and gammastd_grp; every case is also compared with scipy.stats.gamma.fit(floc=0) + "
             "gammainc + ndtri (int16/float64: exact rounded value, +-1 only at ties; float32: interval oracle).",
        ref="7 (C07)",
        note="Trusted: Coq kernel + vm_compute; harness; SciPy's special functions as oracles (the proof takes them as given functions; "
             "that they are the gamma CDF / normal quantile / digamma is SciPy's); that Thom's +-40% bracket always contains the root is "
             "not proved (a missed bracket gives an all-nodata pixel and fails the SciPy comparison). Axioms: real-number axioms and "
             "classic (via the standard library's IVT_cor).",
        technique="Coq proof (Brent enclosure invariant by induction on the loop, IVT, functional spec of gammastd) + bit-exact correspondence + independent SciPy oracle"),
    "C08": dict(
        cat="proof",
        text="Theorems (Props/C08.v, reals): for every pixel and every pair of valid observations u <= v the model's index of u is <= that "
             "of v (given non-decreasing gammainc(alpha, .) and ndtri, alpha, beta > 0, p0 <= 1), and the stored value - scale by 1000, round "
             "half to even, saturate to [-32768, 32767] - is monotone and always within the int16 range; nodata and negative cells are "
             "nodata; no valid cell / zero share > 0.9 / no positive value in the window (or a non-positive log-moment difference) gives "
             "nodata everywhere. On the implementation 13 kinds of pixels (outliers x1e6 .. x1e-300, shape up to 1e4, negatives, all-nodata, "
             "all-negative, all-zero, constant, > 90% zeros, empty windows, int16 extremes) and cubes mixing them are run through the "
             "kernels and the accessor: no exception, clauses evaluated on the output, saturation against SciPy, and the int16/float64 "
             "pixels replayed bit-for-bit in the model.",
        ref="7 (C08)",
        note="Trusted: Coq kernel + vm_compute; harness; monotonicity of SciPy's gammainc / ndtri is a hypothesis of the theorem and "
             "observed on the explored inputs only; the float64 -> int16 store of a NaN is outside the model (after the fix commits no "
             "finite input produces one). Axioms: real-number axioms of the standard library.",
        technique="Coq proof (monotone composition, rounding and saturation lemmas, case analysis of the early returns) + clause checks on the implementation + bit-exact correspondence"),
    "C14": dict(
        cat="proof",
        text="Translator-tied: tools/vcgen.py reads the current source of the 35 kernels (Python ast), executes it symbolically over array "
             "shapes and integer scalars and emits one lemma over Z per subscript - contract, loop ranges and path guards imply "
             "-len <= index < len (Python / numba index semantics) - plus mask-length, callee-contract, promised-return-shape and "
             "completely-written obligations; ~570 sites, ~230 distinct lemmas, re-generated and re-proved (lia) on every run for all array "
             "lengths. Cursor variables advanced under data-dependent conditions (tinterpolate, mk_sens_slope) and scatter through boolean "
             "masks (mean_grp, gammastd_grp) are hand-proved about checked models of the loops (Props/C14.v) and tied by the AST hash of "
             "the function. Every kernel is also compiled with NUMBA_BOUNDSCHECK=1 and run on boundary-sized and random in-contract inputs "
             "(IndexError = out-of-bounds), gufunc outputs pre-filled with two poison patterns, array-returning functions re-run from source "
             "with poisoned np.empty (unwritten cells).",
        ref="7 (C14)",
        note="Trusted: Coq kernel; vcgen.py and its CONTRACTS table (documented preconditions = hypotheses of the lemmas); numba's bounds "
             "check. A negative index that wraps is in bounds by Python's rules and is not reported. Shape mismatches of whole-array "
             "expressions raise in numba and are not obligations. The legacy module ops/whit.py (imported by nothing) is not analysed. "
             "No axioms (all lemmas closed under the global context).",
        technique="Coq proof of verification conditions generated from the source by a translator (lia) + hand-proved cursor invariants + bounds-checked runs"),
    "C13": dict(
        cat="translation_validation",
        text="The property is a correspondence between two executions of one source, so it is decided by running both: each of the 35 njit / "
             "guvectorize programs of hdc.algo.ops compiled by numba versus its own code object run by the Python interpreter, on shared "
             "in-contract inputs (all dtypes of each gufunc signature, values up to the int16 limit, gaps, all-missing, cubes, groups, "
             "zones), integers equal (+-1 at ties), float64 to 1e-9, float32 to single precision; the parallel cube smoother repeatedly on "
             "a multi-row cube; digamma / gammainc / ndtri from nopython code vs scipy.special bit for bit. Theorems (Props/C13.v, Z) "
             "cover the part that is semantics rather than rounding: the Mann-Kendall counters, the tie-corrected variance numerator (up to "
             "1.6 million steps) and the int16 autocorrelation sums (up to 2^32 steps) stay inside int64, so fixed-width and unbounded integers agree. Partial: numba and LLVM are "
             "not modelled; agreement of the floating-point code is observed, not proved.",
        ref="7 (C13)",
        note="Trusted: Coq kernel for the three integer-width theorems (no axioms); tools/impl/interp.py (substitutes C semantics for "
             "log/sqrt/pow domain errors and float division by zero, np.round into integer arrays, numba's arange and literal-integer "
             "powers, prange = range - listed in the evidence). Two genuine differences were found and repaired (autocorr_1d_int, mean_grp: "
             "int16 arithmetic wrapped in the interpreted source).",
        technique="compiled-vs-interpreted differential run over all 35 programs + Coq proofs (nia/lia) that integer accumulators fit int64"),
    "C12": dict(
        cat="proof",
        text="Theorems (Props/C12.v, no axioms) about the modelled dispatch: for every chunking of the pixel list and every schedule that "
             "evaluates each block (any order, repeats allowed) the assembled result is the plain per-pixel map, a skipped block gives no "
             "result; permuting or re-indexing pixels permutes the results; in the small-step semantics of the unsynchronised lazycompile "
             "cache every interleaving of any number of threads makes every call on a compiled object and the cache is never emptied. The "
             "decisive part is the run under configurations: 24 accessor operations in-memory vs dask-backed under chunkings (1 pixel, "
             "ragged, single) x schedulers (synchronous, threaded 1/4/16 workers) x dimension orders (time first / last / middle), values, "
             "dims, coords and dtype; pixel permutation; chunked time (refuse or agree); two lazy results in one graph; the prange cube "
             "smoother bit-identical for thread counts 1..16; N threads behind a barrier on the first call of lazily compiled kernels.",
        ref="7 (C12)",
        note="Partial: xarray / dask / numba glue is exercised, not modelled; interleavings inside numba's compiler and dask's scheduler "
             "are sampled. One genuine defect found and repaired (autocorr on dask-backed float input with time not first raised a "
             "TypingError). Trusted: Coq kernel; harness.",
        technique="Coq proof of the modelled dispatch (induction over schedules / interleavings) + differential runs under configurations"),
    "C06": dict(
        cat="proof",
        text="Theorems (Props/C06.v, reals): from the variational characterisation of C01 (not from the elimination order) the Whittaker "
             "solution returns an affine series as that line on all cells (gaps included), commutes with adding a constant and with "
             "reversing time, for every n >= 4, weights with two positive entries and lambda > 0; ws2dgu returns exactly linear series "
             "unchanged; half-even rounding commutes with integer offsets except on ties (then within one). For the selecting, asymmetric "
             "and robust variants the three relations are run on the implementation (linear series with gaps, offsets in [-4000,4000], "
             "reversal incl. a smooth-series-with-end-outlier family) for all 9 variant configurations, with the property's tie rules, and "
             "every run is compared bit-for-bit with the models.",
        ref="7 (C06)",
        note="The offset and reversal laws are also proved through lambda selection for the symmetric V-curve smoother (C06_vcurve_shift, "
             "C06_vcurve_rev: same lambda, curve moved by the constant / reversed) and the offset law through the GCV scan over the "
             "lambda grid and the whole non-robust GCV smoother incl. its zeroed missing cells (C06_gcv_scan_shift, C06_gcv_nonrobust_shift); through the asymmetric reweighting both laws are proved for every run that "
             "settles (C06_expectile_shift / _rev: the settled curve is the unique expectile curve, which moves with the data). "
             "Partial: the lifting of the reversal law through "
             "GCV, of both laws through asymmetric runs that use up their 10 passes (its iteration starts from the zero curve, which is not shift-invariant) and "
             "the robust weights is not proved, only checked on the implementation. Tie rules: +-1 on at most max(1, n/50) cells per "
             "pair; a different lambda only when the re-computed criterion is tied to 1e-6. Axioms: real-number axioms of the standard library.",
        technique="Coq proof from the variational characterisation + metamorphic runs on the implementation + bit-exact correspondence"),
    "C20": dict(
        cat="proof",
        text="Theorems (Props/C20.v, reals): the outputs of the generic model of tinterpolate are, in order, the means of the daily "
             "Whittaker curve over the runs of equal labels, the runs tile the curve; a constant series yields that constant on every day, "
             "observations linear in the day number of their marks yield exactly that line (both via the affine fixed-point law of C01/"
             "C06 with weights = marks); the seeded last day has no influence unless it is marked. The binary64 instance (scatter, "
             "temp[-1] = x[-1], lambda = 1e-5, sequential run sums, Python round) is compared bit-for-bit with the compiled kernel and "
             "through whitint (int16, newtime); constant / linear exactness, output count, unmodified inputs and an exact (Fraction) daily "
             "curve sample are checked on the implementation.",
        ref="7 (C20)",
        note="Trusted: Coq kernel + vm_compute; harness; contiguous labels (each value one run) and as many marks as observations; float64 "
             "conditioning of the 1e-5 system over long records is measured on a budgeted exact sample (<= 260 days), not proved. "
             "Axioms: real-number axioms of the standard library.",
        technique="Coq proof (composition with C01/C06 laws, run-length lemmas) + bit-exact correspondence + exact-rational sample"),
    "C15": dict(
        cat="proof",
        text="Theorems (Props/C15.v, reals, all series and gap patterns): the kernel's single-pass expression equals the Pearson "
             "correlation of the two mean-filled vectors (a missing cell sits on the mean of the valid cells of its vector, and filling "
             "keeps that mean); no valid pair gives 0; the value lies in [-1, 1] (Cauchy-Schwarz, proved for finite sums); it is "
             "invariant under every affine map of the valid cells with a non-zero scale, negative ones included (C15_affine_invariant, "
             "C15_reflection_invariant). The binary64 models of the integer (exact int64 sums) and "
             "float kernels with the float32 store are compared bit-for-bit with the compiled autocorr_1d / autocorr / autocorr_tyx; an "
             "independent exact-rational definition, the range, affine pairs of both signs, the int/nodata vs float/NaN encodings and both layouts through "
             "the accessor are checked on the implementation.",
        ref="7 (C15)",
        note="Trusted: Coq kernel + vm_compute; harness; libm pow(v, -0.5) recorded per variance; the variance threshold 1e-8 is modelled "
             "literally (the invariance theorem is about the un-thresholded value). Axioms: real-number axioms of the standard library.",
        technique="Coq proof (sum identities by induction, Cauchy-Schwarz) + bit-exact correspondence + exact-rational oracle"),
    "C16": dict(
        cat="proof",
        text="Theorems (Props/C16.v, exact arithmetic): for every raster, zone labelling and zone k the generic model of do_mean returns the "
             "arithmetic mean and the count of exactly the pixels whose zone is k and that are neither nodata/NaN nor in a zone-nodata cell; "
             "NaN and 0 for an empty zone; the whole result is invariant under every rearrangement of the pixels; zone k's result depends on "
             "the cells of zone k only (C16_zone_isolated), a mean lies within the range of the pixels it averages (C16_mean_within_range), and "
             "the counts of zones lo..lo+n-1 add up to the number of valid pixels with an id in that range - none lost, none counted twice "
             "(C16_counts_partition). The binary64 instance "
             "(float64 accumulators after the fix, float32/float64 store) is compared bit-for-bit with the compiled kernel per time step; "
             "single zones of 1e6..2.6e7 pixels are held against the exact integer sum and count (the accuracy clause), rearrangements, "
             "the accessor on numpy and dask inputs with NaN pixels are run on the implementation.",
        ref="7 (C16)",
        note="Trusted: Coq kernel + vm_compute; harness. The accuracy clause ('accurate to the output dtype for any pixel count') is "
             "measured against exact rationals, not proved (no Flocq development). Axioms: real-number axioms of the standard library.",
        technique="Coq proof (fold/permutation lemmas over exact arithmetic) + bit-exact correspondence + large-zone exact oracle"),
}

PENDING = "no check has been built for this property yet (work in progress; see DESIGN.md section 7 for the plan)"


def main():
    props = [json.loads(l)["id"] for l in open(os.path.join(HERE, "properties.jsonl"))]
    checks = []
    for pid in props:
        if pid not in CHECKS:
            continue
        c = CHECKS[pid]
        checks.append(dict(
            property_id=pid,
            quick_cmd="./check %s --tier quick" % pid,
            thorough_cmd="./check %s --tier thorough" % pid,
            evidence_file="/verif/evidence/%s.json" % pid,
            replay_cmd_template="./check %s --replay {path}" % pid,
            engine="coq-hdc",
            level_claimed=dict(category=c["cat"], text=c["text"], design_ref=c["ref"]),
            level_note=c["note"],
            technique=c["technique"]))
    na = [dict(property_id=p, reason=CHECKS.get(p, {}).get("na", PENDING)) for p in props if p not in CHECKS]
    man = dict(
        version=1,
        setup_cmd="cd /verif/coq && coq_makefile -f _CoqProject -o Makefile && timeout 3000 make -j16",
        hooks=dict(guard="HDC_ALGO_VERIF", enable="HDC_ALGO_VERIF=1 in the environment of the implementation subprocess "
                   "(no hook is compiled in at present: all observation points are public functions)",
                   baseline_off_cmd="cd /repo && /venv/bin/python -m pytest -ra -q -p no:cacheprovider --timeout=900 "
                                    "--continue-on-collection-errors",
                   source_commits=[], add_only=True),
        engines=[dict(name="coq-hdc", path="/verif/coq", serves_properties=sorted(CHECKS),
                      kind_free_text="Coq 8.16.1 development (models, proofs, property files) + Python harness "
                                     "(tools/) that regenerates translator output / correspondence cases from /repo "
                                     "and evaluates them with coqc/vm_compute")],
        checks=checks,
        not_applicable=na,
        notes="See DESIGN.md. Every check rebuilds the Coq theory if needed, re-checks its property file, runs the "
              "implementation from /repo's working tree and compares it with the model inside Coq.")
    with open(os.path.join(HERE, "MANIFEST.json"), "w") as f:
        json.dump(man, f, indent=1)
    print("MANIFEST.json: %d checks, %d not claimed" % (len(checks), len(na)))


if __name__ == "__main__":
    main()
