(** Correspondence cases for C15 (lag-1 autocorrelation). *)
From HDC Require Import Base.Prelude Base.Float Base.Ops Model.Autocorr.
From Coq Require Import PrimFloat.
Open Scope Z_scope.

(** integer kernel: int64 sums are exact integers; the result is then formed in binary64.
    var**-0.5 is pow(var, -0.5) in the source: recorded as an oracle pair per variance. *)
Record icase := IA { i_data : list Z; i_nodata : Z; i_pow : oracle_table; i_out64 : float; i_out32 : float }.

Definition zsums (data : list Z) (nd : Z) :=
  fold_left (fun (s : Z * Z * Z * Z * (Z * Z * Z) * (Z * Z * Z)) (xy : Z * Z) =>
     let '(sxy, sx_, sy_, nxy, (sx, sxx, nx), (sy, syy, ny)) := s in
     let '(x, y) := xy in
     let okx := negb (x =? nd) in let oky := negb (y =? nd) in
     ((if okx && oky then sxy + x * y else sxy), (if okx && oky then sx_ + x else sx_), (if okx && oky then sy_ + y else sy_),
      (if okx && oky then nxy + 1 else nxy),
      ((if okx then sx + x else sx), (if okx then sxx + x * x else sxx), (if okx then nx + 1 else nx)),
      ((if oky then sy + y else sy), (if oky then syy + y * y else syy), (if oky then ny + 1 else ny))))
    (combine (removelast data) (tl data)) (0, 0, 0, 0, (0, 0, 0), (0, 0, 0)).

Definition autocorr_int (tbl : oracle_table) (data : list Z) (nd : Z) : float :=
  let '(sxy, sx_, sy_, nxy, (sx, sxx, nx), (sy, syy, ny)) := zsums data nd in
  if nxy =? 0 then zero
  else
    let f := f_of_Z in
    let A := (((f nx * f ny) * f sxy - (f ny * f sx) * f sy_) - (f nx * f sy) * f sx_ + (f nxy * f sx) * f sy)%float in
    let vx := ((f nx * f sxx - f sx * f sx) * f nx)%float in
    let vy := ((f ny * f syy - f sy * f sy) * f ny)%float in
    if ltb vx 1e-8 || ltb vy 1e-8 then zero
    else ((A * lookup tbl vx) * lookup tbl vy)%float.

Definition check_int (c : icase) : bool :=
  let r := autocorr_int (i_pow c) (i_data c) (i_nodata c) in
  feq_val r (i_out64 c) && feq_val (to_f32 r) (i_out32 c).

(** float kernel: NaN marks missing cells; sums are accumulated in binary64 in loop order *)
Record fcase := FA { f_data : list float; f_pow : oracle_table; f_out64 : float; f_out32 : float }.

Definition autocorr_f (tbl : oracle_table) (data : list float) : float :=
  let O := OpsF no_oracles in
  let cells := map (fun x => if is_nan x then None else Some x) data in
  let s := fold_left (Autocorr.step O) (pairs cells) (sums0 O) in
  if PrimFloat.eqb (n_xy s) zero then zero
  else
    let A := ((((n_x s * n_y s) * s_xy s - (n_y s * s_x s) * s_y_ s) - (n_x s * s_y s) * s_x_ s) + (n_xy s * s_x s) * s_y s)%float in
    let vx := ((n_x s * s_xx s - s_x s * s_x s) * n_x s)%float in
    let vy := ((n_y s * s_yy s - s_y s * s_y s) * n_y s)%float in
    if ltb vx 1e-8 || ltb vy 1e-8 then zero
    else ((A * lookup tbl vx) * lookup tbl vy)%float.

Definition check_float (c : fcase) : bool :=
  let r := autocorr_f (f_pow c) (f_data c) in
  feq_val r (f_out64 c) && feq_val (to_f32 r) (f_out32 c).
