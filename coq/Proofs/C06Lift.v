(** C06, lifted through lambda selection: the symmetric V-curve smoother commutes with adding a constant -
    the reported lambda is the same and the curve moves by the constant. (For the asymmetric variants the
    iteration starts from the zero curve, which is not shift-invariant; the law is checked on the implementation
    with the property's tie rule, not proved.) *)
From Coq Require Import ZArith Reals Lra Lia List Bool.
From HDC Require Import Base.Prelude Base.Ops Model.Ws2d Model.Smoothers Model.VCurve Proofs.Ws2dIndex Proofs.RSums Proofs.Penalty
  Proofs.Ws2dReal Proofs.Ws2dLaws.
Import ListNotations.
Open Scope R_scope.

Definition shiftl (c : R) (l : list R) : list R := map (fun v => v + c) l.

Section Lift.
  Variables (y w : list R) (c : R).
  Hypothesis Hl : length w = length y.
  Hypothesis Hn : (4 <= length y)%nat.
  Hypothesis Wn : forall i, (0 <= i < Z.of_nat (length y))%Z -> 0 <= Wk w i.
  Hypothesis W2 : exists p q, (0 <= p < q)%Z /\ (q < Z.of_nat (length y))%Z /\ 0 < Wk w p /\ 0 < Wk w q.

  Lemma ws2d_shift_list lam : 0 < lam -> ws2d OpsR (shiftl c y) lam w = shiftl c (ws2d OpsR y lam w).
  Proof.
    intros Hlam. unfold shiftl.
    assert (length (map (fun v => v + c) y) = length y) as Ly by apply map_length.
    assert (length (ws2d OpsR (map (fun v => v + c) y) lam w) = length y) as L1 by (rewrite ws2d_length; rewrite ?Ly; lia).
    assert (length (ws2d OpsR y lam w) = length y) as L2 by (apply ws2d_length; lia).
    apply (nth_ext _ _ 0 0).
    - rewrite map_length. congruence.
    - intros k Hk. rewrite L1 in Hk.
      pose proof (ws2d_shift y w lam c Hl Hn Wn Hlam W2 (Z.of_nat k) ltac:(lia)) as E.
      unfold Zk in E. rewrite !vecZ_in in E by (rewrite ?L1, ?L2; lia). rewrite Nat2Z.id in E.
      rewrite E. rewrite (nth_indep (map (fun v => v + c) (ws2d OpsR y lam w)) 0 (0 + c)) by (rewrite map_length, L2; lia).
      symmetry. apply (map_nth (fun v => v + c)).
  Qed.

  (** residual sums and second differences do not see the constant *)
  Lemma log_fit_shift_gen (w0 : list R) : forall (y0 z0 : list R) acc,
    fold_left (fun acc t => let '(wi, (yi, zi)) := t in fadd OpsR acc (sq OpsR (fmul OpsR wi (fsub OpsR yi zi))))
              (combine w0 (combine (shiftl c y0) (shiftl c z0))) acc =
    fold_left (fun acc t => let '(wi, (yi, zi)) := t in fadd OpsR acc (sq OpsR (fmul OpsR wi (fsub OpsR yi zi))))
              (combine w0 (combine y0 z0)) acc.
  Proof.
    induction w0 as [|a w' IH]; intros [|b y'] [|d z'] acc; try reflexivity.
    cbn [shiftl map combine fold_left]. cbn [fsub OpsR]. replace (b + c - (d + c)) with (b - d) by ring. apply IH.
  Qed.

  Lemma log_fit_shift z : log_fit OpsR w (shiftl c y) (shiftl c z) = log_fit OpsR w y z.
  Proof. unfold log_fit. f_equal. apply log_fit_shift_gen. Qed.

  Lemma diffs_shift z : diffs OpsR (shiftl c z) = diffs OpsR z.
  Proof.
    induction z as [|a [|b r] IH]; try reflexivity.
    change (shiftl c (a :: b :: r)) with ((a + c) :: shiftl c (b :: r)).
    change (shiftl c (b :: r)) with ((b + c) :: shiftl c r) in *.
    cbn [diffs]. cbn [fsub OpsR]. replace (b + c - (a + c)) with (b - a) by ring. f_equal. exact IH.
  Qed.

  Lemma log_pen_shift z : log_pen OpsR (shiftl c z) = log_pen OpsR z.
  Proof. unfold log_pen. now rewrite diffs_shift. Qed.

  Theorem optv_core_shift llas :
    optv_core OpsR (shiftl c y) w llas =
    match optv_core OpsR y w llas with
    | VFit z lopt => VFit (shiftl c z) lopt
    | r => r
    end.
  Proof.
    unfold optv_core.
    assert (forall l, 0 < fpow10 OpsR l) as P by (intros l; cbn; apply exp_pos).
    assert (map (fun l => ws2d OpsR (shiftl c y) (fpow10 OpsR l) w) llas = map (shiftl c) (map (fun l => ws2d OpsR y (fpow10 OpsR l) w) llas)) as ->.
    { rewrite map_map. apply map_ext. intros l. apply ws2d_shift_list. apply P. }
    set (zs := map (fun l => ws2d OpsR y (fpow10 OpsR l) w) llas).
    assert (forall z, In z zs -> length z = length y) as Lz.
    { intros z Hz. unfold zs in Hz. apply in_map_iff in Hz as (l & <- & _). apply ws2d_length; lia. }
    assert (map (log_fit OpsR w (shiftl c y)) (map (shiftl c) zs) = map (log_fit OpsR w y) zs) as ->.
    { rewrite map_map. apply map_ext. intros z. apply log_fit_shift. }
    assert (map (log_pen OpsR) (map (shiftl c) zs) = map (log_pen OpsR) zs) as ->.
    { rewrite map_map. apply map_ext. intros z. apply log_pen_shift. }
    unfold lopt_of. destruct (select OpsR (vcurve OpsR (llastep OpsR llas) llas (map (log_fit OpsR w y) zs) (map (log_pen OpsR) zs))) as [[v lamid]|]; [|reflexivity].
    f_equal. apply ws2d_shift_list. apply P.
  Qed.
End Lift.

(** ** reversal of time, lifted through the symmetric V-curve selection *)
Section LiftRev.
  Variables (y w : list R).
  Hypothesis Hl : length w = length y.
  Hypothesis Hn : (4 <= length y)%nat.
  Hypothesis Wn : forall i, (0 <= i < Z.of_nat (length y))%Z -> 0 <= Wk w i.
  Hypothesis W2 : exists p q, (0 <= p < q)%Z /\ (q < Z.of_nat (length y))%Z /\ 0 < Wk w p /\ 0 < Wk w q.

  Lemma ws2d_rev_list lam : 0 < lam -> ws2d OpsR (rev y) lam (rev w) = rev (ws2d OpsR y lam w).
  Proof.
    intros Hlam.
    assert (length (rev y) = length y) as Ly by apply rev_length.
    assert (length (rev w) = length (rev y)) as Lw by (rewrite !rev_length; exact Hl).
    assert (length (ws2d OpsR (rev y) lam (rev w)) = length y) as L1 by (rewrite ws2d_length; rewrite ?Ly; lia).
    assert (length (ws2d OpsR y lam w) = length y) as L2 by (apply ws2d_length; lia).
    apply (nth_ext _ _ 0 0).
    - rewrite rev_length. congruence.
    - intros k Hk. rewrite L1 in Hk.
      pose proof (ws2d_rev y w lam Hl Hn Wn Hlam W2 (Z.of_nat k) ltac:(lia)) as E.
      unfold Zk in E. rewrite !vecZ_in in E by (rewrite ?L1, ?L2; lia). rewrite Nat2Z.id in E.
      rewrite E. rewrite rev_nth by (rewrite L2; lia). rewrite L2. f_equal. lia.
  Qed.

  (** a sum does not depend on the order of its terms *)
  Lemma fold_add_rev {A} (g : R -> A -> R) (f : A -> R) : (forall a t, g a t = a + f t) ->
    forall (l : list A) acc, fold_left g (rev l) acc = fold_left g l acc.
  Proof.
    intros Hg.
    assert (forall l acc, fold_left g l acc = acc + fold_left g l 0) as Sh.
    { induction l as [|x r IH]; intros acc; cbn [fold_left]; [ring|]. rewrite IH, (IH (g 0 x)), !Hg. ring. }
    induction l as [|x r IH]; intros acc; [reflexivity|]. cbn [rev]. rewrite fold_left_app. cbn [fold_left].
    rewrite IH. rewrite (Sh r acc), (Sh r (g acc x)), !Hg. ring.
  Qed.

  Lemma combine_rev3 (a b c : list R) : length a = length b -> length b = length c ->
    combine (rev a) (combine (rev b) (rev c)) = rev (combine a (combine b c)).
  Proof.
    intros H1 H2.
    assert (forall (X Y : Type) (p : list X) (q : list Y), length p = length q -> combine (rev p) (rev q) = rev (combine p q)) as CR.
    { clear. intros X Y p. induction p as [|x p IH]; intros [|y q] H; cbn [length] in H; try lia; [reflexivity|].
      cbn [rev combine]. rewrite <- IH by lia.
      assert (forall (p' : list X) (q' : list Y) x y, length p' = length q' -> combine (p' ++ [x]) (q' ++ [y]) = combine p' q' ++ [(x, y)]) as CA.
      { clear. induction p' as [|a p' IH]; intros [|b q'] x y H; cbn [length] in H; try lia; [reflexivity|]. cbn. f_equal. apply IH. lia. }
      apply CA. rewrite !rev_length. lia. }
    rewrite (CR _ _ b c H2). apply CR. rewrite combine_length. lia.
  Qed.

  Lemma log_fit_rev z : length z = length y -> log_fit OpsR (rev w) (rev y) (rev z) = log_fit OpsR w y z.
  Proof.
    intros Hz. unfold log_fit. f_equal. rewrite combine_rev3 by congruence.
    apply (fold_add_rev _ (fun t : R * (R * R) => let '(wi, (yi, zi)) := t in sq OpsR (fmul OpsR wi (fsub OpsR yi zi)))).
    intros a [wi [yi zi]]. reflexivity.
  Qed.

  Lemma diffs_app_one (l : list R) a b : diffs OpsR (l ++ [a; b]) = diffs OpsR (l ++ [a]) ++ [b - a].
  Proof.
    induction l as [|x [|x' r] IH]; [reflexivity|reflexivity|].
    change ((x :: x' :: r) ++ [a; b]) with (x :: ((x' :: r) ++ [a; b])).
    change ((x :: x' :: r) ++ [a]) with (x :: ((x' :: r) ++ [a])).
    cbn [diffs app] in *. rewrite IH. reflexivity.
  Qed.

  Lemma diffs_rev (l : list R) : diffs OpsR (rev l) = map Ropp (rev (diffs OpsR l)).
  Proof.
    induction l as [|a [|b r] IH]; [reflexivity|reflexivity|].
    change (diffs OpsR (a :: b :: r)) with ((b - a) :: diffs OpsR (b :: r)).
    cbn [rev] in *. rewrite <- app_assoc. cbn [app]. rewrite diffs_app_one. rewrite IH.
    rewrite map_app. cbn [map]. f_equal. f_equal. ring.
  Qed.

  Lemma diffs_map_opp (l : list R) : diffs OpsR (map Ropp l) = map Ropp (diffs OpsR l).
  Proof.
    induction l as [|a [|b r] IH]; [reflexivity|reflexivity|].
    change (map Ropp (a :: b :: r)) with (- a :: map Ropp (b :: r)). change (map Ropp (b :: r)) with (- b :: map Ropp r) in *.
    cbn [diffs map]. cbn [fsub OpsR]. f_equal; [ring|exact IH].
  Qed.

  Lemma diffs2_rev (z : list R) : diffs OpsR (diffs OpsR (rev z)) = rev (diffs OpsR (diffs OpsR z)).
  Proof.
    rewrite (diffs_rev z), diffs_map_opp, (diffs_rev (diffs OpsR z)), map_map.
    rewrite (map_ext (fun x => - - x) (fun x => x)) by (intros; ring). now rewrite map_id.
  Qed.

  Lemma log_pen_rev z : log_pen OpsR (rev z) = log_pen OpsR z.
  Proof.
    unfold log_pen. f_equal. rewrite diffs2_rev.
    apply (fold_add_rev _ (fun d => sq OpsR d)). intros; reflexivity.
  Qed.

  Theorem optv_core_rev llas :
    optv_core OpsR (rev y) (rev w) llas =
    match optv_core OpsR y w llas with
    | VFit z lopt => VFit (rev z) lopt
    | r => r
    end.
  Proof.
    unfold optv_core.
    assert (forall l, 0 < fpow10 OpsR l) as P by (intros l; cbn; apply exp_pos).
    assert (map (fun l => ws2d OpsR (rev y) (fpow10 OpsR l) (rev w)) llas = map (@rev R) (map (fun l => ws2d OpsR y (fpow10 OpsR l) w) llas)) as ->.
    { rewrite map_map. apply map_ext. intros l. apply ws2d_rev_list. apply P. }
    set (zs := map (fun l => ws2d OpsR y (fpow10 OpsR l) w) llas).
    assert (forall z, In z zs -> length z = length y) as Lz.
    { intros z Hz. unfold zs in Hz. apply in_map_iff in Hz as (l & <- & _). apply ws2d_length; lia. }
    assert (map (log_fit OpsR (rev w) (rev y)) (map (@rev R) zs) = map (log_fit OpsR w y) zs) as ->.
    { rewrite map_map. apply map_ext_in. intros z Hz. apply log_fit_rev. apply Lz. exact Hz. }
    assert (map (log_pen OpsR) (map (@rev R) zs) = map (log_pen OpsR) zs) as ->.
    { rewrite map_map. apply map_ext. intros z. apply log_pen_rev. }
    unfold lopt_of. destruct (select OpsR (vcurve OpsR (llastep OpsR llas) llas (map (log_fit OpsR w y) zs) (map (log_pen OpsR) zs))) as [[v lamid]|]; [|reflexivity].
    f_equal. apply ws2d_rev_list. apply P.
  Qed.
End LiftRev.

(** ** the offset law through the (non-robust) GCV selection: the scan over the lambda grid sees the same scores *)
From HDC Require Import Model.Gcv.

Section LiftGcv.
  Variable K : gconsts (F := R).
  Variables (y wt : list R) (c : R).
  Hypothesis Hl : length wt = length y.
  Hypothesis Hn : (4 <= length y)%nat.
  Hypothesis Wn : forall i, (0 <= i < Z.of_nat (length y))%Z -> 0 <= Wk wt i.
  Hypothesis W2 : exists p q, (0 <= p < q)%Z /\ (q < Z.of_nat (length y))%Z /\ 0 < Wk wt p /\ 0 < Wk wt q.

  Lemma gcv_score_shift de s z : gcv_score OpsR de s wt (shiftl c y) (shiftl c z) = gcv_score OpsR de s wt y z.
  Proof.
    unfold gcv_score. f_equal. f_equal. clear.
    revert y z. induction wt as [|a w' IH]; intros [|b y'] [|d z']; try reflexivity.
    cbn [shiftl map combine]. cbn [fsub OpsR]. replace (b + c - (d + c)) with (b - d) by ring. f_equal. apply IH.
  Qed.

  Lemma gcv_scan_shift de lams : (forall s, In s lams -> 0 < s) -> forall sc0 s0 z0,
    gcv_scan OpsR de wt (shiftl c y) lams (sc0, s0, shiftl c z0) =
    (let '(sc, s, z) := gcv_scan OpsR de wt y lams (sc0, s0, z0) in (sc, s, shiftl c z)).
  Proof.
    induction lams as [|s r IH]; intros Hp sc0 s0 z0; cbn [gcv_scan]; [reflexivity|].
    assert (0 < s) as Hs by (apply Hp; left; reflexivity).
    rewrite (ws2d_shift_list y wt c Hl Hn Wn W2 s Hs). rewrite gcv_score_shift. cbn [fst].
    destruct (fltb OpsR (gcv_score OpsR de s wt y (ws2d OpsR y s wt)) sc0); apply IH; intros; apply Hp; right; assumption.
  Qed.
End LiftGcv.

(** ** the offset law for the whole non-robust GCV smoother: y + c with placeholder nodata + c gives the same lambda and the
    curve moved by c.  Missing cells are zeroed by the kernel (not shifted), but they carry weight 0: neither the solver
    (it sees only w * y) nor the score (it sees sqrt w * (y - z)) notices. *)
From HDC Require Import Proofs.SmoothersProofs Proofs.VCurveProofs Proofs.GcvProofs Proofs.PlaceholderProofs.

Fixpoint agree (w a b : list R) : Prop :=
  match w, a, b with
  | [], [], [] => True
  | wi :: w', ai :: a', bi :: b' => (wi = 0 \/ ai = bi) /\ agree w' a' b'
  | _, _, _ => False
  end.

Lemma agree_lengths w : forall a b, agree w a b -> length a = length w /\ length b = length w.
Proof. induction w as [|x w IH]; intros [|a a'] [|b b'] H; cbn in H; try contradiction; [split; reflexivity|]. destruct H as [_ H]. destruct (IH _ _ H). cbn. split; congruence. Qed.

Lemma agree_products w : forall a b, agree w a b ->
  map (fun t => fmul OpsR (fst t) (snd t)) (combine w a) = map (fun t => fmul OpsR (fst t) (snd t)) (combine w b).
Proof.
  induction w as [|x w IH]; intros [|a a'] [|b b'] H; cbn in H; try contradiction; [reflexivity|]. destruct H as [H0 H].
  cbn [combine map]. rewrite (IH _ _ H). f_equal. cbn [fst snd fmul OpsR]. destruct H0 as [-> | ->]; ring.
Qed.

Lemma gcv_score_agree de s wt : forall y1 y2 z, agree wt y1 y2 -> gcv_score OpsR de s wt y1 z = gcv_score OpsR de s wt y2 z.
Proof.
  intros y1 y2 z H. unfold gcv_score. f_equal. f_equal. revert y1 y2 z H.
  induction wt as [|x w IH]; intros [|a a'] [|b b'] z H; cbn in H; try contradiction; [reflexivity|]. destruct H as [H0 H].
  destruct z as [|c z']; [reflexivity|]. cbn [combine map]. rewrite (IH _ _ z' H). f_equal.
  destruct H0 as [-> | ->]; [|reflexivity]. cbn [fsqrt fmul fsub sq OpsR]. rewrite sqrt_0. unfold sq. cbn [fmul OpsR]. ring.
Qed.

Lemma gcv_scan_agree de wt y1 y2 lams : agree wt y1 y2 -> forall best,
  gcv_scan OpsR de wt y1 lams best = gcv_scan OpsR de wt y2 lams best.
Proof.
  intros H. destruct (agree_lengths _ _ _ H) as [L1 L2].
  induction lams as [|s r IH]; intros best; cbn [gcv_scan]; [reflexivity|].
  rewrite (ws2d_wy_indep OpsR y1 y2 s wt L1 L2 (agree_products _ _ _ H)). rewrite (gcv_score_agree de s wt y1 y2 _ H).
  destruct (fltb OpsR _ (fst (fst best))); apply IH.
Qed.

Lemma gcv_scan_z0_indep de wt y lams : forall sc0 s0 z0 z0',
  fst (gcv_scan OpsR de wt y lams (sc0, s0, z0)) = fst (gcv_scan OpsR de wt y lams (sc0, s0, z0')).
Proof.
  induction lams as [|s r IH]; intros sc0 s0 z0 z0'; cbn [gcv_scan]; [reflexivity|]. cbn [fst].
  destruct (fltb OpsR _ sc0); [reflexivity|apply IH].
Qed.

Lemma zero_missing_shift_agree c (w : list R) : forall y, is01 w -> length w = length y ->
  agree w (zero_missing OpsR w (shiftl c y)) (shiftl c (zero_missing OpsR w y)).
Proof.
  induction w as [|x w IH]; intros [|b y] H01 Hl; cbn [length] in Hl; try lia; [exact I|].
  inversion H01 as [|? ? Hx Hr]; subst. cbn [zero_missing shiftl map combine fst snd agree]. split; [|apply IH; [exact Hr|lia]].
  destruct Hx as [-> | ->]; [left; reflexivity|right]. cbn [feqb f0 OpsR]. rewrite (Reqb_neq 1 0) by lra. reflexivity.
Qed.

Lemma weights_gu_shift c nd (y : list R) : weights_gu OpsR (nd + c) (shiftl c y) = weights_gu OpsR nd y.
Proof.
  unfold weights_gu, shiftl. rewrite map_map. apply map_ext. intros v. unfold missing_gu. cbn [feqb fnonfinite OpsR].
  destruct (Req_EM_T v nd) as [->|Hne].
  - rewrite !Reqb_refl. reflexivity.
  - rewrite (Reqb_neq v nd Hne). rewrite (Reqb_neq (v + c) (nd + c)) by lra. reflexivity.
Qed.

Theorem wcv_nonrobust_shift (K : gconsts (F := R)) (y : list R) nd c llas z lopt :
  ws2dwcv OpsR K y nd llas false = GFit z lopt -> 0 < lopt ->
  ws2dwcv OpsR K (shiftl c y) (nd + c) llas false = GFit (shiftl c z) lopt.
Proof.
  intros H Hlopt. unfold ws2dwcv in *.
  destruct (fltb OpsR (fofZ OpsR 4) (fsum OpsR (weights_gu OpsR nd y))) eqn:E; [|unfold wcv_core in H; rewrite E in H; discriminate].
  assert (length (shiftl c y) = length y) as Ly by apply map_length.
  assert (fltb OpsR (fofZ OpsR 4) (fsum OpsR (weights_gu OpsR (nd + c) (shiftl c y))) = true) as E' by (rewrite weights_gu_shift; exact E).
  rewrite (wcv_nonrobust_unfold OpsR K y nd llas E) in H. rewrite (wcv_nonrobust_unfold OpsR K (shiftl c y) (nd + c) llas E').
  rewrite weights_gu_shift, Ly. set (w := weights_gu OpsR nd y) in *.
  assert (length w = length y) as Lw by (unfold w, weights_gu; apply map_length).
  rewrite (map2_mul_ones w (length y) Lw) in *.
  set (yv := zero_missing OpsR w y) in *. set (yv' := zero_missing OpsR w (shiftl c y)).
  set (de := d_eigs OpsR K (length y)) in *. set (grid := map (fpow10 OpsR) llas) in *.
  assert (is01 w) as H01 by apply weights_gu_01.
  assert (agree w yv' (shiftl c yv)) as Ag by (apply zero_missing_shift_agree; assumption).
  assert (length yv = length y) as Lyv by (unfold yv, zero_missing; rewrite map_length, combine_length; lia).
  (* contract of the weights *)
  cbn [fltb fofZ OpsR] in E. apply Rltb_true in E. rewrite fsum_rsum in E. fold w in E.
  assert (4 <= length y)%nat as Hn.
  { assert (rsum w <= INR (length w)) as B.
    { clear -H01. induction w as [|x r IH]; cbn [rsum length]; [cbn [INR]; lra|]. inversion H01 as [|? ? Hx Hr]; subst. specialize (IH Hr).
      rewrite S_INR. destruct Hx as [-> | ->]; lra. }
    rewrite Lw in B. assert (4 < INR (length y)) as B' by lra. apply INR_le. replace (INR 4) with 4 by (cbn; ring). lra. }
  destruct (contract_of_01 yv w 1 ltac:(rewrite Lyv; exact Lw) ltac:(rewrite Lyv; exact Hn) ltac:(lra) H01 ltac:(lra)) as [Wn W2].
  rewrite Lyv in Wn, W2.
  assert (forall s, In s grid -> 0 < s) as Gp by (intros s Hs; unfold grid in Hs; apply in_map_iff in Hs as (l & <- & _); cbn; apply exp_pos).
  (* the scan on the shifted data *)
  rewrite (gcv_scan_agree de w yv' (shiftl c yv) grid Ag).
  set (b0 := (c_1e15 K, f0 OpsR, zeros OpsR (length y))) in *.
  assert (fst (gcv_scan OpsR de w (shiftl c yv) grid b0) = fst (gcv_scan OpsR de w yv grid b0)) as Es.
  { unfold b0. rewrite (gcv_scan_z0_indep de w (shiftl c yv) grid (c_1e15 K) (f0 OpsR) (zeros OpsR (length y)) (shiftl c (shiftl (- c) (zeros OpsR (length y))))).
    rewrite (gcv_scan_shift yv w c ltac:(rewrite Lyv; exact Lw) ltac:(rewrite Lyv; exact Hn) ltac:(rewrite Lyv; exact Wn) ltac:(rewrite Lyv; exact W2) de grid Gp).
    rewrite (gcv_scan_z0_indep de w yv grid (c_1e15 K) (f0 OpsR) (zeros OpsR (length y)) (shiftl (- c) (zeros OpsR (length y)))).
    destruct (gcv_scan OpsR de w yv grid (c_1e15 K, f0 OpsR, shiftl (- c) (zeros OpsR (length y)))) as [[sc s] zz]. reflexivity. }
  injection H as Hz Hl. rewrite Es, Hl. rewrite Hl in Hz. f_equal.
  destruct (agree_lengths _ _ _ Ag) as [La Lb].
  rewrite (ws2d_wy_indep OpsR yv' (shiftl c yv) lopt w La Lb (agree_products _ _ _ Ag)).
  rewrite (ws2d_shift_list yv w c ltac:(rewrite Lyv; exact Lw) ltac:(rewrite Lyv; exact Hn) ltac:(rewrite Lyv; exact Wn) ltac:(rewrite Lyv; exact W2) lopt Hlopt).
  rewrite Hz. reflexivity.
Qed.
