"""C13: every kernel of hdc.algo.ops compiled by numba versus the same source run by the Python interpreter
(tools/impl/interp.py re-instantiates the function's code object over its own globals), on the shared in-contract cases;
plus the SciPy special functions bound into nopython code versus scipy.special itself."""
import json
import sys
import warnings

import numpy as np

warnings.filterwarnings("ignore")
import scipy.special as sps  # noqa: E402
import hdc.algo  # noqa: F401,E402
from hdc.algo.ops import stats as _stats  # noqa: F401,E402  (registers the vendored overloads)
from numba import njit  # noqa: E402

from interp import interpreted  # noqa: E402
from kernel_cases import K, cases  # noqa: E402

INT_ARGS = {"rolling_sum": [1], "mean_grp": [2], "gammastd_grp": [2]}          # float64 in the gufunc signature, integers to the source


def brief(v):
    if isinstance(v, np.ndarray):
        return dict(dtype=str(v.dtype), shape=list(v.shape), data=v.ravel()[:300].tolist())
    if isinstance(v, np.generic):
        return v.item()
    if isinstance(v, type):
        return str(v)
    return v


def flat(v):
    if isinstance(v, tuple):
        return [x for it in v for x in flat(it)]
    return [np.asarray(v)]


def compare(a, b, f32):
    """None if equal to the property's tolerance, else a description; also returns how many integer cells differ by one"""
    fa, fb = flat(a), flat(b)
    if len(fa) != len(fb):
        return "different number of results", 0
    ties = 0
    for x, y in zip(fa, fb):
        if x.shape != y.shape:
            return "shapes %s vs %s" % (x.shape, y.shape), ties
        if x.dtype.kind in "iub" and y.dtype.kind in "iub":
            d = np.abs(x.astype("int64") - y.astype("int64"))
            if d.max(initial=0) > 1 or (d == 1).sum() > max(1, x.size // 50):
                i = int(np.argmax(d))
                return "integer results differ at %d: compiled %s, source %s (%d cells differ)" % (i, x.ravel()[i], y.ravel()[i], int((d > 0).sum())), ties
            ties += int((d == 1).sum())
        else:
            x64, y64 = x.astype("float64"), y.astype("float64")
            if not np.array_equal(np.isnan(x64), np.isnan(y64)):
                i = int(np.argmax(np.isnan(x64) != np.isnan(y64)))
                return "NaN pattern differs at %d: compiled %s, source %s" % (i, x64.ravel()[i], y64.ravel()[i]), ties
            m = ~np.isnan(x64)
            if not np.array_equal(np.isinf(x64[m]), np.isinf(y64[m])) or not np.array_equal(np.sign(x64[m][np.isinf(x64[m])]), np.sign(y64[m][np.isinf(y64[m])])):
                return "infinities differ", ties
            m = np.isfinite(x64) & np.isfinite(y64)
            # float32 inputs: single-precision accuracy; integer / float64 inputs: 1e-9, or two float32 ulps when the result is stored as float32
            tol = 2e-5 if f32 else (3e-7 if (x.dtype == np.float32 or y.dtype == np.float32) else 1e-9)
            err = np.abs(x64[m] - y64[m]) / np.maximum(1e-300, np.maximum(np.abs(x64[m]), np.abs(y64[m])))
            err = np.where(np.abs(x64[m] - y64[m]) < 1e-12, 0.0, err)
            if err.size and err.max() > tol:
                i = int(np.argmax(err))
                return "values differ (rel %.3g > %g): compiled %r, source %r" % (err.max(), tol, x64[m][i], y64[m][i]), ties
    return None, ties


def main():
    P = json.load(sys.stdin)
    rng = np.random.default_rng(P["seed"])
    cs = cases(rng, P.get("thorough", False))
    # the parallel cube kernel: enough rows for several threads to work at once
    nt, nr, nc = 40, 12 if P.get("thorough") else 8, 6
    tt = np.arange(nt)
    cube = (2000 + 1500 * np.sin(tt[:, None, None] / 6.0 + rng.uniform(0, 6, size=(1, nr, nc))) + rng.normal(0, 200, size=(nt, nr, nc))).round()
    cube[rng.random(cube.shape) < 0.15] = -3000
    for rep in range(3):
        cs.append(("ws2doptvplc_tyx", "ws2doptvplc", "njit", (cube.astype("int16"), 0.9, -3000.0), "cube %dx%dx%d threads run %d" % (nt, nr, nc, rep)))
    res = dict(runs=0, per_kernel={}, failures=[], ties=0, special={})
    cache = {}
    for c in cs:
        name, mod, kind, args, tag = c[:5]
        k = K(mod, name)
        pk = res["per_kernel"].setdefault(name, dict(runs=0, differ=0, errors=0, dtypes=set()))
        pk["runs"] += 1
        res["runs"] += 1
        pk["dtypes"].add(str(args[0].dtype) if isinstance(args[0], np.ndarray) else type(args[0]).__name__)
        desc = dict(kernel=name, tag=tag, args=[brief(a) for a in args])
        f32 = any(isinstance(a, np.ndarray) and a.dtype == np.float32 for a in args)
        try:
            if name not in cache:
                cache[name] = interpreted(k, None)
            src = cache[name]
            cargs = [a.copy() if isinstance(a, np.ndarray) else a for a in args]
            sargs = [a.copy() if isinstance(a, np.ndarray) else a for a in args]
            for i in INT_ARGS.get(name, []):
                sargs[i] = int(sargs[i])
            if kind == "gu":
                co = [np.zeros(shp, dtype=dt) for dt, shp in c[5]]
                so = [np.zeros(shp, dtype=dt) for dt, shp in c[5]]
                k(*cargs, *co)
                src(*sargs, *so)
                rc, rs = tuple(co), tuple(so)
            else:
                rc = k(*cargs)
                rs = src(*sargs)
            why, ties = compare(rc, rs, f32)
            res["ties"] += ties
            if why:
                pk["differ"] += 1
                res["failures"].append(dict(desc, what=why, compiled=[brief(x) for x in flat(rc)], source=[brief(x) for x in flat(rs)]))
        except OverflowError as e:
            # the interpreter refuses to store a Python number that does not fit the integer output (a curve that leaves the
            # int16 range by edge extrapolation); compiled code wraps - such inputs are outside the domain of every kernel
            res["out_of_domain"] = res.get("out_of_domain", 0) + 1
            pk["out_of_domain"] = pk.get("out_of_domain", 0) + 1
        except Exception as e:  # noqa
            pk["errors"] += 1
            res["failures"].append(dict(desc, what="%s: %s" % (type(e).__name__, e), error=True))
    for pk in res["per_kernel"].values():
        pk["dtypes"] = sorted(pk["dtypes"])
    # SciPy kernels bound into nopython code
    import scipy.special as sc

    @njit
    def c_digamma(x):
        return sc.digamma(x)

    @njit
    def c_gammainc(a, x):
        return sc.gammainc(a, x)

    @njit
    def c_ndtri(p):
        return sc.ndtri(p)
    xs = np.concatenate([np.exp(rng.uniform(np.log(1e-3), np.log(1e6), 400)), [1.0, 0.5, 2.0, 1e-8, 1e8]])
    ps = np.concatenate([rng.random(400), [0.0, 1.0, 0.5, 1e-300, 1 - 1e-16, 1e-17]])
    bad = []
    for x in xs:
        if not np.array_equal(np.float64(c_digamma(x)), np.float64(sps.digamma(x)), equal_nan=True):
            bad.append(("digamma", float(x), float(c_digamma(x)), float(sps.digamma(x))))
    for a, x in zip(xs, rng.permutation(xs)):
        if not np.array_equal(np.float64(c_gammainc(a, x)), np.float64(sps.gammainc(a, x)), equal_nan=True):
            bad.append(("gammainc", float(a), float(x), float(c_gammainc(a, x)), float(sps.gammainc(a, x))))
    for p in ps:
        if not np.array_equal(np.float64(c_ndtri(p)), np.float64(sps.ndtri(p)), equal_nan=True):
            bad.append(("ndtri", float(p), float(c_ndtri(p)), float(sps.ndtri(p))))
    res["special"] = dict(evaluations=len(xs) * 2 + len(ps), mismatches=bad[:10])
    print("@@RESULT@@" + json.dumps(res))


main()
