#!/bin/sh
# tools/try_patch.sh <patch.diff> <property id>... : apply a seeded change to /repo, run the quick checks, undo it.
PATCH=$1; shift
git -C /repo diff --quiet || { echo "/repo is dirty"; exit 2; }
git -C /repo apply "$PATCH" || { echo "patch does not apply"; exit 2; }
for p in "$@"; do
  (cd /verif && ./check "$p" --tier ${TIER:-quick} 2>&1 | grep -E "^(VIOLATION|KNOWN-FINDING|\[C)" )
done
git -C /repo checkout -- .
git -C /repo status --short | head -3
