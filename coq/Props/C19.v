(** C19 — Iterative aggregation yields exactly the complete trailing windows. Statements only. *)
From HDC Require Import Base.Prelude Model.Iteragg Proofs.IteraggProofs.
From Coq Require Import Sorting.Sorted.
Open Scope Z_scope.

(** the yielded index pairs (jj, ii) (slice jj..ii-1) are, newest first, exactly the windows
    whose last step e = ii-1 runs from begin_ix-1 down to max(end_ix, n-1): nothing else *)
Theorem C19_windows_list : forall b n eix,
  1 <= n -> 0 <= b ->
  agg_loop (Z.to_nat b) b n eix = map (window_of n) (desc_range (b - 1) (Z.max eix (n - 1))).
Proof. intros b n eix Hn Hb. apply agg_loop_spec; [exact Hn|lia]. Qed.
Print Assumptions C19_windows_list.

(** same statement as a membership characterisation: exactly n steps, complete (jj >= 0),
    inside the axis (ii <= begin_ix), last step not older than end *)
Theorem C19_windows_membership : forall b n eix jj ii,
  1 <= n -> 0 <= b ->
  (In (jj, ii) (agg_loop (Z.to_nat b) b n eix) <-> ii - jj = n /\ 0 <= jj /\ ii <= b /\ eix < ii).
Proof. exact agg_loop_mem. Qed.
Print Assumptions C19_windows_membership.

(** no window is yielded twice, and the number of results is known in advance:
    max(0, begin_ix - max(end_ix, n-1)) *)
Theorem C19_windows_distinct_and_counted : forall b n eix,
  1 <= n -> 0 <= b ->
  NoDup (agg_loop (Z.to_nat b) b n eix) /\
  Z.of_nat (length (agg_loop (Z.to_nat b) b n eix)) = Z.max 0 (b - Z.max eix (n - 1)).
Proof. intros b n eix Hn Hb. split; [now apply agg_loop_nodup|now apply agg_loop_length]. Qed.
Print Assumptions C19_windows_distinct_and_counted.

Theorem C19_newest_first : forall k hi, StronglySorted Z.gt (down k hi).
Proof. exact down_sorted. Qed.
Print Assumptions C19_newest_first.

(** a label that is not on the (strictly increasing) axis is reported as -1 by the exact lookup,
    a label on the axis at its position *)
Theorem C19_lookup_exact : forall axis v,
  StronglySorted Z.lt axis ->
  (get_indexer axis v MNone = -1 <-> ~ In v axis) /\
  (get_indexer axis v MNone <> -1 ->
   0 <= get_indexer axis v MNone < Z.of_nat (length axis) /\
   nth (Z.to_nat (get_indexer axis v MNone)) axis 0 = v).
Proof. exact lookup_exact. Qed.
Print Assumptions C19_lookup_exact.

(** ... and such a begin or end raises ValueError instead of yielding an empty/unbounded sequence *)
Theorem C19_lookup_error : forall axis n b e v,
  StronglySorted Z.lt axis -> ~ In v axis ->
  windows axis n (Some v) e MNone = Raise /\
  (forall bix, begin_ix axis b MNone = Yield bix -> windows axis n b (Some v) MNone = Raise).
Proof.
  intros axis n b e v S Hn. destruct (lookup_exact axis v S) as [[_ A] _]. specialize (A Hn).
  split.
  - unfold windows, begin_ix. rewrite A. reflexivity.
  - intros bix Hb. unfold windows. rewrite Hb. unfold end_ix. rewrite A. reflexivity.
Qed.
Print Assumptions C19_lookup_error.

(** with begin and end on the axis at positions bi and ei: windows end at e = bi, bi-1, ..., max(ei, n-1) *)
Theorem C19_windows_on_axis : forall axis n bi ei,
  StronglySorted Z.lt axis -> 1 <= n -> (bi < length axis)%nat -> (ei < length axis)%nat ->
  windows axis n (Some (nth bi axis 0)) (Some (nth ei axis 0)) MNone =
  Yield (map (window_of n) (desc_range (Z.of_nat bi) (Z.max (Z.of_nat ei) (n - 1)))).
Proof.
  intros axis n bi ei S Hn Hb He. unfold windows, begin_ix, end_ix.
  rewrite !lookup_on_axis by assumption.
  replace (Z.of_nat bi + 1 =? 0) with false by lia. replace (Z.of_nat ei =? -1) with false by lia.
  f_equal. rewrite agg_loop_spec by lia. f_equal. f_equal. lia.
Qed.
Print Assumptions C19_windows_on_axis.

(** defaults: begin = last step, end = first step *)
Theorem C19_windows_default : forall axis n,
  1 <= n ->
  windows axis n None None MNone =
  Yield (map (window_of n) (desc_range (Z.of_nat (length axis) - 1) (n - 1))).
Proof.
  intros axis n Hn. unfold windows, begin_ix, end_ix. f_equal. rewrite agg_loop_spec by lia.
  f_equal. f_equal. lia.
Qed.
Print Assumptions C19_windows_default.

(** agg_start / agg_stop (= the time stamp) / agg_n describe that window *)
Theorem C19_attrs : forall axis jj ii,
  0 <= jj -> jj <= ii -> ii <= Z.of_nat (length axis) ->
  window_attrs axis (jj, ii) = (nth (Z.to_nat jj) axis 0, nth (Z.to_nat (ii - 1)) axis 0, ii - jj).
Proof. exact window_attrs_spec. Qed.
Print Assumptions C19_attrs.

(** each result reduces exactly the cells jj .. ii-1 of the pixel *)
Theorem C19_slice_cells : forall (l : list (option Z)) jj ii k d,
  0 <= jj -> (k < Z.to_nat (ii - jj))%nat -> nth k (slice l (jj, ii)) d = nth (Z.to_nat jj + k) l d.
Proof. intros l jj ii k d. apply slice_nth. Qed.
Print Assumptions C19_slice_cells.

Example C19_example :
  windows [10; 20; 30; 40; 50] 3 None None MNone = Yield [(2, 5); (1, 4); (0, 3)] /\
  windows [10; 20; 30; 40; 50] 2 (Some 40) (Some 20) MNone = Yield [(2, 4); (1, 3); (0, 2)] /\
  windows [10; 20; 30; 40; 50] 2 (Some 35) None MNone = Raise /\
  windows [10; 20; 30; 40; 50] 2 (Some 35) None MPad = Yield [(1, 3); (0, 2)] /\
  StronglySorted Z.lt [10; 20; 30; 40; 50].
Proof. repeat split; try (vm_compute; reflexivity). repeat (constructor; [|repeat constructor; lia]). constructor. Qed.
