(** C03 — fixed-lambda smoothers return the rounded PLS / expectile curve. Statements only.
    The int16 output is the half-even rounding ([frne], at R: [rneR]) of the curve named below. *)
From Coq Require Import ZArith Reals Lra Lia List.
Import ListNotations.
From HDC Require Import Base.Prelude Base.Ops Model.Ws2d Model.Smoothers Proofs.RSums Proofs.Penalty Proofs.Ws2dReal
     Proofs.Rounding Proofs.SmoothersProofs Proofs.Expectile Proofs.ExpectileModel Proofs.HalfEnvelope Proofs.Ws2dIndex.
Open Scope R_scope.

(** symmetric smoother, lambda > 0, >= 2 valid cells: the curve is the unique minimiser of the
    penalised least-squares objective with unit weight on valid cells (C01), gaps filled by it *)
Theorem C03_gu_is_pls : forall y lam nd z,
  (4 <= length y)%nat -> 0 < lam -> ws2dgu OpsR y lam nd = Curve z ->
  let w := weights_gu OpsR nd y in
  let yv := zero_missing OpsR w y in
  z = ws2d OpsR yv lam w /\ 1 < rsum w /\
  forall z' : Z -> R,
    Sobj (length yv) (Wk w) (Yk yv) lam (Zk yv w lam) <= Sobj (length yv) (Wk w) (Yk yv) lam z' /\
    (Sobj (length yv) (Wk w) (Yk yv) lam z' = Sobj (length yv) (Wk w) (Yk yv) lam (Zk yv w lam) ->
     forall i, (0 <= i < Z.of_nat (length yv))%Z -> z' i = Zk yv w lam i).
Proof. exact gu_is_pls. Qed.
Print Assumptions C03_gu_is_pls.

(** the stored integer is within 1/2 of the curve (half-even rounding) *)
Theorem C03_rounding_is_nearest : forall x, Rabs (IZR (rneR x) - x) <= 1 / 2.
Proof. exact rneR_close. Qed.
Print Assumptions C03_rounding_is_nearest.

(** lambda = 0 (sg = -inf) returns the input unchanged *)
Theorem C03_lambda0 : forall y nd p, ws2dgu OpsR y 0 nd = Passthrough /\ ws2dpgu OpsR y 0 nd p = Passthrough.
Proof. intros y nd p. split; [apply gu_lambda0|apply pgu_lambda0]. Qed.
Print Assumptions C03_lambda0.

(** the asymmetric smoother: at most 10 reweighting passes from the zero curve ([irls], weights
    p above / 1-p below the current curve), result = weighted solve with the last weights; it
    equals the curve the loop stopped at, and when the loop stopped on an unchanged pass it is a
    fixed point of the reweighting (the expectile curve's defining equation) *)
Theorem C03_pgu_is_irls : forall y lam nd p,
  lam <> 0 -> 1 < rsum (weights_gu OpsR nd y) ->
  ws2dpgu OpsR y lam nd p =
  Curve (asym_fit OpsR p lam (weights_gu OpsR nd y) (zero_missing OpsR (weights_gu OpsR nd y) y)).
Proof.
  intros y lam nd p Hl Hs. unfold ws2dpgu. cbn [feqb f0 OpsR].
  replace (Reqb lam 0) with false by (symmetry; apply Bool.not_true_is_false; intros E; apply Reqb_true in E; contradiction).
  replace (fltb OpsR (f1 OpsR) (fsum OpsR (weights_gu OpsR nd y))) with true; [reflexivity|].
  symmetry. cbn [fltb f1 OpsR]. apply Rltb_true. now rewrite fsum_rsum.
Qed.
Print Assumptions C03_pgu_is_irls.

Theorem C03_asym_fit_fixed_point : forall p lam (w y : list R),
  (4 <= length y)%nat -> length w = length y ->
  let p1 := 1 - p in
  let '(ww, z') := irls OpsR 10 p p1 lam w y (zeros OpsR (length y)) (zeros OpsR (length y)) in
  asym_fit OpsR p lam w y = z' /\
  (ww = asym_weights OpsR p p1 w y z' ->
   asym_fit OpsR p lam w y = ws2d OpsR y lam (asym_weights OpsR p p1 w y (asym_fit OpsR p lam w y))).
Proof. exact asym_fit_fixed_point. Qed.
Print Assumptions C03_asym_fit_fixed_point.

(** a curve the reweighting leaves unchanged is the expectile curve: the unique minimiser of
    sum_i w_i (p if y_i > z_i else 1 - p) (y_i - z_i)^2 + lam |D2 z|^2 over all curves *)
Theorem C03_fixed_point_is_expectile : forall p lam (w y z : list R),
  0 < p < 1 -> 0 < lam -> (4 <= length y)%nat -> length w = length y -> length z = length y ->
  (forall i, (0 <= i < Z.of_nat (length y))%Z -> 0 <= atl w i) ->
  (exists a b, (0 <= a < b)%Z /\ (b < Z.of_nat (length y))%Z /\ 0 < atl w a /\ 0 < atl w b) ->
  z = ws2d OpsR y lam (asym_weights OpsR p (1 - p) w y z) ->
  forall z', length z' = length y ->
    expectile_objective p y w lam z <= expectile_objective p y w lam z' /\
    (expectile_objective p y w lam z' = expectile_objective p y w lam z -> z' = z).
Proof. exact fixed_point_is_expectile. Qed.
Print Assumptions C03_fixed_point_is_expectile.

(** so whenever the model's loop stopped on an unchanged pass, what ws2dpgu rounds is the expectile curve *)
Theorem C03_asym_fit_is_expectile : forall p lam (w y : list R),
  0 < p < 1 -> 0 < lam -> (4 <= length y)%nat -> length w = length y ->
  (forall i, (0 <= i < Z.of_nat (length y))%Z -> 0 <= atl w i) ->
  (exists a b, (0 <= a < b)%Z /\ (b < Z.of_nat (length y))%Z /\ 0 < atl w a /\ 0 < atl w b) ->
  let '(ww, z) := irls OpsR 10 p (1 - p) lam w y (zeros OpsR (length y)) (zeros OpsR (length y)) in
  ww = asym_weights OpsR p (1 - p) w y z ->
  forall z', length z' = length y ->
    expectile_objective p y w lam (asym_fit OpsR p lam w y) <= expectile_objective p y w lam z' /\
    (expectile_objective p y w lam z' = expectile_objective p y w lam (asym_fit OpsR p lam w y) -> z' = asym_fit OpsR p lam w y).
Proof. exact asym_fit_is_expectile. Qed.
Print Assumptions C03_asym_fit_is_expectile.

(** the envelope p = 1/2 weighs every valid cell 1/2: what is rounded is the PLS curve for 2 * lambda, not the one for lambda
    (p = 1/2 is an envelope like any other, not a switch to the symmetric smoother) *)
Theorem C03_half_envelope_is_pls_at_2lam : forall lam (w y : list R),
  0 < lam -> (4 <= length y)%nat -> length w = length y ->
  (forall i, (0 <= i < Z.of_nat (length y))%Z -> 0 <= atl w i) ->
  (exists a b, (0 <= a < b)%Z /\ (b < Z.of_nat (length y))%Z /\ 0 < atl w a /\ 0 < atl w b) ->
  asym_fit OpsR (1 / 2) lam w y = ws2d OpsR y (2 * lam) w.
Proof. exact half_envelope_is_pls_at_2lam. Qed.
Print Assumptions C03_half_envelope_is_pls_at_2lam.

Example C03_half_envelope_premises : exists (w y : list R),
  (4 <= length y)%nat /\ length w = length y /\ (forall i, (0 <= i < Z.of_nat (length y))%Z -> 0 <= atl w i) /\
  (exists a b, (0 <= a < b)%Z /\ (b < Z.of_nat (length y))%Z /\ 0 < atl w a /\ 0 < atl w b).
Proof.
  exists [1; 0; 1; 1; 1], [3; 0; 5; 4; 8]. cbn [length]. repeat split; try lia.
  - intros i Hi. unfold atl, vecZ. replace (i <? 0)%Z with false by lia.
    destruct (Z.to_nat i) as [|[|[|[|[|k]]]]]; cbn [nth f0 OpsR]; try lra. destruct k; cbn [nth f0 OpsR]; lra.
  - exists 0%Z, 2%Z. split; [lia|]. split; [lia|]. split.
    + unfold atl, vecZ. change (0 <? 0)%Z with false. change (Z.to_nat 0) with 0%nat. cbn [nth]. lra.
    + unfold atl, vecZ. change (2 <? 0)%Z with false. change (Z.to_nat 2) with 2%nat. cbn [nth]. lra.
Qed.

Example C03_example :
  rneR (5 / 2) = 2%Z /\ rneR (7 / 2) = 4%Z /\ rneR (- (5 / 2)) = (-2)%Z.
Proof.
  assert (forall (f : Z) x, IZR f <= x < IZR f + 1 -> Int_part x = f) as IP.
  { intros f x H. unfold Int_part. rewrite <- (tech_up x (f + 1)); [lia|rewrite plus_IZR; lra|rewrite plus_IZR; lra]. }
  repeat split; unfold rneR.
  - rewrite (IP 2%Z) by lra. destruct (Rlt_dec _ _); [lra|]. destruct (Rlt_dec _ _); [lra|reflexivity].
  - rewrite (IP 3%Z) by lra. destruct (Rlt_dec _ _); [lra|]. destruct (Rlt_dec _ _); [lra|reflexivity].
  - rewrite (IP (-3)%Z) by lra. destruct (Rlt_dec _ _); [lra|]. destruct (Rlt_dec _ _); [lra|reflexivity].
Qed.
