(** C08 — SPI preserves the ordering of observations and never wraps or crashes. Statements only;
    monotonicity is relative to the stated monotonicity of the two SciPy kernels. *)
From Coq Require Import ZArith Reals Lra List.
From HDC Require Import Base.Prelude Base.Ops Model.Spi Proofs.SpiProofs.
Open Scope R_scope.

(** a wetter observation never receives a smaller index (given gammainc(alpha, .) and ndtri non-decreasing) *)
Theorem C08_value_monotone : forall (Or : spi_oracles) alpha beta p0 u v,
  (forall a b, a <= b -> o_gammainc Or alpha a <= o_gammainc Or alpha b) ->
  (forall a b, a <= b -> o_ndtri Or a <= o_ndtri Or b) ->
  0 <= p0 <= 1 -> 0 < beta -> u <= v ->
  o_ndtri Or (p0 + (1 - p0) * o_gammainc Or alpha (u / beta)) <= o_ndtri Or (p0 + (1 - p0) * o_gammainc Or alpha (v / beta)).
Proof. exact spi_value_monotone. Qed.
Print Assumptions C08_value_monotone.

(** scaling by 1000, half-even rounding and the saturating int16 store keep the order and the range *)
Theorem C08_stored_monotone : forall a b, a <= b -> (saturate (rneR (a * 1000)) <= saturate (rneR (b * 1000)))%Z.
Proof. exact spi_stored_monotone. Qed.
Print Assumptions C08_stored_monotone.

Theorem C08_saturates : forall z, (-32768 <= saturate z <= 32767)%Z.
Proof. exact saturate_range. Qed.
Print Assumptions C08_saturates.

(** nodata cells and negative values yield nodata *)
Theorem C08_invalid_cells : forall (K : spi_consts) (Or : spi_oracles) x nd c0 c1 i,
  (i < length x)%nat -> valid_obs OpsR nd (nth i x 0) = false -> nth i (gammastd OpsR Or K x nd c0 c1) None = None.
Proof. exact gammastd_invalid_cells. Qed.
Print Assumptions C08_invalid_cells.

(** a pixel that cannot be fitted yields nodata everywhere; the model is a total function (it cannot raise) *)
Theorem C08_unfittable : forall (K : spi_consts) (Or : spi_oracles) x nd c0 c1,
  (length (filter (fun v => fleb OpsR 0 v) (filter (fun v => negb (feqb OpsR v nd)) x)) = 0%nat \/
   k_09 K < p_zero_of x nd \/ gammafit OpsR Or K (cal_window OpsR x nd c0 c1) = None) ->
  gammastd OpsR Or K x nd c0 c1 = map (fun _ => None) x.
Proof. exact gammastd_unfittable. Qed.
Print Assumptions C08_unfittable.
