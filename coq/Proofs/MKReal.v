(** Real-number part of the Mann-Kendall theorems (property C10): the Z statistic, the p-value,
    the significance flag and Sen's slope.  [erf] and the critical value are Section variables;
    the one hypothesis used (the critical value is the alpha-quantile of |Z|'s p-value) is stated
    where it is needed. *)
From HDC Require Import Base.Prelude Model.MK Proofs.MKProofs.
From Coq Require Import Reals Lra Sorting.Permutation Sorting.Sorted.
Open Scope R_scope.

(** Z = (S -+ 1) / sqrt(var S), var S = var_num / 18 *)
Definition mk_z (s v : Z) : R := IZR (z_num s) / sqrt (IZR v / 18).

Lemma mk_z_opp s v : mk_z (- s) v = - mk_z s v.
Proof. unfold mk_z. rewrite z_num_opp, opp_IZR. unfold Rdiv. ring. Qed.

Definition sign_R (z : R) : Z := if Rlt_dec 0 z then 1%Z else if Rlt_dec z 0 then (-1)%Z else 0%Z.

Lemma sign_R_opp z : sign_R (- z) = (- sign_R z)%Z.
Proof.
  unfold sign_R. destruct (Rlt_dec 0 (- z)); destruct (Rlt_dec (- z) 0); destruct (Rlt_dec 0 z); destruct (Rlt_dec z 0);
    try reflexivity; exfalso; lra.
Qed.

Section PValue.
  Variable erf : R -> R.
  Variables thr alpha : R.

  (** p = 2 (1 - Phi(|z|)), Phi(a) = (1 + erf(a / sqrt 2)) / 2 *)
  Definition p_of (z : R) : R := 2 * (1 - (1 / 2) * (1 + erf (Rabs z * sqrt (1 / 2)))).
  (** trend flag as the code computes it: sign z when |z| exceeds the critical value *)
  Definition flag (z : R) : Z := if Rlt_dec thr (Rabs z) then sign_R z else 0%Z.

  Lemma p_even z : p_of (- z) = p_of z.
  Proof. unfold p_of. now rewrite Rabs_Ropp. Qed.

  Lemma flag_odd z : flag (- z) = (- flag z)%Z.
  Proof. unfold flag. rewrite Rabs_Ropp, sign_R_opp. destruct (Rlt_dec thr (Rabs z)); reflexivity. Qed.

  (** the critical value is the (1 - alpha/2) normal quantile: p(a) < alpha iff a > thr *)
  Hypothesis thr_is_quantile :
    forall a, 0 <= a -> (2 * (1 - (1 / 2) * (1 + erf (a * sqrt (1 / 2)))) < alpha <-> thr < a).

  Lemma flag_is_significance z : flag z = if Rlt_dec (p_of z) alpha then sign_R z else 0%Z.
  Proof.
    unfold flag, p_of. pose proof (thr_is_quantile (Rabs z) (Rabs_pos z)) as H.
    destruct (Rlt_dec thr (Rabs z)) as [L|L]; destruct (Rlt_dec _ alpha) as [P|P]; try reflexivity; exfalso; tauto.
  Qed.
End PValue.

(** ** Sen's slope *)
Fixpoint row_slopesR (xi : R) (r : list R) (dist : R) : list R :=
  match r with
  | [] => []
  | xj :: r' => (xj - xi) / dist :: row_slopesR xi r' (dist + 1)
  end.
Fixpoint slopesR (x : list R) : list R :=
  match x with [] => [] | xi :: r => row_slopesR xi r 1 ++ slopesR r end.

Lemma row_slopes_affine a b xi r : forall d,
  row_slopesR (a * xi + b) (map (fun v => a * v + b) r) d = map (Rmult a) (row_slopesR xi r d).
Proof.
  induction r as [|xj r IH]; intros d; cbn [map row_slopesR]; [reflexivity|]. rewrite IH. f_equal.
  unfold Rdiv. ring.
Qed.

Lemma slopes_affine a b x : slopesR (map (fun v => a * v + b) x) = map (Rmult a) (slopesR x).
Proof.
  induction x as [|xi r IH]; cbn [map slopesR]; [reflexivity|].
  now rewrite row_slopes_affine, IH, map_app.
Qed.

Lemma slopes_neg x : slopesR (map Ropp x) = map Ropp (slopesR x).
Proof.
  assert (map Ropp x = map (fun v => -1 * v + 0) x) as -> by (apply map_ext; intros; ring).
  rewrite slopes_affine. apply map_ext. intros; ring.
Qed.

(** middle of a sorted list: the median *)
Definition mid (s : list R) : R :=
  let n := length s in
  if Nat.even n then (nth (n / 2 - 1) s 0 + nth (n / 2) s 0) / 2 else nth (n / 2) s 0.

Definition is_median (l : list R) (m : R) : Prop :=
  exists s, Permutation l s /\ StronglySorted Rle s /\ m = mid s.

Lemma sortedR_perm_unique (l1 : list R) : forall l2,
  StronglySorted Rle l1 -> StronglySorted Rle l2 -> Permutation l1 l2 -> l1 = l2.
Proof.
  induction l1 as [|a l1 IH]; intros l2 S1 S2 P.
  - apply Permutation_nil in P. now subst.
  - destruct l2 as [|b l2]; [apply Permutation_sym, Permutation_nil in P; discriminate|].
    inversion S1 as [|? ? S1' F1]; subst. inversion S2 as [|? ? S2' F2]; subst.
    assert (a = b) as ->.
    { assert (In a (b :: l2)) as Ia by (eapply Permutation_in; [exact P|now left]).
      assert (In b (a :: l1)) as Ib by (eapply Permutation_in; [apply Permutation_sym; exact P|now left]).
      destruct Ia as [->|Ia]; [reflexivity|]. destruct Ib as [->|Ib]; [reflexivity|].
      rewrite Forall_forall in F1, F2. pose proof (F1 _ Ib). pose proof (F2 _ Ia). lra. }
    f_equal. apply IH; try assumption. eapply Permutation_cons_inv; exact P.
Qed.

Lemma median_unique l m1 m2 : is_median l m1 -> is_median l m2 -> m1 = m2.
Proof.
  intros (s1 & P1 & S1 & ->) (s2 & P2 & S2 & ->). f_equal. apply sortedR_perm_unique; try assumption.
  eapply Permutation_trans; [apply Permutation_sym; exact P1|exact P2].
Qed.

Lemma nth_map_mult a (s : list R) k : nth k (map (Rmult a) s) 0 = a * nth k s 0.
Proof. replace 0 with (a * 0) at 1 by ring. apply map_nth. Qed.

Lemma mid_scale a s : mid (map (Rmult a) s) = a * mid s.
Proof.
  unfold mid. rewrite map_length. destruct (Nat.even (length s)); rewrite !nth_map_mult; [field|reflexivity].
Qed.

Lemma sorted_scale a s : 0 < a -> StronglySorted Rle s -> StronglySorted Rle (map (Rmult a) s).
Proof.
  intros Ha. induction 1 as [|x r _ IH F]; cbn [map]; constructor; [exact IH|].
  apply Forall_map. eapply Forall_impl; [|exact F]. intros y Hy. cbn beta. nra.
Qed.

Lemma median_scale a l m : 0 < a -> is_median l m -> is_median (map (Rmult a) l) (a * m).
Proof.
  intros Ha (s & P & S & ->). exists (map (Rmult a) s).
  split; [now apply Permutation_map|]. split; [now apply sorted_scale|]. symmetry. apply mid_scale.
Qed.

Lemma sorted_snoc (s : list R) x :
  StronglySorted Rle s -> Forall (fun y => y <= x) s -> StronglySorted Rle (s ++ [x]).
Proof.
  induction 1 as [|a r _ IH Fa]; intros F; cbn [app].
  - constructor; constructor.
  - inversion F as [|? ? Ha Fr]; subst. constructor; [now apply IH|].
    apply Forall_app. split; [exact Fa|]. constructor; [exact Ha|constructor].
Qed.

Lemma sorted_neg_rev s : StronglySorted Rle s -> StronglySorted Rle (rev (map Ropp s)).
Proof.
  induction 1 as [|a r _ IH F]; cbn [map rev]; [constructor|].
  apply sorted_snoc; [exact IH|]. apply Forall_rev, Forall_map. eapply Forall_impl; [|exact F].
  intros y Hy. cbn beta. lra.
Qed.

Lemma nth_rev_opp (s : list R) k : (k < length s)%nat ->
  nth k (rev (map Ropp s)) 0 = - nth (length s - S k) s 0.
Proof.
  intros Hk. rewrite rev_nth by (now rewrite map_length). rewrite map_length.
  replace 0 with (- 0) at 1 by ring. apply map_nth.
Qed.

Lemma mid_neg_rev s : mid (rev (map Ropp s)) = - mid s.
Proof.
  unfold mid. rewrite rev_length, map_length. set (n := length s).
  destruct (Nat.even n) eqn:E.
  - apply Nat.even_spec in E as [q Hq].
    destruct q as [|q]; [replace n with 0%nat by lia; subst n; destruct s; [cbn; field|cbn in Hq; lia]|].
    replace (n / 2)%nat with (S q) by (rewrite Hq; symmetry; rewrite Nat.mul_comm; apply Nat.div_mul; lia).
    rewrite !nth_rev_opp by (fold n; lia). fold n.
    replace (n - S (S q - 1))%nat with (S q) by lia. replace (n - S (S q))%nat with (S q - 1)%nat by lia. field.
  - assert (Nat.odd n = true) as O by (unfold Nat.odd; now rewrite E).
    apply Nat.odd_spec in O as [q Hq].
    replace (n / 2)%nat with q.
    + rewrite nth_rev_opp by (fold n; lia). fold n. replace (n - S q)%nat with q by lia. reflexivity.
    + rewrite Hq. symmetry. replace (2 * q + 1)%nat with (1 + q * 2)%nat by lia.
      rewrite Nat.div_add by lia. reflexivity.
Qed.

Lemma median_neg l m : is_median l m -> is_median (map Ropp l) (- m).
Proof.
  intros (s & P & S & ->). exists (rev (map Ropp s)). split.
  - eapply Permutation_trans; [apply Permutation_map; exact P|apply Permutation_rev].
  - split; [now apply sorted_neg_rev|]. symmetry. apply mid_neg_rev.
Qed.

(** Sen's slope of a x + b is a times Sen's slope of x (a > 0); of -x it is the negative *)
Lemma sens_scale a b x m :
  0 < a -> is_median (slopesR x) m -> is_median (slopesR (map (fun v => a * v + b) x)) (a * m).
Proof. intros Ha H. rewrite slopes_affine. now apply median_scale. Qed.

Lemma sens_neg x m : is_median (slopesR x) m -> is_median (slopesR (map Ropp x)) (- m).
Proof. intros H. rewrite slopes_neg. now apply median_neg. Qed.
