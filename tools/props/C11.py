"""C11 — dekads partition the calendar (translator-tied proofs + exhaustive correspondence)."""
import sys

from vlib import core
from vlib.core import zlit, blit, optlit

PRE = ("From Coq Require Import ZArith Bool List String.\n"
       "From HDC Require Import Base.Prelude tied.CorrC11.\nOpen Scope string_scope.\n")
QUICK_YEARS = [1, 2, 3, 4, 99, 100, 400, 1582, 1600, 1699, 1700, 1900, 1999, 2000, 2001, 2020, 2023, 2024, 2100,
               2400, 9996, 9998, 9999]


def run(ctx):
    ok, log = core.ensure_built()
    if not ok:
        ctx.violation("the Coq development does not build", dict(kind="proof-broken", log=log[-3000:]), found_input=False)
        return
    # ---- the tie: regenerate the model from the current source, re-check every proof against it
    sys.path.insert(0, str(core.VERIF / "tools"))
    import translate_dekad
    src = (core.REPO / "hdc" / "algo" / "dekad.py").read_text()
    tie_ok = True
    broken = None
    try:
        gen = translate_dekad.translate(src)
        (core.GEN / "DekadGen.v").write_text(gen)
    except translate_dekad.Untranslatable as e:
        tie_ok = False
        broken = dict(kind="translator", theorem="(translation of hdc/algo/dekad.py)", reason=str(e))
    cmds = []
    if tie_ok:
        for f in ["gen/DekadGen.v", "tied/DekadProofs.v", "tied/CorrC11.v"]:
            rc, out, _ = core.coqc(core.COQ / f)
            cmds.append("coqc -Q coq HDC coq/%s" % f)
            if rc != 0:
                tie_ok = False
                broken = dict(kind="proof-broken", file=f, log=out[-3000:],
                              theorem="a lemma of %s no longer checks against the regenerated gen/DekadGen.v" % f)
                break
    if tie_ok:
        r = core.compile_props("tied/C11.v")
        cmds.append(r["cmd"])
        ctx.cov["obligations"] = len(r["theorems"])
        ctx.notes["theorems"] = r["theorems"]
        ctx.notes["print_assumptions"] = {k: v[:600] for k, v in r["assumptions"].items()}
        if r["ok"]:
            ctx.cov["discharged"] = len(r["theorems"])
        else:
            tie_ok = False
            broken = dict(kind="proof-broken", file="tied/C11.v", log=r["log"][-3000:], theorem="tied/C11.v")
        ctx.cov["trusted_base"] = sorted({"axiom: " + a for a in core.axioms_of(r["assumptions"])} | {
            "Coq 8.16.1 kernel + vm_compute (no native_compute)",
            "tools/translate_dekad.py (Python ast -> Gallina, fail-closed)",
            "Base/Civil.v is the meaning of datetime/timedelta (CPython's proleptic Gregorian _ymd2ord), "
            "Base/PyStr.v of str slicing/int()/f-string fields; both cross-checked against the interpreter by the correspondence"})
    else:
        ctx.cov["obligations"] = max(ctx.cov["obligations"], 14)
    ctx.cov["checker_cmd"] = "python3 tools/translate_dekad.py /repo/hdc/algo/dekad.py coq/gen/DekadGen.v && " + " && ".join(cmds)

    # ---- implementation side: exhaustive (thorough) or stratified (quick) enumeration + independent calendar spec
    payload = dict(seed=ctx.seed, all=ctx.thorough, years=QUICK_YEARS, coq_stride=61 if ctx.thorough else 1,
                   n_instants=20000 if ctx.thorough else 3000, n_ops=4000 if ctx.thorough else 800,
                   n_acc=60 if ctx.thorough else 15)
    res, log = core.run_impl("c11_impl.py", payload, timeout=3000)
    if res is None:
        ctx.violation("implementation run failed (exception escaped from hdc.algo.dekad / the .dekad accessor)",
                      dict(kind="impl-crash", log=log[-3000:]), found_input=True)
        return
    n_py = res["n_dates"] + res["n_dekads"] + len(res["op_recs"]) + res["n_acc"]
    ctx.cov["evaluations"] = n_py
    ctx.cov["exhaustive"] = bool(ctx.thorough)
    # ---- Coq side: generated model vs observed records
    corr_bad = []
    if tie_ok:
        dk = ["DK %s %s %s %s %s %s %s \"%s\" %s %s %s" % (
            zlit(r["k"]), zlit(r["year"]), zlit(r["month"]), zlit(r["day"]), zlit(r["idx"]), zlit(r["yidx"]),
            zlit(r["raw"]), r["label"], zlit(r["start"]), optlit(r.get("end"), zlit), optlit(r.get("ndays"), zlit))
            for r in res["dekad_recs"]]
        dt = ["DT %s %s %s %s %s" % (zlit(r["y"]), zlit(r["m"]), zlit(r["d"]), zlit(r["t"]), zlit(r["k"]))
              for r in res["date_recs"]]
        op = ["OP %s %s %s %s %s %s %s %s %s %s %s %s" % (
            zlit(r["a"]), zlit(r["n"]), zlit(r["b"]), zlit(r["add"]), zlit(r["radd"]), zlit(r["subi"]), zlit(r["subd"]),
            blit(r["eq"]), blit(r["lt"]), blit(r["gt"]), blit(r["le"]), blit(r["ge"])) for r in res["op_recs"]]
        for tag, cases, fn, recs in (("dk", dk, "check_dekad", res["dekad_recs"]), ("dt", dt, "check_date", res["date_recs"]),
                                     ("op", op, "check_ops", res["op_recs"])):
            r = core.eval_cases("C11", tag, PRE, cases, fn, shard=1500, scope="Z")
            for si, lg in r["errors"]:
                ctx.violation("Coq could not evaluate the %s cases" % tag, dict(kind="coq-eval-error", log=lg), found_input=False)
            corr_bad += [dict(kind=tag, rec=recs[i]) for i in r["failing"]]
        ctx.notes["cases_in_coq"] = len(dk) + len(dt) + len(op)
    ctx.cov["distinct_nontrivial"] = res["n_dates"] + res["n_dekads"]
    ctx.cov["rule"] = ("implementation side: %s; every date is checked against calendar.monthrange/datetime for membership "
                       "in its dekad, every dekad for fields, label/raw round trips, ndays, abutting, ordering, hash; plus "
                       "random intra-day instants (incl. 23:59:59.999999), operator pairs and accessor-vs-scalar comparisons. "
                       "A stratified subset is also compared with the generated model inside Coq. All enumerated "
                       "dates/dekads are distinct." %
                       ("ALL dates 0001-01-01..9999-12-31 and all dekads" if ctx.thorough else
                        "all dates and dekads of the years %s" % QUICK_YEARS))
    ctx.notes.update(dates=res["n_dates"], dekads=res["n_dekads"], accessor_elements=res["n_acc"],
                     ops=len(res["op_recs"]), python_spec_failures=len(res["fails"]), model_vs_impl_mismatches=len(corr_bad))
    ctx.add_samples(res["dekad_recs"][:2] + res["date_recs"][-2:] + res["op_recs"][:1])
    ctx.assumptions += ["CPython datetime implements the proleptic Gregorian calendar of Base/Civil.v",
                        "Dekad(<str>) is exercised on labels produced by str(Dekad) only"]
    # ---- break protocol
    if res["fails"]:
        f = res["fails"][0]
        ctx.violation(f.get("what", "property violated"), dict(kind="spec", case=f, n_failing=len(res["fails"]),
                                                               tie=broken))
    elif not tie_ok:
        ctx.violation("the tie between hdc/algo/dekad.py and the proofs is broken: %s" % (broken.get("reason") or broken.get("theorem")),
                      dict(broken, searched="%d dates, %d dekads, %d operator pairs, %d accessor elements against an "
                                            "independent calendar" % (res["n_dates"], res["n_dekads"], len(res["op_recs"]), res["n_acc"])),
                      found_input=False)
    elif corr_bad:
        ctx.violation("generated model and running class disagree (tied/CorrC11.v)",
                      dict(kind="correspondence", correspondence="tied/CorrC11.v", case=corr_bad[0], n=len(corr_bad)),
                      found_input=False)


def replay(ctx, path):
    import json
    rp = json.load(open(path))
    print(json.dumps(rp.get("case", rp), indent=1)[:2000])
    print("re-run: ./check C11 --tier %s (the failing date/dekad is enumerated again)" % rp.get("tier", "quick"))
    return 2
