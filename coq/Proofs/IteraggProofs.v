(** Proofs about [Model/Iteragg.v] (property C19). *)
From HDC Require Import Base.Prelude Base.ListLemmas Model.Iteragg.
From Coq Require Import Sorting.Sorted ZifyBool FinFun.
Open Scope Z_scope.

(** ** the loop yields exactly the complete trailing windows, newest first *)

(** [down k hi] = [hi; hi-1; ...] (k entries) *)
Fixpoint down (k : nat) (hi : Z) : list Z :=
  match k with O => [] | S k' => hi :: down k' (hi - 1) end.
(** last-step indices e = hi, hi-1, ..., lo *)
Definition desc_range (hi lo : Z) : list Z := down (Z.to_nat (hi - lo + 1)) hi.

Definition window_of (n e : Z) : Z * Z := (e - n + 1, e + 1).

Lemma agg_loop_none fuel : forall ii n eix, ii < n -> agg_loop fuel ii n eix = [].
Proof.
  induction fuel as [|f IH]; intros ii n eix H; cbn [agg_loop]; [reflexivity|].
  destruct (ii <=? eix); [reflexivity|].
  replace (ii - n >=? 0) with false by lia. cbn [andb]. apply IH. lia.
Qed.

Lemma agg_loop_spec fuel : forall ii n eix,
  1 <= n -> ii = Z.of_nat fuel ->
  agg_loop fuel ii n eix = map (window_of n) (desc_range (ii - 1) (Z.max eix (n - 1))).
Proof.
  induction fuel as [|f IH]; intros ii n eix Hn Hii; cbn [agg_loop].
  - unfold desc_range. replace (Z.to_nat _) with 0%nat by lia. reflexivity.
  - destruct (ii <=? eix) eqn:E.
    + unfold desc_range. replace (Z.to_nat _) with 0%nat by lia. reflexivity.
    + destruct (ii - n >=? 0) eqn:Ej.
      * replace (ii - (ii - n) =? n) with true by lia. cbn [andb].
        rewrite (IH (ii - 1) n eix Hn ltac:(lia)). unfold desc_range.
        replace (Z.to_nat (ii - 1 - Z.max eix (n - 1) + 1)) with (S (Z.to_nat (ii - 1 - 1 - Z.max eix (n - 1) + 1))) by lia.
        cbn [down map]. unfold window_of at 2. f_equal. f_equal; lia.
      * cbn [andb]. rewrite agg_loop_none by lia.
        unfold desc_range. replace (Z.to_nat _) with 0%nat by lia. reflexivity.
Qed.

Lemma in_down k : forall hi e, In e (down k hi) <-> hi - Z.of_nat k < e <= hi.
Proof.
  induction k as [|k IH]; intros hi e; cbn [down In]; [lia|]. rewrite IH. lia.
Qed.

Lemma in_desc_range hi lo e : In e (desc_range hi lo) <-> lo <= e <= hi.
Proof. unfold desc_range. rewrite in_down. lia. Qed.

Lemma down_sorted k : forall hi, StronglySorted Z.gt (down k hi).
Proof.
  induction k as [|k IH]; intros hi; cbn [down]; constructor; [apply IH|].
  apply Forall_forall. intros e He. apply in_down in He. lia.
Qed.

(** membership form of the window theorem *)
Lemma agg_loop_mem b n eix jj ii :
  1 <= n -> 0 <= b ->
  (In (jj, ii) (agg_loop (Z.to_nat b) b n eix) <->
   ii - jj = n /\ 0 <= jj /\ ii <= b /\ eix < ii).
Proof.
  intros Hn Hb. rewrite (agg_loop_spec (Z.to_nat b) b n eix Hn ltac:(lia)). rewrite in_map_iff. split.
  - intros (e & E & He). apply in_desc_range in He. unfold window_of in E. injection E as <- <-. lia.
  - intros (H1 & H2 & H3 & H4). exists (ii - 1). split; [unfold window_of; f_equal; lia|].
    apply in_desc_range. lia.
Qed.

(** ** label lookup on a strictly increasing axis *)
Definition count_le (axis : list Z) (v : Z) : Z := Z.of_nat (length (filter (fun a => a <=? v) axis)).
Definition count_lt (axis : list Z) (v : Z) : Z := Z.of_nat (length (filter (fun a => a <? v) axis)).

Lemma filter_none_gt (r : list Z) (a v : Z) (f : Z -> bool) :
  Forall (Z.lt a) r -> (forall x, a < x -> f x = false) -> filter f r = [].
Proof.
  intros F Hf. induction F as [|x r Hx _ IH]; [reflexivity|]. cbn. now rewrite (Hf x Hx).
Qed.

Lemma pad_ix_spec axis : forall v i acc,
  StronglySorted Z.lt axis ->
  pad_ix axis v i acc = if count_le axis v =? 0 then acc else i + count_le axis v - 1.
Proof.
  induction axis as [|a r IH]; intros v i acc Hs; cbn [pad_ix]; [reflexivity|].
  inversion Hs as [|? ? S' F]; subst. unfold count_le. cbn [filter].
  destruct (a <=? v) eqn:E.
  - rewrite (IH v (i + 1) i S'). unfold count_le. cbn [length].
    set (k := length (filter (fun a0 => a0 <=? v) r)).
    replace (Z.of_nat (S k) =? 0) with false by lia.
    destruct (Z.of_nat k =? 0) eqn:E0; lia.
  - rewrite (filter_none_gt r a v (fun a0 => a0 <=? v) F) by (intros; lia). reflexivity.
Qed.

Lemma bfill_ix_spec axis : forall v i,
  StronglySorted Z.lt axis ->
  bfill_ix axis v i = if count_lt axis v =? Z.of_nat (length axis) then -1 else i + count_lt axis v.
Proof.
  induction axis as [|a r IH]; intros v i Hs; cbn [bfill_ix]; [reflexivity|].
  inversion Hs as [|? ? S' F]; subst. unfold count_lt. cbn [filter].
  destruct (v <=? a) eqn:E.
  - replace (a <? v) with false by lia.
    rewrite (filter_none_gt r a v (fun a0 => a0 <? v) F) by (intros; lia). cbn [length].
    replace (Z.of_nat 0 =? Z.of_nat (S (length r))) with false by lia. lia.
  - replace (a <? v) with true by lia. rewrite (IH v (i + 1) S'). unfold count_lt. cbn [length].
    set (k := length (filter (fun a0 => a0 <? v) r)).
    destruct (Z.of_nat k =? Z.of_nat (length r)) eqn:E0.
    + replace (Z.of_nat (S k) =? Z.of_nat (S (length r))) with true by lia. reflexivity.
    + replace (Z.of_nat (S k) =? Z.of_nat (S (length r))) with false by lia. lia.
Qed.

Lemma count_le_lt axis v :
  StronglySorted Z.lt axis ->
  count_lt axis v <= Z.of_nat (length axis) /\
  ((In v axis /\ count_le axis v = count_lt axis v + 1 /\ nth (Z.to_nat (count_lt axis v)) axis 0 = v) \/
   (~ In v axis /\ count_le axis v = count_lt axis v)).
Proof.
  unfold count_le, count_lt. induction 1 as [|a r Hs IH F]; cbn [filter length In].
  - split; [lia|right; split; [tauto|reflexivity]].
  - destruct IH as [B IH]. destruct (Z.compare_spec a v) as [E|L|G].
    + subst a. replace (v <=? v) with true by lia. replace (v <? v) with false by lia.
      rewrite (filter_none_gt r v v (fun a0 => a0 <? v) F) by (intros; lia).
      assert (filter (fun a0 => a0 <=? v) r = []) as -> by (apply (filter_none_gt r v v); [exact F|intros; lia]).
      cbn [length]. split; [lia|left]. split; [now left|]. split; [lia|reflexivity].
    + replace (a <=? v) with true by lia. replace (a <? v) with true by lia. cbn [length]. split; [lia|].
      destruct IH as [(I & E & N)|(I & E)].
      * left. split; [now right|]. split; [lia|].
        replace (Z.to_nat (Z.of_nat (S (length (filter (fun a0 => a0 <? v) r))))) with
            (S (Z.to_nat (Z.of_nat (length (filter (fun a0 => a0 <? v) r))))) by lia. exact N.
      * right. split; [|lia]. intros [->|I']; [lia|contradiction].
    + replace (a <=? v) with false by lia. replace (a <? v) with false by lia.
      rewrite (filter_none_gt r a v (fun a0 => a0 <? v) F) by (intros; lia).
      rewrite (filter_none_gt r a v (fun a0 => a0 <=? v) F) by (intros; lia).
      cbn [length]. split; [lia|right]. split; [|reflexivity].
      intros [->|I']; [lia|]. rewrite Forall_forall in F. specialize (F v I'). lia.
Qed.

(** exact lookup: -1 iff the label is not on the axis, otherwise the position of the label *)
Lemma lookup_exact axis v :
  StronglySorted Z.lt axis ->
  (get_indexer axis v MNone = -1 <-> ~ In v axis) /\
  (get_indexer axis v MNone <> -1 ->
   0 <= get_indexer axis v MNone < Z.of_nat (length axis) /\
   nth (Z.to_nat (get_indexer axis v MNone)) axis 0 = v).
Proof.
  intros S. unfold get_indexer. rewrite pad_ix_spec, bfill_ix_spec by exact S.
  destruct (count_le_lt axis v S) as [B [(I & E & N)|(I & E)]].
  - assert (0 <= count_lt axis v) by (unfold count_lt; lia).
    assert (count_lt axis v < Z.of_nat (length axis)).
    { unfold count_le in E. pose proof (filter_length_le' (fun a => a <=? v) axis). lia. }
    rewrite E. replace (count_lt axis v + 1 =? 0) with false by lia.
    replace (count_lt axis v =? Z.of_nat (length axis)) with false by lia.
    replace (0 + (count_lt axis v + 1) - 1 =? 0 + count_lt axis v) with true by lia.
    replace (0 + (count_lt axis v + 1) - 1) with (count_lt axis v) by lia.
    split; [split; [lia|tauto]|]. intros _. split; [lia|exact N].
  - rewrite E. split.
    + split; [intros _; exact I|intros _].
      destruct (count_lt axis v =? 0) eqn:E0; destruct (count_lt axis v =? Z.of_nat (length axis)) eqn:E1;
        try reflexivity.
      * replace (-1 =? 0 + count_lt axis v) with false by lia. reflexivity.
      * replace (0 + count_lt axis v - 1 =? -1) with false by lia. reflexivity.
      * replace (0 + count_lt axis v - 1 =? 0 + count_lt axis v) with false by lia. reflexivity.
    + intros Hne. exfalso. apply Hne.
      destruct (count_lt axis v =? 0) eqn:E0; destruct (count_lt axis v =? Z.of_nat (length axis)) eqn:E1;
        try reflexivity.
      * replace (-1 =? 0 + count_lt axis v) with false by lia. reflexivity.
      * replace (0 + count_lt axis v - 1 =? -1) with false by lia. reflexivity.
      * replace (0 + count_lt axis v - 1 =? 0 + count_lt axis v) with false by lia. reflexivity.
Qed.

(** position of a label that is on the axis *)
Lemma lookup_on_axis axis i :
  StronglySorted Z.lt axis -> (i < length axis)%nat ->
  get_indexer axis (nth i axis 0) MNone = Z.of_nat i.
Proof.
  intros S Hi. destruct (lookup_exact axis (nth i axis 0) S) as [[_ A] B].
  assert (get_indexer axis (nth i axis 0) MNone <> -1) as Hne.
  { intros E. destruct (proj1 (proj1 (lookup_exact axis (nth i axis 0) S)) E). now apply nth_In. }
  destruct (B Hne) as [R N].
  (* strictly increasing => nth is injective *)
  assert (forall l, StronglySorted Z.lt l -> forall p q, (p < q < length l)%nat -> nth p l 0 < nth q l 0) as Mono.
  { induction 1 as [|a r S' IH F]; intros p q Hpq; [cbn in Hpq; lia|].
    destruct p as [|p]; destruct q as [|q]; try lia; cbn [nth length] in *.
    - rewrite Forall_forall in F. apply F, nth_In. lia.
    - apply IH. lia. }
  set (g := Z.to_nat (get_indexer axis (nth i axis 0) MNone)) in *.
  destruct (Nat.lt_trichotomy g i) as [L|[E|L]].
  - pose proof (Mono axis S g i ltac:(lia)). lia.
  - lia.
  - pose proof (Mono axis S i g ltac:(lia)). lia.
Qed.

(** ** attributes of a yielded window *)
Lemma window_attrs_spec axis jj ii :
  0 <= jj -> jj <= ii -> ii <= Z.of_nat (length axis) ->
  window_attrs axis (jj, ii) = (nth (Z.to_nat jj) axis 0, nth (Z.to_nat (ii - 1)) axis 0, ii - jj).
Proof.
  intros H1 H2 H3. unfold window_attrs. f_equal. rewrite firstn_length, skipn_length. lia.
Qed.

Lemma slice_nth {A} (l : list A) jj ii k d :
  0 <= jj -> (k < Z.to_nat (ii - jj))%nat -> nth k (slice l (jj, ii)) d = nth (Z.to_nat jj + k) l d.
Proof.
  intros H1 H2. unfold slice. cbn [fst snd]. rewrite nth_firstn_lt by exact H2. apply nth_skipn'.
Qed.

(** ** no window is yielded twice, and their number is known in advance *)
Lemma down_length k hi : length (down k hi) = k.
Proof. revert hi; induction k as [|k IH]; intros hi; cbn [down length]; [reflexivity|now rewrite IH]. Qed.

Lemma down_nodup k : forall hi, NoDup (down k hi).
Proof.
  induction k as [|k IH]; intros hi; cbn [down]; constructor; [|apply IH].
  intros H. apply in_down in H. lia.
Qed.

Lemma window_of_inj n e1 e2 : window_of n e1 = window_of n e2 -> e1 = e2.
Proof. unfold window_of. intros H. injection H as _ H. lia. Qed.

Lemma agg_loop_nodup b n eix : 1 <= n -> 0 <= b -> NoDup (agg_loop (Z.to_nat b) b n eix).
Proof.
  intros Hn Hb. rewrite agg_loop_spec by lia.
  apply Injective_map_NoDup; [intros e1 e2; apply window_of_inj|apply down_nodup].
Qed.

Lemma agg_loop_length b n eix : 1 <= n -> 0 <= b ->
  Z.of_nat (length (agg_loop (Z.to_nat b) b n eix)) = Z.max 0 (b - Z.max eix (n - 1)).
Proof.
  intros Hn Hb. rewrite agg_loop_spec by lia. rewrite map_length. unfold desc_range. rewrite down_length. lia.
Qed.
