(** C05, robust mode: the bisquare reweighting never leaves the solver with a degenerate system.  In the model
    (Model/Gcv.v, after the fix: commits) the weights handed to every solve are non-negative and at least two valid cells keep a
    positive weight, so by C01 the band is the unique penalised least-squares curve for those weights at the reported lambda. *)
From Coq Require Import ZArith Reals Lra Lia List Bool.
From HDC Require Import Base.Prelude Base.Ops Model.Ws2d Model.Smoothers Model.Gcv Proofs.Ws2dIndex Proofs.RSums Proofs.Penalty
  Model.VCurve Proofs.Ws2dReal Proofs.SmoothersProofs Proofs.PlaceholderProofs Proofs.GcvProofs.
Import ListNotations.
Open Scope R_scope.

Definition nnz (l : list R) : nat := length (filter (fun v => negb (Reqb v 0)) l).

Definition wok (w rw : list R) : Prop :=
  length rw = length w /\ Forall (fun v => 0 <= v) rw /\ (2 <= nnz (map2 (fmul OpsR) w rw))%nat.

Lemma map2_length (f : R -> R -> R) a b : length (map2 f a b) = Nat.min (length a) (length b).
Proof. unfold map2. now rewrite map_length, combine_length. Qed.

Section Robust.
  Variable K : gconsts (F := R).

  Lemma robust_update_ok de n s (w wt y ytemp rw : list R) :
    wok w rw -> length y = length w -> length ytemp = length w ->
    wok w (robust_update OpsR K de n s w wt y ytemp rw).
  Proof.
    intros Hok Ly Lt. unfold robust_update.
    match goal with |- context [if fltb OpsR ?a ?b then _ else _] => destruct (fltb OpsR a b) end; [|exact Hok].
    match goal with |- context [if Nat.leb 2 ?c then ?nw else _] => destruct (Nat.leb 2 c) eqn:E; [set (new_w := nw) in *|exact Hok] end.
    apply Nat.leb_le in E. repeat split.
    - unfold new_w. rewrite map_length, map2_length. lia.
    - unfold new_w. apply Forall_forall. intros v Hv. apply in_map_iff in Hv as (r & <- & _).
      cbn [fltb f0 f1 OpsR]. destruct (Rltb 0 r); [lra|]. destruct (Rltb 1 _); [lra|]. unfold sq. cbn [fmul OpsR]. nra.
    - exact E.
  Qed.

  Lemma gcv_scan_len de wt y lams : length wt = length y -> (4 <= length y)%nat -> forall best,
    length (snd best) = length y -> length (snd (gcv_scan OpsR de wt y lams best)) = length y.
  Proof.
    intros Hl Hn. induction lams as [|s r IH]; intros best Hb; cbn [gcv_scan]; [exact Hb|].
    destruct (fltb OpsR _ (fst (fst best))); apply IH; [cbn [snd]; apply ws2d_length; assumption|exact Hb].
  Qed.

  Lemma robust_loop_ok its de n (w y grid : list R) : length w = length y -> (4 <= length y)%nat ->
    forall best rw hist, wok w rw -> length (snd best) = length y ->
    wok w (fst (robust_loop OpsR K its true de n w y grid best rw hist)).
  Proof.
    intros Hw Hn. induction its as [|it r IH]; intros best rw hist Hok Hb; cbn [robust_loop fst]; [exact Hok|].
    destruct Hok as (Lr & Fr & Nr).
    assert (length (map2 (fmul OpsR) w rw) = length y) as Lwt by (rewrite map2_length; lia).
    apply IH.
    - apply robust_update_ok; [repeat split; assumption|lia|].
      rewrite gcv_scan_len; [lia|exact Lwt|exact Hn|exact Hb].
    - apply gcv_scan_len; assumption.
  Qed.

  (** non-negative entries, two of them non-zero: two positive weights at distinct positions *)
  Lemma two_positive (l : list R) : Forall (fun v => 0 <= v) l -> (2 <= nnz l)%nat ->
    exists p q, (p < q < length l)%nat /\ 0 < nth p l 0 /\ 0 < nth q l 0.
  Proof.
    assert (forall l, Forall (fun v => 0 <= v) l -> (1 <= nnz l)%nat -> exists q, (q < length l)%nat /\ 0 < nth q l 0) as One.
    { clear. induction l as [|x r IH]; intros H N; [cbn in N; lia|]. inversion H as [|? ? Hx Hr]; subst.
      unfold nnz in N. cbn [filter] in N. destruct (Reqb x 0) eqn:Ex.
      - cbn [negb] in N. destruct (IH Hr N) as (q & Hq & Pq). exists (S q). cbn [length nth]. split; [lia|exact Pq].
      - exists 0%nat. cbn [length nth]. split; [lia|]. destruct (Req_dec x 0) as [->|Hne]; [rewrite Reqb_refl in Ex; discriminate|lra]. }
    induction l as [|x r IH]; intros H N; [cbn in N; lia|]. inversion H as [|? ? Hx Hr]; subst.
    unfold nnz in N. cbn [filter] in N. destruct (Reqb x 0) eqn:Ex.
    - cbn [negb] in N. destruct (IH Hr N) as (p & q & Hpq & Pp & Pq). exists (S p), (S q). cbn [length nth]. repeat split; try lia; assumption.
    - cbn [negb length] in N. destruct (One r Hr ltac:(unfold nnz; lia)) as (q & Hq & Pq).
      exists 0%nat, (S q). cbn [length nth]. repeat split; try lia; [|exact Pq].
      destruct (Req_dec x 0) as [->|Hne]; [rewrite Reqb_refl in Ex; discriminate|lra].
  Qed.

  (** the robust smoother: whatever the data, the weights of the final solve are non-negative with two positive entries, and the band is
      the unique minimiser of the penalised least-squares objective with those weights at the reported lambda *)
  Theorem wcv_robust_never_degenerates (y : list R) nd llas yv rwt lopt :
    wcv_core OpsR K y nd llas true = Some (yv, rwt, lopt) ->
    length rwt = length y /\ length yv = length y /\ (4 <= length y)%nat /\
    (forall i, (0 <= i < Z.of_nat (length y))%Z -> 0 <= Wk rwt i) /\
    (exists p q, (0 <= p < q)%Z /\ (q < Z.of_nat (length y))%Z /\ 0 < Wk rwt p /\ 0 < Wk rwt q) /\
    (0 < lopt -> forall z' : Z -> R,
       Sobj (length yv) (Wk rwt) (Yk yv) lopt (Zk yv rwt lopt) <= Sobj (length yv) (Wk rwt) (Yk yv) lopt z').
  Proof.
    unfold wcv_core. set (w := weights_gu OpsR nd y).
    destruct (fltb OpsR (fofZ OpsR 4) (fsum OpsR w)) eqn:E; [|discriminate].
    destruct (robust_loop OpsR K [0; 1; 2; 3]%nat true _ _ w _ _ _ _ _) as [rw hist] eqn:EL. intros [= <- <- <-].
    assert (length w = length y) as Lw by (unfold w, weights_gu; apply map_length).
    assert (is01 w) as H01 by apply weights_gu_01.
    set (yv := zero_missing OpsR w y) in *.
    assert (length yv = length y) as Lyv by (unfold yv, zero_missing; rewrite map_length, combine_length; lia).
    cbn [fltb fofZ OpsR] in E. apply Rltb_true in E. rewrite fsum_rsum in E.
    assert (rsum w <= INR (length w)) as B.
    { clear -H01. induction w as [|x r IH]; cbn [rsum length]; [cbn [INR]; lra|]. inversion H01 as [|? ? Hx Hr]; subst. specialize (IH Hr).
      rewrite S_INR. destruct Hx as [-> | ->]; lra. }
    assert (4 <= length y)%nat as Hn by (apply INR_le; replace (INR 4) with 4 by (cbn; ring); rewrite Lw in B; lra).
    (* the initial weights are the mask itself: more than four ones *)
    assert (wok w (repeat (f1 OpsR) (length y))) as W0.
    { repeat split; [rewrite repeat_length; lia|apply Forall_forall; intros v Hv; apply repeat_spec in Hv; subst; cbn; lra|].
      rewrite (map2_mul_ones w (length y) Lw).
      assert (forall l, is01 l -> INR (nnz l) = rsum l) as Cnt.
      { clear. induction l as [|x r IH]; intros H; [reflexivity|]. inversion H as [|? ? Hx Hr]; subst. unfold nnz. cbn [filter rsum].
        destruct Hx as [-> | ->].
        - rewrite Reqb_refl. cbn [negb]. fold (nnz r). rewrite (IH Hr). lra.
        - rewrite (Reqb_neq 1 0) by lra. cbn [negb length]. fold (nnz r). rewrite S_INR, (IH Hr). lra. }
      apply INR_le. rewrite (Cnt w H01). replace (INR 2) with 2 by (cbn; ring). lra. }
    pose proof (robust_loop_ok [0; 1; 2; 3]%nat (d_eigs OpsR K (length y)) (fsum OpsR w) w yv (map (fpow10 OpsR) llas)
                  ltac:(lia) ltac:(lia) (c_1e15 K, f0 OpsR, zeros OpsR (length y)) (repeat (f1 OpsR) (length y)) [] W0
                  ltac:(cbn [snd]; unfold zeros; rewrite repeat_length; lia)) as Ok.
    rewrite EL in Ok. cbn [fst] in Ok. destruct Ok as (Lr & Fr & Nr).
    set (rwt := map2 (fmul OpsR) w rw) in *. set (lopt := nth 1 hist (f0 OpsR)) in *.
    assert (length rwt = length y) as Lrwt by (unfold rwt; rewrite map2_length; lia).
    assert (Forall (fun v => 0 <= v) rwt) as Fw.
    { unfold rwt, map2. apply Forall_forall. intros v Hv. apply in_map_iff in Hv as ([a b] & <- & Hin). cbn [fst snd fmul OpsR].
      pose proof (in_combine_l _ _ _ _ Hin) as Ha. pose proof (in_combine_r _ _ _ _ Hin) as Hb.
      rewrite Forall_forall in Fr. specialize (Fr b Hb). unfold is01 in H01. rewrite Forall_forall in H01.
      destruct (H01 a Ha) as [-> | ->]; lra. }
    destruct (two_positive rwt Fw Nr) as (p & q & Hpq & Pp & Pq).
    assert (forall i, (0 <= i < Z.of_nat (length y))%Z -> 0 <= Wk rwt i) as Wn.
    { intros i Hi. unfold Wk. replace i with (Z.of_nat (Z.to_nat i)) by lia. rewrite vecZ_nat.
      rewrite Forall_forall in Fw. apply Fw. apply nth_In. lia. }
    assert (exists p q, (0 <= p < q)%Z /\ (q < Z.of_nat (length y))%Z /\ 0 < Wk rwt p /\ 0 < Wk rwt q) as W2.
    { exists (Z.of_nat p), (Z.of_nat q). unfold Wk. rewrite !vecZ_nat. repeat split; try lia; assumption. }
    repeat split; try assumption.
    intros Hl z'. rewrite Lyv.
    pose proof (minimises yv rwt lopt ltac:(lia) ltac:(lia) ltac:(rewrite Lyv; exact Wn) Hl ltac:(rewrite Lyv; exact W2) z') as [M _].
    rewrite Lyv in M. exact M.
  Qed.
End Robust.
