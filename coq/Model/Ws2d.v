(** Model of [hdc/algo/ops/ws2d.py: ws2d] — Whittaker smoother with second-order differences:
    pentadiagonal LDL' forward elimination (special first two / last two rows) and back
    substitution, written once for any arithmetic carrier.  The order and association of the
    arithmetic operations follows the source line by line, so that the binary64 instance is
    bit-identical to the compiled kernel.  Defined for n >= 4 (the properties' domain); shorter
    inputs yield [].  Executable definitions only. *)
From HDC Require Import Base.Prelude Base.Ops.

Section Ws2d.
  Context {F : Type} (O : Ops F).
  Notation "x + y" := (fadd O x y). Notation "x - y" := (fsub O x y).
  Notation "x * y" := (fmul O x y). Notation "x / y" := (fdiv O x y).
  Notation "'#' k" := (fofZ O k) (at level 5).

  (** one row of the factorisation: d[k], c[k], e[k] and the forward-substituted right-hand side *)
  Record row := mkrow { rd : F; rc : F; re : F; ru : F }.
  Definition zrow : row := mkrow (f0 O) (f0 O) (f0 O) (f0 O).

  (** row k of n, given rows k-1 ([p1]) and k-2 ([p2]) *)
  Definition fstep (k n : nat) (l : F) (p1 p2 : row) (w y : F) : row :=
    if Nat.eqb k 0 then
      (* d[0] = w[0] + lmda; c[0] = (-2*lmda)/d[0]; e[0] = lmda/d[0]; z[0] = w[0]*y[0] *)
      let d := w + l in mkrow d ((#(-2) * l) / d) (l / d) (w * y)
    else if Nat.eqb k 1 then
      (* d[1] = w[1] + 5*lmda - d[0]*(c[0]*c[0]); c[1] = (-4*lmda - d[0]*c[0]*e[0])/d[1]; e[1] = lmda/d[1];
         z[1] = w[1]*y[1] - c[0]*z[0] *)
      let d := (w + #5 * l) - rd p1 * (rc p1 * rc p1) in
      mkrow d ((#(-4) * l - (rd p1 * rc p1) * re p1) / d) (l / d) (w * y - rc p1 * ru p1)
    else if Nat.eqb (S k) n then
      (* last row m: d[m] = w[m] + lmda - c1*c1*d1 - e2*e2*d2; c[m] = e[m] = 0 (never written) *)
      let d := ((w + l) - (rc p1 * rc p1) * rd p1) - (re p2 * re p2) * rd p2 in
      mkrow d (f0 O) (f0 O) ((w * y - rc p1 * ru p1) - re p2 * ru p2)
    else if Nat.eqb (S (S k)) n then
      (* row m-1: 5*lmda on the diagonal, -2*lmda below it, e[m-1] = 0 (never written) *)
      let d := ((w + #5 * l) - (rc p1 * rc p1) * rd p1) - (re p2 * re p2) * rd p2 in
      mkrow d ((#(-2) * l - (rd p1 * rc p1) * re p1) / d) (f0 O) ((w * y - rc p1 * ru p1) - re p2 * ru p2)
    else
      (* interior rows 2 .. m-2 *)
      let d := ((w + #6 * l) - (rc p1 * rc p1) * rd p1) - (re p2 * re p2) * rd p2 in
      mkrow d ((#(-4) * l - (rd p1 * rc p1) * re p1) / d) (l / d) ((w * y - rc p1 * ru p1) - re p2 * ru p2).

  Fixpoint fwd (k n : nat) (l : F) (p1 p2 : row) (ws ys : list F) : list row :=
    match ws, ys with
    | w :: ws', y :: ys' => let r := fstep k n l p1 p2 w y in r :: fwd (S k) n l r p1 ws' ys'
    | _, _ => []
    end.

  (** back substitution, [j] = distance from the last row, [z1] = z[k+1], [z2] = z[k+2] *)
  Definition bstep (j : nat) (r : row) (z1 z2 : F) : F :=
    if Nat.eqb j 0 then ru r / rd r                        (* z[m] = (...) / d[m] *)
    else if Nat.eqb j 1 then ru r / rd r - rc r * z1        (* z[m-1] = z[m-1]/d[m-1] - c[m-1]*z[m] *)
    else (ru r / rd r - rc r * z1) - re r * z2.            (* z[i] = z[i]/d[i] - c[i]*z[i+1] - e[i]*z[i+2] *)

  Fixpoint bwd (j : nat) (rs : list row) (z1 z2 : F) : list F :=
    match rs with
    | [] => []
    | r :: rs' => let z := bstep j r z1 z2 in z :: bwd (S j) rs' z z1
    end.

  Definition ws2d_rows (y : list F) (l : F) (w : list F) : list row :=
    fwd 0 (length y) l zrow zrow w y.

  Definition ws2d (y : list F) (l : F) (w : list F) : list F :=
    if Nat.ltb (length y) 4 then []
    else rev (bwd 0 (rev (ws2d_rows y l w)) (f0 O) (f0 O)).
End Ws2d.
Arguments rd {F} _. Arguments rc {F} _. Arguments re {F} _. Arguments ru {F} _.
