(** C12 - results do not depend on laziness, chunking, layout or threading (the modelled dispatch logic). *)
From Coq Require Import List Arith Permutation.
From HDC Require Import Model.Cube Proofs.CubeProofs.
Import ListNotations.

Theorem C12_every_chunking_and_schedule_is_the_pixel_map {S R} (k : S -> R) sizes sched (cube : list S) :
  (forall i, i < length (chunk sizes cube) -> In i sched) ->
  run_config k sizes sched cube = Some (map_pixels k cube).
Proof. exact (run_config_eq_map k sizes sched cube). Qed.
Print Assumptions C12_every_chunking_and_schedule_is_the_pixel_map.

Theorem C12_a_skipped_block_gives_no_result {S R} (k : S -> R) sizes sched (cube : list S) i :
  i < length (chunk sizes cube) -> ~ In i sched -> run_config k sizes sched cube = None.
Proof. exact (run_config_needs_every_block k sizes sched cube i). Qed.
Print Assumptions C12_a_skipped_block_gives_no_result.

Theorem C12_permuting_pixels_permutes_results {S R} (k : S -> R) (cube cube' : list S) :
  Permutation cube cube' -> Permutation (map_pixels k cube) (map_pixels k cube').
Proof. exact (map_pixels_equivariant k cube cube'). Qed.
Print Assumptions C12_permuting_pixels_permutes_results.

Theorem C12_layout_reindexing_commutes {S R} (k : S -> R) (cube : list S) (idx : list nat) d :
  map_pixels k (map (fun i => nth i cube d) idx) = map (fun i => nth i (map_pixels k cube) (k d)) idx.
Proof. exact (map_pixels_reindex k cube idx d). Qed.
Print Assumptions C12_layout_reindexing_commutes.

Theorem C12_lazycompile_every_interleaving_calls_a_compiled_kernel n sched t c :
  In t (threads (lrun n sched)) -> called t = Some c -> exists obj, c = Some obj.
Proof. exact (lazy_all_interleavings n sched t c). Qed.
Print Assumptions C12_lazycompile_every_interleaving_calls_a_compiled_kernel.
