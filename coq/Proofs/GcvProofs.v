(** GCV selection logic (property C05). *)
From Coq Require Import ZArith Reals Lra Lia Bool List.
From HDC Require Import Base.Prelude Base.ListLemmas Base.Ops Model.Ws2d Model.Smoothers Model.VCurve Model.Gcv Proofs.Ws2dIndex
     Proofs.SmoothersProofs Proofs.VCurveProofs.
Open Scope R_scope.

Section Generic.
  Context {F : Type} (O : Ops F) (K : gconsts (F := F)).

  (** the scan keeps the incumbent or moves to one of the scanned lambdas *)
  Lemma gcv_scan_lambda de wt y lams : forall best,
    snd (fst (gcv_scan O de wt y lams best)) = snd (fst best) \/ In (snd (fst (gcv_scan O de wt y lams best))) lams.
  Proof.
    induction lams as [|s r IH]; intros best; cbn [gcv_scan]; [now left|].
    destruct (fltb O _ (fst (fst best))).
    - destruct (IH (gcv_score O de s wt y (ws2d O y s wt), s, ws2d O y s wt)) as [E|I]; [right; left; now rewrite E|right; now right].
    - destruct (IH best) as [E|I]; [now left|right; now right].
  Qed.

  (** without robust weighting: one scan of the grid from the sentinel (1e15, 0) *)
  Lemma wcv_nonrobust_unfold y nd llas :
    fltb O (fofZ O 4) (fsum O (weights_gu O nd y)) = true ->
    let w := weights_gu O nd y in
    let yv := zero_missing O w y in
    let ones := repeat (f1 O) (length y) in
    let wt := map2 (fmul O) w ones in
    let best := gcv_scan O (d_eigs O K (length y)) wt yv (map (fpow10 O) llas) (c_1e15 K, f0 O, zeros O (length y)) in
    wcv_core O K y nd llas false = Some (yv, wt, snd (fst best)).
  Proof.
    intros H. cbn zeta. unfold wcv_core. rewrite H. cbn [robust_loop]. reflexivity.
  Qed.

  (** the reported lambda is a grid value 10**s (or the sentinel's 0 when no score beat 1e15) *)
  Theorem wcv_lopt_in_grid y nd llas z lopt :
    ws2dwcv O K y nd llas false = GFit z lopt -> lopt = f0 O \/ In lopt (map (fpow10 O) llas).
  Proof.
    unfold ws2dwcv. destruct (fltb O (fofZ O 4) (fsum O (weights_gu O nd y))) eqn:E.
    - rewrite (wcv_nonrobust_unfold y nd llas E). intros [= _ <-].
      apply (gcv_scan_lambda _ _ _ _ (c_1e15 K, f0 O, zeros O (length y))).
    - unfold wcv_core. rewrite E. discriminate.
  Qed.

  Theorem wcv_passthrough y nd llas robust :
    fltb O (fofZ O 4) (fsum O (weights_gu O nd y)) = false ->
    ws2dwcv O K y nd llas robust = GPass /\ forall p, ws2dwcvp O K y nd p llas robust = GPass.
  Proof. intros H. unfold ws2dwcv, ws2dwcvp, wcv_core. rewrite H. split; reflexivity. Qed.

  (** placeholder independence, robust or not: the kernel only sees the weights and the zeroed series *)
  Hypothesis feqb_00 : feqb O (f0 O) (f0 O) = true.
  Hypothesis feqb_10 : feqb O (f1 O) (f0 O) = false.

  Theorem wcv_placeholder_indep nd1 nd2 y1 y2 llas robust :
    same_cells O nd1 nd2 y1 y2 ->
    ws2dwcv O K y1 nd1 llas robust = ws2dwcv O K y2 nd2 llas robust /\
    forall p, ws2dwcvp O K y1 nd1 p llas robust = ws2dwcvp O K y2 nd2 p llas robust.
  Proof.
    intros H. assert (length y1 = length y2) as L by (unfold same_cells in H; eapply Forall2_length'; exact H).
    unfold ws2dwcv, ws2dwcvp, wcv_core.
    rewrite (same_cells_zero_missing O feqb_00 feqb_10 _ _ _ _ H), (same_cells_weights O _ _ _ _ H), L. split; reflexivity.
  Qed.
End Generic.

(** ** over the reals *)
Lemma gcv_scan_first_min (K : gconsts (F := R)) de wt y lams : forall best,
  let r := gcv_scan OpsR de wt y lams best in
  fst (fst r) <= fst (fst best) /\
  (forall s, In s lams -> fst (fst r) <= gcv_score OpsR de s wt y (ws2d OpsR y s wt)).
Proof.
  induction lams as [|s t IH]; intros best; cbn [gcv_scan]; [split; [lra|intros ? []]|].
  cbn [fltb OpsR]. destruct (Rltb _ (fst (fst best))) eqn:E.
  - apply Rltb_true in E. destruct (IH (gcv_score OpsR de s wt y (ws2d OpsR y s wt), s, ws2d OpsR y s wt)) as [A B].
    cbn [fst] in A. split; [lra|]. intros s' [<-|Hs]; [exact A|now apply B].
  - assert (~ gcv_score OpsR de s wt y (ws2d OpsR y s wt) < fst (fst best)) as N by (intros L; apply Rltb_true in L; congruence).
    destruct (IH best) as [A B]. split; [exact A|]. intros s' [<-|Hs]; [lra|now apply B].
Qed.

Lemma map2_mul_ones (w : list R) n : length w = n -> map2 (fmul OpsR) w (repeat (f1 OpsR) n) = w.
Proof.
  unfold map2. revert n; induction w as [|a w IH]; intros [|n] H; cbn in *; try lia; [reflexivity|].
  rewrite IH by lia. f_equal. cbn [fmul f1 OpsR]. ring.
Qed.

(** without robust weighting the reported lambda minimises the GCV score over the grid (when some
    score is below the 1e15 sentinel), and the band is the fixed-lambda smoother at that lambda *)
Theorem wcv_nonrobust_min (K : gconsts (F := R)) y nd llas z lopt :
  ws2dwcv OpsR K y nd llas false = GFit z lopt ->
  let w := weights_gu OpsR nd y in
  let yv := zero_missing OpsR w y in
  forall s, In s (map (fpow10 OpsR) llas) ->
    gcv_score OpsR (d_eigs OpsR K (length y)) s w yv (ws2d OpsR yv s w) < c_1e15 K ->
    gcv_score OpsR (d_eigs OpsR K (length y)) lopt w yv (ws2d OpsR yv lopt w) <=
    gcv_score OpsR (d_eigs OpsR K (length y)) s w yv (ws2d OpsR yv s w) /\ In lopt (map (fpow10 OpsR) llas).
Proof.
  unfold ws2dwcv. destruct (fltb OpsR (fofZ OpsR 4) (fsum OpsR (weights_gu OpsR nd y))) eqn:E.
  2:{ unfold wcv_core. rewrite E. discriminate. }
  rewrite (wcv_nonrobust_unfold OpsR K y nd llas E). cbn zeta. rewrite map2_mul_ones by apply weights_gu_length.
  set (w := weights_gu OpsR nd y). set (yv := zero_missing OpsR w y). set (de := d_eigs OpsR K (length y)).
  set (grid := map (fpow10 OpsR) llas). set (b0 := (c_1e15 K, f0 OpsR, zeros OpsR (length y))).
  intros [= _ <-] s Hs Hlt.
  destruct (gcv_scan_first_min K de w yv grid b0) as [A B]. cbn zeta in A, B.
  (* the winner's recorded score is the score of its lambda *)
  assert (forall lams best, snd (fst (gcv_scan OpsR de w yv lams best)) = snd (fst best) /\ gcv_scan OpsR de w yv lams best = best \/
                            fst (fst (gcv_scan OpsR de w yv lams best)) =
                            gcv_score OpsR de (snd (fst (gcv_scan OpsR de w yv lams best))) w yv
                                      (ws2d OpsR yv (snd (fst (gcv_scan OpsR de w yv lams best))) w) /\
                            In (snd (fst (gcv_scan OpsR de w yv lams best))) lams) as Rec.
  { induction lams as [|s0 t IH]; intros best; cbn [gcv_scan]; [left; split; reflexivity|].
    destruct (fltb OpsR _ (fst (fst best))).
    - destruct (IH (gcv_score OpsR de s0 w yv (ws2d OpsR yv s0 w), s0, ws2d OpsR yv s0 w)) as [[E1 E2]|[E1 E2]].
      + right. rewrite E2. cbn [fst snd]. split; [reflexivity|now left].
      + right. split; [exact E1|now right].
    - destruct (IH best) as [[E1 E2]|[E1 E2]]; [left; split; assumption|right; split; [exact E1|now right]]. }
  destruct (Rec grid b0) as [[_ E2]|[E1 E2]].
  - exfalso. rewrite E2 in B. specialize (B s Hs). unfold b0 in B. cbn [fst] in B. lra.
  - split; [|exact E2]. rewrite <- E1. now apply B.
Qed.

Theorem wcv_nonrobust_band_is_gu (K : gconsts (F := R)) y nd llas z lopt :
  ws2dwcv OpsR K y nd llas false = GFit z lopt -> lopt <> 0 -> ws2dgu OpsR y lopt nd = Curve z.
Proof.
  unfold ws2dwcv. destruct (fltb OpsR (fofZ OpsR 4) (fsum OpsR (weights_gu OpsR nd y))) eqn:E.
  2:{ unfold wcv_core. rewrite E. discriminate. }
  rewrite (wcv_nonrobust_unfold OpsR K y nd llas E). cbn zeta. rewrite map2_mul_ones by apply weights_gu_length.
  intros [= <- <-] Hl. unfold ws2dgu. cbn [feqb f0 OpsR].
  match goal with |- context [Reqb ?l 0] => replace (Reqb l 0) with false
    by (symmetry; apply not_true_is_false; intros X; apply Reqb_true in X; contradiction) end.
  replace (fltb OpsR (f1 OpsR) (fsum OpsR (weights_gu OpsR nd y))) with true; [reflexivity|].
  symmetry. cbn [fltb f1 fofZ OpsR] in *. apply Rltb_true in E. apply Rltb_true. lra.
Qed.
