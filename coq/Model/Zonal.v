(** Model of [hdc/algo/ops/zonal.py: do_mean] (as repaired by the fix: commit: float64
    accumulators) for one time step: pixels in row-major order, each with its zone id.
    A pixel is [None] when it equals nodata or is NaN (the accessor turns NaN into nodata first; the kernel skips NaN as well); a zone id
    is [None] when it equals the zone raster's nodata.  Generic in the carrier.  Executable only. *)
From HDC Require Import Base.Prelude Base.Ops.

Section Zonal.
  Context {F : Type} (O : Ops F).

  Definition zstep (k : Z) (acc : F * F) (pz : option F * option Z) : F * F :=
    match fst pz, snd pz with
    | Some p, Some z => if Z.eqb z k then (fadd O (fst acc) p, fadd O (snd acc) (f1 O)) else acc
    | _, _ => acc
    end.

  (** (running sum, count) of zone k *)
  Definition zone_acc (k : Z) (px : list (option F * option Z)) : F * F :=
    fold_left (zstep k) px (f0 O, f0 O).

  (** mean (None = NaN when the zone has no valid pixel) and count *)
  Definition zone_mean (k : Z) (px : list (option F * option Z)) : option F * F :=
    let '(s, c) := zone_acc k px in
    if fltb O (f0 O) c then (Some (fdiv O s c), c) else (None, c).

  Definition do_mean (num_zones : nat) (px : list (option F * option Z)) : list (option F * F) :=
    map (fun k => zone_mean (Z.of_nat k) px) (seq 0 num_zones).
End Zonal.
