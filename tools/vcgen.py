"""vcgen - index-safety / all-written verification-condition generator for the numba kernels of hdc.algo.ops (property C14).

Reads the *current* source of every kernel (Python `ast`), executes it symbolically over array shapes and integer
scalars and emits, for every subscript, one Coq lemma over Z

    forall symbols, contract facts -> loop ranges -> path guards -> -len <= index < len

(Python indexing: a negative index counts from the end; numba keeps that) and, for every array that a kernel returns or
receives as a gufunc output, the obligation that it is completely written on every path.  The lemmas are closed by `lia`
(tactic vc_tac of Base/VC.v).  What the symbolic execution cannot decide (cursor variables advanced under data-dependent
conditions, scatter through boolean masks) is looked up in MANUAL: a hand proof about a small checked model in
Proofs/SafetyProofs.v, tied to the source by the hash of the function's AST.  Everything else is fail-closed: an
unsupported construct that reaches a subscript yields an unproved obligation.

The contracts (CONTRACTS) are the documented preconditions of the kernels - they are the hypotheses of the lemmas and
part of the trusted base."""
import ast
import hashlib
import os
import re
import sys

OPS = "hdc/algo/ops"
FILES = ["ws2d.py", "ws2dgu.py", "ws2dpgu.py", "ws2doptv.py", "ws2doptvp.py", "ws2doptvplc.py", "ws2dwcv.py", "ws2dwcvp.py",
         "autocorr.py", "lroo.py", "tinterpolate.py", "zonal.py", "stats.py"]

# ---------------------------------------------------------------------------------------------- contracts
# params: name -> ("arr", [dims]) | "int" (integer scalar that may take part in index arithmetic) | "num" (opaque number)
#         | "bool"; gufunc kernels take the shapes from their layout string, `facts` then only adds the documented contract.
# elem: array name -> fact template about one element `v` of that array.
# returns: shape of the returned array(s) as dims over the parameter symbols (checked against the source, see ret VCs).
CONTRACTS = {
    "ws2d": dict(params=dict(y=("arr", ["n"]), lmda="num", w=("arr", ["n"])), facts=["2 <= n"], returns=[("arr", ["n"])]),
    "ws2dgu": dict(facts=["2 <= n"]),
    "ws2dpgu": dict(facts=["2 <= n"]),
    "ws2doptv": dict(facts=["2 <= n", "2 <= m"]),
    "ws2doptvp": dict(facts=["2 <= n", "2 <= m"]),
    "_ws2doptvp": dict(params=dict(y=("arr", ["n"]), w=("arr", ["n"]), p="num", llas=("arr", ["nl_"])), facts=["2 <= n", "2 <= nl_"],
                       returns=[("arr", ["n"]), "num"]),
    "ws2doptvplc": dict(facts=["2 <= n"]),
    "ws2doptvplc_tyx": dict(params=dict(tyx=("arr", ["nt", "nr", "nc"]), p="num", nodata="num"), facts=["2 <= nt", "0 <= nr", "0 <= nc"],
                            returns=[("arr", ["nt", "nr", "nc"]), ("arr", ["nr", "nc"])]),
    "ws2dwcv": dict(facts=["2 <= n", "2 <= m"], ints=["robust"]),
    "ws2dwcvp": dict(facts=["2 <= n", "2 <= m"], ints=["robust"]),
    "_ws2dwcvp": dict(params=dict(y=("arr", ["n"]), w=("arr", ["n"]), p="num", llas=("arr", ["nl_"]), robust="bool"),
                      facts=["2 <= n", "2 <= nl_"], returns=[("arr", ["n"]), "num"]),
    "autocorr_1d_float": dict(params=dict(data=("arr", ["n"])), facts=["0 <= n"], returns=["num"]),
    "autocorr_1d_int": dict(params=dict(data=("arr", ["n"]), nodata="num"), facts=["0 <= n"], returns=["num"]),
    "autocorr_1d": dict(params=dict(data=("arr", ["n"]), nodata="num"), facts=["0 <= n"], returns=["num"]),
    "autocorr": dict(params=dict(x=("arr", ["r", "c", "t"]), nodata="num"), facts=["0 <= r", "0 <= c", "0 <= t"], returns=[("arr", ["r", "c"])]),
    "autocorr_tyx": dict(params=dict(tyx=("arr", ["t", "nr", "nc"]), nodata="num"), facts=["0 <= t", "0 <= nr", "0 <= nc"],
                         returns=[("arr", ["nr", "nc"])]),
    "lroo": dict(facts=["0 <= n"]),
    "tinterpolate": dict(facts=["1 <= n", "4 <= m", "1 <= l"]),
    "do_mean": dict(params=dict(pixels=("arr", ["t", "nr", "nc"]), z_pixels=("arr", ["nr", "nc"]), num_zones="int", nodata="num", z_nodata="int",
                                out_dtype="num"),
                    facts=["0 <= t", "0 <= nr", "0 <= nc", "1 <= num_zones"], elem=dict(z_pixels="v = z_nodata \\/ 0 <= v < num_zones"),
                    returns=[("arr", ["t", "num_zones", "2"])]),
    "brentq": dict(params=dict(xa="num", xb="num", s="num"), facts=[], returns=["num"]),
    "gammafit": dict(params=dict(x=("arr", ["n"])), facts=["0 <= n"], returns=["num", "num"]),
    "gammastd": dict(params=dict(x=("arr", ["n"]), nodata="num", cal_start="int", cal_stop="int", a="num", b="num"), facts=["0 <= n"],
                     returns=[("arr", ["n"])]),
    "gammastd_yxt": dict(params=dict(x=("arr", ["r", "c", "t"]), nodata="num", cal_start="int", cal_stop="int"),
                         facts=["0 <= r", "0 <= c", "0 <= t"], returns=[("arr", ["r", "c", "t"])]),
    "gammastd_grp": dict(facts=["0 <= n", "m = n", "0 <= num_groups", "num_groups <= o", "p = 2"], ints=["num_groups"]),
    "mk_score": dict(params=dict(x=("arr", ["n"])), facts=["0 <= n"], returns=["num", "num"]),
    "mk_variance_s": dict(params=dict(x=("arr", ["n"])), facts=["0 <= n"], returns=["num"]),
    "mk_z_score": dict(params=dict(s="num", vs="num"), facts=[], returns=["num"]),
    "mk_p_value": dict(params=dict(z="num", alpha="num"), facts=[], returns=["num", "num"]),
    "mk_sens_slope": dict(params=dict(x=("arr", ["n"])), facts=["0 <= n"], returns=["num", "num"]),
    "mann_kendall_trend_yxt": dict(params=dict(x=("arr", ["ys", "xs", "ts"])), facts=["0 <= ys", "0 <= xs", "0 <= ts"],
                                   returns=[("arr", ["ys", "xs", "4"])]),
    "mann_kendall_trend_1d": dict(params=dict(x=("arr", ["n"])), facts=["0 <= n"], returns=["num", "num", "num", "num"]),
    "_mann_kendall_trend_gu_nd": dict(facts=["0 <= n"]),
    "_mann_kendall_trend_gu": dict(facts=["0 <= n"]),
    "mean_grp": dict(facts=["0 <= n", "m = n", "0 <= num_groups"], ints=["num_groups"]),
    "rolling_sum": dict(facts=["0 <= n", "1 <= window_size", "window_size <= n"], ints=["window_size"]),
}

# Sites decided by hand proofs: (function, kind, source text of the subscript / array) -> lemma of Proofs/SafetyProofs.v
MANUAL = {
    ("tinterpolate", "index", "temp[ii]"): "tinterp_scatter_safe",
    ("tinterpolate", "index", "x[jj]"): "tinterp_scatter_safe",
    ("tinterpolate", "index", "labels[ii - 1]"): "tinterp_runs_safe",
    ("tinterpolate", "index", "z[ii]"): "tinterp_runs_safe",
    ("tinterpolate", "index", "out[kk]"): "tinterp_runs_safe",
    ("tinterpolate", "written", "out"): "tinterp_out_all_written",
    ("mk_sens_slope", "index", "d[ix]"): "sens_slope_cursor_safe",
    ("mean_grp", "written", "yy"): "group_scatter_covers",
    ("gammastd_grp", "written", "yy"): "group_scatter_covers",
}


# ---------------------------------------------------------------------------------------------- affine expressions
class Aff:
    __slots__ = ("c", "k")

    def __init__(self, c=None, k=0):
        self.c = {s: v for s, v in (c or {}).items() if v != 0}
        self.k = k

    @staticmethod
    def sym(s):
        return Aff({s: 1}, 0)

    def add(self, o, sign=1):
        c = dict(self.c)
        for s, v in o.c.items():
            c[s] = c.get(s, 0) + sign * v
        return Aff(c, self.k + sign * o.k)

    def scale(self, f):
        return Aff({s: v * f for s, v in self.c.items()}, self.k * f)

    def const(self):
        return self.k if not self.c else None

    def syms(self):
        return set(self.c)

    def coq(self):
        parts = []
        for s in sorted(self.c):
            v = self.c[s]
            parts.append(s if v == 1 else "(%d) * %s" % (v, s))
        if self.k != 0 or not parts:
            parts.append("(%d)" % self.k if self.k < 0 else "%d" % self.k)
        return "(" + " + ".join(parts) + ")" if len(parts) > 1 else parts[0]

    def __eq__(self, o):
        return isinstance(o, Aff) and self.c == o.c and self.k == o.k

    def __repr__(self):
        return self.coq()


class Arr:
    def __init__(self, shape, elem=None):
        self.shape, self.elem = list(shape), elem


class Tup:
    def __init__(self, items):
        self.items = list(items)


class Lst:
    def __init__(self, n, elem=None):
        self.n, self.elem = n, elem


class Bool:
    def __init__(self, pos=None, neg=None):
        self.pos, self.neg = pos, neg


class Unk:
    def __init__(self, why=""):
        self.why = why


IDENT = re.compile(r"[A-Za-z_][A-Za-z_0-9']*")
COQ_WORDS = {"Z", "max", "min", "slice_len", "pynorm", "exists", "forall", "True", "False"}


def fact_syms(f):
    return {w for w in IDENT.findall(f) if w not in COQ_WORDS and not w[0].isdigit()}


class State:
    def __init__(self):
        self.env, self.facts, self.written, self.dead = {}, [], {}, False

    def copy(self):
        s = State()
        s.env, s.facts, s.written, s.dead = dict(self.env), list(self.facts), dict(self.written), self.dead
        return s


class Gen:
    def __init__(self, repo):
        self.repo = repo
        self.vcs = []            # dict(name, func, file, line, col, kind, text, syms, facts, goal | None, manual, why)
        self.counter = 0
        self.funcs = {}          # name -> (file, FunctionDef, layout or None)
        self.unsupported = []
        self.syms = []
        self.mute = False

    # -------------------------------------------------------------------------------------------- helpers
    def fresh(self, base):
        self.counter += 1
        s = "%s_%d" % (re.sub(r"[^A-Za-z0-9]", "", base) or "v", self.counter)
        self.syms.append(s)
        return s

    def emit(self, st, node, kind, text, goal, why=""):
        if st.dead or self.mute:
            return
        key = (self.cur, kind, text)
        manual = MANUAL.get(key) if goal is None else None
        facts = list(st.facts)
        if goal is not None:                                    # keep the facts connected to the goal
            need, changed = fact_syms(goal), True
            keep = [False] * len(facts)
            while changed:
                changed = False
                for i, f in enumerate(facts):
                    if not keep[i] and fact_syms(f) & need:
                        keep[i] = True
                        need |= fact_syms(f)
                        changed = True
            facts = [f for i, f in enumerate(facts) if keep[i]]
        self.vcs.append(dict(func=self.cur, file=self.curfile, line=getattr(node, "lineno", 0), col=getattr(node, "col_offset", 0), kind=kind,
                             text=text, facts=facts, goal=goal, manual=manual, why=why))

    # -------------------------------------------------------------------------------------------- expressions
    def ev(self, n, st):
        m = getattr(self, "ev_" + type(n).__name__, None)
        if m is None:
            return Unk("expression " + type(n).__name__)
        return m(n, st)

    def ev_Constant(self, n, st):
        if isinstance(n.value, bool):
            return Bool("True" if n.value else "False", "False" if n.value else "True")
        if isinstance(n.value, int):
            return Aff(k=n.value)
        if n.value is None:
            return Unk("None")
        return Unk("const")

    def ev_Name(self, n, st):
        return st.env.get(n.id, Unk("name " + n.id))

    def ev_Tuple(self, n, st):
        return Tup([self.ev(e, st) for e in n.elts])

    def ev_List(self, n, st):
        items = [self.ev(e, st) for e in n.elts]
        return Lst(Aff(k=len(items)), items[0] if items else None)

    def ev_ListComp(self, n, st):
        g = n.generators[0]
        it = self.ev(g.iter, st)
        if isinstance(it, Arr) and len(it.shape) == 1 and len(n.generators) == 1 and not g.ifs:
            s2 = st.copy()
            self.bind(g.target, Unk("element"), s2)
            return Lst(it.shape[0], self.ev(n.elt, s2))
        return Unk("list comprehension")

    def ev_UnaryOp(self, n, st):
        v = self.ev(n.operand, st)
        if isinstance(n.op, ast.USub) and isinstance(v, Aff):
            return v.scale(-1)
        if isinstance(n.op, ast.Not):
            if isinstance(v, Bool):
                return Bool(v.neg, v.pos)
            return Bool()
        if isinstance(v, Arr):
            return Arr(v.shape)
        return Unk("unary")

    def ev_BinOp(self, n, st):
        a, b = self.ev(n.left, st), self.ev(n.right, st)
        if isinstance(a, Aff) and isinstance(b, Aff):
            if isinstance(n.op, ast.Add):
                return a.add(b)
            if isinstance(n.op, ast.Sub):
                return a.add(b, -1)
            if isinstance(n.op, ast.Mult):
                if a.const() is not None:
                    return b.scale(a.const())
                if b.const() is not None:
                    return a.scale(b.const())
            return Unk("non-affine arithmetic")
        for v in (a, b):
            if isinstance(v, Arr):
                return Arr(v.shape)
        return Unk("arithmetic")

    def ev_BoolOp(self, n, st):
        vs = [self.ev(v, st) for v in n.values]
        if any(isinstance(v, Arr) for v in vs):
            return Arr(next(v for v in vs if isinstance(v, Arr)).shape)
        bs = [v if isinstance(v, Bool) else Bool() for v in vs]
        if isinstance(n.op, ast.And):
            pos = [b.pos for b in bs if b.pos]
            neg = [b.neg for b in bs]
            return Bool(" /\\ ".join("(%s)" % p for p in pos) if pos else None,
                        " \\/ ".join("(%s)" % q for q in neg) if all(neg) else None)
        pos = [b.pos for b in bs]
        neg = [b.neg for b in bs if b.neg]
        return Bool(" \\/ ".join("(%s)" % p for p in pos) if all(pos) else None,
                    " /\\ ".join("(%s)" % q for q in neg) if neg else None)

    def ev_Compare(self, n, st):
        if len(n.ops) != 1:
            return Bool()
        a, b = self.ev(n.left, st), self.ev(n.comparators[0], st)
        for v in (a, b):
            if isinstance(v, Arr):
                return Arr(v.shape)
        if isinstance(n.ops[0], (ast.Is, ast.IsNot)):
            # `x is None` on a parameter: the analysis runs with the parameter given (see CONTRACTS), so `is None` is false
            if isinstance(n.comparators[0], ast.Constant) and n.comparators[0].value is None and isinstance(n.left, ast.Name):
                isn = isinstance(n.ops[0], ast.Is)
                return Bool("False" if isn else "True", "True" if isn else "False")
            return Bool()
        if isinstance(a, Aff) and isinstance(b, Aff):
            op = {ast.Lt: ("<", ">="), ast.LtE: ("<=", ">"), ast.Gt: (">", "<="), ast.GtE: (">=", "<"), ast.Eq: ("=", "<>"),
                  ast.NotEq: ("<>", "=")}.get(type(n.ops[0]))
            if op:
                return Bool("%s %s %s" % (a.coq(), op[0], b.coq()), "%s %s %s" % (a.coq(), op[1], b.coq()))
        return Bool()

    def ev_IfExp(self, n, st):
        a, b = self.ev(n.body, st), self.ev(n.orelse, st)
        return self.join_vals("ifexp", a, b, st)

    def ev_Attribute(self, n, st):
        v = self.ev(n.value, st)
        if isinstance(v, Arr):
            if n.attr == "shape":
                return Tup(v.shape)
            if n.attr == "size" and len(v.shape) == 1:
                return v.shape[0]
            if n.attr == "ndim":
                return Aff(k=len(v.shape))
            if n.attr == "T":
                return Arr(reversed(v.shape))
        return Unk("attribute " + n.attr)

    def ev_Subscript(self, n, st, store=False):
        base = self.ev(n.value, st)
        text = ast.unparse(n)
        idx = n.slice
        if isinstance(base, Tup):
            i = self.ev(idx, st)
            if isinstance(i, Aff) and i.const() is not None and -len(base.items) <= i.const() < len(base.items):
                return base.items[i.const()]
            self.emit(st, n, "index", text, None, "tuple index")
            return Unk("tuple index")
        if isinstance(base, Lst):
            i = self.ev(idx, st)
            if isinstance(i, Aff):
                self.emit(st, n, "index", text, "-%s <= %s < %s" % (base.n.coq(), i.coq(), base.n.coq()))
                return base.elem if base.elem is not None else Unk("list element")
            self.emit(st, n, "index", text, None, "list index not affine")
            return Unk("list element")
        if not isinstance(base, Arr):
            if isinstance(n.value, ast.Name) and n.value.id in ("float64", "int16", "int32", "uint8", "float32", "int64", "uint32", "int8", "boolean"):
                return Unk("type expression")
            self.emit(st, n, "index", text, None, "array of unknown shape (%s)" % getattr(base, "why", type(base).__name__))
            return Unk("subscript of unknown")
        items = idx.elts if isinstance(idx, ast.Tuple) else [idx]
        if len(items) > len(base.shape):
            self.emit(st, n, "index", text, None, "more indices than dimensions")
            return Unk("rank")
        out_shape = []
        for ax, it in enumerate(items):
            d = base.shape[ax]
            if isinstance(it, ast.Slice):
                if it.step is not None:
                    self.emit(st, n, "index", text, None, "slice step")
                    out_shape.append(Aff.sym(self.fresh("len")))
                    continue
                lo = self.ev(it.lower, st) if it.lower is not None else Aff(k=0)
                hi = self.ev(it.upper, st) if it.upper is not None else d
                if it.lower is None and it.upper is None:
                    out_shape.append(d)
                elif isinstance(lo, Aff) and isinstance(hi, Aff):
                    L = self.fresh("len")
                    st.facts.append("%s = slice_len %s %s %s" % (L, d.coq(), lo.coq(), hi.coq()))
                    out_shape.append(Aff.sym(L))
                else:
                    L = self.fresh("len")
                    st.facts.append("0 <= %s <= %s" % (L, d.coq()))
                    out_shape.append(Aff.sym(L))
                continue
            v = self.ev(it, st)
            if isinstance(v, Aff):
                self.emit(st, n, "index", text, "-%s <= %s < %s" % (d.coq(), v.coq(), d.coq()))
            elif isinstance(v, Arr) and len(v.shape) == 1:          # boolean mask / index array along this axis
                self.emit(st, n, "mask", text, "%s = %s" % (v.shape[0].coq(), d.coq()))
                L = self.fresh("len")
                st.facts.append("0 <= %s <= %s" % (L, d.coq()))
                out_shape.append(Aff.sym(L))
            else:
                self.emit(st, n, "index", text, None, "index is not an affine integer expression (%s)" % getattr(v, "why", "?"))
        out_shape += base.shape[len(items):]
        if out_shape:
            return Arr(out_shape, base.elem)
        if base.elem:
            e = self.fresh("e")
            st.facts.append(base.elem.replace("v", e))
            return Aff.sym(e)
        return Unk("element")

    def shape_of(self, v):
        """shape argument of an allocation"""
        if isinstance(v, Aff):
            return [v]
        if isinstance(v, Tup) and all(isinstance(x, Aff) for x in v.items):
            return list(v.items)
        return None

    def ev_Call(self, n, st):
        f = n.func
        name = f.id if isinstance(f, ast.Name) else (f.attr if isinstance(f, ast.Attribute) else None)
        args = [self.ev(a, st) for a in n.args]
        kw = {k.arg: self.ev(k.value, st) for k in n.keywords}
        recv = self.ev(f.value, st) if isinstance(f, ast.Attribute) else None
        is_np = isinstance(f, ast.Attribute) and isinstance(f.value, ast.Name) and f.value.id == "np"
        if isinstance(f, ast.Attribute) and not is_np and isinstance(recv, (Arr, Lst)):
            if name in ("copy", "astype", "flatten", "ravel") and isinstance(recv, Arr):
                if name in ("flatten", "ravel") and len(recv.shape) != 1:
                    return Unk("flatten of n-d")
                return Arr(recv.shape, recv.elem)
            if name in ("sum", "any", "all", "mean", "min", "max", "std"):
                return Unk("reduction")
            if name == "append" and isinstance(recv, Lst) and isinstance(f.value, ast.Name):
                st.env[f.value.id] = Lst(recv.n.add(Aff(k=1)), args[0] if recv.elem is None else recv.elem)
                return Unk("append")
            return Unk("method " + name)
        if name in ("zeros", "ones", "empty") and (is_np or isinstance(f, ast.Name)):
            sh = self.shape_of(args[0] if args else kw.get("shape"))
            return Arr(sh) if sh else Unk("allocation of unknown shape")
        if name == "full" and is_np:
            sh = self.shape_of(args[0])
            return Arr(sh) if sh else Unk("allocation of unknown shape")
        if name in ("zeros_like", "ones_like", "full_like", "empty_like") and isinstance(args[0], Arr):
            return Arr(args[0].shape)
        if name == "array" and is_np:
            v = args[0]
            if isinstance(v, Lst):
                if isinstance(v.elem, Lst):
                    return Arr([v.n, v.elem.n])
                return Arr([v.n])
            if isinstance(v, Arr):
                return Arr(v.shape)
            return Unk("np.array of unknown")
        if name == "len":
            v = args[0]
            if isinstance(v, Arr):
                return v.shape[0]
            if isinstance(v, Lst):
                return v.n
            if isinstance(v, Tup):
                return Aff(k=len(v.items))
            return Unk("len of unknown")
        if name in ("int", "float", "float64", "float32", "int64", "int16", "int32") and args:
            return args[0] if isinstance(args[0], Aff) else Unk("cast")
        if name == "where" and is_np:
            if len(args) == 3:
                return Arr(next((a.shape for a in args if isinstance(a, Arr)), []))
            if isinstance(args[0], Arr) and len(args[0].shape) == 1:
                L = self.fresh("len")
                st.facts.append("0 <= %s <= %s" % (L, args[0].shape[0].coq()))
                return Tup([Arr([Aff.sym(L)])])
            return Unk("where")
        if name == "unique" and is_np and isinstance(args[0], Arr) and len(args[0].shape) == 1:
            L = self.fresh("len")
            d = args[0].shape[0].coq()
            st.facts.append("0 <= %s <= %s" % (L, d))
            return Arr([Aff.sym(L)])
        if name == "arange" and is_np:
            if len(n.args) == 1 and isinstance(args[0], Aff):
                L = self.fresh("len")
                st.facts.append("%s = Z.max 0 %s" % (L, args[0].coq()))
                return Arr([Aff.sym(L)])
            try:
                import numpy as np
                vals = [ast.literal_eval(a) for a in n.args]
                return Arr([Aff(k=len(np.arange(*vals)))])
            except Exception:  # noqa
                return Unk("arange")
        if name in ("round", "clip") and is_np:
            outn = n.args[-1] if len(n.args) >= 3 and isinstance(n.args[-1], (ast.Name, ast.Subscript)) else None
            if outn is not None:
                if isinstance(outn, ast.Name):
                    st.written[outn.id] = True
                    o = args[-1]
                    if isinstance(o, Arr) and isinstance(args[0], Arr) and len(o.shape) == len(args[0].shape):
                        for a, b in zip(args[0].shape, o.shape):
                            self.emit(st, n, "shape", ast.unparse(n), "%s = %s" % (a.coq(), b.coq()))
                else:
                    self.ev_Subscript(outn, st, store=True)
            return args[0] if isinstance(args[0], Arr) else Unk("round")
        if is_np and name in ("cos", "sin", "abs", "sqrt", "log", "log10", "exp", "isnan", "isinf", "isfinite", "diff", "square", "power"):
            return Arr(args[0].shape) if isinstance(args[0], Arr) else Unk("elementwise")
        if is_np and name in ("sum", "median", "nanmedian", "mean", "nanmean", "max", "min", "any", "all", "std"):
            return Unk("reduction")
        if name in self.funcs and name in CONTRACTS:                 # call of another kernel: its contract is an obligation here
            return self.call_kernel(n, name, args, st)
        if name in ("pow", "log", "sqrt", "abs", "round", "erf", "isnan", "min", "max", "bool") or (isinstance(f, ast.Attribute) and isinstance(f.value, ast.Name)
                                                                                                   and f.value.id in ("sc", "math")):
            return Unk("scalar function")
        if name == "prange" or name == "range":
            return Unk("range")
        self.unsupported.append((self.cur, getattr(n, "lineno", 0), ast.unparse(n)[:80]))
        return Unk("call " + str(name))

    def call_kernel(self, n, name, args, st):
        c = CONTRACTS[name]
        fd = self.funcs[name][1]
        pnames = [a.arg for a in fd.args.args]
        sub = {}
        ok = True
        for pn, av in zip(pnames, args):
            kind = c["params"].get(pn) if "params" in c else None
            if isinstance(kind, tuple):
                if not isinstance(av, Arr) or len(av.shape) != len(kind[1]):
                    ok = False
                    continue
                for dsym, dv in zip(kind[1], av.shape):
                    if dsym in sub:
                        self.emit(st, n, "call", "%s: %s" % (name, pn), "%s = %s" % (sub[dsym].coq(), dv.coq()))
                    else:
                        sub[dsym] = dv
            elif kind == "int" and isinstance(av, Aff):
                sub[pn] = av
        if not ok:
            self.emit(st, n, "call", ast.unparse(n)[:60], None, "argument of unknown shape passed to " + name)
        for f in c.get("facts", []):
            if fact_syms(f) <= set(sub):
                g = IDENT.sub(lambda m: sub[m.group(0)].coq() if m.group(0) in sub else m.group(0), f)
                self.emit(st, n, "call", "%s requires %s" % (name, f), g)
        rets = []
        for r in c.get("returns", []):
            if isinstance(r, tuple):
                dims = []
                for dsym in r[1]:
                    if dsym.isdigit():
                        dims.append(Aff(k=int(dsym)))
                    elif dsym in sub:
                        dims.append(sub[dsym])
                    else:
                        dims.append(Aff.sym(self.fresh("len")))
                rets.append(Arr(dims))
            else:
                rets.append(Unk("result of " + name))
        return rets[0] if len(rets) == 1 else Tup(rets)

    # -------------------------------------------------------------------------------------------- statements
    def join_vals(self, nm, a, b, st, ca=None, cb=None):
        if isinstance(a, Aff) and isinstance(b, Aff):
            if a == b:
                return a
            s = self.fresh(nm)
            fa = "%s = %s" % (s, a.coq())
            fb = "%s = %s" % (s, b.coq())
            if ca:
                fa = "(%s) /\\ %s" % (ca, fa)
            if cb:
                fb = "(%s) /\\ %s" % (cb, fb)
            st.facts.append("(%s) \\/ (%s)" % (fa, fb))
            return Aff.sym(s)
        if isinstance(a, Arr) and isinstance(b, Arr) and len(a.shape) == len(b.shape):
            return Arr([self.join_vals(nm + "d", x, y, st, ca, cb) for x, y in zip(a.shape, b.shape)], a.elem if a.elem == b.elem else None)
        if isinstance(a, Lst) and isinstance(b, Lst):
            return Lst(self.join_vals(nm + "n", a.n, b.n, st, ca, cb), a.elem if a.elem is not None else b.elem)
        if isinstance(a, Tup) and isinstance(b, Tup) and len(a.items) == len(b.items):
            return Tup([self.join_vals(nm, x, y, st, ca, cb) for x, y in zip(a.items, b.items)])
        if type(a) is type(b) and isinstance(a, (Unk, Bool)):
            return a if isinstance(a, Unk) else Bool()
        return Unk("join of different kinds")

    def merge(self, st, s1, s2, c1=None, c2=None):
        """st := join of the two branch states"""
        if s1.dead and s2.dead:
            st.dead = True
            return
        if s1.dead or s2.dead:
            live, cond = (s2, c2) if s1.dead else (s1, c1)
            st.env, st.facts, st.written = live.env, live.facts, live.written
            return
        base = len(st.facts)
        common = st.facts[:]
        # facts added inside a branch hold only there: keep them guarded by nothing (they mention branch-local symbols only if fresh)
        extra1 = [f for f in s1.facts[base:]]
        extra2 = [f for f in s2.facts[base:]]
        # path conditions are the first fact added in each branch (if representable); drop them, keep definitional facts of fresh symbols
        keep = []
        for ex, c in ((extra1, c1), (extra2, c2)):
            for f in ex:
                if c is not None and f == c:
                    continue
                if c is not None:
                    keep.append("(%s) -> (%s)" % (c, f))
                else:
                    keep.append(None)           # cannot be attributed: dropped (sound)
        st.facts = common + [k for k in keep if k]
        env = {}
        for k in set(s1.env) | set(s2.env):
            if k in s1.env and k in s2.env:
                env[k] = self.join_vals(k, s1.env[k], s2.env[k], st, c1, c2)
            else:
                env[k] = Unk("defined on one path only")
        st.env = env
        st.written = {k: s1.written.get(k, False) and s2.written.get(k, False) for k in set(s1.written) | set(s2.written)}

    def bind(self, target, val, st):
        if isinstance(target, ast.Name):
            st.env[target.id] = val
        elif isinstance(target, (ast.Tuple, ast.List)):
            for i, t in enumerate(target.elts):
                v = val.items[i] if isinstance(val, Tup) and i < len(val.items) else Unk("unpacking")
                self.bind(t, v, st)
        elif isinstance(target, ast.Subscript):
            self.store(target, val, st)

    def store(self, target, val, st):
        self.ev_Subscript(target, st, store=True)
        if isinstance(target.value, ast.Name):
            nm = target.value.id
            base = st.env.get(nm)
            idx = target.slice
            items = idx.elts if isinstance(idx, ast.Tuple) else [idx]
            full = all(isinstance(i, ast.Slice) and i.lower is None and i.upper is None and i.step is None for i in items)
            if isinstance(base, Arr):
                if full and len(items) <= len(base.shape):
                    st.written[nm] = True
                elif len(base.shape) == 1 and base.shape[0].const() == 1 and len(items) == 1 and not isinstance(items[0], ast.Slice):
                    st.written[nm] = True                      # the single cell of a "()" gufunc output
                elif len(items) == 1 and isinstance(items[0], ast.Slice) and items[0].lower is not None and items[0].upper is not None:
                    lo, hi = self.ev(items[0].lower, st), self.ev(items[0].upper, st)
                    if isinstance(lo, Aff) and lo.const() == 0 and isinstance(hi, Aff) and hi == base.shape[0]:
                        st.written[nm] = True

    def assigned_names(self, body):
        out = set()
        for s in body:
            for x in ast.walk(s):
                if isinstance(x, ast.Name) and isinstance(x.ctx, ast.Store):
                    out.add(x.id)
                if isinstance(x, ast.AugAssign) and isinstance(x.target, ast.Name):
                    out.add(x.target.id)
                if isinstance(x, ast.Call) and isinstance(x.func, ast.Attribute) and x.func.attr == "append" and isinstance(x.func.value, ast.Name):
                    out.add(x.func.value.id)
        return out

    def havoc(self, st, names, body, loopvar=None, rng=None):
        own = {loopvar: rng} if loopvar and rng else {}
        """forget what the loop body may change; integer variables that are only ever set to the loop variable of an
        enclosed loop or to a constant keep the union of those values (the argmin pattern)"""
        for nm in names:
            if nm not in st.env:
                continue
            old = st.env.get(nm)
            if isinstance(old, Arr):
                # arrays re-bound in the loop: keep the shape when every re-binding has the same shape - decided after the
                # first pass of the body (see exec_For); here keep it
                continue
            if isinstance(old, Lst):
                continue
            if isinstance(old, Aff):
                alts = self.simple_alternatives(nm, body, st, own)
                if alts is None:
                    st.env[nm] = Unk("cursor: advanced inside a loop")
                    continue
                s = self.fresh(nm)
                st.facts.append(" \\/ ".join(["(%s = %s)" % (s, old.coq())] + ["(%s)" % a.replace("@", s) for a in alts]))
                st.env[nm] = Aff.sym(s)
            else:
                st.env[nm] = Unk("changed in a loop")

    def simple_alternatives(self, nm, body, st, own=None):
        alts = []
        ranges = dict(own or {})

        def scan(stmts):
            for s in stmts:
                if isinstance(s, ast.For) and isinstance(s.target, ast.Name):
                    r = self.range_of(s.iter, st, quiet=True)
                    ranges_saved = dict(ranges)
                    if r:
                        ranges[s.target.id] = r
                    if s.target.id == nm:
                        if r is None:
                            return False
                        alts.append("%s" % r[2].replace("#", "@"))
                    if scan(s.body) is False:
                        return False
                    ranges.clear()
                    ranges.update(ranges_saved)
                elif isinstance(s, (ast.If, ast.While)):
                    if scan(s.body) is False or scan(s.orelse) is False:
                        return False
                elif isinstance(s, ast.Assign) and any(isinstance(t, ast.Name) and t.id == nm for t in s.targets):
                    v = s.value
                    if isinstance(v, ast.Constant) and isinstance(v.value, int):
                        alts.append("@ = %d" % v.value)
                    elif isinstance(v, ast.Name) and v.id in ranges:
                        alts.append(ranges[v.id][2].replace("#", "@"))
                    else:
                        return False
                elif isinstance(s, ast.AugAssign) and isinstance(s.target, ast.Name) and s.target.id == nm:
                    return False
                elif isinstance(s, ast.Assign):
                    for t in s.targets:
                        for x in ast.walk(t):
                            if isinstance(x, ast.Name) and x.id == nm and isinstance(x.ctx, ast.Store):
                                return False
            return True

        return alts if scan(body) is not False else None

    def range_of(self, it, st, quiet=False):
        """(lo, hi, fact-template with # for the variable) for range(...) / prange(...) with step 1 or -1"""
        if not (isinstance(it, ast.Call) and ((isinstance(it.func, ast.Name) and it.func.id == "range") or
                                              (isinstance(it.func, ast.Attribute) and it.func.attr == "prange"))):
            return None
        s2 = st.copy() if quiet else st
        a = [self.ev(x, s2) for x in it.args]
        if not all(isinstance(x, Aff) for x in a):
            return None
        if len(a) == 1:
            return (Aff(k=0), a[0], "0 <= # < %s" % a[0].coq())
        if len(a) == 2:
            return (a[0], a[1], "%s <= # < %s" % (a[0].coq(), a[1].coq()))
        if a[2].const() == 1:
            return (a[0], a[1], "%s <= # < %s" % (a[0].coq(), a[1].coq()))
        if a[2].const() == -1:
            return (a[1], a[0], "%s < # <= %s" % (a[1].coq(), a[0].coq()))
        return None

    def exec_block(self, body, st):
        for s in body:
            if st.dead:
                break
            self.exec_stmt(s, st)

    def exec_stmt(self, s, st):
        m = getattr(self, "st_" + type(s).__name__, None)
        if m is None:
            self.unsupported.append((self.cur, s.lineno, "statement " + type(s).__name__))
            return
        m(s, st)

    def st_Pass(self, s, st):
        pass

    def st_Assert(self, s, st):
        v = self.ev(s.test, st)
        if isinstance(v, Bool) and v.pos:
            st.facts.append(v.pos)

    def st_Expr(self, s, st):
        self.ev(s.value, st)

    def st_Assign(self, s, st):
        v = self.ev(s.value, st)
        for t in s.targets:
            if isinstance(t, ast.Name) and isinstance(v, Arr):
                fn = s.value.func if isinstance(s.value, ast.Call) else None
                nm = fn.attr if isinstance(fn, ast.Attribute) else (fn.id if isinstance(fn, ast.Name) else "")
                st.written[t.id] = nm not in ("empty", "empty_like")
            self.bind(t, v, st)

    def st_AugAssign(self, s, st):
        if isinstance(s.target, ast.Name):
            cur = st.env.get(s.target.id, Unk("undefined"))
            v = self.ev(s.value, st)
            if isinstance(cur, Aff) and isinstance(v, Aff) and isinstance(s.op, (ast.Add, ast.Sub)):
                st.env[s.target.id] = cur.add(v, 1 if isinstance(s.op, ast.Add) else -1)
            elif isinstance(cur, Arr):
                pass
            else:
                st.env[s.target.id] = Unk("augmented")
        else:
            self.ev(s.value, st)
            self.ev_Subscript(s.target, st, store=True)

    def st_Return(self, s, st):
        v = self.ev(s.value, st) if s.value is not None else None
        self.returns.append((s, v, st.copy()))
        names = []
        if s.value is not None:
            els = s.value.elts if isinstance(s.value, ast.Tuple) else [s.value]
            names = [e.id for e in els if isinstance(e, ast.Name) and isinstance(st.env.get(e.id), Arr)]
        self.check_written(s, st, names)
        st.dead = True

    def check_written(self, node, st, names):
        for nm in list(names) + self.outputs:
            if not st.written.get(nm, False):
                self.emit(st, node, "written", nm, None, "not shown to be completely written on this path")

    def st_Continue(self, s, st):
        st.dead = True
        self.loop_exits.append(st.copy())

    def st_Break(self, s, st):
        st.dead = True
        self.loop_exits.append(st.copy())

    def st_If(self, s, st):
        v = self.ev(s.test, st)
        if isinstance(s.test, ast.Name) and isinstance(st.env.get(s.test.id), Aff):
            a = st.env[s.test.id].coq()
            v = Bool("%s <> 0" % a, "%s = 0" % a)
        if isinstance(s.test, ast.UnaryOp) and isinstance(s.test.op, ast.Not) and isinstance(s.test.operand, ast.Name) \
                and isinstance(st.env.get(s.test.operand.id), Aff):
            a = st.env[s.test.operand.id].coq()
            v = Bool("%s = 0" % a, "%s <> 0" % a)
        pos = v.pos if isinstance(v, Bool) else None
        neg = v.neg if isinstance(v, Bool) else None
        s1, s2 = st.copy(), st.copy()
        if pos == "False":
            s1.dead = True
        elif pos and pos != "True":
            s1.facts.append(pos)
        if neg == "False":
            s2.dead = True
        elif neg and neg != "True":
            s2.facts.append(neg)
        self.exec_block(s.body, s1)
        self.exec_block(s.orelse, s2)
        self.merge(st, s1, s2, pos if pos not in (None, "True", "False") else None, neg if neg not in (None, "True", "False") else None)
        # a branch that left (return / continue / break) leaves its negated guard behind for what follows
        if s1.dead and not s2.dead and neg and neg not in ("True", "False") and neg not in st.facts:
            st.facts.append(neg)
        if s2.dead and not s1.dead and pos and pos not in ("True", "False") and pos not in st.facts:
            st.facts.append(pos)

    def st_For(self, s, st):
        names = self.assigned_names(s.body) | self.assigned_names([s.target] if False else [])
        tnames = {x.id for x in ast.walk(s.target) if isinstance(x, ast.Name)}
        rng = self.range_of(s.iter, st)
        itv = None if rng else self.ev(s.iter, st)
        pre = st.copy()
        # lists that grow by exactly one top-level append per iteration of a range(N) loop have length pre + i inside the body
        counted = {}
        if rng and rng[0].const() == 0:
            for nm in names:
                if isinstance(st.env.get(nm), Lst):
                    apps = [x for x in ast.walk(ast.Module(body=s.body, type_ignores=[])) if isinstance(x, ast.Call) and isinstance(x.func, ast.Attribute)
                            and x.func.attr == "append" and isinstance(x.func.value, ast.Name) and x.func.value.id == nm]
                    top = [b for b in s.body if isinstance(b, ast.Expr) and isinstance(b.value, ast.Call) and b.value in apps]
                    rebinds = [x for b in s.body for x in ast.walk(b) if isinstance(x, ast.Name) and x.id == nm and isinstance(x.ctx, ast.Store)]
                    if len(apps) == 1 and len(top) == 1 and not rebinds:
                        counted[nm] = st.env[nm]
        self.havoc(st, names - tnames - set(counted), s.body, s.target.id if isinstance(s.target, ast.Name) else None, rng)
        body = st.copy()
        if rng:
            i = self.fresh(s.target.id if isinstance(s.target, ast.Name) else "i")
            body.facts.append(rng[2].replace("#", i))
            self.bind(s.target, Aff.sym(i), body)
            for nm, l0 in counted.items():
                body.env[nm] = Lst(l0.n.add(Aff.sym(i)), l0.elem)
        else:
            if isinstance(itv, Arr) and len(itv.shape) >= 1:
                el = Arr(itv.shape[1:], itv.elem) if len(itv.shape) > 1 else None
                if el is None and itv.elem:
                    e = self.fresh("e")
                    body.facts.append(itv.elem.replace("v", e))
                    el = Aff.sym(e)
                self.bind(s.target, el if el is not None else Unk("element"), body)
            else:
                self.bind(s.target, Unk("element of unknown iterable"), body)
        saved = self.loop_exits
        self.loop_exits = []
        if counted and not self.mute:                 # a silent first pass teaches the element kind of the lists grown in the body
            self.mute = True
            probe = body.copy()
            nret = len(self.returns)
            self.exec_block(s.body, probe)
            del self.returns[nret:]
            self.mute = False
            for nm in counted:
                pv = probe.env.get(nm)
                if isinstance(pv, Lst) and counted[nm].elem is None and pv.elem is not None:
                    counted[nm] = Lst(counted[nm].n, pv.elem)
                    body.env[nm] = Lst(body.env[nm].n, pv.elem)
        self.exec_block(s.body, body)
        self.loop_exits = saved
        # after the loop: what held before it, with everything the body may change forgotten (body ran 0.. times)
        for nm in names | tnames:
            if nm in counted and rng:
                st.env[nm] = Lst(counted[nm].n.add(rng[1]), counted[nm].elem if counted[nm].elem is not None else body.env[nm].elem)
                st.facts.append("0 <= %s" % rng[1].coq()) if False else None
                continue
            old, new = st.env.get(nm), body.env.get(nm)
            if isinstance(old, Arr) and isinstance(new, Arr) and len(old.shape) == len(new.shape) and all(a == b for a, b in zip(old.shape, new.shape)):
                continue
            if isinstance(old, Arr) and not body.dead and isinstance(new, Arr):
                st.env[nm] = self.join_vals(nm, old, new, st)
                continue
            if nm in tnames and rng and isinstance(s.target, ast.Name):
                v = self.fresh(nm)
                o = pre.env.get(nm)
                alt = "(%s)" % rng[2].replace("#", v)
                if isinstance(o, Aff):
                    st.facts.append("(%s = %s) \\/ %s" % (v, o.coq(), alt))
                    st.env[nm] = Aff.sym(v)
                else:
                    st.env[nm] = Unk("loop variable after the loop")
                continue
            if isinstance(st.env.get(nm), Aff) and nm in names:
                continue                                           # already havoced (with alternatives) before the body
            if nm not in st.env and new is not None:
                st.env[nm] = new if isinstance(new, Arr) else Unk("defined in a loop")
        self.exec_block(s.orelse, st)

    def st_While(self, s, st):
        names = self.assigned_names(s.body)
        self.havoc(st, names, s.body)
        body = st.copy()
        v = self.ev(s.test, body)
        if isinstance(v, Bool) and v.pos:
            body.facts.append(v.pos)
        saved = self.loop_exits
        self.loop_exits = []
        self.exec_block(s.body, body)
        self.loop_exits = saved

    # -------------------------------------------------------------------------------------------- functions
    def load(self):
        for fn in FILES:
            path = os.path.join(self.repo, OPS, fn)
            tree = ast.parse(open(path).read())
            for node in tree.body:
                if isinstance(node, ast.FunctionDef):
                    layout = None
                    for d in node.decorator_list:
                        for c in ast.walk(d):
                            if isinstance(c, ast.Constant) and isinstance(c.value, str) and "->" in c.value:
                                layout = c.value
                    self.funcs[node.name] = (fn, node, layout)

    def analyse(self, name):
        fn, fd, layout = self.funcs[name]
        c = CONTRACTS.get(name)
        self.cur, self.curfile = name, fn
        self.outputs, self.returns, self.loop_exits = [], [], []
        st = State()
        pnames = [a.arg for a in fd.args.args]
        if c is None:
            self.vcs.append(dict(func=name, file=fn, line=fd.lineno, col=0, kind="contract", text=name, facts=[], goal=None, manual=None,
                                 why="kernel without a contract entry in vcgen.CONTRACTS"))
            return
        if layout:
            ins, outs = layout.replace(" ", "").split("->")
            specs = re.findall(r"\(([^)]*)\)", ins) + re.findall(r"\(([^)]*)\)", outs)
            n_in = len(re.findall(r"\(([^)]*)\)", ins))
            for i, (pn, sp) in enumerate(zip(pnames, specs)):
                dims = [d for d in sp.split(",") if d]
                if dims:
                    st.env[pn] = Arr([Aff.sym(d) for d in dims], (c.get("elem") or {}).get(pn))
                    for d in dims:
                        f = "0 <= %s" % d
                        if f not in st.facts:
                            st.facts.append(f)
                    st.written[pn] = i < n_in
                elif i >= n_in:
                    st.env[pn] = Arr([Aff(k=1)])
                    st.written[pn] = False
                else:
                    st.env[pn] = Aff.sym(pn) if pn in c.get("ints", []) else Unk("scalar parameter")
                if i >= n_in:
                    self.outputs.append(pn)
        else:
            for pn in pnames:
                kind = c["params"].get(pn, "num")
                if isinstance(kind, tuple):
                    st.env[pn] = Arr([Aff.sym(d) for d in kind[1]], (c.get("elem") or {}).get(pn))
                    st.written[pn] = True
                elif kind in ("int", "bool"):
                    st.env[pn] = Aff.sym(pn)
                else:
                    st.env[pn] = Unk("numeric parameter")
        st.facts += [f for f in c.get("facts", []) if f not in st.facts]
        self.exec_block(fd.body, st)
        if not st.dead:
            self.check_written(fd, st, [])
        # the shapes promised to callers
        for (rs, v, rst) in self.returns:
            want = c.get("returns")
            if not want:
                continue
            got = v.items if isinstance(v, Tup) and len(want) > 1 else [v]
            for w, g in zip(want, got):
                if isinstance(w, tuple):
                    if not isinstance(g, Arr) or len(g.shape) != len(w[1]):
                        self.emit(rst, rs, "ret", "return shape of " + name, None, "returned value is not an array of the promised rank")
                        continue
                    for dsym, dv in zip(w[1], g.shape):
                        self.emit(rst, rs, "ret", "return shape of %s (%s)" % (name, dsym), "%s = %s" % (dv.coq(), dsym))

    def run(self):
        self.load()
        for name in self.funcs:
            self.analyse(name)
        return self

    def ast_hash(self, name):
        return hashlib.sha256(ast.dump(self.funcs[name][1]).encode()).hexdigest()[:16]

    # -------------------------------------------------------------------------------------------- Coq output
    def coq(self):
        lines = ["(* generated by tools/vcgen.py from the current source of hdc/algo/ops - do not edit *)",
                 "From Coq Require Import ZArith Lia.", "From HDC Require Import Base.VC Proofs.SafetyProofs.", "Open Scope Z_scope.", ""]
        seen = {}
        k = 0
        for vc in self.vcs:
            if vc["goal"] is None:
                if vc["manual"]:
                    lines.append("(* %s:%d %s `%s`: hand proof %s *)" % (vc["file"], vc["line"], vc["kind"], vc["text"], vc["manual"]))
                    lines.append("Check %s." % vc["manual"])
                continue
            syms = sorted(set().union(*[fact_syms(f) for f in vc["facts"] + [vc["goal"]]]))
            stmt = ("forall %s : Z, " % " ".join(syms) if syms else "") + " -> ".join(["(%s)" % f for f in vc["facts"]] + ["(%s)" % vc["goal"]])
            if stmt in seen:
                vc["lemma"] = seen[stmt]
                continue
            k += 1
            nm = "vc_%s_L%d_%d" % (vc["func"].strip("_"), vc["line"], k)
            seen[stmt] = nm
            vc["lemma"] = nm
            lines.append("(* %s:%d:%d %s `%s` *)" % (vc["file"], vc["line"], vc["col"], vc["kind"], vc["text"]))
            lines.append("Lemma %s : %s." % (nm, stmt))
            lines.append("Proof. vc_tac. Qed.")
        return "\n".join(lines) + "\n"


if __name__ == "__main__":
    g = Gen(sys.argv[1] if len(sys.argv) > 1 else "/repo").run()
    auto = [v for v in g.vcs if v["goal"] is not None]
    man = [v for v in g.vcs if v["goal"] is None and v["manual"]]
    bad = [v for v in g.vcs if v["goal"] is None and not v["manual"]]
    print("functions", len(g.funcs), "VCs", len(auto), "manual", len(man), "undecided", len(bad))
    for v in bad:
        print("  UNDECIDED %s:%d %s `%s` - %s" % (v["file"], v["line"], v["kind"], v["text"], v["why"]))
    for u in g.unsupported:
        print("  unsupported", u)
    if len(sys.argv) > 2:
        open(sys.argv[2], "w").write(g.coq())
