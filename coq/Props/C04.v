(** C04 — V-curve selection is optimal on the grid and self-consistent. Statements only. *)
From Coq Require Import ZArith Reals Lra List QArith.
From HDC Require Import Base.Prelude Base.Ops Base.OpsQ Model.Ws2d Model.Smoothers Model.VCurve
     Proofs.SmoothersProofs Proofs.VCurveProofs.

(** the reported lambda is 10 ** (midpoint of two consecutive srange entries) — any carrier,
    hence also of the binary64 run *)
Theorem C04_lopt_is_midpoint : forall (F : Type) (O : Ops F) llas fits pens lopt,
  lopt_of O llas fits pens = Some lopt ->
  exists k, (S k < length llas)%nat /\
    lopt = fpow10 O (fdiv O (fadd O (nth k llas (f0 O)) (nth (S k) llas (f0 O))) (fofZ O 2)).
Proof. exact @lopt_is_midpoint. Qed.
Print Assumptions C04_lopt_is_midpoint.

(** the selected V-curve point is the first minimum of the computed ordinates *)
Theorem C04_first_minimum : forall vs r d,
  select OpsR vs = Some r ->
  exists k, (k < length vs)%nat /\ nth k vs d = r /\
    (forall j, (j < k)%nat -> (fst r < fst (nth j vs d))%R) /\ (forall x, In x vs -> (fst r <= fst x)%R).
Proof. exact select_is_first_min. Qed.
Print Assumptions C04_first_minimum.

(** the band is exactly the fixed-lambda smoother at the reported lambda *)
Theorem C04_band_is_gu : forall y nd llas z lopt,
  ws2doptv OpsR y nd llas = VFit z lopt -> ws2dgu OpsR y lopt nd = Curve z.
Proof.
  intros y nd llas z lopt H. apply (optv_band_is_gu y nd llas z lopt H).
  unfold ws2doptv, optv_core in H. destruct (fltb OpsR _ _); [|discriminate].
  destruct (lopt_of OpsR llas _ _) as [lo|] eqn:E; [|discriminate]. injection H as _ <-. exact (lopt_nonzero _ _ _ _ E).
Qed.
Print Assumptions C04_band_is_gu.

Theorem C04_band_is_pgu : forall y nd p llas z lopt,
  (4 <= length y)%nat -> ws2doptvp OpsR y nd p llas = VFit z lopt -> ws2dpgu OpsR y lopt nd p = Curve z.
Proof.
  intros y nd p llas z lopt Hn H. apply (optvp_band_is_pgu y nd p llas z lopt Hn H).
  unfold ws2doptvp, optvp_core in H. destruct (fltb OpsR _ _); [|discriminate].
  destruct (lopt_of OpsR llas _ _) as [lo|] eqn:E; [|discriminate]. injection H as _ <-. exact (lopt_nonzero _ _ _ _ E).
Qed.
Print Assumptions C04_band_is_pgu.

(** autocorrelation variant: grid -2..1.0 where lc > 0.5, 0..3.0 elsewhere (also for NaN: the
    comparison is false), then exactly the asymmetric V-curve smoother on that grid *)
Theorem C04_lc_grid : forall (F : Type) (O : Ops F) ghi glo y nd p lc,
  ws2doptvplc O ghi glo y nd p lc =
  ws2doptvp O y nd p (if fltb O (fdiv O (fofZ O 1) (fofZ O 2)) lc then ghi else glo).
Proof. exact @optvplc_grid. Qed.
Print Assumptions C04_lc_grid.

(** fewer than two valid cells: unchanged, lambda reported as 0 ([VPass]) *)
Theorem C04_passthrough : forall y nd p llas,
  (rsum (weights_eq OpsR nd y) <= 1)%R -> ws2doptv OpsR y nd llas = VPass /\ ws2doptvp OpsR y nd p llas = VPass.
Proof.
  intros y nd p llas H. unfold ws2doptv, ws2doptvp.
  replace (fltb OpsR (f1 OpsR) (fsum OpsR (weights_eq OpsR nd y))) with false; [split; reflexivity|].
  symmetry. cbn [fltb f1 OpsR]. rewrite fsum_rsum. apply Bool.not_true_is_false. intros E. apply Rltb_true in E. lra.
Qed.
Print Assumptions C04_passthrough.

(** Non-vacuity of the selection statement, executed in exact rationals: ties go to the first. *)
Example C04_example :
  select OpsQ [(3, 10); (1, 20); (1, 30); (2, 40)]%Q = Some (1, 20)%Q /\
  lopt_of OpsQ [0; 1; 2]%Q [5; 3; 4]%Q [1; 2; 2]%Q <> None.
Proof. split; [vm_compute; reflexivity|vm_compute; discriminate]. Qed.
