(** Finite sums of integer-indexed real sequences, and the second-difference operator. *)
From Coq Require Import ZArith Reals Lra Lia.
Open Scope R_scope.

(** [sumn f n] = f 0 + ... + f (n-1) *)
Fixpoint sumn (f : Z -> R) (n : nat) : R :=
  match n with O => 0 | S k => sumn f k + f (Z.of_nat k) end.

Lemma sumn_ext f g n : (forall i, (0 <= i < Z.of_nat n)%Z -> f i = g i) -> sumn f n = sumn g n.
Proof.
  induction n as [|n IH]; intros H; [reflexivity|]. cbn [sumn]. rewrite IH, H; [reflexivity|lia|].
  intros i Hi. apply H. lia.
Qed.

Lemma sumn_plus f g n : sumn (fun i => f i + g i) n = sumn f n + sumn g n.
Proof. induction n as [|n IH]; cbn [sumn]; [lra|]. rewrite IH. lra. Qed.

Lemma sumn_scal c f n : sumn (fun i => c * f i) n = c * sumn f n.
Proof. induction n as [|n IH]; cbn [sumn]; [lra|]. rewrite IH. lra. Qed.

Lemma sumn_nonneg f n : (forall i, (0 <= i < Z.of_nat n)%Z -> 0 <= f i) -> 0 <= sumn f n.
Proof.
  induction n as [|n IH]; intros H; cbn [sumn]; [lra|].
  assert (0 <= sumn f n) by (apply IH; intros; apply H; lia). assert (0 <= f (Z.of_nat n)) by (apply H; lia). lra.
Qed.

Lemma sumn_zero_all f n :
  (forall i, (0 <= i < Z.of_nat n)%Z -> 0 <= f i) -> sumn f n = 0 -> forall i, (0 <= i < Z.of_nat n)%Z -> f i = 0.
Proof.
  induction n as [|n IH]; intros H E i Hi; [lia|]. cbn [sumn] in E.
  assert (0 <= sumn f n) by (apply sumn_nonneg; intros; apply H; lia).
  assert (0 <= f (Z.of_nat n)) by (apply H; lia).
  destruct (Z.eq_dec i (Z.of_nat n)) as [->|N]; [lra|]. apply IH; [intros; apply H; lia|lra|lia].
Qed.

Lemma sumn_const0 n : sumn (fun _ => 0) n = 0.
Proof. induction n as [|n IH]; cbn [sumn]; lra. Qed.

Lemma sumn_all_zero f n : (forall i, (0 <= i < Z.of_nat n)%Z -> f i = 0) -> sumn f n = 0.
Proof. intros H. rewrite (sumn_ext f (fun _ => 0) n H). apply sumn_const0. Qed.

(** peel the first term *)
Lemma sumn_head f n : sumn f (S n) = f 0%Z + sumn (fun i => f (i + 1)%Z) n.
Proof.
  induction n as [|n IH]; [cbn; lra|]. cbn [sumn] in *. rewrite IH.
  replace (Z.of_nat n + 1)%Z with (Z.of_nat (S n)) by lia. lra.
Qed.

(** index shift for a sequence [g] that vanishes at -1 and at n-1:
    sum_{i<n} h_i g_{i-1} = sum_{i<n-1} h_{i+1} g_i *)
Lemma sumn_shift_down h g n :
  g (-1)%Z = 0 -> sumn (fun i => h i * g (i - 1)%Z) (S n) = sumn (fun i => h (i + 1)%Z * g i) n.
Proof.
  intros G. rewrite sumn_head. replace (0 - 1)%Z with (-1)%Z by lia. rewrite G.
  rewrite Rmult_0_r, Rplus_0_l. apply sumn_ext. intros i _. f_equal. f_equal. lia.
Qed.

Lemma sumn_drop_last f n : f (Z.of_nat n) = 0 -> sumn f (S n) = sumn f n.
Proof. intros H. cbn [sumn]. rewrite H. lra. Qed.

(** a single non-negative term is bounded by the whole sum *)
Lemma sumn_ge_term f n j :
  (forall i, (0 <= i < Z.of_nat n)%Z -> 0 <= f i) -> (0 <= j < Z.of_nat n)%Z -> f j <= sumn f n.
Proof.
  induction n as [|n IH]; intros H Hj; [lia|]. cbn [sumn].
  assert (0 <= sumn f n) by (apply sumn_nonneg; intros; apply H; lia).
  assert (0 <= f (Z.of_nat n)) by (apply H; lia).
  destruct (Z.eq_dec j (Z.of_nat n)) as [->|N]; [lra|].
  assert (f j <= sumn f n) by (apply IH; [intros; apply H; lia|lia]). lra.
Qed.

(** second differences *)
Definition D2 (z : Z -> R) (j : Z) : R := z j - 2 * z (j + 1)%Z + z (j + 2)%Z.

Lemma sumn_comb3 a b c x n : sumn (fun i => a i + x * b i + c i) n = sumn a n + x * sumn b n + sumn c n.
Proof. induction n as [|n IH]; cbn [sumn]; [lra|]. rewrite IH. lra. Qed.
