(** Models of the V-curve smoothers [ws2doptv], [ws2doptvp], [ws2doptvplc]
    (hdc/algo/ops/ws2doptv*.py), generic in the arithmetic carrier; log / pow(10, .) are oracle
    fields of [Ops], pow(x, 2) is x * x.  Executable definitions only. *)
From HDC Require Import Base.Prelude Base.Ops Model.Ws2d Model.Smoothers.

Section VCurve.
  Context {F : Type} (O : Ops F).
  Notation "x + y" := (fadd O x y). Notation "x - y" := (fsub O x y).
  Notation "x * y" := (fmul O x y). Notation "x / y" := (fdiv O x y).

  Definition sq (x : F) : F := x * x.

  (** fits[lix] = log(sum_i pow(w_i * (y_i - z_i), 2)) *)
  Definition log_fit (w y z : list F) : F :=
    flog O (fold_left (fun acc t => let '(wi, (yi, zi)) := t in acc + sq (wi * (yi - zi))) (combine w (combine y z)) (f0 O)).

  (** diff1[i] = z[i+1] - z[i] *)
  Fixpoint diffs (z : list F) : list F :=
    match z with
    | a :: ((b :: _) as r) => (b - a) :: diffs r
    | _ => []
    end.
  (** pens[lix] = log(sum_i pow(diff1[i+1] - diff1[i], 2)) *)
  Definition log_pen (z : list F) : F :=
    flog O (fold_left (fun acc d => acc + sq d) (diffs (diffs z)) (f0 O)).

  (** v[i] = sqrt((f2-f1)^2 + (p2-p1)^2) / (log(10) * llastep);  lamids[i] = (l1 + l2) / 2 *)
  Fixpoint vcurve (step : F) (llas fits pens : list F) : list (F * F) :=
    match llas, fits, pens with
    | l1 :: ((l2 :: _) as lr), f1' :: ((f2 :: _) as fr), p1 :: ((p2 :: _) as pr) =>
        (fsqrt O (sq (f2 - f1') + sq (p2 - p1)) / (flog O (fofZ O 10) * step), (l1 + l2) / fofZ O 2)
          :: vcurve step lr fr pr
    | _, _, _ => []
    end.

  (** vmin = v[0]; for i in 1..: if v[i] < vmin: vmin = v[i]; k = i   (first strict minimum) *)
  Fixpoint argmin_from (vs : list (F * F)) (best : F * F) : F * F :=
    match vs with
    | [] => best
    | x :: r => if fltb O (fst x) (fst best) then argmin_from r x else argmin_from r best
    end.
  Definition select (vs : list (F * F)) : option (F * F) :=
    match vs with [] => None | x :: r => Some (argmin_from r x) end.

  Definition llastep (llas : list F) : F := nth 1 llas (f0 O) - nth 0 llas (f0 O).

  (** lopt = pow(10, lamids[k]) *)
  Definition lopt_of (llas fits pens : list F) : option F :=
    match select (vcurve (llastep llas) llas fits pens) with
    | Some (_, lamid) => Some (fpow10 O lamid)
    | None => None
    end.

  (** result of a V-curve smoother: unrounded band and reported lambda *)
  Inductive vresult := VPass | VFit (z : list F) (lopt : F) | VStuck.

  (** symmetric: every grid lambda is solved independently with the validity weights *)
  Definition optv_core (y w : list F) (llas : list F) : vresult :=
    let zs := map (fun l => ws2d O y (fpow10 O l) w) llas in
    match lopt_of llas (map (log_fit w y) zs) (map log_pen zs) with
    | Some lopt => VFit (ws2d O y lopt w) lopt
    | None => VStuck
    end.

  Definition ws2doptv (y : list F) (nodata : F) (llas : list F) : vresult :=
    let w := weights_eq O nodata y in
    if fltb O (f1 O) (fsum O w) then optv_core y w llas else VPass.

  (** asymmetric sweep: the iterate z is carried from one grid lambda to the next *)
  Fixpoint sweep (p p1 : F) (w y : list F) (llas : list F) (z : list F) : list (list F) :=
    match llas with
    | [] => []
    | l :: r =>
        let '(_, z') := irls O 10 p p1 (fpow10 O l) w y z (zeros O (length y)) in
        z' :: sweep p p1 w y r z'
    end.

  Definition optvp_core (y w : list F) (p : F) (llas : list F) : vresult :=
    let p1 := f1 O - p in
    let zs := sweep p p1 w y llas (zeros O (length y)) in
    match lopt_of llas (map (log_fit w y) zs) (map log_pen zs) with
    | Some lopt => VFit (asym_fit O p lopt w y) lopt
    | None => VStuck
    end.

  Definition ws2doptvp (y : list F) (nodata p : F) (llas : list F) : vresult :=
    let w := weights_eq O nodata y in
    if fltb O (f1 O) (fsum O w) then optvp_core y w p llas else VPass.

  (** grid from the lag-1 correlation: [grid_hi] = arange(-2, 1.2, 0.2) if lc > 0.5, else
      [grid_lo] = arange(0, 3.2, 0.2) (also for NaN, after the fix: commit) *)
  Definition ws2doptvplc (grid_hi grid_lo : list F) (y : list F) (nodata p lc : F) : vresult :=
    let w := weights_eq O nodata y in
    if fltb O (f1 O) (fsum O w) then
      optvp_core y w p (if fltb O (fofZ O 1 / fofZ O 2) lc then grid_hi else grid_lo)
    else VPass.
End VCurve.
Arguments VPass {F}. Arguments VFit {F} z lopt. Arguments VStuck {F}.
