(** Models of the fixed-lambda smoothers [ws2dgu] and [ws2dpgu] (hdc/algo/ops/ws2dgu.py,
    ws2dpgu.py, as repaired by the fix: commits), generic in the arithmetic carrier.
    The models return the *unrounded* curve; the int16 store ([frne] + range) is applied on top.
    Executable definitions only. *)
From HDC Require Import Base.Prelude Base.Ops Model.Ws2d.

Section Smoothers.
  Context {F : Type} (O : Ops F).
  Notation "x + y" := (fadd O x y). Notation "x - y" := (fsub O x y).
  Notation "x * y" := (fmul O x y). Notation "x / y" := (fdiv O x y).

  (** what a smoother hands back: the input unchanged, or a fitted (unrounded) curve *)
  Inductive fitted := Passthrough | Curve (z : list F).

  (** w = 1 - [(x == nodata) or isnan(x) or isinf(x)] *)
  Definition missing_gu (nodata x : F) : bool := feqb O x nodata || fnonfinite O x.
  Definition weights_gu (nodata : F) (y : list F) : list F :=
    map (fun x => if missing_gu nodata x then f0 O else f1 O) y.
  (** w[ii] = 0 if y[ii] == nodata else 1   (V-curve kernels: NaN / inf are ordinary values) *)
  Definition weights_eq (nodata : F) (y : list F) : list F :=
    map (fun x => if feqb O x nodata then f0 O else f1 O) y.

  Definition fsum (l : list F) : F := fold_left (fadd O) l (f0 O).

  (** yv = np.where(w == 0, 0.0, y) *)
  Definition zero_missing (w y : list F) : list F :=
    map (fun wy => if feqb O (fst wy) (f0 O) then f0 O else snd wy) (combine w y).

  Definition ws2dgu (y : list F) (lmda nodata : F) : fitted :=
    if feqb O lmda (f0 O) then Passthrough
    else
      let w := weights_gu nodata y in
      if fltb O (f1 O) (fsum w) then Curve (ws2d O (zero_missing w y) lmda w)
      else Passthrough.

  (** asymmetric weights of one pass: ww = w * (p if y > z else 1 - p) *)
  Definition asym_weights (p p1 : F) (w y z : list F) : list F :=
    map (fun t => let '(wi, (yi, zi)) := t in wi * (if fltb O zi yi then p else p1)) (combine w (combine y z)).

  (** sum(|znew - z|) == 0.0  <->  every |znew_i - z_i| == 0.0 (terms are non-negative or NaN) *)
  Definition unchanged (znew z : list F) : bool :=
    forallb (fun t => feqb O (fabs O (fst t - snd t)) (f0 O)) (combine znew z).

  (** [fuel] reweighting passes from curve [z]; returns the last [ww] (and the last accepted curve) *)
  Fixpoint irls (fuel : nat) (p p1 lmda : F) (w y z ww : list F) : list F * list F :=
    match fuel with
    | 0%nat => (ww, z)
    | S f =>
        let ww' := asym_weights p p1 w y z in
        let znew := ws2d O y lmda ww' in
        if unchanged znew z then (ww', z) else irls f p p1 lmda w y znew ww'
    end.

  Definition zeros (n : nat) : list F := repeat (f0 O) n.

  (** the asymmetric fit at a given lambda: at most 10 passes from the zero curve, then one
      more solve with the weights of the last pass *)
  Definition asym_fit (p lmda : F) (w y : list F) : list F :=
    let p1 := f1 O - p in
    let '(ww, _) := irls 10 p p1 lmda w y (zeros (length y)) (zeros (length y)) in
    ws2d O y lmda ww.

  Definition ws2dpgu (y : list F) (lmda nodata p : F) : fitted :=
    if feqb O lmda (f0 O) then Passthrough
    else
      let w := weights_gu nodata y in
      if fltb O (f1 O) (fsum w) then Curve (asym_fit p lmda w (zero_missing w y))
      else Passthrough.
End Smoothers.
Arguments Passthrough {F}. Arguments Curve {F} z.
