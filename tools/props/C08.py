"""C08 — SPI preserves the ordering of observations, saturates, yields nodata for unfittable pixels and never raises."""
import numpy as np

from vlib import core
from props.C07 import PRE, coq_case

ND = -9999.0
KINDS = ["ordinary", "outlier_hi", "outlier_lo", "lowvar", "lowvar_outlier", "negatives", "all_nodata", "all_negative", "all_zero",
         "constant", "zeros_gt90", "no_positive_in_window", "int16_extreme", "deep_lower_tail"]


def pixel(rng, kind, n, dtype):
    """one series + calibration window for a pixel of the given kind"""
    shape = float(np.exp(rng.uniform(np.log(0.3), np.log(50))))
    scale = float(np.exp(rng.uniform(np.log(0.1), np.log(1e3))))
    x = rng.gamma(shape, scale, size=n)
    c0, c1 = 0, n
    if kind in ("outlier_hi", "outlier_lo"):
        c0, c1 = 0, max(2, n - 3)
        med = float(np.median(x[:c1]))
        for k in range(c1, n):
            r = float(rng.choice([1e2, 1e3, 1e4, 1e6])) if kind == "outlier_hi" else float(rng.choice([1e-3, 1e-10, 1e-100, 1e-300]))
            x[k] = med * r
        if rng.random() < 0.5:
            c0, c1 = 0, n                       # the outliers take part in the fit as well
    elif kind in ("lowvar", "lowvar_outlier"):
        shape = float(np.exp(rng.uniform(np.log(500), np.log(1e4))))
        x = rng.gamma(shape, 1000.0 / shape, size=n)
        if kind == "lowvar_outlier":
            c0, c1 = 0, max(2, n - 2)
            x[c1:] = x[0] * rng.choice([0.5, 0.9, 1.1, 2.0, 100.0], size=n - c1)
    elif kind == "negatives":
        x[rng.choice(n, size=max(1, n // 4), replace=False)] *= -1
    elif kind == "all_nodata":
        x[:] = ND
    elif kind == "all_negative":
        x = -x - 1
    elif kind == "all_zero":
        x[:] = 0
    elif kind == "constant":
        x[:] = float(rng.choice([7.0, 0.1, 123.456, 999.9, 32000.0]))
        if rng.random() < 0.5:
            x[rng.choice(n, size=max(1, n // 10), replace=False)] = 0
    elif kind == "zeros_gt90":
        k = int(np.floor(0.9 * n)) + 1
        if k >= n:
            k = n - 0
        x[rng.choice(n, size=min(n, k), replace=False)] = 0
    elif kind == "no_positive_in_window":
        c0, c1 = 0, max(2, n // 3)
        x[c0:c1] = rng.choice([0.0, ND, -1.0], size=c1 - c0)
    elif kind == "deep_lower_tail":
        # observations whose gamma probability is finite but far below 1e-235: the index is finite and below -32.768, so it must
        # saturate at -32768 (a float -> int16 store would wrap it to a positive number); p ~ (x / mean)^shape
        n = max(n, 64)
        shape = float(rng.choice([1.0, 4.0, 8.0, 20.0]))
        x = rng.gamma(shape, 100.0 / shape, size=n)
        c0, c1 = 0, n - 5
        x[c1:] = 100.0 * 10.0 ** (-np.array([245.0, 265.0, 285.0, 305.0, 318.0]) / shape)
    elif kind == "int16_extreme":
        x = np.clip(np.round(rng.gamma(4.0, 1.0, size=n)), 0, None)
        c0, c1 = 0, max(2, n - 2)
        x[c1:] = rng.choice([32767, 30000, 5000, 0], size=n - c1)
    if kind in ("ordinary", "outlier_hi", "negatives", "lowvar") and rng.random() < 0.3:
        x[rng.choice(n, size=max(1, n // 6), replace=False)] = ND
    if kind in ("ordinary", "negatives") and rng.random() < 0.4:
        x[rng.choice(n, size=max(1, n // 5), replace=False)] = 0
    if dtype == "int16":
        x = np.where(x == ND, ND, np.clip(np.round(x), -32000, 32767)) + 0.0     # no -0.0 in an integer series
    elif dtype == "float32":
        x = x.astype("float32").astype("float64")
    return [float(v) for v in x], c0, c1


def spec_check(c, out):
    """the property's clauses, evaluated on the observed output; returns None or what fails"""
    x, nd = c["x"], c["nodata"]
    ndi = int(nd)
    n = len(x)
    if any(o < -32768 or o > 32767 for o in out):
        return "output leaves the int16 range"
    valid = [i for i in range(n) if x[i] != nd and x[i] >= 0]
    for i in range(n):
        if i not in valid and out[i] != ndi:
            return "cell %d (x=%r, nodata or negative) should be nodata, got %d" % (i, x[i], out[i])
    nz = sum(1 for i in valid if x[i] == 0)
    win = [x[i] for i in range(c["c0"], min(c["c1"], n)) if x[i] > 0]      # nodata is negative here
    unfittable = (not valid) or (not win) or (nz / len(valid) > 0.9)
    if unfittable:
        if any(o != ndi for o in out):
            return "pixel cannot be fitted (valid=%d, positives in window=%d, zero share=%s) but is not nodata everywhere" % (
                len(valid), len(win), (nz / len(valid)) if valid else None)
        return None
    order = sorted(valid, key=lambda i: x[i])
    for a, b in zip(order, order[1:]):
        if x[a] == x[b] and out[a] != out[b]:
            return "equal observations %r get different indices %d and %d" % (x[a], out[a], out[b])
        if out[a] > out[b]:
            return "not monotone: x=%r -> %d but the wetter x=%r -> %d" % (x[a], out[a], x[b], out[b])
    return None


def ref_check(c, r):
    """extremes against the SciPy evaluation: sign and saturation beyond |SPI| = 7000"""
    ref = r.get("ref")
    if not ref or c["dtype"] == "float32":
        return None
    ndi = int(c["nodata"])
    for i, (o, w) in enumerate(zip(r["out"], ref)):
        if w is None or w != w:
            continue
        if w == float("inf") or w > 40000:
            if o != 32767:
                return "cell %d (x=%r): index is %s by definition, stored %d instead of saturating at 32767" % (i, c["x"][i], w, o)
        elif w == float("-inf") or w < -40000:
            if o != -32768:
                return "cell %d (x=%r): index is %s by definition, stored %d instead of saturating at -32768" % (i, c["x"][i], w, o)
        elif abs(w) > 7000:
            if o == ndi and abs(w - ndi) > 600:
                return "cell %d (x=%r): valid observation with index %.1f stored as nodata" % (i, c["x"][i], w)
            if o != ndi and (o * w < 0 or abs(o) < 6400):
                return "cell %d (x=%r): index %.1f by definition, stored %d" % (i, c["x"][i], w, o)
    return None


def run(ctx):
    ctx.proofs(["Props/C08.v"], extra_trusted=["oracle functions gammainc / ndtri assumed monotone in the theorems (hypotheses of C08_value_monotone); "
                                               "their recorded values are replayed in the correspondence"])
    rng = np.random.default_rng(ctx.seed + 8)
    N = 400 if ctx.thorough else 120
    cases = []
    for it in range(N):
        kind = KINDS[it % len(KINDS)]
        n = int(rng.choice([3, 5, 12, int(rng.integers(6, 80))]))
        dtype = "int16" if kind == "int16_extreme" else ["float64", "int16", "float64", "float32"][(it // len(KINDS)) % 4]
        x, c0, c1 = pixel(rng, kind, n, dtype)
        cases.append(dict(x=x, dtype=dtype, nodata=ND, c0=c0, c1=c1, kind=kind, shape=0.0, scale=0.0))
    cubes = []
    for it in range(12 if ctx.thorough else 5):
        ny, nx, nt = int(rng.integers(1, 4)), int(rng.integers(2, 4)), int(rng.integers(4, 30))
        dtype = ["float64", "int16", "float32"][it % 3]
        kinds = [[str(rng.choice(KINDS[:11])) for _ in range(nx)] for _ in range(ny)]
        if it == 0:
            kinds[0][0], kinds[0][-1] = "all_nodata", "ordinary"
        cube = [[pixel(rng, kinds[a][b], nt, dtype)[0] for b in range(nx)] for a in range(ny)]
        cubes.append(dict(cube=cube, dtype=dtype, nodata=ND, kinds=kinds))
    res, log = core.run_impl("c07_impl.py", dict(cases=cases, cubes=cubes), timeout=3000)
    if res is None:
        ctx.violation("implementation run failed", dict(kind="impl-crash", log=log[-3000:]), found_input=False)
        return
    fails, coq, meta = [], [], []
    dist = dict(kinds={}, dtypes={}, saturated_hi=0, saturated_lo=0, nodata_pixels=0, beyond_7000=0, cubes=len(cubes), cube_pixels=0)
    for c, r in zip(cases, res["cases"]):
        m = dict(kind=c["kind"], n=len(c["x"]), dtype=c["dtype"], c0=c["c0"], c1=c["c1"], x=c["x"], out=r.get("out"))
        if "error" in r:
            fails.append((m, "SPI raised %s" % r["error"]))
            continue
        dist["kinds"][c["kind"]] = dist["kinds"].get(c["kind"], 0) + 1
        dist["dtypes"][c["dtype"]] = dist["dtypes"].get(c["dtype"], 0) + 1
        dist["saturated_hi"] += sum(1 for o in r["out"] if o == 32767)
        dist["saturated_lo"] += sum(1 for o in r["out"] if o == -32768)
        dist["beyond_7000"] += sum(1 for o in r["out"] if abs(o) > 7000 and o != int(ND))
        dist["nodata_pixels"] += 1 if all(o == int(ND) for o in r["out"]) else 0
        why = spec_check(c, r["out"]) or ref_check(c, r)
        if why is None and "grp" in r and r["grp"] != r["out"]:
            why = "gammastd_grp (one group) differs from gammastd_yxt: %s" % r["grp"][:12]
        if why:
            fails.append((m, why))
        if "interp_error" in r:
            fails.append((m, "the kernel's source divides by zero on this input (%s)" % r["interp_error"]))
        if "tables" in r:
            coq.append(coq_case(c, r, res["k06"], res["k14"]))
            meta.append(m)
    for c, r in zip(cubes, res["cubes"]):
        m = dict(kind="cube", kinds=c["kinds"], dtype=c["dtype"], cube=c["cube"], n=10 ** 6)
        if "error" in r:
            fails.append((m, "SPI raised on a cube mixing pixel kinds %s: %s" % (c["kinds"], r["error"])))
            continue
        dist["cube_pixels"] += sum(len(row) for row in c["cube"])
        if not r["pixelwise_equal"]:
            fails.append((m, "a pixel's result depends on the other pixels of the cube"))
        if not r["acc_equal"] or r["acc_dtype"] != "int16":
            fails.append((m, "DataArray.hdc.algo.spi differs from gammastd_yxt (dtype %s)" % r["acc_dtype"]))
        if r.get("grp_equal") is False:
            fails.append((m, "spi(groups=one group) differs from the ungrouped result"))
        if r.get("kw_nodata0_equal") is not True:
            fails.append((m, "spi(nodata=0) with a missing / different nodata attribute differs from the kernel run with nodata 0 (%s)" % r.get("kw_nodata0_equal")))
        for a, row in enumerate(c["cube"]):
            for b, px in enumerate(row):
                why = spec_check(dict(x=px, nodata=ND, c0=0, c1=len(px)), r["out"][a][b])
                if why:
                    fails.append((dict(kind=c["kinds"][a][b], dtype=c["dtype"], x=px, out=r["out"][a][b], n=len(px)), "in a cube: " + why))
    r1 = core.eval_cases("C08", "spi", PRE, coq, "check_spi", shard=12, scope="Z")
    ctx.cov["evaluations"] = len(cases) + dist["cube_pixels"]
    ctx.cov["distinct_nontrivial"] = len(set(coq))
    ctx.cov["rule"] = ("seeded pixels of 14 kinds (ordinary, outliers x1e2..1e6 and x1e-3..1e-300 relative to the calibration median, shape 500..1e4 "
                       "windows, negatives, all-nodata / all-negative / all-zero / constant / >90%% zeros / no positive value in the window, int16 "
                       "extremes), int16 / float64 / float32, plus cubes mixing the kinds; clauses of the property evaluated on the observed output, "
                       "int16/float64 pixels also replayed bit-for-bit in the model")
    ctx.notes.update(input_distribution=dist, cases_bit_exact=len(coq), model_vs_impl_mismatches=len(r1["failing"]), spec_failures=len(fails))
    ctx.add_samples([dict(m, x=m["x"][:12], out=(m["out"] or [])[:12]) for m in (meta[0], meta[1], meta[-1])])
    ctx.assumptions += ["monotonicity in the theorems assumes gammainc(alpha, .) and ndtri non-decreasing (true of the mathematical functions; SciPy's "
                        "kernels are checked on the explored inputs only)",
                        "nodata = -9999 in the generated inputs; a valid cell whose index is exactly the nodata value is indistinguishable from nodata",
                        "beyond |SPI| = 7000 the stored value is compared with the definition by sign, magnitude (>= 6400) and saturation only - the "
                        "float64 CDF has no more resolution there"]
    for si, lg in r1["errors"]:
        ctx.violation("Coq could not evaluate the cases", dict(kind="coq-eval-error", log=lg), found_input=False)
    if fails:
        fails.sort(key=lambda t: t[0]["n"])
        m, why = fails[0]
        ctx.violation(why, dict(kind="spec", case=m, n_failing=len(fails)))
    elif r1["failing"]:
        bad = sorted((meta[i] for i in r1["failing"]), key=lambda m: m["n"])
        ctx.violation("model and implementation disagree (Corr/C07.v check_spi, bit-exact) although every clause of the property holds on the "
                      "explored outputs", dict(kind="correspondence", correspondence="Corr/C07.v check_spi", case=bad[0], n_disagree=len(bad)),
                      found_input=False)


def replay(ctx, path):
    import json
    rp = json.load(open(path))
    print(json.dumps(rp.get("case"))[:3000])
    return 2
