"""C20 — temporal interpolation averages the daily Whittaker curve per period."""
from fractions import Fraction

import numpy as np

from vlib import core
from vlib.core import zlist, flist
from props import whit_common as wc

PRE = ("From HDC Require Import Base.Prelude Base.Float Base.Ops Model.Ws2d Model.Tinterp Corr.C03 Corr.C20.\nFrom Coq Require Import PrimFloat.\n")


def make_case(rng, nobs, spacing, labeling, kind, zero_sum=False, force_wrap=False):
    """observations every `spacing` days (or irregular), daily labels by dekad / pentad / month-like periods"""
    if spacing == 0:
        gaps = rng.integers(3, 20, size=nobs - 1)
    else:
        gaps = np.full(nobs - 1, spacing)
    pos = int(rng.integers(0, 6)) + np.concatenate([[0], np.cumsum(gaps)])
    ndays = int(pos[-1] + 1 + rng.integers(0, 9))
    template = np.zeros(ndays)
    template[pos] = 1
    plen = dict(dekad=[10, 10, 11], pentad=[5], month=[31, 28, 31, 30])[labeling]
    # label values: distinct per run (contract), but they may wrap like dekad-of-year / month numbers (.., 35, 36, 1, 2, ..)
    nper = ndays // min(plen) + 3
    wrap = int(rng.integers(nper + 1, 3 * nper + 40))
    start = int(rng.integers(1, wrap + 1))
    if force_wrap:                                       # period-of-year labels across New Year: the label drops inside the record
        used = max(2, ndays // max(plen))
        wrap = max(wrap, used + 2)
        start = wrap - int(rng.integers(0, used - 1))
    seq = [((start - 1 + j) % wrap) + 1 for j in range(nper)] if (force_wrap or rng.random() < 0.6) else [1000 + start + j for j in range(nper)]
    labels, k = [], 0
    while len(labels) < ndays + plen[0]:
        labels += [seq[k]] * plen[k % len(plen)]
        k += 1
    off = int(rng.integers(0, plen[0]))
    labels = labels[off:off + ndays]
    if len(labels) < ndays:
        labels += [labels[-1]] * (ndays - len(labels))
    t = pos.astype(float)
    if kind == "constant":
        x = np.full(nobs, int(rng.integers(-9000, 9000)))
    elif kind == "linear":
        a, b = int(rng.integers(-3000, 3000)), int(rng.integers(-4, 5))
        maxb = (10000 - abs(a)) // max(int(pos[-1]), 1)          # the line stays inside +-10000 over the whole record (no clipping)
        b = max(-maxb, min(maxb, b))
        x = a + b * pos
    else:
        x = np.round(3000 * np.sin(t / 40.0) + rng.normal(0, 400, nobs) + rng.integers(-4000, 4000))
    x = np.clip(x, -10000, 10000).astype(int)
    if kind == "random" and rng.random() < 0.5:
        x[rng.choice(nobs, size=max(1, nobs // 6), replace=False)] = 0        # observations that are exactly zero
    if zero_sum and nobs >= 3:
        # observations that sum to exactly zero (anomalies, a line crossing zero at mid-record)
        if kind == "linear" and spacing > 0 and (spacing * (nobs - 1)) % 2 == 0:
            b = int(rng.integers(1, 5)) * int(rng.choice([-1, 1]))
            x = (b * (pos - (pos[0] + pos[-1]) // 2)).astype(int)
        elif kind == "random":
            x = x - int(round(x.mean()))
            x[-1] -= int(x.sum())
            x = np.clip(x, -10000, 10000).astype(int)
    return dict(x=[int(v) for v in x], template=[float(v) for v in template], labels=[int(v) for v in labels], kind=kind,
                pos=[int(v) for v in pos], spacing=spacing, labeling=labeling)


def run_bounds(labels):
    out, s = [], 0
    for i in range(1, len(labels) + 1):
        if i == len(labels) or labels[i] != labels[i - 1]:
            out.append((s, i))
            s = i
    return out


def spec(c, r, exact_budget):
    runs = run_bounds(c["labels"])
    if len(r["out"]) != len(set(c["labels"])) and len(runs) == len(set(c["labels"])):
        return "%d outputs for %d distinct labels" % (len(r["out"]), len(set(c["labels"])))
    if not r["inputs_unmodified"]:
        return "template / labels were modified by the call"
    if not r["repeat_equal"]:
        return "repeated calls disagree"
    if c["kind"] == "constant":
        if r["out"][:len(runs)] != [c["x"][0]] * len(runs):
            return "a constant series does not yield that constant for every period"
    if c["kind"] == "linear":
        a_b = np.polyfit(c["pos"], c["x"], 1) if len(c["pos"]) > 1 else (0, c["x"][0])
        b = Fraction(int(round(a_b[0])))
        a = Fraction(c["x"][0]) - b * c["pos"][0]
        for (s, e), o in zip(runs, r["out"]):
            m = a + b * Fraction(s + e - 1, 2)
            if o != wc.rne(m) and not (wc.near_tie(m, Fraction(1, 10 ** 4)) and abs(o - wc.rne(m)) <= 1):
                return "period %d..%d of the line has mean %s, output %d" % (s, e - 1, float(m), o)
    if exact_budget and len(c["template"]) <= 260:
        n = len(c["template"])
        w = [Fraction(int(v)) for v in c["template"]]
        temp = [Fraction(0)] * n
        j = 0
        for i in range(n):
            if w[i]:
                temp[i] = Fraction(c["x"][j])
                j += 1
        temp[-1] = Fraction(c["x"][-1])
        z = wc.pls_exact(temp, w, Fraction(1, 100000))
        for (s, e), o in zip(runs, r["out"]):
            m = sum(z[s:e]) / (e - s)
            if o != wc.rne(m) and not (wc.near_tie(m, Fraction(1, 10 ** 5)) and abs(o - wc.rne(m)) <= 1):
                return "period %d..%d: exact mean of the daily curve is %.6f, output %d" % (s, e - 1, float(m), o)
    return None


def spec_exact_long(c, r):
    """the exact-curve clause of spec for records longer than the budgeted 260 days"""
    c2 = dict(c, kind="random")
    n = len(c2["template"])
    w = [Fraction(int(v)) for v in c2["template"]]
    temp = [Fraction(0)] * n
    j = 0
    for i in range(n):
        if w[i]:
            temp[i] = Fraction(c2["x"][j])
            j += 1
    temp[-1] = Fraction(c2["x"][-1])
    z = wc.pls_exact(temp, w, Fraction(1, 100000))
    for (s, e), o in zip(run_bounds(c2["labels"]), r["out"]):
        m = sum(z[s:e]) / (e - s)
        if o != wc.rne(m) and not (wc.near_tie(m, Fraction(1, 10 ** 5)) and abs(o - wc.rne(m)) <= 1):
            return "period %d..%d: exact mean of the daily curve is %.6f, output %d" % (s, e - 1, float(m), o)
    return None


def run(ctx):
    ctx.proofs(["Props/C20.v"])
    rng = np.random.default_rng(ctx.seed)
    cases = []
    N = 160 if ctx.thorough else 48
    for it in range(N):
        nobs = int(rng.choice([5, 6, 8, int(rng.integers(9, 60)), int(rng.integers(60, 400 if ctx.thorough else 120))]))
        spacing = int(rng.choice([5, 8, 10, 16, 0]))
        if nobs * max(spacing, 10) > 4200:
            nobs = 4200 // max(spacing, 10)
        c = make_case(rng, nobs, spacing, str(rng.choice(["dekad", "pentad", "month"])), ["constant", "linear", "random", "random"][it % 4], zero_sum=(it % 8) in (1, 2))
        c["accessor"] = (it % 6 == 0)
        c["tdtype"] = ["float64", "uint8", "bool", "float64"][(it // 2) % 4]
        cases.append(c)
    # through the accessor with labels that drop inside the record, on non-constant series
    for it in range(12 if ctx.thorough else 4):
        c = make_case(rng, int(rng.integers(6, 40)), int(rng.choice([5, 8, 10, 16])), str(rng.choice(["dekad", "pentad", "month"])), "random", force_wrap=True)
        c["accessor"] = True
        c["tdtype"] = "float64"
        cases.append(c)
    res, log = core.run_impl("c20_impl.py", dict(cases=cases), timeout=3000)
    if res is None:
        ctx.violation("implementation run failed", dict(kind="impl-crash", log=log[-3000:]), found_input=False)
        return
    spec_fail, coq, meta, kept = [], [], [], []
    dist = dict(kinds={}, spacings={}, labelings={}, max_days=0, max_obs=0, exact_checked=0, accessor=0, wrapping_labels=0)
    budget = 40 if ctx.thorough else 14
    for c, r in zip(cases, res):
        m = dict(kind=c["kind"], nobs=len(c["x"]), ndays=len(c["template"]), spacing=c["spacing"], labeling=c["labeling"],
                 x=c["x"] if len(c["x"]) <= 12 else None, pos=c["pos"] if len(c["x"]) <= 12 else None, out=r.get("out", [])[:12])
        if "error" in r:
            spec_fail.append((dict(m, x=c["x"], pos=c["pos"], labels=c["labels"]), "tinterpolate raised %s" % r["error"]))
            continue
        for key, val in (("kinds", c["kind"]), ("spacings", c["spacing"]), ("labelings", c["labeling"])):
            dist[key][val] = dist[key].get(val, 0) + 1
        dist["max_days"] = max(dist["max_days"], len(c["template"]))
        dist["max_obs"] = max(dist["max_obs"], len(c["x"]))
        dist["wrapping_labels"] += 1 if any(b < a for a, b in zip(c["labels"], c["labels"][1:])) else 0
        use_exact = c["kind"] == "random" and budget > 0 and len(c["template"]) <= 260
        why = spec(c, r, use_exact)
        if use_exact:
            budget -= 1
            dist["exact_checked"] += 1
        if why:
            spec_fail.append((dict(m, x=c["x"], pos=c["pos"], labels=c["labels"], out=r["out"]), why))
        if c.get("accessor"):
            dist["accessor"] += 1
            if r.get("acc_out") != r["out"] or r.get("acc_dtype") != "int16" or r.get("acc_dims", [""])[-1] != "newtime":
                spec_fail.append((dict(m, acc=r.get("acc_out"), dims=r.get("acc_dims")), "whitint differs from the kernel (values / int16 / newtime dimension)"))
        nruns = len(run_bounds(c["labels"]))
        coq.append("TC %s %s %s %s" % (zlist(c["x"]), flist(c["template"]), zlist(c["labels"]), zlist(r["out"][:nruns])))
        meta.append(m)
        kept.append((c, r))
    r1 = core.eval_cases("C20", "t", PRE, coq, "check_t", shard=6, scope="Z")
    r2 = core.eval_cases("C20", "claim", PRE, coq, "claim_t", shard=6, scope="Z")
    ctx.cov["evaluations"] = len(coq)
    ctx.cov["distinct_nontrivial"] = len(set(coq))
    ctx.cov["rule"] = ("seeded int16 series (5..%d observations, |values| <= 10000; constant / linear in day number / noisy seasonal), mark "
                       "spacings 5/8/10/16 days and irregular, daily labels by dekads / pentads / month-like periods incl. wrapping label values, "
                       "total daily length up to ~4200; distinct cases counted" % (400 if ctx.thorough else 120))
    ctx.notes.update(input_distribution=dist, cases_bit_exact=len(coq) - len(r2["failing"]), out_of_claim_dropped=len(r2["failing"]),
                     model_vs_impl_mismatches=len(r1["failing"]), spec_failures=len(spec_fail))
    ctx.add_samples([meta[0], meta[1], meta[2]])
    ctx.assumptions += ["labels are contiguous (each label value forms one run) and there are as many marks as observations",
                        "binary64 vs exact: the exact (Fraction) daily curve is held against the output on a budgeted sample (<= 260 days) with the tie rule"]
    for r, tag in ((r1, "check"), (r2, "claim")):
        for si, lg in r["errors"]:
            ctx.violation("Coq could not evaluate the %s cases" % tag, dict(kind="coq-eval-error", log=lg), found_input=False)
    if spec_fail:
        spec_fail.sort(key=lambda t: len(str(t[0])))
        m, why = spec_fail[0]
        ctx.violation(why, dict(kind="spec", case=m, n_failing=len(spec_fail)))
    elif r1["failing"]:
        # the correspondence broke: hold the disagreeing cases (smallest first) against the exact rational daily curve, without the budget
        import time
        t0 = time.time()
        for i in sorted(r1["failing"], key=lambda i: meta[i]["ndays"]):
            c, r = kept[i]
            if len(c["template"]) > 700 or time.time() - t0 > 240:
                break
            why = spec(dict(c, template=c["template"][:]), r, True) if len(c["template"]) <= 260 else spec_exact_long(c, r)
            if why:
                ctx.violation(why, dict(kind="spec", case=dict(meta[i], x=c["x"], pos=c["pos"], labels=c["labels"], out=r["out"]), n_failing=1))
                return
        bad = sorted((meta[i] for i in r1["failing"]), key=lambda m: m["ndays"])
        ctx.violation("model and implementation disagree (Corr/C20.v check_t, bit-exact); constant / linear exactness, output count, purity "
                      "and the exact-curve sample hold", dict(kind="correspondence", correspondence="Corr/C20.v check_t", case=bad[0],
                                                              n_disagree=len(bad)), found_input=False)


def replay(ctx, path):
    import json
    rp = json.load(open(path))
    print(json.dumps(rp.get("case"))[:3000])
    return 2
