(** Correspondence cases for C20 (temporal interpolation). *)
From HDC Require Import Base.Prelude Base.Float Base.Ops Model.Ws2d Model.Tinterp Corr.C03.
From Coq Require Import PrimFloat.
Open Scope Z_scope.

(** observations (int16 as Z), daily template (0/1 floats), daily labels, observed int16 output *)
Record tcase := TC { t_x : list Z; t_template : list float; t_labels : list Z; t_out : list Z }.

Definition run_t (c : tcase) : list float :=
  tinterpolate (OpsF no_oracles) 0.00001%float (map f_of_Z (t_x c)) (t_template c) (t_labels c).

Definition claim_t (c : tcase) : bool := match store16 (run_t c) with Some _ => true | None => false end.
Definition check_t (c : tcase) : bool :=
  match store16 (run_t c) with Some v => zeqb_list v (t_out c) | None => true end.
