"""Runs tinterpolate (kernel) and DataArray.hdc.whit.whitint from /repo; checks that inputs are left unmodified."""
import json
import sys
import warnings

import numpy as np

warnings.filterwarnings("ignore")
import xarray as xr  # noqa: E402
import hdc.algo  # noqa: F401,E402
from hdc.algo.ops import tinterpolate  # noqa: E402


def main():
    P = json.load(sys.stdin)
    out = []
    for c in P["cases"]:
        x = np.array(c["x"], dtype="int16")
        template = np.array(c["template"], dtype=c.get("tdtype", "float64"))       # 0/1 marks: float64, uint8 or bool
        labels = np.array(c["labels"], dtype="int32")
        nout = len(np.unique(labels))
        t0, l0 = template.copy(), labels.copy()
        rec = {}
        try:
            helper = np.zeros(nout, dtype="u1")
            r = tinterpolate(x, template, labels, helper)
            r2 = tinterpolate(x, template, labels, np.zeros(nout, dtype="u1"))
            rec["out"] = [int(v) for v in r]
            rec["repeat_equal"] = bool(np.array_equal(r, r2))
            rec["inputs_unmodified"] = bool(np.array_equal(template, t0) and np.array_equal(labels, l0))
            if c.get("accessor"):
                cube = np.stack([x, x[::-1].copy()]).reshape(2, 1, -1)
                da = xr.DataArray(cube, dims=("y", "x", "time"))
                a = da.hdc.whit.whitint(labels, template)
                rec["acc_dims"] = list(a.dims)
                rec["acc_dtype"] = str(a.dtype)
                rec["acc_out"] = [int(v) for v in a.isel(y=0, x=0).values]
                rec["inputs_unmodified"] = rec["inputs_unmodified"] and bool(np.array_equal(template, t0) and np.array_equal(labels, l0))
        except Exception as e:  # noqa
            rec["error"] = "%s: %s" % (type(e).__name__, e)
        out.append(rec)
    print("@@RESULT@@" + json.dumps(out))


main()
