(** Models of the GCV smoothers [ws2dwcv], [ws2dwcvp] (hdc/algo/ops/ws2dwcv.py, ws2dwcvp.py, as
    repaired by the fix: commit), generic in the carrier.  x**2 is x*x, x**0.5 is sqrt, array
    sums are sequential (as Numba compiles them), cos and 10**x are oracle fields, np.median is
    sort + middle.  Executable definitions only. *)
From HDC Require Import Base.Prelude Base.Ops Model.Ws2d Model.Smoothers Model.VCurve.

Section Gcv.
  Context {F : Type} (O : Ops F).
  Notation "x + y" := (fadd O x y). Notation "x - y" := (fsub O x y).
  Notation "x * y" := (fmul O x y). Notation "x / y" := (fdiv O x y).

  (** literals of the source *)
  Record gconsts := { c_pi : F; c_1em15 : F; c_1e15 : F; c_14826 : F; c_4685 : F; c_1em9 : F }.
  Variable K : gconsts.

  (** d_eigs = -2 + 2 * cos(arange(m) * pi / m); d_eigs[0] = 1e-15 *)
  Definition d_eigs (m : nat) : list F :=
    match map (fun k => fofZ O (-2) + fofZ O 2 * fcos O ((fofZ O (Z.of_nat k) * c_pi K) / fofZ O (Z.of_nat m))) (seq 0 m) with
    | [] => []
    | _ :: r => c_1em15 K :: r
    end.

  Definition map2 (f : F -> F -> F) (a b : list F) : list F := map (fun t => f (fst t) (snd t)) (combine a b).

  (** gamma = w_temp / (w_temp + s * ((-1 * d_eigs) ** 2)) *)
  Definition gamma (de : list F) (s : F) (wt : list F) : list F :=
    map2 (fun w d => w / (w + s * sq O (fofZ O (-1) * d))) wt de.

  (** GCV score of the fit z at lambda s *)
  Definition gcv_score (de : list F) (s : F) (wt y z : list F) : F :=
    let tr_h := fsum O (gamma de s wt) in
    let wsse := fsum O (map (fun t => let '(w, (yi, zi)) := t in sq O (fsqrt O w * (yi - zi))) (combine wt (combine y z))) in
    let ws := fsum O wt in
    wsse / (ws * sq O (f1 O - tr_h / ws)).

  (** running best (score, lambda, curve) over a list of lambdas; strict improvement only *)
  Fixpoint gcv_scan (de : list F) (wt y : list F) (lams : list F) (best : F * F * list F) : F * F * list F :=
    match lams with
    | [] => best
    | s :: r =>
        let z := ws2d O y s wt in
        let sc := gcv_score de s wt y z in
        if fltb O sc (fst (fst best)) then gcv_scan de wt y r (sc, s, z) else gcv_scan de wt y r best
    end.

  (** np.median: sort, middle (mean of the two middle values for an even count) *)
  Fixpoint fmerge (a : list F) : list F -> list F :=
    match a with
    | [] => fun b => b
    | x :: a' =>
        fix inner (b : list F) : list F :=
          match b with
          | [] => a
          | y :: b' => if fleb O x y then x :: fmerge a' b else y :: inner b'
          end
    end.
  Fixpoint merge_pairs (l : list (list F)) : list (list F) :=
    match l with
    | a :: b :: r => fmerge a b :: merge_pairs r
    | _ => l
    end.
  Fixpoint msort_passes (fuel : nat) (l : list (list F)) : list F :=
    match fuel with
    | 0%nat => concat l
    | S f => match l with [] => [] | [a] => a | _ => msort_passes f (merge_pairs l) end
    end.
  Definition fsort (l : list F) : list F := msort_passes (S (length l)) (map (fun x => [x]) l).
  Definition median (l : list F) : F :=
    let s := fsort l in
    let n := length s in
    if Nat.even n then (nth (n / 2 - 1) s (f0 O) + nth (n / 2) s (f0 O)) / fofZ O 2 else nth (n / 2) s (f0 O).

  (** one robust reweighting (after the fix: commits: scale over the cells that still carry weight, skipped when the MAD is not above 1e-9 of the data magnitude or when fewer than two cells would keep a weight) *)
  Definition robust_update (de : list F) (n s : F) (w wt y ytemp rw : list F) : list F :=
    let r_arr := map2 (fsub O) y ytemp in
    let sel := map snd (filter (fun t => negb (feqb O (fst t) (f0 O))) (combine wt r_arr)) in
    let med := median sel in
    let mad := median (map (fun r => fabs O (r - med)) sel) in
    (* mad > 1e-9 * max(1.0, np.max(np.abs(yv))) *)
    let amax := match y with [] => f0 O | a :: r => fold_left (fun acc v => if fltb O acc (fabs O v) then fabs O v else acc) r (fabs O a) end in
    let floor_ := c_1em9 K * (if fltb O (f1 O) amax then amax else f1 O) in
    if fltb O floor_ mad then
      let scale := (c_14826 K * mad) * fsqrt O (f1 O - fsum O (gamma de s wt) / n) in
      let new_w := map (fun r =>
             let u := r / scale in
             let q := u / c_4685 K in
             if fltb O (f0 O) r then f1 O
             else if fltb O (f1 O) (fabs O q) then f0 O
             else sq O (f1 O - sq O q)) r_arr in
      (* if np.count_nonzero(w * new_weights) >= 2: r_weights = new_weights *)
      if Nat.leb 2 (length (filter (fun v => negb (feqb O v (f0 O))) (map2 (fmul O) w new_w))) then new_w else rw
    else rw.

  (** the robust iterations; state = (best score, best lambda, y_temp), r_weights, history of best lambdas *)
  Fixpoint robust_loop (its : list nat) (robust : bool) (de : list F) (n : F) (w y grid : list F)
           (best : F * F * list F) (rw : list F) (hist : list F) : list F * list F :=
    match its with
    | [] => (rw, hist)
    | it :: r =>
        let lams := if Nat.ltb 1 it then [nth 1 hist (f0 O)] else grid in
        let wt := map2 (fmul O) w rw in
        let best' := gcv_scan de wt y lams best in
        let s := snd (fst best') in
        let rw' := if robust then robust_update de n s w wt y (snd best') rw else rw in
        robust_loop r robust de n w y grid best' rw' (hist ++ [s])
    end.

  Inductive gresult := GPass | GFit (z : list F) (lopt : F).

  Definition wcv_core (y : list F) (nodata : F) (llas : list F) (robust : bool) : option (list F * list F * F) :=
    let w := weights_gu O nodata y in
    let n := fsum O w in
    if fltb O (fofZ O 4) n then
      let yv := zero_missing O w y in
      let de := d_eigs (length y) in
      let grid := map (fpow10 O) llas in
      let '(rw, hist) := robust_loop (if robust then [0; 1; 2; 3]%nat else [0%nat]) robust de n w yv grid
                                     (c_1e15 K, f0 O, zeros O (length y)) (repeat (f1 O) (length y)) [] in
      let lopt := if robust then nth 1 hist (f0 O) else nth 0 hist (f0 O) in
      Some (yv, map2 (fmul O) w rw, lopt)
    else None.

  Definition ws2dwcv (y : list F) (nodata : F) (llas : list F) (robust : bool) : gresult :=
    match wcv_core y nodata llas robust with
    | Some (yv, rwt, lopt) => GFit (ws2d O yv lopt rwt) lopt
    | None => GPass
    end.

  Definition ws2dwcvp (y : list F) (nodata p : F) (llas : list F) (robust : bool) : gresult :=
    match wcv_core y nodata llas robust with
    | Some (yv, rwt, lopt) => GFit (asym_fit O p lopt rwt yv) lopt
    | None => GPass
    end.
End Gcv.
Arguments GPass {F}. Arguments GFit {F} z lopt.
