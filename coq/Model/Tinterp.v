(** Model of [hdc/algo/ops/tinterpolate.py: tinterpolate]: scatter of the observations onto the
    marks of a copy of the daily template, near-interpolating Whittaker curve (lambda = 1e-5,
    weight only on marks), run-length means over the daily labels with Python round().
    Generic in the carrier; the model returns the unrounded means.  Executable definitions only. *)
From HDC Require Import Base.Prelude Base.Ops Model.Ws2d.

Section Tinterp.
  Context {F : Type} (O : Ops F).
  Notation "x + y" := (fadd O x y). Notation "x / y" := (fdiv O x y).

  (** temp[ii] = x[jj] at every mark (template != 0), in order; unmarked days keep the template's 0 *)
  Fixpoint scatter (template x : list F) : list F :=
    match template with
    | [] => []
    | t :: r => if feqb O t (f0 O) then t :: scatter r x
                else match x with
                     | [] => t :: scatter r []          (* more marks than observations: out of contract *)
                     | v :: xs => v :: scatter r xs
                     end
    end.

  (** temp[-1] = x[-1] *)
  Definition set_last (l : list F) (v : F) : list F :=
    match rev l with [] => [] | _ :: r => rev (v :: r) end.

  Definition daily_curve (lam : F) (x template : list F) : list F :=
    let temp := set_last (scatter template x) (last x (f0 O)) in
    ws2d O temp lam template.

  (** run-length means over the labels: (sum of z over the run) / (length of the run), in order *)
  Fixpoint run_means (labels : list Z) (z : list F) (prev : Z) (v : F) (jj : Z) : list F :=
    match labels, z with
    | l :: ls, zi :: zs =>
        if Z.eqb l prev then run_means ls zs prev (v + zi) (jj + 1)%Z
        else (v / fofZ O jj) :: run_means ls zs l zi 1%Z
    | _, _ => [v / fofZ O jj]
    end.

  Definition period_means (labels : list Z) (z : list F) : list F :=
    match labels, z with
    | l0 :: ls, z0 :: zs => run_means ls zs l0 z0 1%Z
    | _, _ => []
    end.

  Definition tinterpolate (lam : F) (x template : list F) (labels : list Z) : list F :=
    period_means labels (daily_curve lam x template).
End Tinterp.
