(** Zonal mean (property C16), exact arithmetic: per zone the mean and the count of the valid
    pixels whose zone id is that zone; invariant under any rearrangement of the pixels. *)
From Coq Require Import ZArith Reals Lra Lia Bool List Sorting.Permutation.
From HDC Require Import Base.Prelude Base.Ops Model.Zonal Proofs.SmoothersProofs.
Open Scope R_scope.

Definition cell := (option R * option Z)%type.

(** the valid pixels of zone k *)
Fixpoint members (k : Z) (px : list cell) : list R :=
  match px with
  | [] => []
  | (Some p, Some z) :: r => if Z.eqb z k then p :: members k r else members k r
  | _ :: r => members k r
  end.

Lemma zone_acc_spec k px : forall s c,
  fold_left (zstep OpsR k) px (s, c) = (s + rsum (members k px), c + INR (length (members k px))).
Proof.
  induction px as [|[op oz] r IH]; intros s c; cbn [fold_left members].
  - cbn. f_equal; ring.
  - destruct op as [p|]; destruct oz as [z|]; unfold zstep at 2; cbn [fst snd]; try apply IH.
    destruct (Z.eqb z k); [|apply IH]. rewrite IH. cbn [rsum length fadd f1 OpsR]. rewrite S_INR. f_equal; ring.
Qed.

Theorem zone_mean_spec k px :
  zone_mean OpsR k px =
  (if Nat.eqb (length (members k px)) 0 then None else Some (rsum (members k px) / INR (length (members k px))),
   INR (length (members k px))).
Proof.
  unfold zone_mean, zone_acc. cbn [f0 OpsR]. rewrite zone_acc_spec. rewrite !Rplus_0_l. cbn [fltb fdiv OpsR].
  destruct (length (members k px)) as [|n] eqn:E.
  - cbn [INR Nat.eqb]. replace (Rltb 0 0) with false; [reflexivity|]. symmetry. apply not_true_is_false. intros H. apply Rltb_true in H. lra.
  - cbn [Nat.eqb]. replace (Rltb 0 (INR (S n))) with true; [reflexivity|]. symmetry. apply Rltb_true. apply lt_0_INR. lia.
Qed.

(** pixels whose zone equals the zone raster's nodata, and nodata / NaN pixels, contribute nowhere *)
Theorem excluded_cells k p z r :
  members k ((None, z) :: r) = members k r /\ members k ((p, None) :: r) = members k r.
Proof. split; [reflexivity|destruct p; reflexivity]. Qed.

Definition sel (k : Z) (c : cell) : list R :=
  match c with (Some p, Some z) => if Z.eqb z k then [p] else [] | _ => [] end.

Lemma members_flat_map k px : members k px = flat_map (sel k) px.
Proof.
  induction px as [|[op oz] r IH]; [reflexivity|]. cbn [members flat_map sel].
  destruct op as [p|]; destruct oz as [z|]; try exact IH. destruct (Z.eqb z k); cbn [app]; now rewrite IH.
Qed.

Lemma members_perm k px px' : Permutation px px' -> Permutation (members k px) (members k px').
Proof. intros P. rewrite !members_flat_map. now apply Permutation_flat_map. Qed.

Lemma rsum_perm l l' : Permutation l l' -> rsum l = rsum l'.
Proof. induction 1; cbn [rsum]; lra. Qed.

(** the result does not depend on the order in which the pixels are visited *)
Theorem zone_mean_perm k px px' : Permutation px px' -> zone_mean OpsR k px = zone_mean OpsR k px'.
Proof.
  intros P. rewrite !zone_mean_spec. pose proof (members_perm k px px' P) as M.
  rewrite (rsum_perm _ _ M), (Permutation_length M). reflexivity.
Qed.

Theorem do_mean_perm n px px' : Permutation px px' -> do_mean OpsR n px = do_mean OpsR n px'.
Proof. intros P. unfold do_mean. apply map_ext. intros k. now apply zone_mean_perm. Qed.
