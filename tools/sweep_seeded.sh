#!/bin/bash
# tools/sweep_seeded.sh [a|b ...] : run every seeded change (in scratch worktrees of /repo HEAD under /tmp) against its own property's quick check.
# Output: one line per seeded change: <name> <applies?> <VIOLATION reported?>
cd /verif
OUT=${OUT:-/tmp/sweep.log}
: > $OUT
one() {
  name=$1; id=${name:0:3}; wt=/tmp/sw_$name
  git -C /repo worktree remove --force $wt >/dev/null 2>&1; rm -rf $wt
  git -C /repo worktree add -q --detach $wt HEAD || { echo "$name worktree-failed"; return; }
  if ! git -C $wt apply /verif/seeded/$name/patch.diff 2>/dev/null; then
    echo "$name DOES-NOT-APPLY" >> $OUT
  else
    res=$(HDC_REPO=$wt ./check $id --tier quick 2>&1 | grep -E "^(VIOLATION|KNOWN-FINDING|\[C)" | tr '\n' ' ')
    if echo "$res" | grep -q "VIOLATION property=$id"; then echo "$name detected | $res" >> $OUT; else echo "$name MISSED | $res" >> $OUT; fi
  fi
  git -C /repo worktree remove --force $wt >/dev/null 2>&1; rm -rf $wt
}
export -f one; export OUT
for wave in "${@:-a b}"; do
  for w in $wave; do
    ls seeded | grep "$w\$" | xargs -P ${JOBS:-8} -I{} bash -c 'one {}'
  done
done
sort $OUT
