(** Proleptic Gregorian calendar as CPython's [datetime] defines it ([_ymd2ord]), with
    microsecond resolution.  This is the *meaning* given to [datetime(y, m, d)],
    [timedelta(microseconds=k)], [-] and [.days] in the translated dekad.py.
    Trusted: that CPython implements exactly this (cross-checked exhaustively by C11's
    correspondence against the running interpreter). *)
From Coq Require Import ZArith Bool Lia.
Open Scope Z_scope.

Definition is_leap (y : Z) : bool :=
  ((y mod 4 =? 0) && negb (y mod 100 =? 0)) || (y mod 400 =? 0).

Definition days_in_month (y m : Z) : Z :=
  match m with
  | 1 => 31 | 2 => if is_leap y then 29 else 28 | 3 => 31 | 4 => 30 | 5 => 31 | 6 => 30
  | 7 => 31 | 8 => 31 | 9 => 30 | 10 => 31 | 11 => 30 | 12 => 31
  | _ => 0
  end.

Definition days_before_year (y : Z) : Z :=
  let p := y - 1 in p * 365 + p / 4 - p / 100 + p / 400.

Definition days_before_month (y m : Z) : Z :=
  match m with
  | 1 => 0 | 2 => 31 | 3 => 59 | 4 => 90 | 5 => 120 | 6 => 151
  | 7 => 181 | 8 => 212 | 9 => 243 | 10 => 273 | 11 => 304 | 12 => 334
  | _ => 0
  end + (if (2 <? m) && is_leap y then 1 else 0).

(** day ordinal: 0001-01-01 is day 1 *)
Definition ordinal (y m d : Z) : Z := days_before_year y + days_before_month y m + d.

Definition US_PER_DAY : Z := 86400 * 1000000.

(** A datetime is its microsecond count since 0001-01-01T00:00 minus one day (ordinal-based). *)
Definition datetime (y m d : Z) : Z := ordinal y m d * US_PER_DAY.
(** datetime with a time of day, [0 <= us_of_day < US_PER_DAY] *)
Definition datetime_at (y m d us_of_day : Z) : Z := datetime y m d + us_of_day.
Definition timedelta_us (k : Z) : Z := k.
Definition timedelta_days (td : Z) : Z := td / US_PER_DAY.   (* Python normalises: floor *)

Definition valid_date (y m d : Z) : Prop := 1 <= m <= 12 /\ 1 <= d <= days_in_month y m.
