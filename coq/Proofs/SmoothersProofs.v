(** Fixed-lambda smoothers at the reals: the symmetric one returns the C01 minimiser for the
    0/1 validity weights; lambda = 0 and "fewer than two valid cells" pass the input through;
    a converged asymmetric fit is a fixed point of the reweighting; placeholder independence
    (any carrier). *)
From Coq Require Import ZArith Reals Lra Lia Bool List.
From HDC Require Import Base.Prelude Base.Ops Model.Ws2d Model.Smoothers Proofs.Ws2dIndex Proofs.RSums Proofs.Penalty
     Proofs.Ws2dReal.
Open Scope R_scope.

(** ** sums of 0/1 weights *)
Fixpoint rsum (l : list R) : R := match l with [] => 0 | x :: r => x + rsum r end.

Lemma fsum_rsum l : fsum OpsR l = rsum l.
Proof.
  unfold fsum. assert (forall a, fold_left (fadd OpsR) l a = a + rsum l) as H.
  { induction l as [|x r IH]; intros a; cbn [fold_left rsum fadd OpsR]; [ring|]. rewrite IH. ring. }
  rewrite H. cbn [f0 OpsR]. ring.
Qed.

Definition is01 (l : list R) : Prop := Forall (fun x => x = 0 \/ x = 1) l.

Lemma rsum01_nonneg l : is01 l -> 0 <= rsum l.
Proof. induction 1 as [|x r [->| ->] _ IH]; cbn [rsum]; lra. Qed.

Lemma rsum01_pos_exists l : is01 l -> 0 < rsum l -> exists i, (i < length l)%nat /\ nth i l 0 = 1.
Proof.
  induction 1 as [|x r [->| ->] Hr IH]; cbn [rsum]; intros H; [lra| |].
  - destruct IH as (i & Hi & E); [lra|]. exists (S i). split; [cbn; lia|exact E].
  - exists 0%nat. split; [cbn; lia|reflexivity].
Qed.

Lemma rsum01_two l : is01 l -> 1 < rsum l ->
  exists p q, (p < q)%nat /\ (q < length l)%nat /\ nth p l 0 = 1 /\ nth q l 0 = 1.
Proof.
  induction 1 as [|x r [->| ->] Hr IH]; cbn [rsum]; intros H; [lra| |].
  - destruct IH as (p & q & Hpq & Hq & Ep & Eq); [lra|]. exists (S p), (S q). repeat split; try (cbn; lia); assumption.
  - destruct (rsum01_pos_exists r Hr ltac:(lra)) as (i & Hi & E). exists 0%nat, (S i). repeat split; try (cbn; lia). exact E.
Qed.

Lemma weights_gu_01 nd y : is01 (weights_gu OpsR nd y).
Proof.
  unfold weights_gu, is01. induction y as [|x r IH]; cbn [map]; constructor; [|exact IH].
  destruct (missing_gu OpsR nd x); cbn [f0 f1 OpsR]; auto.
Qed.
Lemma weights_eq_01 nd y : is01 (weights_eq OpsR nd y).
Proof.
  unfold weights_eq, is01. induction y as [|x r IH]; cbn [map]; constructor; [|exact IH].
  destruct (feqb OpsR x nd); cbn [f0 f1 OpsR]; auto.
Qed.

Lemma vecZ_nat (l : list R) i : vecZ OpsR l (Z.of_nat i) = nth i l 0.
Proof. unfold vecZ. replace (Z.of_nat i <? 0)%Z with false by (symmetry; apply Z.ltb_ge; lia). now rewrite Nat2Z.id. Qed.

(** 0/1 weights with sum > 1 meet the C01 contract *)
Lemma contract_of_01 (y w : list R) lam :
  length w = length y -> (4 <= length y)%nat -> 0 < lam -> is01 w -> 1 < rsum w ->
  (forall i, (0 <= i < Z.of_nat (length y))%Z -> 0 <= Wk w i) /\
  (exists p q, (0 <= p < q)%Z /\ (q < Z.of_nat (length y))%Z /\ 0 < Wk w p /\ 0 < Wk w q).
Proof.
  intros Hl Hn Hlam H01 Hs. split.
  - intros i Hi. unfold Wk. replace i with (Z.of_nat (Z.to_nat i)) by lia. rewrite vecZ_nat.
    unfold is01 in H01. rewrite Forall_forall in H01.
    destruct (H01 (nth (Z.to_nat i) w 0)) as [E|E]; [apply nth_In; lia|rewrite E; lra|rewrite E; lra].
  - destruct (rsum01_two w H01 Hs) as (p & q & Hpq & Hq & Ep & Eq).
    exists (Z.of_nat p), (Z.of_nat q). unfold Wk. rewrite !vecZ_nat, Ep, Eq. repeat split; try lia; lra.
Qed.

(** ** ws2dgu *)
Lemma Rltb_true x y : Rltb x y = true <-> x < y.
Proof. unfold Rltb. destruct (Rlt_dec x y); split; intros; try assumption; try reflexivity; try discriminate; contradiction. Qed.
Lemma Reqb_true x y : Reqb x y = true <-> x = y.
Proof. unfold Reqb. destruct (Req_EM_T x y); split; intros; try assumption; try reflexivity; try discriminate; contradiction. Qed.

Lemma zero_missing_length (w y : list R) : length w = length y -> length (zero_missing OpsR w y) = length y.
Proof. intros H. unfold zero_missing. rewrite map_length, combine_length. lia. Qed.
Lemma weights_gu_length nd (y : list R) : length (weights_gu OpsR nd y) = length y.
Proof. unfold weights_gu. apply map_length. Qed.

(** for lambda > 0 and at least two valid cells the symmetric smoother returns the curve that
    uniquely minimises the PLS objective with unit weight on the valid cells (and weight 0 on
    missing ones, whose placeholder is replaced by 0 and cannot matter) *)
Theorem gu_is_pls y lam nd z :
  (4 <= length y)%nat -> 0 < lam -> ws2dgu OpsR y lam nd = Curve z ->
  let w := weights_gu OpsR nd y in
  let yv := zero_missing OpsR w y in
  z = ws2d OpsR yv lam w /\ 1 < rsum w /\
  forall z' : Z -> R,
    Sobj (length yv) (Wk w) (Yk yv) lam (Zk yv w lam) <= Sobj (length yv) (Wk w) (Yk yv) lam z' /\
    (Sobj (length yv) (Wk w) (Yk yv) lam z' = Sobj (length yv) (Wk w) (Yk yv) lam (Zk yv w lam) ->
     forall i, (0 <= i < Z.of_nat (length yv))%Z -> z' i = Zk yv w lam i).
Proof.
  intros Hn Hlam H w yv. unfold ws2dgu in H. fold w in H.
  destruct (feqb OpsR lam (f0 OpsR)) eqn:E0; [discriminate|].
  destruct (fltb OpsR (f1 OpsR) (fsum OpsR w)) eqn:E1; [|discriminate].
  injection H as <-. cbn [fltb f1 OpsR] in E1. apply Rltb_true in E1. rewrite fsum_rsum in E1.
  split; [reflexivity|]. split; [exact E1|].
  assert (length w = length yv) as Hl by (unfold yv, w; rewrite zero_missing_length; rewrite weights_gu_length; reflexivity).
  assert (4 <= length yv)%nat as Hn' by (unfold yv, w; rewrite zero_missing_length; [exact Hn|apply weights_gu_length]).
  destruct (contract_of_01 yv w lam Hl Hn' Hlam (weights_gu_01 nd y) E1) as [Wn W2].
  exact (minimises yv w lam Hl Hn' Wn Hlam W2).
Qed.

Theorem gu_lambda0 y nd : ws2dgu OpsR y 0 nd = Passthrough.
Proof. unfold ws2dgu. cbn [feqb f0 OpsR]. replace (Reqb 0 0) with true; [reflexivity|]. symmetry. now apply Reqb_true. Qed.
Theorem pgu_lambda0 y nd p : ws2dpgu OpsR y 0 nd p = Passthrough.
Proof. unfold ws2dpgu. cbn [feqb f0 OpsR]. replace (Reqb 0 0) with true; [reflexivity|]. symmetry. now apply Reqb_true. Qed.

(** fewer than two valid cells: returned unchanged *)
Theorem gu_few_valid y lam nd : rsum (weights_gu OpsR nd y) <= 1 -> ws2dgu OpsR y lam nd = Passthrough.
Proof.
  intros H. unfold ws2dgu. destruct (feqb OpsR lam (f0 OpsR)); [reflexivity|].
  replace (fltb OpsR (f1 OpsR) (fsum OpsR (weights_gu OpsR nd y))) with false; [reflexivity|].
  symmetry. cbn [fltb f1 OpsR]. rewrite fsum_rsum. apply not_true_is_false. intros E. apply Rltb_true in E. lra.
Qed.
Theorem pgu_few_valid y lam nd p : rsum (weights_gu OpsR nd y) <= 1 -> ws2dpgu OpsR y lam nd p = Passthrough.
Proof.
  intros H. unfold ws2dpgu. destruct (feqb OpsR lam (f0 OpsR)); [reflexivity|].
  replace (fltb OpsR (f1 OpsR) (fsum OpsR (weights_gu OpsR nd y))) with false; [reflexivity|].
  symmetry. cbn [fltb f1 OpsR]. rewrite fsum_rsum. apply not_true_is_false. intros E. apply Rltb_true in E. lra.
Qed.

(** number of valid cells = sum of the weights *)
Lemma rsum_counts nd y :
  rsum (weights_gu OpsR nd y) = INR (length (filter (fun x => negb (missing_gu OpsR nd x)) y)).
Proof.
  unfold weights_gu. induction y as [|x r IH]; [reflexivity|]. cbn [map rsum filter].
  destruct (missing_gu OpsR nd x); cbn [negb f0 f1 OpsR] in *.
  - rewrite IH. ring.
  - cbn [length]. rewrite S_INR, IH. ring.
Qed.

(** ** asymmetric reweighting *)
Lemma unchanged_eq (a b : list R) : length a = length b -> unchanged OpsR a b = true -> a = b.
Proof.
  revert b; induction a as [|x a IH]; intros [|y b] Hl H; cbn in *; try lia; [reflexivity|].
  apply andb_true_iff in H as [H1 H2]. apply Reqb_true in H1.
  assert (x = y).
  { unfold Rabs in H1. destruct (Rcase_abs (x - y)); lra. }
  subst. f_equal. apply IH; [lia|exact H2].
Qed.

Lemma asym_weights_length p p1 (w y z : list R) :
  length w = length y -> length z = length y -> length (asym_weights OpsR p p1 w y z) = length y.
Proof. intros Hw Hz. unfold asym_weights. rewrite map_length, !combine_length. lia. Qed.

(** whatever way the reweighting loop ends (unchanged pass, or its passes used up), the curve it
    hands back is the weighted solve with the weights it hands back *)
Lemma irls_final fuel p p1 lam (w y : list R) : forall z ww ww' z',
  (4 <= length y)%nat -> length w = length y -> length z = length y -> (1 <= fuel)%nat ->
  irls OpsR fuel p p1 lam w y z ww = (ww', z') ->
  ws2d OpsR y lam ww' = z' /\ length z' = length y /\ length ww' = length y /\
  exists zz, length zz = length y /\ ww' = asym_weights OpsR p p1 w y zz.
Proof.
  induction fuel as [|f IH]; intros z ww ww' z' Hn Hw Hz Hf H; [lia|]. cbn [irls] in H.
  set (wa := asym_weights OpsR p p1 w y z) in *.
  assert (length wa = length y) as Lwa by (apply asym_weights_length; assumption).
  assert (length (ws2d OpsR y lam wa) = length y) as Lz by (apply ws2d_length; assumption).
  destruct (unchanged OpsR (ws2d OpsR y lam wa) z) eqn:U.
  - injection H as <- <-. split; [apply unchanged_eq; [lia|exact U]|]. split; [assumption|]. split; [assumption|].
    exists z. split; [assumption|reflexivity].
  - destruct f as [|f].
    + cbn [irls] in H. injection H as <- <-. split; [reflexivity|]. split; [assumption|]. split; [assumption|].
      exists z. split; [assumption|reflexivity].
    + apply (IH (ws2d OpsR y lam wa) wa ww' z' Hn Hw Lz ltac:(lia) H).
Qed.

(** the asymmetric fit at a given lambda: it is the curve the loop stopped at; if the loop
    stopped on an unchanged pass (its weights are those of that curve) the fit is a fixed point
    of the reweighting map z |-> ws2d(y, lambda, w * a(y, z)) *)
Theorem asym_fit_fixed_point p lam (w y : list R) :
  (4 <= length y)%nat -> length w = length y ->
  let p1 := 1 - p in
  let '(ww, z') := irls OpsR 10 p p1 lam w y (zeros OpsR (length y)) (zeros OpsR (length y)) in
  asym_fit OpsR p lam w y = z' /\
  (ww = asym_weights OpsR p p1 w y z' ->
   asym_fit OpsR p lam w y = ws2d OpsR y lam (asym_weights OpsR p p1 w y (asym_fit OpsR p lam w y))).
Proof.
  intros Hn Hw p1. unfold asym_fit. cbn [fsub f1 OpsR]. fold p1.
  destruct (irls OpsR 10 p p1 lam w y (zeros OpsR (length y)) (zeros OpsR (length y))) as [ww z'] eqn:E.
  assert (length (zeros OpsR (length y)) = length y) as Lz by (unfold zeros; apply repeat_length).
  destruct (irls_final 10 p p1 lam w y _ _ ww z' Hn Hw Lz ltac:(lia) E) as (F & _).
  split; [exact F|]. intros Hc. rewrite F. rewrite <- Hc. symmetry. exact F.
Qed.

(** ** the result does not depend on what marks the missing cells (any carrier) *)
Section Placeholder.
  Context {F : Type} (O : Ops F).
  Hypothesis feqb_00 : feqb O (f0 O) (f0 O) = true.
  Hypothesis feqb_10 : feqb O (f1 O) (f0 O) = false.

  (** same missing pattern, same values on the valid cells *)
  Definition same_cells (nd1 nd2 : F) (y1 y2 : list F) : Prop :=
    Forall2 (fun a b => (missing_gu O nd1 a = true /\ missing_gu O nd2 b = true) \/
                        (missing_gu O nd1 a = false /\ missing_gu O nd2 b = false /\ a = b)) y1 y2.

  Lemma same_cells_weights nd1 nd2 y1 y2 :
    same_cells nd1 nd2 y1 y2 -> weights_gu O nd1 y1 = weights_gu O nd2 y2.
  Proof.
    unfold weights_gu. induction 1 as [|a b r1 r2 H _ IH]; [reflexivity|]. cbn [map]. rewrite IH. f_equal.
    destruct H as [[-> ->]|[-> [-> _]]]; reflexivity.
  Qed.

  Lemma same_cells_zero_missing nd1 nd2 y1 y2 :
    same_cells nd1 nd2 y1 y2 ->
    zero_missing O (weights_gu O nd1 y1) y1 = zero_missing O (weights_gu O nd2 y2) y2.
  Proof.
    unfold zero_missing, weights_gu. induction 1 as [|a b r1 r2 H _ IH]; [reflexivity|].
    cbn [map combine fst snd]. rewrite IH. f_equal.
    destruct H as [[-> ->]|[-> [-> ->]]]; [now rewrite feqb_00|now rewrite feqb_10].
  Qed.

  Theorem gu_placeholder_indep nd1 nd2 y1 y2 lam :
    same_cells nd1 nd2 y1 y2 -> ws2dgu O y1 lam nd1 = ws2dgu O y2 lam nd2.
  Proof.
    intros H. unfold ws2dgu. rewrite (same_cells_zero_missing _ _ _ _ H), (same_cells_weights _ _ _ _ H). reflexivity.
  Qed.

  Theorem pgu_placeholder_indep nd1 nd2 y1 y2 lam p :
    same_cells nd1 nd2 y1 y2 -> ws2dpgu O y1 lam nd1 p = ws2dpgu O y2 lam nd2 p.
  Proof.
    intros H. unfold ws2dpgu. rewrite (same_cells_zero_missing _ _ _ _ H), (same_cells_weights _ _ _ _ H). reflexivity.
  Qed.
End Placeholder.
