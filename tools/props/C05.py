"""C05 — GCV selection is optimal on the grid; robust mode never degenerates."""
import math

import numpy as np

from vlib import core
from props import whit_common as wc
from props.C03 import gen_series, gap_pattern


def degenerate_series(rng, n, kind):
    t = np.arange(n)
    if kind == 0:
        return np.full(n, float(rng.integers(-500, 5000)))                       # constant
    if kind == 1:
        return float(rng.integers(-50, 50)) * t + float(rng.integers(-500, 500))  # exactly linear
    if kind == 2:
        y = np.full(n, float(rng.integers(0, 3000)))                             # flat with spikes (> half of the residuals equal)
        y[rng.choice(n, size=max(1, n // 8), replace=False)] += float(rng.integers(200, 3000))
        return y
    y = np.round(1000 + 300 * np.sin(t / 4.0))
    y[: n // 2 + 1] = y[0]                                                        # more than half equal
    return y


def gen(ctx, rng):
    cases = []
    N = 240 if ctx.thorough else 72
    for it in range(N):
        n = int(rng.choice([5, 6, 8, int(rng.integers(9, 60)), int(rng.integers(60, 200 if ctx.thorough else 100))]))
        if it % 4 == 3:
            y = degenerate_series(rng, n, (it // 4) % 4)
        else:
            y = gen_series(rng, n, negative_ok=(it % 3 == 0))
        nd = float(rng.choice([-9999, -3000, 9500, 32000]))
        y = np.clip(y, -9000, 9000)
        y[y == nd] += 1
        miss = gap_pattern(rng, n) if it % 3 else np.zeros(n, dtype=bool)
        if (~miss).sum() < 5 and it % 6:
            miss[:] = False
        yl = [float(v) for v in y]
        for i in np.where(miss)[0]:
            yl[i] = nd if (it % 5) else [nd, None, float("inf")][int(rng.integers(0, 3))]
        k = int(rng.integers(2, 41 if ctx.thorough else 22))
        start = float(rng.uniform(-3, 2))
        step = min(float(rng.choice([0.2, 0.5, 1.0, float(rng.uniform(0.05, 0.6))])), (6.0 - start) / max(1, k - 1))
        llas = [start + step * i for i in range(k)]
        if it % 9 == 0:
            llas = [float(v) for v in np.arange(-1.8, 4.2, 0.2)]                  # the accessor's default
        c = dict(kind="wcv" if it % 2 == 0 else "wcvp", y=yl, nodata=nd, llas=llas, robust=bool((it // 2) % 2), n=n, miss=int(miss.sum()),
                 degenerate=(it % 4 == 3))
        if c["kind"] == "wcvp":
            c["p"] = float(rng.choice([0.9, 0.5, 0.1, float(rng.uniform(0.05, 0.95))]))
        cases.append(c)
    # asymmetric GCV fits whose final reweighting does not settle within its 10 passes (extreme envelope, long noisy / step-like series)
    for it in range(48 if ctx.thorough else 16):
        n = int(rng.integers(90, 200))
        if it % 2:
            y = np.round(rng.normal(2000, 900, n))
        else:
            y = np.round(np.repeat(rng.normal(2000, 900, n // 12 + 1), 12)[:n] + rng.normal(0, 40, n))
        cases.append(dict(kind="wcvp", y=[float(v) for v in y], nodata=-3000.0, llas=[float(v) for v in np.arange(-1.0, 1.6, 0.5)],
                          robust=bool(it % 4 < 2), n=n, miss=0, degenerate=False, p=float(rng.choice([0.99999, 0.9999, 0.999, 0.00001]))))
    # robust fits of noisy series whose missing cells are marked NaN / +inf / -inf (a non-finite residual must not reach the weights)
    for it in range(24 if ctx.thorough else 8):
        n = int(rng.integers(12, 60))
        y = np.clip(gen_series(rng, n, negative_ok=False), -9000, 9000)
        y[rng.choice(n, size=2, replace=False)] -= float(rng.integers(800, 2500))          # outliers below the curve
        miss = np.zeros(n, dtype=bool)
        miss[rng.choice(n, size=max(1, n // 6), replace=False)] = True
        mark = [None, float("inf"), float("-inf"), None][it % 4]
        cases.append(dict(kind="wcv" if it % 2 == 0 else "wcvp", y=[mark if m else float(v) for v, m in zip(y, miss)], nodata=-3000.0,
                          llas=[float(v) for v in np.arange(-1.0, 2.6, 0.5)], robust=True, n=n, miss=int(miss.sum()), degenerate=False,
                          p=None if it % 2 == 0 else 0.9))
    # short series with one spike: most residuals nearly equal, the robust scale collapses (the reweighting must not switch
    # all but one cell off)
    for it in range(90 if ctx.thorough else 30):
        n = int(rng.integers(5, 10))
        y = np.round(rng.normal(1100, 60, n))
        y[int(rng.integers(0, n))] += float(rng.choice([300, 500, -400, 900]))
        llas = [float(v) for v in np.arange(0.0, float(rng.choice([1.5, 2.5, 3.5])), 1.0)]
        cases.append(dict(kind="wcvp" if it % 3 == 0 else "wcv", y=[float(v) for v in y], nodata=-3000.0, llas=llas, robust=True, n=n, miss=0,
                          degenerate=False, p=0.9 if it % 3 == 0 else None))
    # flat series below zero with one upward spike and gaps: the zero-filled gap cells lie above the curve, so a reweighting that keeps
    # weight only on them (and on the spike) leaves fewer than two weighted valid cells
    for it in range(24 if ctx.thorough else 8):
        n = int(rng.integers(6, 16))
        level = float(rng.choice([-50, -200, -120, -800]))
        y = np.full(n, level) + np.round(rng.normal(0, float(rng.choice([0.0, 1.0, 3.0])), n))
        y[int(rng.integers(0, n))] = level + float(rng.choice([400, 1000, 250]))
        yl = [float(v) for v in y]
        for i in rng.choice(n, size=int(rng.integers(1, 3)), replace=False):
            if y[i] < level + 100:
                yl[int(i)] = -3000.0
        if sum(1 for v in yl if v != -3000.0) >= 5:
            cases.append(dict(kind="wcvp" if it % 3 == 0 else "wcv", y=yl, nodata=-3000.0, llas=[float(v) for v in np.arange(0.0, float(rng.choice([1.5, 2.5, 3.5])), 1.0)],
                              robust=True, n=n, miss=sum(1 for v in yl if v == -3000.0), degenerate=False, p=0.9 if it % 3 == 0 else None))
    # the same family at fixed positions (exactly flat, spike in the middle, gaps away from it), so that its presence does not depend on the seed
    for fi, (m, level, height, gaps, llas) in enumerate([
            (15, -50.0, 500.0, [5], [float(v) for v in np.arange(-1.8, 4.2, 0.2)]),
            (13, -50.0, 100.0, [4, 8], [float(v) for v in np.arange(-1.8, 4.2, 0.2)]),
            (21, -200.0, 100.0, [2, 18], [float(v) for v in np.arange(-1.8, 4.2, 0.2)]),
            (11, -500.0, 1000.0, [3], [-2.0, -1.0, 0.0, 1.0]),
            (12, -120.0, 400.0, [2, 9], [0.0, 1.0, 2.0])]):
        yl = [level] * m
        yl[m // 2] = level + height
        for g in gaps:
            yl[g] = -3000.0
        for kind in ("wcv", "wcvp"):
            cases.append(dict(kind=kind, y=list(yl), nodata=-3000.0, llas=llas, robust=True, n=m, miss=len(gaps), degenerate=False,
                              p=0.8 if kind == "wcvp" else None))
    acc = []
    for k in range(8 if ctx.thorough else 4):
        T = int(rng.integers(10, 40))
        cube = np.stack([np.stack([gen_series(rng, T, negative_ok=False) for _ in range(2)]) for _ in range(2)])
        cube[0, 0] = degenerate_series(rng, T, k % 4)
        nd = -3000.0
        cube[rng.random(cube.shape) < 0.08] = nd
        a = dict(op="whitswcv", cube=cube.tolist(), nodata=nd, order=[("time", "y", "x"), ("y", "x", "time")][k % 2], name=[None, "evi"][k % 2])
        # a nodata attribute on the array that differs from the argument: the argument is what marks the missing cells
        a["attr_nodata"] = [-9999, None, 0, None][k % 4]
        if k % 2:
            a["p"] = [0.85, 0.5][(k // 2) % 2]          # 0.5 is an envelope like any other (every weight halved: the curve for 2 lambda)
        if k >= 2:
            # grids on and off the one-decimal lattice (steps 0.5, 0.25, 0.05; an offset grid; a linspace)
            a["srange"] = [[float(v) for v in np.arange(-1.85, 2.0, 0.3)], [float(v) for v in np.arange(-0.975, 2.1, 0.25)],
                           [float(v) for v in np.arange(-1, 3.5, 0.5)], [float(v) for v in np.arange(0.325, 1.2, 0.05)],
                           [float(v) for v in np.linspace(-1, 3, 17)], [float(v) for v in np.arange(-1, 2.1, 0.25)]][(k - 2) % 6]
            a["robust"] = bool(k % 4 == 1)
        if k % 4 == 1:
            # unsigned input: step series near both ends of the type, so that the curve under- and overshoots its range
            udt = ["uint8", "uint16"][(k // 4) % 2]
            top = 250 if udt == "uint8" else 65000
            nd = float(top + 5)
            cube = np.stack([np.stack([np.where(np.arange(T) < int(rng.integers(3, T - 3)), float(rng.integers(0, 6)), float(top - rng.integers(0, 6)))
                                       [:: (1 if (i + j) % 2 else -1)] for j in range(2)]) for i in range(2)])
            cube[rng.random(cube.shape) < 0.08] = nd
            a.update(cube=cube.tolist(), nodata=nd, dtype=udt)
        pcs = []
        for yy in range(2):
            for xx in range(2):
                c = dict(kind="wcvp" if a.get("p") else "wcv", y=[float(v) for v in cube[yy][xx]], nodata=nd, p=a.get("p"), n=T, miss=0,
                         llas=a.get("srange") or [float(v) for v in np.arange(-1.8, 4.2, 0.2)], robust=a.get("robust", True), degenerate=False)
                pcs.append(c)
        a["pixel_cases"] = pcs
        acc.append(a)
    return cases, acc


def spec(c, r):
    valid = [not (v is None or v in (float("inf"), float("-inf")) or v == c["nodata"]) for v in c["y"]]
    if sum(valid) < 5:
        finite = all(v is not None and abs(v) < 3e4 for v in c["y"])
        if r["lopt"] != 0.0 or (finite and r["out"] != [int(v) for v in c["y"]]):
            return "fewer than five valid cells must be returned unchanged with lambda 0"
        return None
    for a in r.get("alts") or []:
        if a["out"] != r["out"] or a["lopt"] != r["lopt"]:
            return ("the result depends on the nodata placeholder: with %s in the missing cells lambda=%r band=%r" % (a["placeholder"], a["lopt"], a["out"][:30]))
    grid = [pow(10.0, l) for l in c["llas"]]
    if r["lopt"] not in grid:
        return "reported lambda %r is not one of 10**srange" % r["lopt"]
    y = np.array([v if ok else 0.0 for v, ok in zip(c["y"], valid)])
    w = np.array(valid, dtype=float)
    if not c["robust"]:
        if r["out"] != r["fixed_out"]:
            return "band differs from the fixed-lambda smoother at the reported lambda"
        if c["n"] <= 80 and len(grid) <= 30:
            sc = wc.gcv_float(y, w, c["llas"])
            k = grid.index(r["lopt"])
            best = min(sc)
            second = sorted(sc)[1] if len(sc) > 1 else best
            if best > 1e-9 * float(np.sum(y * y) + 1) and second - best > 1e-3 * best and sc[k] > best * (1 + 1e-6):
                return "reported lambda (grid index %d, GCV %.6g) does not minimise the GCV score (min %.6g at index %d)" % (k, sc[k], best, sc.index(best))
    else:
        vals = [o for o, ok in zip(r["out"], valid) if ok]
        data = [v for v, ok in zip(c["y"], valid) if ok]
        sv = r.get("solves") or {}
        if sv.get("same_as_compiled") and sv.get("min_weighted", 9) < 2:
            return ("robust mode degenerated: a solve of the Whittaker system ran with %d weighted cell(s) (singular system; %d solves observed in the "
                    "kernel's source run in the interpreter, whose band and lambda equal the compiled kernel's)" % (sv["min_weighted"], sv["n_solves"]))
        if sv.get("same_as_compiled") and sv.get("max_median_cells", 0) > sum(valid):
            return ("the robust scale is not derived from the residuals of valid cells only: %d residuals enter the median for %d valid cells"
                    % (sv["max_median_cells"], sum(valid)))
        if all(o == 0 for o in vals) and any(abs(v) > 2 for v in data):
            return "robust result is all zeros on non-zero data (degenerate weights)"
        if c["degenerate"] and c["kind"] == "wcv" and sum(valid) == c["n"]:
            lin = np.polyfit(np.arange(c["n"]), np.array(data), 1)
            if np.allclose(np.polyval(lin, np.arange(c["n"])), data, atol=1e-9) and r["out"] != [int(round(v)) for v in data]:
                return "an exactly linear series is not returned unchanged in robust mode"
    return None


def run(ctx):
    ctx.proofs(["Props/C05.v"])
    rng = np.random.default_rng(ctx.seed)
    cases, acc = gen(ctx, rng)
    res, log = core.run_impl("whit_impl.py", dict(kernels=cases, accessors=acc), timeout=3000)
    if res is None:
        ctx.violation("implementation run failed", dict(kind="impl-crash", log=log[-3000:]), found_input=False)
        return
    spec_fail, coq, meta = [], [], []
    dist = dict(placeholder_variants=0, solves_observed=0, wcv=0, wcvp=0, robust=0, degenerate=0, with_gaps=0, nonfinite_cells=0, passthrough=0, accessor_pixels=0, grid_sizes={})
    for c, r in zip(cases, res["kernels"]):
        m = dict(kind=c["kind"], n=c["n"], nodata=c["nodata"], p=c.get("p"), robust=c["robust"], srange=[c["llas"][0], c["llas"][-1], len(c["llas"])],
                 y=c["y"] if c["n"] <= 30 else None, lopt=r.get("lopt"), out=r.get("out") if c["n"] <= 30 else None)
        if "error" in r:
            spec_fail.append((dict(m, y=c["y"]), "kernel raised %s" % r["error"]))
            continue
        dist[c["kind"]] += 1
        dist["robust"] += 1 if c["robust"] else 0
        dist["placeholder_variants"] += len(r.get("alts") or [])
        dist["solves_observed"] += 1 if (r.get("solves") or {}).get("same_as_compiled") else 0
        dist["degenerate"] += 1 if c["degenerate"] else 0
        dist["with_gaps"] += 1 if c["miss"] else 0
        dist["nonfinite_cells"] += sum(1 for v in c["y"] if v is None or v in (float("inf"), float("-inf")))
        dist["passthrough"] += 1 if r["lopt"] == 0 else 0
        dist["grid_sizes"][len(c["llas"])] = dist["grid_sizes"].get(len(c["llas"]), 0) + 1
        why = spec(c, r)
        if why:
            spec_fail.append((dict(m, y=c["y"], out=r["out"]), why))
        coq.append(wc.coq_case(c, r, None)[0])
        meta.append(m)
    for a, r in zip(acc, res["accessors"]):
        if "error" in r:
            spec_fail.append((dict(origin="whitswcv", case={k: a[k] for k in a if k not in ("cube", "pixel_cases")}), "whitswcv raised %s" % r["error"]))
            continue
        want = sorted([a.get("name") or "band", "sgrid"])
        if r["names"] != want or r["sgrid_dtype"] != "float32" or r["band_dtype"] != "int16":
            spec_fail.append((dict(origin="whitswcv", names=r["names"], sgrid_dtype=r["sgrid_dtype"]), "dataset naming / dtypes"))
        for i, (c, pr) in enumerate(zip(a["pixel_cases"], r["pixels"])):
            yy, xx = divmod(i, 2)
            band, sg = r["band"][yy][xx], r["sgrid"][yy][xx]
            dist["accessor_pixels"] += 1
            m = dict(kind="whitswcv->" + c["kind"], n=c["n"], p=c.get("p"), robust=c["robust"], lopt=pr.get("lopt"), sgrid=sg)
            if "error" in pr:
                continue
            want_sg = float(np.float32(np.log10(pr["lopt"]))) if pr["lopt"] > 0 else float("-inf")
            if band != pr["out"] or not (sg == want_sg):
                spec_fail.append((dict(m, y=c["y"], band=band), "whitswcv band/sgrid differ from the kernel result (defaults: srange arange(-1.8,4.2,0.2), robust=True)"))
            why = spec(c, pr)
            if why:
                spec_fail.append((dict(m, y=c["y"], out=pr["out"]), why))
            coq.append(wc.coq_case(c, pr, None)[0])
            meta.append(m)
    r1 = core.eval_cases("C05", "g", wc.PRE, coq, "check_g", shard=6, scope="Z")
    r2 = core.eval_cases("C05", "claim", wc.PRE, coq, "claim_g", shard=6, scope="Z")
    ctx.cov["evaluations"] = len(coq)
    ctx.cov["distinct_nontrivial"] = len(set(coq))
    ctx.cov["rule"] = ("seeded series (length 5..%d) incl. degenerate residual families (constant, exactly linear, flat with spikes, more than "
                       "half equal), gap patterns, placeholders nodata/NaN/inf, sranges 2..%d entries and the default, robust in {F,T}, p none or "
                       "in (0,1); accessor whitswcv with its defaults; distinct cases counted" % (200 if ctx.thorough else 100, 40 if ctx.thorough else 21))
    ctx.notes.update(input_distribution=dist, cases_bit_exact=len(coq) - len(r2["failing"]), out_of_claim_dropped=len(r2["failing"]),
                     model_vs_impl_mismatches=len(r1["failing"]), spec_failures=len(spec_fail))
    ctx.add_samples([meta[0], meta[1], meta[3], meta[-1]])
    ctx.assumptions += ["cos and 10**x are libm's (tables computed with math.cos / pow, which the compiled code was measured to agree with)",
                        "np.median is modelled as sort + middle, array sums as sequential (as Numba compiles them)",
                        "GCV minimality is re-computed in binary64 with dense solves and checked only where the two smallest scores differ by > 0.1%"]
    for r, tag in ((r1, "check"), (r2, "claim")):
        for si, lg in r["errors"]:
            ctx.violation("Coq could not evaluate the %s cases" % tag, dict(kind="coq-eval-error", log=lg), found_input=False)
    if spec_fail:
        spec_fail.sort(key=lambda t: len(str(t[0])))
        m, why = spec_fail[0]
        ctx.violation(why, dict(kind="spec", case=m, n_failing=len(spec_fail)))
    elif r1["failing"]:
        bad = sorted((meta[i] for i in r1["failing"]), key=lambda m: m["n"])
        ctx.violation("model and implementation disagree (Corr/C05.v check_g, bit-exact band and lambda); grid membership, minimality and "
                      "band/lambda self-consistency hold on all explored inputs",
                      dict(kind="correspondence", correspondence="Corr/C05.v check_g", case=bad[0], n_disagree=len(bad)), found_input=False)


def replay(ctx, path):
    import json
    rp = json.load(open(path))
    print(json.dumps(rp.get("case"))[:3000])
    return 2
