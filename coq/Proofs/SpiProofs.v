(** SPI (properties C07, C08) over the reals, relative to the oracle functions (log, digamma,
    gammainc, ndtri are Section variables; every hypothesis about them is stated where used). *)
From Coq Require Import ZArith Reals Lra Lia Bool List.
From HDC Require Import Base.Prelude Base.Ops Model.Spi Proofs.SmoothersProofs Proofs.PlaceholderProofs Proofs.Rounding.
Open Scope R_scope.

Section Brent.
  Variable K : spi_consts (F := R).
  Variable func : R -> R.

  Definition delta_at (x : R) : R := (k_xtol K + k_rtol K * Rabs x) / 2.

  (** what a converged return means: an exact zero, or a sign change within the tolerance *)
  Definition root_enclosed (x : R) : Prop :=
    func x = 0 \/ exists xb, func x * func xb <= 0 /\ Rabs ((xb - x) / 2) < delta_at x.

  (** loop invariant at the top of an iteration *)
  Definition binv (st : bstate (F := R)) : Prop :=
    fcur st = func (xcur st) /\ fpre st = func (xpre st) /\ fpre st <> 0 /\
    (fpre st * fcur st < 0 \/ (fblk st = func (xblk st) /\ fblk st * fcur st <= 0)).

  Lemma Rltb_false x y : Rltb x y = false <-> ~ x < y.
  Proof. unfold Rltb. destruct (Rlt_dec x y); split; intros; try congruence; try contradiction; reflexivity. Qed.

  Lemma brent_iter_inv st :
    binv st ->
    match brent_iter OpsR K func st with
    | inl x => root_enclosed x
    | inr st' => binv st'
    end.
  Proof.
    intros (Hc & Hp & Hp0 & Hb). unfold brent_iter.
    (* st1 *)
    set (st1 := if fltb OpsR (fmul OpsR (fpre st) (fcur st)) (f0 OpsR) then _ else st).
    assert (fcur st1 = func (xcur st1) /\ fblk st1 = func (xblk st1) /\ fblk st1 * fcur st1 <= 0 /\
            (fpre st1 = func (xpre st1)) /\ fpre st1 <> 0) as (C1 & B1 & S1 & P1 & P10).
    { unfold st1. cbn [fltb fmul f0 OpsR]. destruct (Rltb (fpre st * fcur st) 0) eqn:E.
      - apply Rltb_true in E. cbn [xcur xblk fcur fblk fpre xpre]. repeat split; try assumption. lra.
      - apply Rltb_false in E. destruct Hb as [Hb|[Hb1 Hb2]]; [contradiction|]. repeat split; assumption. }
    clearbody st1.
    set (st2 := if fltb OpsR (fabs OpsR (fblk st1)) (fabs OpsR (fcur st1)) then _ else st1).
    assert (fcur st2 = func (xcur st2) /\ fblk st2 = func (xblk st2) /\ fblk st2 * fcur st2 <= 0 /\
            (fcur st2 <> 0 -> True)) as (C2 & B2 & S2 & _).
    { unfold st2. destruct (fltb OpsR _ _); cbn [xcur xblk fcur fblk]; repeat split; try assumption. lra. }
    clearbody st2. cbn zeta.
    set (dl := fdiv OpsR (fadd OpsR (k_xtol K) (fmul OpsR (k_rtol K) (fabs OpsR (xcur st2)))) (fofZ OpsR 2)).
    set (sb := fdiv OpsR (fsub OpsR (xblk st2) (xcur st2)) (fofZ OpsR 2)).
    destruct (feqb OpsR (fcur st2) (f0 OpsR) || fltb OpsR (fabs OpsR sb) dl) eqn:Eret.
    - (* return xcur *)
      apply orb_true_iff in Eret as [E|E].
      + left. cbn [feqb f0 OpsR] in E. apply Reqb_true in E. rewrite <- C2. exact E.
      + right. exists (xblk st2). split; [rewrite <- C2, <- B2; lra|].
        cbn [fltb fabs OpsR] in E. apply Rltb_true in E. unfold sb, dl in E. cbn [fdiv fsub fadd fmul fabs fofZ OpsR] in E.
        unfold delta_at. exact E.
    - apply orb_false_iff in Eret as [E0 _]. cbn [feqb f0 OpsR] in E0.
      assert (fcur st2 <> 0) as N2 by (intros X; rewrite X in E0; rewrite Reqb_refl in E0; discriminate).
      match goal with |- match (let '(a, b) := ?e in _) with _ => _ end => destruct e as [sp sc] end.
      cbn [binv xcur xpre xblk fcur fpre fblk]. unfold binv. cbn [xcur xpre xblk fcur fpre fblk].
      set (xnew := if fltb OpsR dl (fabs OpsR sc) then _ else _).
      split; [reflexivity|]. split; [exact C2|]. split; [exact N2|].
      destruct (Rlt_dec (fcur st2 * func xnew) 0) as [L|L]; [left; exact L|right].
      split; [exact B2|]. apply Rnot_lt_le in L.
      (* fblk2 * fcur2 <= 0, fcur2 * f(xnew) >= 0, fcur2 <> 0  =>  fblk2 * f(xnew) <= 0 *)
      assert (0 < fcur st2 * fcur st2) by (destruct (Rdichotomy _ _ N2); nra).
      assert ((fblk st2 * func xnew) * (fcur st2 * fcur st2) <= 0) as X by nra.
      destruct (Rle_lt_dec (fblk st2 * func xnew) 0) as [Y|Y]; [exact Y|exfalso; nra].
  Qed.

  Lemma brent_loop_post fuel : forall st x,
    binv st -> brent_loop OpsR K func fuel st = Root x true -> root_enclosed x.
  Proof.
    induction fuel as [|f IH]; intros st x Hi H; cbn [brent_loop] in H; [discriminate|].
    pose proof (brent_iter_inv st Hi) as J. destruct (brent_iter OpsR K func st) as [y|st'].
    - injection H as <-. exact J.
    - exact (IH st' x J H).
  Qed.

  (** post-condition of the root finder: whenever it returns through its convergence test, the
      returned point is a zero of [func] or has a sign change within xtol + rtol |x| of it *)
  Theorem brentq_post xa xb x : brentq OpsR K func xa xb = Root x true -> root_enclosed x.
  Proof.
    unfold brentq. cbn [fltb fmul feqb f0 OpsR].
    destruct (Rltb 0 (func xa * func xb)) eqn:E1; [discriminate|].
    destruct (Reqb (func xa) 0) eqn:E2; [intros [= <-]; left; now apply Reqb_true|].
    destruct (Reqb (func xb) 0) eqn:E3; [intros [= <-]; left; now apply Reqb_true|].
    apply brent_loop_post. unfold binv. cbn [xcur xpre xblk fcur fpre fblk].
    apply Rltb_false in E1.
    assert (func xa <> 0) as Na by (intros X; rewrite X, Reqb_refl in E2; discriminate).
    assert (func xb <> 0) as Nb by (intros X; rewrite X, Reqb_refl in E3; discriminate).
    repeat split; try assumption. left.
    destruct (Rtotal_order (func xa * func xb) 0) as [L|[Z0|G]]; [exact L| |exfalso; lra].
    exfalso. apply Rmult_integral in Z0 as [Z0|Z0]; contradiction.
  Qed.

  (** for a continuous [func] a true root lies within the tolerance of the returned point *)
  Theorem enclosed_root_exists x :
    0 <= k_xtol K -> 0 <= k_rtol K -> continuity func -> root_enclosed x ->
    exists r, func r = 0 /\ Rabs (r - x) <= 2 * delta_at x.
  Proof.
    intros Hx Hr Hc [Z0|(xb & Hs & Hd)].
    - exists x. split; [exact Z0|]. replace (x - x) with 0 by ring. rewrite Rabs_R0.
      unfold delta_at. pose proof (Rabs_pos x). nra.
    - assert (Rabs (xb - x) < 2 * delta_at x) as Hd'.
      { replace ((xb - x) / 2) with ((xb - x) * / 2) in Hd by reflexivity. rewrite Rabs_mult in Hd.
        rewrite (Rabs_right (/ 2)) in Hd by lra. lra. }
      destruct (Rle_lt_dec x xb) as [L|L].
      + destruct (IVT_cor func x xb Hc L Hs) as (r & [R1 R2] & R0). exists r. split; [exact R0|].
        rewrite Rabs_right by lra. rewrite Rabs_right in Hd' by lra. lra.
      + assert (func xb * func x <= 0) as Hs' by lra.
        destruct (IVT_cor func xb x Hc ltac:(lra) Hs') as (r & [R1 R2] & R0). exists r. split; [exact R0|].
        rewrite Rabs_left1 by lra. rewrite Rabs_left in Hd' by lra. lra.
  Qed.
End Brent.

(** ** half-even rounding is monotone *)
Lemma Int_part_mono x y : x <= y -> (Int_part x <= Int_part y)%Z.
Proof.
  intros H. pose proof (Int_part_bounds x) as Bx. pose proof (Int_part_bounds y) as By.
  apply le_IZR. destruct (Z_le_gt_dec (Int_part x) (Int_part y)) as [L|G]; [apply IZR_le; exact L|exfalso].
  assert (Int_part y + 1 <= Int_part x)%Z as G' by lia. apply IZR_le in G'. rewrite plus_IZR in G'. lra.
Qed.

Lemma rneR_mono x y : x <= y -> (rneR x <= rneR y)%Z.
Proof.
  intros H. pose proof (Int_part_mono x y H) as Hi.
  pose proof (Int_part_bounds x) as Bx. pose proof (Int_part_bounds y) as By.
  unfold rneR. set (fx := Int_part x) in *. set (fy := Int_part y) in *.
  destruct (Z.eq_dec fx fy) as [E|N].
  - rewrite <- E in *. clear E.
    destruct (Rlt_dec (x - IZR fx) (1 / 2)); destruct (Rlt_dec (y - IZR fx) (1 / 2)); try lia; try (exfalso; lra);
      destruct (Rlt_dec (1 / 2) (x - IZR fx)); destruct (Rlt_dec (1 / 2) (y - IZR fx)); try lia; try (exfalso; lra);
      destruct (Z.even fx); lia.
  - assert (fx + 1 <= fy)%Z by lia.
    assert (rneR x <= fx + 1)%Z as U.
    { unfold rneR. fold fx. destruct (Rlt_dec _ _); [lia|]. destruct (Rlt_dec _ _); [lia|]. destruct (Z.even fx); lia. }
    assert (fy <= rneR y)%Z as L.
    { unfold rneR. fold fy. destruct (Rlt_dec _ _); [lia|]. destruct (Rlt_dec _ _); [lia|]. destruct (Z.even fy); lia. }
    unfold rneR in U, L. fold fx in U. fold fy in L. lia.
Qed.

Lemma nth_map_in {A B} (f : A -> B) (l : list A) d d' i : (i < length l)%nat -> nth i (map f l) d = f (nth i l d').
Proof. intros H. rewrite (nth_indep _ d (f d')) by (now rewrite map_length). apply map_nth. Qed.

Section Std.
  Variable K : spi_consts (F := R).
  Variable Or : spi_oracles (F := R).

  Definition p_zero_of (x : list R) (nd : R) : R :=
    let obs := filter (fun v => negb (feqb OpsR v nd)) x in
    IZR (Z.of_nat (length (filter (fun v => feqb OpsR v 0) obs))) / IZR (Z.of_nat (length (filter (fun v => fleb OpsR 0 v) obs))).

  (** the SPI of one pixel: every valid observation x gets ndtri(p0 + (1 - p0) * G(x / beta; alpha)),
      p0 = share of zeros among the valid (non-nodata, >= 0) observations of the WHOLE pixel,
      (alpha, beta) = gamma fit of the calibration slice; everything else is nodata *)
  Theorem gammastd_spec x nd c0 c1 alpha beta :
    length (filter (fun v => fleb OpsR 0 v) (filter (fun v => negb (feqb OpsR v nd)) x)) <> 0%nat ->
    ~ k_09 K < p_zero_of x nd ->
    gammafit OpsR Or K (cal_window OpsR x nd c0 c1) = Some (alpha, beta) -> alpha <> 0 -> beta <> 0 ->
    gammastd OpsR Or K x nd c0 c1 =
    map (fun v => if valid_obs OpsR nd v
                  then Some (o_ndtri Or (p_zero_of x nd + (1 - p_zero_of x nd) * o_gammainc Or alpha (v / beta)))
                  else None) x.
  Proof.
    intros Hv Hp Hfit Ha Hb. unfold gammastd. cbn [f0 f1 OpsR].
    destruct (Nat.eqb _ 0) eqn:E0; [apply Nat.eqb_eq in E0; contradiction|].
    fold (p_zero_of x nd). cbn [fltb fofZ OpsR].
    replace (Rltb (k_09 K) (IZR (Z.of_nat _) / IZR (Z.of_nat _))) with false.
    2:{ symmetry. apply not_true_is_false. intros E. apply Rltb_true in E. apply Hp. exact E. }
    rewrite Hfit. cbn [feqb OpsR]. rewrite (Reqb_neq alpha 0 Ha), (Reqb_neq beta 0 Hb). reflexivity.
  Qed.

  (** the fit sees observations only: no cell of the calibration slice that equals nodata reaches gammafit (whatever the sign of
      nodata), and the cells that do are the slice's other cells in their order *)
  Theorem cal_window_observations x nd c0 c1 :
    (forall v, In v (cal_window OpsR x nd c0 c1) -> v <> nd /\ In v (firstn (c1 - c0) (skipn c0 x))) /\
    (forall v, In v (firstn (c1 - c0) (skipn c0 x)) -> v <> nd -> In v (cal_window OpsR x nd c0 c1)).
  Proof.
    unfold cal_window. split.
    - intros v H. apply filter_In in H. destruct H as [Hin Hb]. split; [|exact Hin].
      intros E. subst v. cbn [feqb OpsR] in Hb. rewrite Reqb_refl in Hb. discriminate.
    - intros v Hin Hne. apply filter_In. split; [exact Hin|]. cbn [feqb OpsR]. rewrite (Reqb_neq v nd Hne). reflexivity.
  Qed.

  (** nodata cells and negative values yield nodata, always *)
  Theorem gammastd_invalid_cells x nd c0 c1 i :
    (i < length x)%nat -> valid_obs OpsR nd (nth i x 0) = false -> nth i (gammastd OpsR Or K x nd c0 c1) None = None.
  Proof.
    intros Hi Hv. unfold gammastd.
    assert (forall l : list R, nth i (map (fun _ : R => @None R) l) None = None) as AllNone.
    { intros l. revert i Hi Hv. induction l as [|a l IH]; intros [|i] _ _; cbn; auto. clear. revert i. induction l; destruct i; cbn; auto. }
    destruct (Nat.eqb _ 0); [apply AllNone|]. destruct (fltb OpsR _ _); [apply AllNone|].
    destruct (gammafit OpsR Or K _) as [[a b]|]; [|apply AllNone].
    destruct (feqb OpsR a _ || feqb OpsR b _); [apply AllNone|].
    rewrite (nth_map_in _ x None 0 i Hi). now rewrite Hv.
  Qed.

  (** a pixel that cannot be fitted yields nodata everywhere (no valid cell; > 90% zeros; no fit) *)
  Theorem gammastd_unfittable x nd c0 c1 :
    (length (filter (fun v => fleb OpsR 0 v) (filter (fun v => negb (feqb OpsR v nd)) x)) = 0%nat \/
     k_09 K < p_zero_of x nd \/ gammafit OpsR Or K (cal_window OpsR x nd c0 c1) = None) ->
    gammastd OpsR Or K x nd c0 c1 = map (fun _ => None) x.
  Proof.
    intros H. unfold gammastd. cbn [f0 f1 OpsR]. destruct (Nat.eqb _ 0) eqn:E0; [reflexivity|].
    destruct H as [H|[H|H]].
    - apply Nat.eqb_neq in E0. contradiction.
    - fold (p_zero_of x nd). cbn [fltb fofZ OpsR]. replace (Rltb (k_09 K) _) with true; [reflexivity|]. symmetry. now apply Rltb_true.
    - destruct (fltb OpsR _ _); [reflexivity|]. now rewrite H.
  Qed.

  (** ** monotone in the observation, given monotone oracles *)
  Theorem spi_value_monotone alpha beta p0 u v :
    (forall a b, a <= b -> o_gammainc Or alpha a <= o_gammainc Or alpha b) ->
    (forall a b, a <= b -> o_ndtri Or a <= o_ndtri Or b) ->
    0 <= p0 <= 1 -> 0 < beta -> u <= v ->
    o_ndtri Or (p0 + (1 - p0) * o_gammainc Or alpha (u / beta)) <= o_ndtri Or (p0 + (1 - p0) * o_gammainc Or alpha (v / beta)).
  Proof.
    intros Hg Hn Hp Hb Huv. apply Hn.
    assert (u / beta <= v / beta) as D by (unfold Rdiv; apply Rmult_le_compat_r; [left; now apply Rinv_0_lt_compat|exact Huv]).
    pose proof (Hg _ _ D). nra.
  Qed.

  (** scaling by 1000, half-even rounding and the saturating store are monotone too *)
  Definition saturate (z : Z) : Z := Z.max (-32768) (Z.min 32767 z).
  Theorem spi_stored_monotone a b : a <= b -> (saturate (rneR (a * 1000)) <= saturate (rneR (b * 1000)))%Z.
  Proof. intros H. unfold saturate. pose proof (rneR_mono (a * 1000) (b * 1000) ltac:(lra)). lia. Qed.

  Theorem saturate_range z : (-32768 <= saturate z <= 32767)%Z.
  Proof. unfold saturate. lia. Qed.
End Std.

(** ** gammafit: beta = mean / alpha, alpha = Brent root of log a - digamma a = s on [0.6 a0, 1.4 a0] *)
Theorem gammafit_spec (K : spi_consts (F := R)) (Or : spi_oracles (F := R)) xs a b :
  gammafit OpsR Or K xs = Some (a, b) ->
  let pos := filter (fun x => Rltb 0 x) xs in
  let n := IZR (Z.of_nat (length pos)) in
  let mean := fold_left Rplus pos 0 / n in
  let s := o_log Or mean - fold_left (fun acc x => acc + o_log Or x) pos 0 / n in
  let a0 := ((3 - s) + sqrt ((s - 3) * (s - 3) + 24 * s)) / (12 * s) in
  length pos <> 0%nat /\ 0 < s /\ a <> 0 /\ b = mean / a /\
  exists conv, brentq OpsR K (fun t => (o_log Or t - o_digamma Or t) - s) (a0 * k_06 K) (a0 * k_14 K) = Root a conv.
Proof.
  unfold gammafit. cbn [fltb f0 OpsR]. intros H. cbn zeta.
  destruct (Nat.eqb (length (filter (fun x => Rltb 0 x) xs)) 0) eqn:E0; [discriminate|].
  cbn [feqb fsub fdiv fadd fmul fsqrt fofZ OpsR] in H.
  match type of H with context [Rltb 0 ?s] => destruct (Rltb 0 s) eqn:Es; [|discriminate] end. cbn [negb] in H.
  match type of H with context [brentq OpsR K ?f ?xa ?xb] => destruct (brentq OpsR K f xa xb) as [|r conv] eqn:Eb; [discriminate|] end.
  destruct (Reqb r 0) eqn:Er; [discriminate|]. injection H as <- <-.
  split; [apply Nat.eqb_neq; exact E0|]. split; [apply Rltb_true in Es; exact Es|].
  split; [intros X; rewrite X, Reqb_refl in Er; discriminate|]. split; [reflexivity|]. exists conv. first [exact Eb | reflexivity].
Qed.
