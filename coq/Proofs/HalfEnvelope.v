(** The envelope p = 1/2 is an envelope like any other: every valid cell is weighted 1/2 whatever the sign of its
    residual, the reweighting never changes anything, and the curve returned for lambda is the penalised least-squares
    curve for 2 * lambda (NOT the one for lambda: "nothing to reweight" does not mean "the symmetric smoother"). *)
From Coq Require Import ZArith Reals Lra Lia List Bool.
From HDC Require Import Base.Prelude Base.Ops Model.Ws2d Model.Smoothers Proofs.Ws2dIndex Proofs.RSums Proofs.Penalty
  Proofs.Ws2dReal Proofs.SmoothersProofs.
Import ListNotations.
Open Scope R_scope.

Definition halves (w : list R) : list R := map (fun v => v * (1 / 2)) w.

Lemma halves_length w : length (halves w) = length w.
Proof. unfold halves. apply map_length. Qed.

Lemma asym_weights_half (w y z : list R) :
  length w = length y -> length z = length y -> asym_weights OpsR (1 / 2) (1 / 2) w y z = halves w.
Proof.
  unfold asym_weights, halves. revert y z. induction w as [|a w IH]; intros [|b y] [|c z] Hw Hz; cbn [length] in *; try lia; [reflexivity|].
  cbn [combine map]. f_equal.
  - cbn [fmul OpsR]. destruct (fltb OpsR c b); reflexivity.
  - apply IH; lia.
Qed.

Lemma irls_half (fuel : nat) lam (w y : list R) : forall z ww,
  (4 <= length y)%nat -> length w = length y -> length z = length y -> (1 <= fuel)%nat ->
  fst (irls OpsR fuel (1 / 2) (1 / 2) lam w y z ww) = halves w.
Proof.
  induction fuel as [|f IH]; intros z ww Hn Hw Hz Hf; [lia|].
  cbn [irls]. rewrite (asym_weights_half w y z Hw Hz).
  destruct (unchanged OpsR (ws2d OpsR y lam (halves w)) z); [reflexivity|].
  destruct f as [|f']; [reflexivity|].
  apply IH; try assumption; try lia.
  apply ws2d_length; [rewrite halves_length; exact Hw|exact Hn].
Qed.

Lemma vecZ_halves w i : vecZ OpsR (halves w) i = vecZ OpsR w i * (1 / 2).
Proof.
  unfold vecZ, halves. destruct (i <? 0)%Z; [cbn [f0 OpsR]; lra|].
  destruct (Nat.lt_ge_cases (Z.to_nat i) (length w)) as [H|H].
  - rewrite (nth_indep _ (f0 OpsR) (f0 OpsR * (1 / 2))) by (rewrite map_length; exact H).
    exact (map_nth (fun v => v * (1 / 2)) w (f0 OpsR) (Z.to_nat i)).
  - rewrite !nth_overflow by (rewrite ?map_length; exact H). cbn [f0 OpsR]. lra.
Qed.

(** sum (w/2)(y - z)^2 + lam |D z|^2  =  1/2 * ( sum w (y - z)^2 + 2 lam |D z|^2 ) *)
Lemma Sobj_half n (W Y : Z -> R) lam z :
  Sobj n (fun i => W i * (1 / 2)) Y lam z = 1 / 2 * Sobj n W Y (2 * lam) z.
Proof.
  unfold Sobj. rewrite Rmult_plus_distr_l. f_equal.
  - rewrite <- sumn_scal. apply sumn_ext. intros i _. lra.
  - lra.
Qed.

Theorem half_envelope_is_pls_at_2lam lam (w y : list R) :
  0 < lam -> (4 <= length y)%nat -> length w = length y ->
  (forall i, (0 <= i < Z.of_nat (length y))%Z -> 0 <= vecZ OpsR w i) ->
  (exists a b, (0 <= a < b)%Z /\ (b < Z.of_nat (length y))%Z /\ 0 < vecZ OpsR w a /\ 0 < vecZ OpsR w b) ->
  asym_fit OpsR (1 / 2) lam w y = ws2d OpsR y (2 * lam) w.
Proof.
  intros Hlam Hn Hw Wn W2.
  assert (asym_fit OpsR (1 / 2) lam w y = ws2d OpsR y lam (halves w)) as E1.
  { unfold asym_fit. cbn [f1 fsub OpsR]. replace (1 - 1 / 2) with (1 / 2) by lra.
    pose proof (irls_half 10 lam w y (zeros OpsR (length y)) (zeros OpsR (length y)) Hn Hw
                  ltac:(unfold zeros; apply repeat_length) ltac:(lia)) as H.
    destruct (irls OpsR 10 (1 / 2) (1 / 2) lam w y (zeros OpsR (length y)) (zeros OpsR (length y))) as [ww z0].
    cbn [fst] in H. now rewrite H. }
  rewrite E1.
  set (z1 := ws2d OpsR y lam (halves w)). set (z2 := ws2d OpsR y (2 * lam) w).
  assert (length (halves w) = length y) as Hh by (rewrite halves_length; exact Hw).
  assert (forall i, (0 <= i < Z.of_nat (length y))%Z -> 0 <= vecZ OpsR (halves w) i) as Wn'.
  { intros i Hi. rewrite vecZ_halves. specialize (Wn i Hi). lra. }
  assert (exists a b, (0 <= a < b)%Z /\ (b < Z.of_nat (length y))%Z /\ 0 < vecZ OpsR (halves w) a /\ 0 < vecZ OpsR (halves w) b) as W2'.
  { destruct W2 as (a & b & Hab & Hb & Wa & Wb). exists a, b. rewrite !vecZ_halves. repeat split; try lia; lra. }
  (* both curves minimise; the two objectives are proportional *)
  destruct (minimises y (halves w) lam Hh Hn Wn' Hlam W2' (vecZ OpsR z2)) as [M1 _].
  assert (0 < 2 * lam) as Hlam2 by lra.
  destruct (minimises y w (2 * lam) Hw Hn Wn Hlam2 W2 (vecZ OpsR z1)) as [M2 U2].
  unfold Zk, Wk, Yk in *. fold z1 in M1. fold z2 in M2, U2.
  assert (forall z, Sobj (length y) (fun k => vecZ OpsR (halves w) k) (fun k => vecZ OpsR y k) lam z =
                    1 / 2 * Sobj (length y) (fun k => vecZ OpsR w k) (fun k => vecZ OpsR y k) (2 * lam) z) as SC.
  { intros z. rewrite <- Sobj_half. unfold Sobj. f_equal. apply sumn_ext. intros i _. rewrite vecZ_halves. reflexivity. }
  rewrite !SC in M1.
  assert (Sobj (length y) (fun k => vecZ OpsR w k) (fun k => vecZ OpsR y k) (2 * lam) (vecZ OpsR z1) =
          Sobj (length y) (fun k => vecZ OpsR w k) (fun k => vecZ OpsR y k) (2 * lam) (vecZ OpsR z2)) as EQ.
  { change (fun k : Z => vecZ OpsR z1 k) with (vecZ OpsR z1) in M1.
    change (fun k : Z => vecZ OpsR z2 k) with (vecZ OpsR z2) in M2. lra. }
  change (fun k : Z => vecZ OpsR z2 k) with (vecZ OpsR z2) in U2.
  apply (nth_ext _ _ 0 0).
  - unfold z1, z2. rewrite !ws2d_length; try assumption; reflexivity.
  - intros k Hk. unfold z1 in Hk. rewrite ws2d_length in Hk by assumption.
    pose proof (U2 EQ (Z.of_nat k) ltac:(lia)) as U. unfold vecZ in U.
    replace (Z.of_nat k <? 0)%Z with false in U by lia. rewrite Nat2Z.id in U. exact U.
Qed.
