(** Correspondence cases for the GCV smoothers (C05; also C02, C06). *)
From HDC Require Import Base.Prelude Base.Float Base.Ops Model.Ws2d Model.Smoothers Model.VCurve Model.Gcv Corr.C03.
From Coq Require Import PrimFloat.
Open Scope Z_scope.

Definition KF : gconsts (F := float) :=
  {| c_pi := 0x1.921fb54442d18p+1%float; c_1em15 := 1e-15%float; c_1e15 := 1e15%float;
     c_14826 := 1.4826%float; c_4685 := 4.685%float; c_1em9 := 1e-9%float |}.

Record wcase := WV { g_y : list float; g_nd : float; g_p : option float; g_llas : list float; g_robust : bool;
                     g_cos : oracle_table; g_pow : oracle_table; g_out : list Z; g_lopt : float }.

Definition run_g (c : wcase) : gresult :=
  let O := OpsF {| t_log := []; t_pow10 := g_pow c; t_cos := g_cos c |} in
  match g_p c with
  | None => ws2dwcv O KF (g_y c) (g_nd c) (g_llas c) (g_robust c)
  | Some p => ws2dwcvp O KF (g_y c) (g_nd c) p (g_llas c) (g_robust c)
  end.

Definition claim_g (c : wcase) : bool :=
  match run_g c with
  | GPass => match store16 (g_y c) with Some _ => true | None => false end
  | GFit z _ => match store16 z with Some _ => true | None => false end
  end.

Definition check_g (c : wcase) : bool :=
  match run_g c with
  | GPass => match store16 (g_y c) with Some v => zeqb_list v (g_out c) && feq_bits (g_lopt c) zero | None => true end
  | GFit z l => feq_bits l (g_lopt c) && match store16 z with Some v => zeqb_list v (g_out c) | None => true end
  end.
