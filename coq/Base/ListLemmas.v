(** General list lemmas missing from the 8.16 standard library. *)
From Coq Require Import List Arith Lia.
Import ListNotations.

Lemma nth_firstn_lt {A} (l : list A) n k d : (k < n)%nat -> nth k (firstn n l) d = nth k l d.
Proof.
  revert n k; induction l as [|a l IH]; intros [|n] [|k] H; simpl; try lia; try reflexivity.
  apply IH. lia.
Qed.

Lemma nth_skipn' {A} (l : list A) n k d : nth k (skipn n l) d = nth (n + k) l d.
Proof.
  revert l; induction n as [|n IH]; intros l; [reflexivity|].
  destruct l as [|a l]; simpl; [destruct k; reflexivity|]. apply IH.
Qed.

Lemma filter_length_le' {A} (f : A -> bool) (l : list A) : (length (filter f l) <= length l)%nat.
Proof. induction l as [|a l IH]; cbn; [lia|]. destruct (f a); cbn; lia. Qed.

Lemma Forall2_length' {A B} (R : A -> B -> Prop) l1 l2 : Forall2 R l1 l2 -> length l1 = length l2.
Proof. induction 1; cbn; congruence. Qed.
