(** C09 — SPI calibration window and grouping select exactly the intended samples. Statements only. *)
From HDC Require Import Base.Prelude Model.Calib Proofs.CalibProofs.
From Coq Require Import Sorting.Sorted.
Open Scope Z_scope.

(** the half-open index range [searchsorted(begin,'left'), searchsorted(end,'right')) is exactly
    the set of steps t with begin <= t <= end (dates on, between, before or after steps) *)
Theorem C09_cal_slice_exact : forall time b e i,
  StronglySorted Z.lt time -> (i < length time)%nat ->
  (fst (cal_indices time b e) <= Z.of_nat i < snd (cal_indices time b e) <-> b <= nth i time 0 <= e).
Proof. exact cal_slice_exact. Qed.
Print Assumptions C09_cal_slice_exact.

(** widening the window never drops a step, and the cut points never leave the axis
    (any axis, any dates: no out-of-range slice can be handed to the kernel) *)
Theorem C09_cal_nested_and_in_range : forall time b e b' e',
  (b' <= b -> e <= e' ->
   fst (cal_indices time b' e') <= fst (cal_indices time b e) /\ snd (cal_indices time b e) <= snd (cal_indices time b' e')) /\
  (0 <= fst (cal_indices time b e) <= Z.of_nat (length time) /\ 0 <= snd (cal_indices time b e) <= Z.of_nat (length time)).
Proof. intros time b e b' e'. split; [intros Hb He; now apply cal_indices_nested|apply cal_indices_range]. Qed.
Print Assumptions C09_cal_nested_and_in_range.

(** recorded attributes: the first step >= begin and the last step <= end *)
Theorem C09_cal_attrs : forall time groups b e c,
  StronglySorted Z.lt time -> spi_calibration time groups b e = Some c ->
  let '(bv, ev) := resolve time b e in
  (In (c_begin_attr c) time /\ bv <= c_begin_attr c /\ forall t, In t time -> bv <= t -> c_begin_attr c <= t) /\
  (In (c_end_attr c) time /\ c_end_attr c <= ev /\ forall t, In t time -> t <= ev -> t <= c_end_attr c).
Proof.
  intros time groups b e c Hs. unfold spi_calibration. destruct (resolve time b e) as [bv ev].
  destruct (last time 0 <? bv); [discriminate|]. destruct (ev <? hd 0 time); [discriminate|].
  destruct (match groups with None => _ | Some gs => _ end) as [ix|]; [|discriminate].
  destruct (forallb window_ok ix); [|discriminate].
  destruct (first_ge time bv) as [fa|] eqn:Ef; [|discriminate].
  destruct (last_le time ev) as [la|] eqn:El; [|discriminate].
  intros [= <-]. cbn [c_begin_attr c_end_attr].
  split; [exact (first_ge_spec time bv fa Hs Ef)|exact (last_le_spec time ev la Hs El)].
Qed.
Print Assumptions C09_cal_attrs.

(** ValueError iff the window is empty, reversed or holds a single step *)
Theorem C09_cal_errors : forall time b e,
  StronglySorted Z.lt time ->
  let '(bv, ev) := resolve time b e in
  (spi_calibration time None b e = None <-> count_window time bv ev <= 1).
Proof. exact calibration_errors. Qed.
Print Assumptions C09_cal_errors.

Theorem C09_window_ok_iff_two_steps : forall time b e,
  window_ok (cal_indices time b e) = true <-> 2 <= count_window time b e.
Proof. exact window_ok_count. Qed.
Print Assumptions C09_window_ok_iff_two_steps.

(** dense re-labelling: same partition, labels are positions in the sorted unique keys (0..k-1, all used) *)
Theorem C09_to_linspace_partition : forall x i j,
  (i < length x)%nat -> (j < length x)%nat ->
  (nth i (fst (to_linspace x)) 0 = nth j (fst (to_linspace x)) 0 <-> nth i x 0 = nth j x 0).
Proof. exact to_linspace_partition. Qed.
Print Assumptions C09_to_linspace_partition.

Theorem C09_to_linspace_range : forall x,
  (forall i, (i < length x)%nat ->
     0 <= nth i (fst (to_linspace x)) 0 < Z.of_nat (length (snd (to_linspace x))) /\
     nth (Z.to_nat (nth i (fst (to_linspace x)) 0)) (snd (to_linspace x)) 0 = nth i x 0) /\
  (forall k, 0 <= k < Z.of_nat (length (snd (to_linspace x))) ->
     exists i, (i < length x)%nat /\ nth i (fst (to_linspace x)) 0 = k).
Proof.
  intros x. split.
  - intros i Hi. pose proof (to_linspace_index x i Hi) as H. destruct (to_linspace x). exact H.
  - exact (to_linspace_surjective x).
Qed.
Print Assumptions C09_to_linspace_range.

(** grouped SPI restricted to group g = per-series kernel on g's sub-series under g's window,
    for every per-series kernel k that preserves length *)
Theorem C09_grp_decomposes : forall (k : list Z -> Z * Z -> list Z),
  (forall s w, length (k s w) = length s) ->
  forall xx groups n cal g, length groups = length xx -> (g < n)%nat ->
  select groups (Z.of_nat g) (gammastd_grp k xx groups n cal) =
  map Some (k (select groups (Z.of_nat g) xx) (nth g cal (0, 0))).
Proof. exact grp_decomposes. Qed.
Print Assumptions C09_grp_decomposes.

(** it depends only on the partition induced by the labels *)
Theorem C09_grp_relabel : forall (k : list Z -> Z * Z -> list Z),
  (forall s w, length (k s w) = length s) ->
  forall xx groups n cal cal' (s : nat -> nat),
  length groups = length xx -> Forall (fun h => 0 <= h < Z.of_nat n) groups ->
  (forall a, (a < n)%nat -> (s a < n)%nat) ->
  (forall a b, (a < n)%nat -> (b < n)%nat -> s a = s b -> a = b) ->
  (forall a, (a < n)%nat -> nth (s a) cal' (0, 0) = nth a cal (0, 0)) ->
  gammastd_grp k xx (map (fun h => Z.of_nat (s (Z.to_nat h))) groups) n cal' = gammastd_grp k xx groups n cal.
Proof. exact grp_relabel. Qed.
Print Assumptions C09_grp_relabel.

(** with a single group it equals the ungrouped result *)
Theorem C09_grp_single : forall (k : list Z -> Z * Z -> list Z),
  (forall s w, length (k s w) = length s) ->
  forall xx groups cal, length groups = length xx -> Forall (fun h => h = 0) groups ->
  gammastd_grp k xx groups 1 cal = map Some (k xx (nth 0 cal (0, 0))).
Proof. exact grp_single. Qed.
Print Assumptions C09_grp_single.

Example C09_example :
  cal_indices [10; 20; 30; 40; 50] 15 40 = (1, 4) /\ cal_indices [10; 20; 30; 40; 50] 20 45 = (1, 4) /\
  to_linspace [7; 3; 7; 10; 3] = ([1; 0; 1; 2; 0], [3; 7; 10]) /\
  cal_indices_grp [10; 20; 30; 40; 50; 60] [0; 1; 0; 1; 0; 1] 2 15 55 = [(1, 3); (0, 2)] /\
  spi_calibration [10; 20; 30] None (Some 25) (Some 27) = None /\
  spi_calibration [10; 20; 30] None (Some 20) (Some 20) = None /\
  StronglySorted Z.lt [10; 20; 30; 40; 50].
Proof. repeat split; try (vm_compute; reflexivity). repeat (constructor; [|repeat constructor; lia]). constructor. Qed.
