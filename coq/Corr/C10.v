(** Correspondence cases for C10. *)
From HDC Require Import Base.Prelude Base.Float Model.MK.
From Coq Require Import PrimFloat.
Open Scope Z_scope.

(** data are q * scale (scale = 1 for int16, a power of two for float32 grids); the observed
    outputs of the compiled gufunc: tau, p, slope (float32) and trend (int8); S as seen by mk_score *)
Record mcase := MC { m_q : list Z; m_scale : float; m_nodata : option (Z * float);
                     m_erf_arg : float; m_erf_val : float; m_thr : float;
                     m_tau : float; m_p : float; m_slope : float; m_trend : Z }.

Definition check_mk (c : mcase) : bool :=
  let xf := map (fun q => (f_of_Z q * m_scale c)%float) (m_q c) in
  let r := match m_nodata c with
           | None => mk_trend_1d (m_q c) xf (m_erf_arg c) (m_erf_val c) (m_thr c)
           | Some (nd, ndf) => mk_trend_nd (m_q c) xf nd ndf (m_erf_arg c) (m_erf_val c) (m_thr c)
           end in
  match r with
  | None => false          (* oracle miss: the model would have called erf with another argument *)
  | Some o => feq_bits (o_tau o) (m_tau c) && feq_bits (o_p o) (m_p c) && feq_val (o_slope o) (m_slope c) &&
              (o_trend o =? m_trend c)
  end.

Record scase := SC { s_x : list Z; s_s : Z; s_var18 : float }.
(** mk_score / mk_variance_s (njit functions) observed directly: S exact, variance = var_num / 18 *)
Definition check_score (c : scase) : bool :=
  (mk_score_lit (s_x c) =? s_s c) && feq_bits (f_of_Z (var_num (s_x c)) / 18)%float (s_var18 c).
