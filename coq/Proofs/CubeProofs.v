(** C12: every chunking and every schedule computes [map k]; permuting pixels permutes results;
    every interleaving of N threads through the unsynchronised lazycompile cache calls a compiled object. *)
From Coq Require Import List Arith Lia Bool Permutation.
From HDC Require Import Model.Cube.
Import ListNotations.

Section CubeProofs.
  Context {S R : Type} (k : S -> R).

  Lemma chunk_concat sizes : forall l : list S, concat (chunk sizes l) = l.
  Proof.
    induction sizes as [|n r IH]; intros l; cbn [chunk].
    - destruct l; cbn; [reflexivity|]. now rewrite app_nil_r.
    - cbn [concat]. rewrite IH. apply firstn_skipn.
  Qed.

  Definition good (blocks : list (list S)) (s : store) (i : nat) : Prop := lookup s i = Some (map k (nth i blocks [])).

  Lemma good_kept blocks sched : forall s i, good blocks s i -> good blocks (run_schedule k blocks sched s) i.
  Proof.
    induction sched as [|j r IH]; intros s i H; cbn [run_schedule]; [exact H|].
    apply IH. unfold good in *. cbn [lookup]. destruct (Nat.eqb i j) eqn:E; [|exact H].
    apply Nat.eqb_eq in E. subst j. reflexivity.
  Qed.

  Lemma good_made blocks sched : forall s i, In i sched -> good blocks (run_schedule k blocks sched s) i.
  Proof.
    induction sched as [|j r IH]; intros s i H; [contradiction|]. cbn [run_schedule]. destruct H as [->|H].
    - apply good_kept. unfold good. cbn [lookup]. now rewrite Nat.eqb_refl.
    - apply IH. exact H.
  Qed.

  Lemma assemble_good blocks s : forall n from,
    (forall i, from <= i < from + n -> good blocks s i) ->
    assemble s n from = Some (concat (map (fun i => map k (nth i blocks [])) (seq from n))).
  Proof.
    induction n as [|m IH]; intros from H; cbn [assemble seq map concat]; [reflexivity|].
    rewrite (H from) by lia. rewrite IH by (intros i Hi; apply H; lia). reflexivity.
  Qed.

  Lemma concat_nth_seq (blocks : list (list S)) :
    concat (map (fun i => map k (nth i blocks [])) (seq 0 (length blocks))) = map k (concat blocks).
  Proof.
    rewrite concat_map. f_equal.
    rewrite <- (map_map (fun i => nth i blocks []) (map k)). f_equal.
    clear. induction blocks as [|b r IH]; [reflexivity|]. cbn [length seq map nth]. f_equal.
    rewrite <- seq_shift, map_map. exact IH.
  Qed.

  (** for every chunking and every schedule that evaluates each block (in any order, possibly more than once)
      the assembled result is the plain per-pixel map *)
  Theorem run_config_eq_map sizes sched (cube : list S) :
    (forall i, i < length (chunk sizes cube) -> In i sched) ->
    run_config k sizes sched cube = Some (map_pixels k cube).
  Proof.
    intros H. unfold run_config, map_pixels.
    rewrite (assemble_good (chunk sizes cube)).
    - rewrite concat_nth_seq, chunk_concat. reflexivity.
    - intros i Hi. apply good_made. apply H. lia.
  Qed.

  (** a schedule that skips a block cannot produce a result *)
  Theorem run_config_needs_every_block sizes sched (cube : list S) i :
    i < length (chunk sizes cube) -> ~ In i sched -> run_config k sizes sched cube = None.
  Proof.
    intros Hi Hn. unfold run_config.
    assert (forall sched s, ~ In i sched -> lookup s i = None -> lookup (run_schedule k (chunk sizes cube) sched s) i = None) as L.
    { clear. induction sched as [|j r IH]; intros s Hn Hs; cbn [run_schedule]; [exact Hs|].
      apply IH; [intros X; apply Hn; right; exact X|]. cbn [lookup].
      destruct (Nat.eqb i j) eqn:E; [|exact Hs]. apply Nat.eqb_eq in E. subst. exfalso. apply Hn. left. reflexivity. }
    pose proof (L sched [] Hn eq_refl) as Hl.
    set (s := run_schedule k (chunk sizes cube) sched []) in *.
    assert (forall n from, from <= i < from + n -> assemble s n from = None) as A.
    { induction n as [|m IH]; intros from Hr; [lia|]. cbn [assemble].
      destruct (Nat.eq_dec from i) as [->|Hne]; [now rewrite Hl|].
      rewrite (IH (Datatypes.S from)) by lia. destruct (lookup s from); reflexivity. }
    apply A. lia.
  Qed.

  (** each pixel's result depends on that pixel only: permuting the pixels permutes the results *)
  Theorem map_pixels_equivariant (cube cube' : list S) :
    Permutation cube cube' -> Permutation (map_pixels k cube) (map_pixels k cube').
  Proof. apply Permutation_map. Qed.

  Theorem map_pixels_reindex (cube : list S) (idx : list nat) d :
    map_pixels k (map (fun i => nth i cube d) idx) = map (fun i => nth i (map_pixels k cube) (k d)) idx.
  Proof. unfold map_pixels. rewrite map_map. apply map_ext. intros i. symmetry. apply map_nth. Qed.
End CubeProofs.

(** ** lazycompile *)
Lemma in_set_nth {A} i (x : A) l t : In t (set_nth i x l) -> t = x \/ In t l.
Proof.
  unfold set_nth. intros H. apply in_app_or in H as [H|[H|H]].
  - right. clear -H. revert l H. induction i as [|i IH]; intros l H; [contradiction|]. destruct l as [|a l]; [contradiction|].
    cbn [firstn] in H. destruct H as [<-|H]; [left; reflexivity|right; apply IH; exact H].
  - left. symmetry. exact H.
  - right. clear -H. revert l H. generalize (Datatypes.S i) as n. induction n as [|n IH]; intros l H; [exact H|].
    destruct l as [|a l]; [contradiction|]. right. apply IH. exact H.
Qed.

Definition LInv (st : lstate) : Prop :=
  forall t, In t (threads st) ->
    (pc t = 2 -> mine t <> None) /\ (pc t = 3 -> cell st <> None) /\ (forall c, called t = Some c -> c <> None).

Lemma lstep_inv st i : LInv st -> LInv (lstep st i).
Proof.
  intros Inv. unfold lstep. destruct (nth_error (threads st) i) as [t|] eqn:Et; [|exact Inv].
  pose proof (Inv t (nth_error_In _ _ Et)) as (I2 & I3 & Ic).
  destruct (pc t) as [|[|[|[|n]]]] eqn:Ep; try exact Inv.
  - (* read *) intros t' H. cbn [threads cell] in *. apply in_set_nth in H as [->|H]; [|exact (Inv t' H)].
    cbn [pc mine called]. repeat split; try exact Ic; destruct (cell st); intros; congruence.
  - (* compile *) intros t' H. cbn [threads cell] in *. apply in_set_nth in H as [->|H]; [|exact (Inv t' H)].
    cbn [pc mine called]. repeat split; try exact Ic; intros; congruence.
  - (* write *) intros t' H. cbn [threads cell] in *. apply in_set_nth in H as [->|H].
    + cbn [pc mine called]. repeat split; try exact Ic; intros; try congruence. apply I2. reflexivity.
    + destruct (Inv t' H) as (J2 & J3 & Jc). repeat split; try assumption. intros _. apply I2. reflexivity.
  - (* call *) intros t' H. cbn [threads cell] in *. apply in_set_nth in H as [->|H]; [|exact (Inv t' H)].
    cbn [pc mine called]. repeat split; try congruence. intros c E. injection E as <-. apply I3. reflexivity.
Qed.

Lemma linit_inv n : LInv (linit n).
Proof. intros t H. apply repeat_spec in H. subst t. cbn. repeat split; congruence. Qed.

(** for every number of threads and every interleaving: whenever a thread calls, it calls a compiled object *)
Theorem lazy_all_interleavings n sched t c :
  In t (threads (lrun n sched)) -> called t = Some c -> exists obj, c = Some obj.
Proof.
  intros Ht Hc.
  assert (LInv (lrun n sched)) as Inv.
  { clear Ht Hc. unfold lrun. generalize (linit_inv n). generalize (linit n). induction sched as [|i r IH]; intros st H; cbn [fold_left]; [exact H|].
    apply IH. apply lstep_inv. exact H. }
  destruct (Inv t Ht) as (_ & _ & Ic). specialize (Ic c Hc). destruct c as [obj|]; [exists obj; reflexivity|contradiction].
Qed.

(** the cache cell is never emptied again *)
Theorem lazy_cell_monotone st i : LInv st -> cell st <> None -> cell (lstep st i) <> None.
Proof.
  intros Inv H. unfold lstep. destruct (nth_error (threads st) i) as [t|] eqn:Et; [|exact H].
  destruct (pc t) as [|[|[|[|n]]]] eqn:Ep; cbn [cell]; try exact H.
  destruct (Inv t (nth_error_In _ _ Et)) as (I2 & _). apply I2. exact Ep.
Qed.

(** non-vacuity: two threads racing through the whole wrapper: both compile (objects 0 and 1), the second write wins, both call it *)
Example lazy_race_two_threads :
  map called (threads (lrun 2 [0; 1; 0; 1; 0; 1; 0; 1])) = [Some (Some 1); Some (Some 1)]
  /\ map mine (threads (lrun 2 [0; 1; 0; 1; 0; 1; 0; 1])) = [Some 0; Some 1]
  /\ cell (lrun 2 [0; 1; 0; 1; 0; 1; 0; 1]) = Some 1.
Proof. repeat split; reflexivity. Qed.

Example run_config_example :
  run_config (fun x => x * x) [2; 1; 3] [3; 0; 2; 1] [1; 2; 3; 4; 5; 6; 7] = Some [1; 4; 9; 16; 25; 36; 49].
Proof. reflexivity. Qed.
