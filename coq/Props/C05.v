(** C05 — GCV selection is optimal on the grid; robust mode never degenerates. Statements only. *)
From Coq Require Import ZArith Reals Lra List.
From HDC Require Import Base.Prelude Base.Ops Model.Ws2d Model.Smoothers Model.VCurve Model.Gcv
     Proofs.SmoothersProofs Proofs.GcvProofs Proofs.Ws2dIndex Proofs.RSums Proofs.Penalty Proofs.Ws2dReal Proofs.GcvRobust.

(** the reported lambda is drawn from 10**srange (or is the sentinel's 0 when no score is below 1e15) — any carrier *)
Theorem C05_lopt_in_grid : forall (F : Type) (O : Ops F) (K : gconsts) y nd llas z lopt,
  ws2dwcv O K y nd llas false = GFit z lopt -> lopt = f0 O \/ In lopt (map (fpow10 O) llas).
Proof. exact @wcv_lopt_in_grid. Qed.
Print Assumptions C05_lopt_in_grid.

(** without robust weighting it minimises the GCV score sum w (y - z)^2 / (n (1 - trH/n)^2) over the grid *)
Theorem C05_nonrobust_minimises : forall (K : gconsts) y nd llas z lopt,
  ws2dwcv OpsR K y nd llas false = GFit z lopt ->
  let w := weights_gu OpsR nd y in
  let yv := zero_missing OpsR w y in
  forall s, In s (map (fpow10 OpsR) llas) ->
    (gcv_score OpsR (d_eigs OpsR K (length y)) s w yv (ws2d OpsR yv s w) < c_1e15 K)%R ->
    (gcv_score OpsR (d_eigs OpsR K (length y)) lopt w yv (ws2d OpsR yv lopt w) <=
     gcv_score OpsR (d_eigs OpsR K (length y)) s w yv (ws2d OpsR yv s w))%R /\ In lopt (map (fpow10 OpsR) llas).
Proof. exact wcv_nonrobust_min. Qed.
Print Assumptions C05_nonrobust_minimises.

(** ... and the band is the fixed-lambda smoother at that lambda *)
Theorem C05_nonrobust_band_is_gu : forall (K : gconsts) y nd llas z lopt,
  ws2dwcv OpsR K y nd llas false = GFit z lopt -> lopt <> 0%R -> ws2dgu OpsR y lopt nd = Curve z.
Proof. exact wcv_nonrobust_band_is_gu. Qed.
Print Assumptions C05_nonrobust_band_is_gu.

(** fewer than five valid cells: returned unchanged with lambda 0, robust or not *)
Theorem C05_passthrough : forall (F : Type) (O : Ops F) (K : gconsts) y nd llas robust,
  fltb O (fofZ O 4) (fsum O (weights_gu O nd y)) = false ->
  ws2dwcv O K y nd llas robust = GPass /\ forall p, ws2dwcvp O K y nd p llas robust = GPass.
Proof. exact @wcv_passthrough. Qed.
Print Assumptions C05_passthrough.

(** the result, robust or not, does not depend on what marks the missing cells — any carrier
    whose equality test tells 0 from 1 *)
Theorem C05_placeholder_indep : forall (F : Type) (O : Ops F) (K : gconsts),
  feqb O (f0 O) (f0 O) = true -> feqb O (f1 O) (f0 O) = false ->
  forall nd1 nd2 y1 y2 llas robust,
  same_cells O nd1 nd2 y1 y2 ->
  ws2dwcv O K y1 nd1 llas robust = ws2dwcv O K y2 nd2 llas robust /\
  forall p, ws2dwcvp O K y1 nd1 p llas robust = ws2dwcvp O K y2 nd2 p llas robust.
Proof. exact @wcv_placeholder_indep. Qed.
Print Assumptions C05_placeholder_indep.

(** robust mode never degenerates: whatever the data, after the (at most four) bisquare reweightings the weights of the final solve
    are non-negative and two valid cells keep a positive weight, and - by C01 - the band of ws2dwcv is the unique minimiser of the
    penalised least-squares objective with those weights at the reported lambda *)
Theorem C05_robust_never_degenerates : forall (K : gconsts (F := R)) (y : list R) nd llas yv rwt lopt,
  wcv_core OpsR K y nd llas true = Some (yv, rwt, lopt) ->
  length rwt = length y /\ length yv = length y /\ (4 <= length y)%nat /\
  (forall i, (0 <= i < Z.of_nat (length y))%Z -> 0 <= Wk rwt i) /\
  (exists p q, (0 <= p < q)%Z /\ (q < Z.of_nat (length y))%Z /\ 0 < Wk rwt p /\ 0 < Wk rwt q) /\
  (0 < lopt -> forall z' : Z -> R,
     Sobj (length yv) (Wk rwt) (Yk yv) lopt (Zk yv rwt lopt) <= Sobj (length yv) (Wk rwt) (Yk yv) lopt z').
Proof. exact wcv_robust_never_degenerates. Qed.
Print Assumptions C05_robust_never_degenerates.
