"""C15 — lag-1 autocorrelation is a Pearson correlation with mean-filled gaps."""
from fractions import Fraction

import numpy as np

from vlib import core
from vlib.core import zlist, zlit, flit, flist

PRE = "From HDC Require Import Base.Prelude Base.Float Base.Ops Model.Autocorr Corr.C15.\nFrom Coq Require Import PrimFloat.\n"


def tab(pairs):
    return "[" + "; ".join("(%s, %s)" % (flit(a), flit(b)) for a, b in pairs) + "]"


def pearson_filled(vals):
    """the definition, in exact rationals up to the final square root (vals: list of Fraction or None)"""
    X, Y = vals[:-1], vals[1:]
    vx = [v for v in X if v is not None]
    vy = [v for v in Y if v is not None]
    if not any(a is not None and b is not None for a, b in zip(X, Y)):
        return 0.0
    mx, my = sum(vx) / len(vx), sum(vy) / len(vy)
    fx = [mx if v is None else v for v in X]
    fy = [my if v is None else v for v in Y]
    cov = sum((a - mx) * (b - my) for a, b in zip(fx, fy))
    sxx = sum((a - mx) ** 2 for a in fx)
    syy = sum((b - my) ** 2 for b in fy)
    if sxx == 0 or syy == 0:
        return 0.0
    return float(cov) / (float(sxx) ** 0.5 * float(syy) ** 0.5)


def gen(ctx, rng):
    cases = []
    N = 400 if ctx.thorough else 110
    for it in range(N):
        n = int(rng.choice([3, 4, 5, int(rng.integers(6, 60)), int(rng.integers(60, 900 if ctx.thorough else 300))]))
        kind = it % 5
        if kind == 0:
            v = rng.integers(-1000, 10000, size=n)
        elif kind == 1:
            v = np.round(4000 + 2500 * np.sin(np.arange(n) / 6.0) + rng.normal(0, 300, n))
        elif kind == 2:
            v = np.round(np.cumsum(rng.normal(0, 60, n)) + 3000)
        elif kind == 3:
            v = rng.integers(8000, 8020, size=n)                       # large level, small spread
            if it % 2:                                                  # top of the int16 range, spread of a few units
                v = int(rng.choice([31000, 29990, -19990])) + rng.integers(0, int(rng.choice([2, 4, 7])), size=n)
        else:
            v = np.full(n, int(rng.integers(0, 5000)))                  # no variance
        v = np.clip(v, -20000, 32000).astype(int)
        gp = rng.random()
        miss = np.zeros(n, dtype=bool)
        if gp < 0.25:
            pass
        elif gp < 0.5:
            miss = rng.random(n) < rng.uniform(0.05, 0.6)
        elif gp < 0.7:                                                    # contiguous outage up to 90 %
            a = int(rng.integers(0, n))
            miss[a:a + int(rng.integers(1, max(2, int(0.9 * n))))] = True
        elif gp < 0.85:
            miss[:int(rng.integers(1, max(2, n // 2)))] = True            # leading
            if rng.random() < 0.4:
                miss[n - int(rng.integers(1, max(2, n // 3))):] = True
        else:
            miss[n - int(rng.integers(1, max(2, n // 2))):] = True        # trailing
        nodata = int(rng.choice([-3000, -9999, 0, 32767]))
        v[v == nodata] += 1
        cases.append(dict(values=[int(x) for x in v], miss=[bool(m) for m in miss], nodata=nodata, accessor=(it % 10 == 0)))
    return cases


def run(ctx):
    ctx.proofs(["Props/C15.v"])
    rng = np.random.default_rng(ctx.seed)
    base = gen(ctx, rng)
    cases = []
    for b in base:
        v, m = b["values"], b["miss"]
        enc_int = [b["nodata"] if mm else x for x, mm in zip(v, m)]
        enc_f64 = [None if mm else float(x) for x, mm in zip(v, m)]
        a, off = int(rng.integers(1, 4)), int(rng.integers(-200, 200))
        if (len(cases) // 4) % 2:
            a = -a                                     # C15_reflection_invariant: a sign flip of the whole series
        aff = [b["nodata"] if mm else a * x + off for x, mm in zip(v, m)]
        ok_aff = all(-32768 <= t <= 32767 and t != b["nodata"] for t, mm in zip(aff, m) if not mm)
        cases.append(dict(data=enc_int, dtype="int16", nodata=b["nodata"], accessor=b["accessor"]))
        cases.append(dict(data=enc_f64, dtype="float64", nodata=None, accessor=b["accessor"]))
        cases.append(dict(data=enc_f64, dtype="float32", nodata=None, accessor=False))
        cases.append(dict(data=aff if ok_aff else enc_int, dtype="int16", nodata=b["nodata"], accessor=False, affine=ok_aff))
    res, log = core.run_impl("c15_impl.py", dict(cases=cases), timeout=3000)
    if res is None:
        ctx.violation("implementation run failed", dict(kind="impl-crash", log=log[-3000:]), found_input=False)
        return
    spec_fail, icoq, imeta, fcoq, fmeta = [], [], [], [], []
    dist = dict(series=len(base), gap_free=0, gap_fraction_hist={}, lengths={}, zero_results=0, affine_pairs=0, accessor=0)
    for bi, b in enumerate(base):
        rs = res[4 * bi:4 * bi + 4]
        cs = cases[4 * bi:4 * bi + 4]
        n = len(b["values"])
        frac = sum(b["miss"]) / n
        dist["gap_free"] += 1 if frac == 0 else 0
        hb = "%d%%" % (10 * int(frac * 10))
        dist["gap_fraction_hist"][hb] = dist["gap_fraction_hist"].get(hb, 0) + 1
        lb = "<10" if n < 10 else "<100" if n < 100 else ">=100"
        dist["lengths"][lb] = dist["lengths"].get(lb, 0) + 1
        m = dict(values=b["values"] if n <= 24 else None, miss=b["miss"] if n <= 24 else None, n=n, nodata=b["nodata"],
                 results=[r.get("r64") for r in rs])
        if any("error" in r for r in rs):
            spec_fail.append((dict(m, values=b["values"], miss=b["miss"]), "autocorr raised %s" % [r.get("error") for r in rs if "error" in r][0]))
            continue
        want = pearson_filled([None if mm else Fraction(x) for x, mm in zip(b["values"], b["miss"])])
        r_int, r_f64, r_f32, r_aff = (r["r64"] for r in rs)
        dist["zero_results"] += 1 if r_int == 0 else 0
        full = dict(m, values=b["values"], miss=b["miss"])
        # binary64 evaluation from raw moments: the variance terms n*Sxx - Sx*Sx cancel (level / spread)^2 of the leading digits, which no
        # evaluation order avoids; the tolerance is 1e-9 plus 8 units of binary64 roundoff amplified by that factor (4e-8 for a level of
        # 20000 with a spread of 3; 1e-9 for ordinary series)
        vv = [float(x) for x, mm in zip(b["values"], b["miss"]) if not mm]
        ss = sum((v - sum(vv) / len(vv)) ** 2 for v in vv) if vv else 0.0
        tol64 = 1e-9 + (8 * 2.0 ** -53 * sum(v * v for v in vv) / ss if ss > 0 else 0.0)
        dist["max_tolerance"] = max(dist.get("max_tolerance", 0.0), tol64)
        if abs(r_int - want) > tol64 or abs(r_f64 - want) > tol64:
            spec_fail.append((full, "autocorr = %r (int/nodata), %r (float/NaN); Pearson correlation of the mean-filled vectors is %r" % (r_int, r_f64, want)))
        elif not (-1 - 1e-12 <= r_int <= 1 + 1e-12 and -1 - 1e-12 <= r_f64 <= 1 + 1e-12):
            spec_fail.append((full, "value outside [-1, 1]: %r" % r_int))
        elif abs(r_f32 - want) > 1e-6:
            spec_fail.append((full, "float32 input: %r vs %r" % (r_f32, want)))
        if cs[3].get("affine"):
            dist["affine_pairs"] += 1
            va = [float(x) for x, mm in zip(cs[3]["data"], b["miss"]) if not mm]
            sa = sum((v - sum(va) / len(va)) ** 2 for v in va) if va else 0.0
            tol_aff = 1e-9 + (8 * 2.0 ** -53 * sum(v * v for v in va) / sa if sa > 0 else 0.0)     # the rescaled series sits on another level
            if abs(r_aff - r_int) > tol64 + tol_aff:
                spec_fail.append((dict(full, affine=cs[3]["data"] if n <= 24 else None), "affine rescaling (scale %s 0) changes the value: %%r vs %%r" % (">" if (cases.index(cs[3]) // 4) % 2 == 0 else "<") % (r_aff, r_int)))
        for c, r in zip(cs, rs):
            if r["dtypes"] != ["float32", "float32"] or abs(r["yxt"] - float(np.float32(r["r64"]))) > 0 or abs(r["tyx"] - float(np.float32(r["r64"]))) > 0:
                spec_fail.append((dict(full, dtype=c["dtype"]), "(y,x,t) / (t,y,x) drivers differ from float32(autocorr_1d): %r %r %r" % (r["yxt"], r["tyx"], r["r64"])))
            if c.get("accessor"):
                dist["accessor"] += 1
                if r["acc"] != [r["yxt"], r["yxt"]] or r["acc_dims"] != [["y", "x"], ["y", "x"]]:
                    spec_fail.append((dict(full, dtype=c["dtype"]), "accessor (both layouts) differs from the kernel: %s" % r["acc"]))
        icoq.append("IA %s %s %s %s %s" % (zlist(cs[0]["data"]), zlit(b["nodata"]), tab(rs[0]["pow"]), flit(rs[0]["r64"]), flit(rs[0]["yxt"])))
        imeta.append(full if n <= 24 else m)
        fcoq.append("FA %s %s %s %s" % (flist([float("nan") if v is None else v for v in cs[1]["data"]]), tab(rs[1]["pow"]), flit(rs[1]["r64"]), flit(rs[1]["yxt"])))
        fmeta.append(full if n <= 24 else m)
    r1 = core.eval_cases("C15", "int", PRE, icoq, "check_int", shard=40, scope="Z")
    r2 = core.eval_cases("C15", "flt", PRE, fcoq, "check_float", shard=40, scope="Z")
    ctx.cov["evaluations"] = len(cases)
    ctx.cov["distinct_nontrivial"] = len(set(icoq)) + len(set(fcoq))
    ctx.cov["rule"] = ("seeded series (length 3..%d; random, seasonal, random walk, large level with small spread, constant) with gap patterns none / "
                       "scattered / contiguous outage up to 90%% / leading / trailing, each encoded as int16+nodata, float64+NaN, float32+NaN and a "
                       "affine image (positive and negative scale alternating); kernel, both layout drivers and the accessor; distinct series counted" % (900 if ctx.thorough else 300))
    ctx.notes.update(input_distribution=dist, cases_bit_exact=len(icoq) + len(fcoq), model_vs_impl_mismatches=len(r1["failing"]) + len(r2["failing"]),
                     spec_failures=len(spec_fail))
    ctx.add_samples([imeta[0], imeta[1], fmeta[2]])
    ctx.assumptions += ["pow(v, -0.5) is libm's (recorded per variance; the model must produce the bit-identical variance)",
                        "the independent definition is evaluated in exact rationals up to the final square roots; tolerance 1e-9 + 8 ulp * sum v^2 / sum (v - mean)^2 (the cancellation of the raw-moment formula; 1e-6 for float32 input)"]
    for r, tag in ((r1, "int"), (r2, "float")):
        for si, lg in r["errors"]:
            ctx.violation("Coq could not evaluate the %s cases" % tag, dict(kind="coq-eval-error", log=lg), found_input=False)
    if spec_fail:
        spec_fail.sort(key=lambda t: len(str(t[0])))
        m, why = spec_fail[0]
        ctx.violation(why, dict(kind="spec", case=m, n_failing=len(spec_fail)))
    else:
        bad = [imeta[i] for i in r1["failing"]] + [fmeta[i] for i in r2["failing"]]
        if bad:
            bad.sort(key=lambda m: m["n"])
            ctx.violation("model and implementation disagree (Corr/C15.v, bit-exact); the definition, range, invariance and layout agreement hold",
                          dict(kind="correspondence", correspondence="Corr/C15.v check_int / check_float", case=bad[0], n_disagree=len(bad)),
                          found_input=False)


def replay(ctx, path):
    import json
    rp = json.load(open(path))
    print(json.dumps(rp.get("case"))[:3000])
    return 2
