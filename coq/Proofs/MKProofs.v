(** Proofs about the exact (combinatorial) part of [Model/MK.v] (property C10). *)
From HDC Require Import Base.Prelude Base.ListLemmas Model.Calib Model.MK Proofs.CalibProofs.
From Coq Require Import Sorting.Permutation Sorting.Sorted ZifyBool.
Open Scope Z_scope.

(** ** the literal double loop computes S = sum over pairs k < kk of sign(x[kk] - x[k]) *)
Lemma row_counts_spec a r : forall s12,
  fst (row_counts a r s12) - snd (row_counts a r s12) = fst s12 - snd s12 + row_s a r.
Proof.
  induction r as [|b r IH]; intros [s1 s2]; cbn [row_counts row_s fst snd]; [lia|].
  rewrite IH. cbn [fst snd]. unfold sgn_pair. destruct (b >? a) eqn:E1; destruct (b <? a) eqn:E2; lia.
Qed.

Lemma score_counts_spec x : forall s12,
  fst (score_counts x s12) - snd (score_counts x s12) = fst s12 - snd s12 + mk_s x.
Proof.
  induction x as [|a r IH]; intros s12; cbn [score_counts mk_s]; [lia|].
  rewrite IH, row_counts_spec. lia.
Qed.

Lemma mk_score_lit_spec x : mk_score_lit x = mk_s x.
Proof. unfold mk_score_lit. rewrite score_counts_spec. cbn. lia. Qed.

(** |S| <= n(n-1)/2, so tau lies in [-1, 1] *)
Lemma row_s_bound a r : - Z.of_nat (length r) <= row_s a r <= Z.of_nat (length r).
Proof.
  induction r as [|b r IH]; cbn [row_s length]; [lia|]. unfold sgn_pair.
  destruct (b >? a); destruct (b <? a); lia.
Qed.

Lemma mk_s_bound x :
  let n := Z.of_nat (length x) in - (n * (n - 1)) <= 2 * mk_s x <= n * (n - 1).
Proof.
  induction x as [|a r IH]; cbn [mk_s length]; [cbn; lia|].
  pose proof (row_s_bound a r). cbn zeta in IH. nia.
Qed.

(** ** symmetries of S *)
Lemma row_s_map f a r :
  (forall u v, sgn_pair (f u) (f v) = sgn_pair u v) -> row_s (f a) (map f r) = row_s a r.
Proof. intros H. induction r as [|b r IH]; cbn [map row_s]; [reflexivity|]. now rewrite H, IH. Qed.

Lemma mk_s_map f x :
  (forall u v, sgn_pair (f u) (f v) = sgn_pair u v) -> mk_s (map f x) = mk_s x.
Proof. intros H. induction x as [|a r IH]; cbn [map mk_s]; [reflexivity|]. now rewrite row_s_map, IH. Qed.

Definition strictly_increasing (f : Z -> Z) : Prop := forall u v, u < v -> f u < f v.

Lemma sgn_pair_mono f : strictly_increasing f -> forall u v, sgn_pair (f u) (f v) = sgn_pair u v.
Proof.
  intros Hf u v. unfold sgn_pair.
  destruct (Z.lt_trichotomy u v) as [L|[->|L]].
  - pose proof (Hf u v L). replace (f v >? f u) with true by lia. replace (v >? u) with true by lia. reflexivity.
  - replace (f v >? f v) with false by lia. replace (f v <? f v) with false by lia.
    replace (v >? v) with false by lia. replace (v <? v) with false by lia. reflexivity.
  - pose proof (Hf v u L). replace (f v >? f u) with false by lia. replace (f v <? f u) with true by lia.
    replace (v >? u) with false by lia. replace (v <? u) with true by lia. reflexivity.
Qed.

Lemma mk_s_strict_mono f x : strictly_increasing f -> mk_s (map f x) = mk_s x.
Proof. intros Hf. apply mk_s_map. now apply sgn_pair_mono. Qed.

Lemma row_s_opp a r : row_s (- a) (map Z.opp r) = - row_s a r.
Proof.
  induction r as [|b r IH]; cbn [map row_s]; [reflexivity|]. rewrite IH. unfold sgn_pair.
  destruct (- b >? - a) eqn:E1; destruct (- b <? - a) eqn:E2; destruct (b >? a) eqn:E3; destruct (b <? a) eqn:E4; lia.
Qed.

Lemma mk_s_neg x : mk_s (map Z.opp x) = - mk_s x.
Proof. induction x as [|a r IH]; cbn [map mk_s]; [reflexivity|]. rewrite row_s_opp, IH. lia. Qed.

Fixpoint col_s (r : list Z) (a : Z) : Z :=
  match r with [] => 0 | b :: r' => sgn_pair b a + col_s r' a end.

Lemma mk_s_snoc x a : mk_s (x ++ [a]) = mk_s x + col_s x a.
Proof.
  induction x as [|b r IH]; cbn [app mk_s col_s]; [reflexivity|]. rewrite IH.
  assert (forall l, row_s b (l ++ [a]) = row_s b l + sgn_pair b a) as R.
  { induction l as [|c l IHl]; cbn [app row_s]; [lia|]. rewrite IHl. lia. }
  rewrite R. lia.
Qed.

Lemma col_row r a : col_s r a = - row_s a r.
Proof.
  induction r as [|b r IH]; cbn [col_s row_s]; [reflexivity|]. rewrite IH. unfold sgn_pair.
  destruct (a >? b) eqn:E1; destruct (a <? b) eqn:E2; destruct (b >? a) eqn:E3; destruct (b <? a) eqn:E4; lia.
Qed.

Lemma row_s_rev a r : row_s a (rev r) = row_s a r.
Proof.
  induction r as [|b r IH]; cbn [rev row_s]; [reflexivity|].
  assert (forall l c, row_s a (l ++ [c]) = row_s a l + sgn_pair a c) as R.
  { induction l as [|d l IHl]; intros c; cbn [app row_s]; [lia|]. rewrite IHl. lia. }
  rewrite R, IH. lia.
Qed.

Lemma mk_s_rev x : mk_s (rev x) = - mk_s x.
Proof.
  induction x as [|a r IH]; cbn [rev mk_s]; [reflexivity|].
  rewrite mk_s_snoc, IH, col_row, row_s_rev. lia.
Qed.

(** ** tie-corrected variance *)
Lemma zcount_cons u a x : zcount u (a :: x) = (if u =? a then 1 else 0) + zcount u x.
Proof. unfold zcount. cbn [filter]. destruct (u =? a); cbn [length]; generalize (length (filter (Z.eqb u) x)); intros k; lia. Qed.

Lemma zcount_perm u x y : Permutation x y -> zcount u x = zcount u y.
Proof.
  induction 1 as [|a x y P IH|a b x|x y z P1 IH1 P2 IH2]; try reflexivity.
  - rewrite !zcount_cons, IH. reflexivity.
  - rewrite !zcount_cons. lia.
  - lia.
Qed.

Lemma zcount_map_inj f u x : (forall a b, f a = f b -> a = b) -> zcount (f u) (map f x) = zcount u x.
Proof.
  intros Hf. induction x as [|a r IH]; [reflexivity|]. cbn [map]. rewrite !zcount_cons, IH.
  destruct (u =? a) eqn:E.
  - apply Z.eqb_eq in E. subst. now rewrite Z.eqb_refl.
  - replace (f u =? f a) with false; [reflexivity|]. symmetry. apply Z.eqb_neq. intros H. apply Hf in H.
    apply Z.eqb_neq in E. contradiction.
Qed.

Lemma zsum_perm l1 l2 : Permutation l1 l2 -> zsum l1 = zsum l2.
Proof. unfold zsum. induction 1; cbn [fold_right] in *; lia. Qed.

Lemma sorted_lt_nodup l : StronglySorted Z.lt l -> NoDup l.
Proof.
  induction 1 as [|a l _ IH F]; constructor; [|exact IH].
  intros I. rewrite Forall_forall in F. specialize (F a I). lia.
Qed.

(** the tie sum does not depend on which duplicate-free enumeration of the values is used *)
Lemma tie_sum_any_enum x U1 U2 :
  NoDup U1 -> NoDup U2 -> (forall v, In v U1 <-> In v U2) ->
  zsum (map (fun u => tie_term (zcount u x)) U1) = zsum (map (fun u => tie_term (zcount u x)) U2).
Proof. intros N1 N2 E. apply zsum_perm, Permutation_map, NoDup_Permutation; assumption. Qed.

Lemma var_num_perm x y : Permutation x y -> var_num x = var_num y.
Proof.
  intros P. unfold var_num. rewrite (Permutation_length P).
  destruct (sort_uniq_spec x) as [S1 I1]. destruct (sort_uniq_spec y) as [S2 I2].
  assert (Permutation (sort_uniq x) (sort_uniq y)) as PU.
  { apply NoDup_Permutation; try (now apply sorted_lt_nodup). intros v. rewrite I1, I2.
    split; apply Permutation_in; [exact P|now apply Permutation_sym]. }
  rewrite (Permutation_length PU).
  destruct (Z.of_nat (length (sort_uniq y)) =? Z.of_nat (length y)); [reflexivity|]. f_equal.
  rewrite (zsum_perm _ _ (Permutation_map _ PU)). f_equal. apply map_ext. intros u. f_equal. now apply zcount_perm.
Qed.

Lemma var_num_inj f x : (forall a b, f a = f b -> a = b) -> var_num (map f x) = var_num x.
Proof.
  intros Hf. unfold var_num. rewrite map_length.
  destruct (sort_uniq_spec x) as [S1 I1]. destruct (sort_uniq_spec (map f x)) as [S2 I2].
  assert (NoDup (map f (sort_uniq x))) as ND.
  { apply FinFun.Injective_map_NoDup; [exact Hf|now apply sorted_lt_nodup]. }
  assert (Permutation (sort_uniq (map f x)) (map f (sort_uniq x))) as PU.
  { apply NoDup_Permutation; [now apply sorted_lt_nodup|exact ND|]. intros v. rewrite I2, !in_map_iff.
    split; intros (w & E & Hw); exists w; (split; [exact E|]); now apply I1. }
  rewrite (Permutation_length PU), map_length.
  destruct (Z.of_nat (length (sort_uniq x)) =? Z.of_nat (length x)); [reflexivity|]. f_equal.
  rewrite (zsum_perm _ _ (Permutation_map _ PU)), map_map. f_equal. apply map_ext. intros u. f_equal.
  now apply zcount_map_inj.
Qed.

(** the shortcut for tie-free series agrees with the general formula *)
Lemma zsum_cons a l : zsum (a :: l) = a + zsum l.
Proof. reflexivity. Qed.
Lemma zsum_nil : zsum [] = 0.
Proof. reflexivity. Qed.

Lemma existsb_eqb_false a (r : list Z) : (forall v, In v r -> v <> a) -> existsb (Z.eqb a) r = false.
Proof.
  intros H. apply not_true_is_false. intros E. apply existsb_exists in E as (v & Iv & Ev).
  apply Z.eqb_eq in Ev. subst v. now apply (H a Iv).
Qed.

Lemma zsum_insert_uniq (g : Z -> Z) a K :
  StronglySorted Z.lt K ->
  zsum (map g (insert_uniq a K)) = if existsb (Z.eqb a) K then zsum (map g K) else g a + zsum (map g K).
Proof.
  induction 1 as [|y r Hs IH F]; cbn [insert_uniq map existsb].
  - rewrite zsum_cons, zsum_nil. reflexivity.
  - destruct (a <? y) eqn:E1.
    + replace (a =? y) with false by lia. cbn [orb].
      rewrite (existsb_eqb_false a r); [cbn [map]; rewrite !zsum_cons; reflexivity|].
      intros v Iv. rewrite Forall_forall in F. specialize (F v Iv). lia.
    + destruct (a =? y) eqn:E2; cbn [orb map]; [reflexivity|].
      rewrite !zsum_cons, IH. destruct (existsb (Z.eqb a) r); lia.
Qed.

Lemma indicator_sum a K :
  NoDup K -> zsum (map (fun u => if u =? a then 1 else 0) K) = if existsb (Z.eqb a) K then 1 else 0.
Proof.
  induction 1 as [|y r Hn _ IH]; cbn [map existsb]; [reflexivity|].
  rewrite zsum_cons, IH. destruct (y =? a) eqn:E.
  - apply Z.eqb_eq in E. subst y. rewrite Z.eqb_refl. cbn [orb].
    rewrite (existsb_eqb_false a r); [reflexivity|]. intros v Iv ->. contradiction.
  - replace (a =? y) with false by lia. cbn [orb]. lia.
Qed.

Lemma zsum_map_add (g h : Z -> Z) K : zsum (map (fun u => g u + h u) K) = zsum (map g K) + zsum (map h K).
Proof. induction K as [|y r IH]; cbn [map]; rewrite ?zsum_cons, ?zsum_nil; lia. Qed.

Lemma zcount_notin a x : ~ In a x -> zcount a x = 0.
Proof.
  induction x as [|b r IH]; intros H; [reflexivity|]. rewrite zcount_cons.
  destruct (a =? b) eqn:E; [apply Z.eqb_eq in E; subst; exfalso; apply H; now left|].
  rewrite IH; [lia|]. intros I. apply H. now right.
Qed.

Lemma counts_sum x : zsum (map (fun u => zcount u x) (sort_uniq x)) = Z.of_nat (length x).
Proof.
  induction x as [|a r IH]; [reflexivity|]. cbn [sort_uniq fold_right]. fold (sort_uniq r).
  destruct (sort_uniq_spec r) as [S I].
  rewrite (zsum_insert_uniq (fun u => zcount u (a :: r)) a (sort_uniq r) S).
  assert (zsum (map (fun u => zcount u (a :: r)) (sort_uniq r)) =
          (if existsb (Z.eqb a) (sort_uniq r) then 1 else 0) + Z.of_nat (length r)) as E.
  { rewrite <- IH, <- (indicator_sum a (sort_uniq r) (sorted_lt_nodup _ S)), <- zsum_map_add.
    f_equal. apply map_ext. intros u. apply zcount_cons. }
  rewrite E. destruct (existsb (Z.eqb a) (sort_uniq r)) eqn:Ex; cbn [length]; [lia|].
  rewrite zcount_cons, Z.eqb_refl, zcount_notin; [lia|].
  intros Hin. apply I in Hin. assert (existsb (Z.eqb a) (sort_uniq r) = true) as X.
  { apply existsb_exists. exists a. split; [exact Hin|apply Z.eqb_refl]. }
  congruence.
Qed.

Lemma zcount_pos u x : In u x -> 1 <= zcount u x.
Proof.
  induction x as [|b r IH]; intros H; [contradiction|]. rewrite zcount_cons.
  assert (0 <= zcount u r) by (unfold zcount; lia).
  destruct H as [->|H]; [rewrite Z.eqb_refl; lia|]. specialize (IH H). destruct (u =? b); lia.
Qed.

Lemma zsum_ge_length (l : list Z) : Forall (fun c => 1 <= c) l -> Z.of_nat (length l) <= zsum l.
Proof. induction 1 as [|c r Hc _ IH]; [cbn; lia|]. rewrite zsum_cons. cbn [length]. lia. Qed.

Lemma all_ones_if_sum_is_length (l : list Z) :
  Forall (fun c => 1 <= c) l -> zsum l = Z.of_nat (length l) -> Forall (fun c => c = 1) l.
Proof.
  induction 1 as [|c r Hc Fr IH]; intros E; constructor; rewrite zsum_cons in E; cbn [length] in E;
    pose proof (zsum_ge_length r Fr).
  - lia.
  - apply IH. lia.
Qed.

Lemma tie_sum_zero x K : Forall (fun u => zcount u x = 1) K -> zsum (map (fun u => tie_term (zcount u x)) K) = 0.
Proof. induction 1 as [|u r Hu _ IH]; [reflexivity|]. cbn [map]. rewrite zsum_cons, IH, Hu. reflexivity. Qed.

(** var(S) numerator in closed form, shortcut or not *)
Lemma var_num_ties x :
  let n := Z.of_nat (length x) in
  var_num x = n * (n - 1) * (2 * n + 5) - zsum (map (fun u => tie_term (zcount u x)) (sort_uniq x)).
Proof.
  cbn zeta. unfold var_num. destruct (Z.of_nat (length (sort_uniq x)) =? Z.of_nat (length x)) eqn:E; [|reflexivity].
  destruct (sort_uniq_spec x) as [S I].
  assert (Forall (fun c => c = 1) (map (fun u => zcount u x) (sort_uniq x))) as A.
  { apply all_ones_if_sum_is_length.
    - apply Forall_map, Forall_forall. intros u Hu. apply zcount_pos. now apply I.
    - rewrite counts_sum, map_length. lia. }
  rewrite Forall_map in A. rewrite (tie_sum_zero x _ A). lia.
Qed.

Lemma z_num_opp s : z_num (- s) = - z_num s.
Proof. unfold z_num. destruct (- s >? 0) eqn:E1; destruct (- s <? 0) eqn:E2; destruct (s >? 0) eqn:E3; destruct (s <? 0) eqn:E4; lia. Qed.

(** ** extremal series: tau = 1 exactly for a strictly increasing series, -1 for a strictly
    decreasing one, S = 0 for a constant one *)
Lemma row_s_all_greater a r : Forall (fun b => a < b) r -> row_s a r = Z.of_nat (length r).
Proof.
  induction 1 as [|b r Hb _ IH]; cbn [row_s length]; [reflexivity|]. rewrite IH. unfold sgn_pair.
  destruct (Z.gtb_spec b a); lia.
Qed.

Lemma mk_s_increasing x :
  StronglySorted Z.lt x -> let n := Z.of_nat (length x) in 2 * mk_s x = n * (n - 1).
Proof.
  induction 1 as [|a r _ IH Ha]; cbn [mk_s length]; [reflexivity|].
  rewrite (row_s_all_greater a r Ha). cbn zeta in IH. nia.
Qed.

Lemma sorted_gt_opp x : StronglySorted Z.gt x -> StronglySorted Z.lt (map Z.opp x).
Proof.
  induction 1 as [|a r _ IH Ha]; cbn [map]; constructor; [exact IH|].
  apply Forall_map. eapply Forall_impl; [|exact Ha]. cbn. intros b Hb. lia.
Qed.

Lemma mk_s_decreasing x :
  StronglySorted Z.gt x -> let n := Z.of_nat (length x) in 2 * mk_s x = - (n * (n - 1)).
Proof.
  intros H. pose proof (mk_s_increasing _ (sorted_gt_opp x H)) as E. cbn zeta in *.
  rewrite mk_s_neg, map_length in E. lia.
Qed.

Lemma row_s_const a r : Forall (fun b => b = a) r -> row_s a r = 0.
Proof.
  induction 1 as [|b r -> _ IH]; cbn [row_s]; [reflexivity|]. rewrite IH. unfold sgn_pair.
  destruct (Z.gtb_spec a a); destruct (Z.ltb_spec a a); lia.
Qed.

Lemma mk_s_constant c x : Forall (fun b => b = c) x -> mk_s x = 0.
Proof.
  induction 1 as [|b r -> Hr IH]; cbn [mk_s]; [reflexivity|]. now rewrite (row_s_const c r Hr), IH.
Qed.
