(** Lifting the solver's laws to the fixed-lambda smoother (property C06). *)
From Coq Require Import ZArith Reals Lra Lia Bool List.
From HDC Require Import Base.Prelude Base.ListLemmas Base.Ops Model.Ws2d Model.Smoothers Proofs.Ws2dIndex Proofs.RSums
     Proofs.Penalty Proofs.Ws2dReal Proofs.Ws2dLaws Proofs.SmoothersProofs Proofs.VCurveProofs Proofs.PlaceholderProofs.
Open Scope R_scope.

Lemma Zk_nth (y w : list R) lam i :
  length w = length y -> (4 <= length y)%nat -> (i < length y)%nat ->
  nth i (ws2d OpsR y lam w) 0 = Zk y w lam (Z.of_nat i).
Proof. intros Hl Hn Hi. unfold Zk. rewrite vecZ_in by (rewrite ws2d_length by assumption; lia). now rewrite Nat2Z.id. Qed.

(** the validity-weighted problem of ws2dgu is in the C01 contract *)
Lemma gu_contract y lam nd :
  (4 <= length y)%nat -> 0 < lam -> 1 < rsum (weights_gu OpsR nd y) ->
  let w := weights_gu OpsR nd y in
  let yv := zero_missing OpsR w y in
  length w = length yv /\ (4 <= length yv)%nat /\
  (forall i, (0 <= i < Z.of_nat (length yv))%Z -> 0 <= Wk w i) /\
  (exists p q, (0 <= p < q)%Z /\ (q < Z.of_nat (length yv))%Z /\ 0 < Wk w p /\ 0 < Wk w q).
Proof.
  intros Hn Hlam Hs w yv.
  assert (length w = length yv) as Hl by (unfold yv, w; rewrite zero_missing_length; rewrite weights_gu_length; reflexivity).
  assert (4 <= length yv)%nat as Hn' by (unfold yv, w; rewrite zero_missing_length; [exact Hn|apply weights_gu_length]).
  destruct (contract_of_01 yv w lam Hl Hn' Hlam (weights_gu_01 nd y) Hs) as [A B]. repeat split; assumption.
Qed.

(** value of the zeroed series on a valid cell *)
Lemma zero_missing_valid (w y : list R) i :
  length w = length y -> (i < length y)%nat -> nth i w 0 = 1 -> nth i (zero_missing OpsR w y) 0 = nth i y 0.
Proof.
  unfold zero_missing. revert y i; induction w as [|a w IH]; intros [|b y] i Hl Hi Hw; cbn in Hl, Hi; try lia.
  destruct i as [|i]; cbn [combine map nth fst snd] in *.
  - subst a. cbn [feqb f0 OpsR]. rewrite (Reqb_neq 1 0) by lra. reflexivity.
  - apply IH; [lia|lia|exact Hw].
Qed.

(** a series that is exactly linear in time on its valid cells is returned as that line on every cell *)
Theorem gu_linear y lam nd z a b :
  (4 <= length y)%nat -> 0 < lam -> ws2dgu OpsR y lam nd = Curve z ->
  (forall i, (i < length y)%nat -> nth i (weights_gu OpsR nd y) 0 = 1 -> nth i y 0 = a + b * INR i) ->
  forall i, (i < length y)%nat -> nth i z 0 = a + b * INR i.
Proof.
  intros Hn Hlam H Hlin i Hi. destruct (gu_is_pls y lam nd z Hn Hlam H) as (-> & Hs & _).
  set (w := weights_gu OpsR nd y) in *. set (yv := zero_missing OpsR w y) in *.
  destruct (gu_contract y lam nd Hn Hlam Hs) as (Hl & Hn' & HW & H2). fold w yv in Hl, Hn', HW, H2.
  assert (length yv = length y) as Ly by (unfold yv; apply zero_missing_length; unfold w; apply weights_gu_length).
  rewrite Zk_nth by (try assumption; lia). rewrite INR_IZR_INZ.
  apply (affine_fixed yv w lam Hl Hn' HW Hlam H2 a b); [|lia].
  intros k Hk Wpos. unfold Yk, Wk in *. rewrite vecZ_in in * by (rewrite ?Hl; lia).
  assert (nth (Z.to_nat k) w 0 = 1) as W1.
  { pose proof (weights_gu_01 nd y) as H01. fold w in H01. unfold is01 in H01. rewrite Forall_forall in H01.
    destruct (H01 (nth (Z.to_nat k) w 0)) as [E|E]; [apply nth_In; lia|rewrite E in Wpos; lra|exact E]. }
  unfold yv. rewrite zero_missing_valid; [|unfold w; apply weights_gu_length|lia|exact W1].
  rewrite (Hlin (Z.to_nat k)); [|lia|exact W1]. rewrite INR_IZR_INZ, Z2Nat.id by lia. reflexivity.
Qed.
