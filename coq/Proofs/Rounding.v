(** Round-half-even on the reals ([rneR], the meaning of np.round / Python round in the models
    at carrier R): within 1/2 of its argument, and commuting with integer shifts except on a
    rounding tie (where the two results may differ by one: 2.5 -> 2 but 3.5 -> 4). *)
From Coq Require Import ZArith Reals Lra Lia.
From HDC Require Import Base.Ops.
Open Scope R_scope.

Lemma Int_part_bounds x : IZR (Int_part x) <= x < IZR (Int_part x) + 1.
Proof. destruct (base_Int_part x) as [A B]. lra. Qed.

Lemma Int_part_shift x (c : Z) : Int_part (x + IZR c) = (Int_part x + c)%Z.
Proof.
  unfold Int_part. assert (up (x + IZR c) = (up x + c)%Z) as ->; [|lia].
  symmetry. apply tech_up; rewrite plus_IZR; destruct (archimed x); lra.
Qed.

Definition on_tie (x : R) : Prop := x - IZR (Int_part x) = 1 / 2.

Lemma rneR_close x : Rabs (IZR (rneR x) - x) <= 1 / 2.
Proof.
  unfold rneR. pose proof (Int_part_bounds x) as B. set (f := Int_part x) in *.
  destruct (Rlt_dec (x - IZR f) (1 / 2)) as [L|L].
  - apply Rabs_le. lra.
  - destruct (Rlt_dec (1 / 2) (x - IZR f)) as [G|G].
    + rewrite plus_IZR. apply Rabs_le. lra.
    + assert (x - IZR f = 1 / 2) as E by lra. destruct (Z.even f); [|rewrite plus_IZR]; apply Rabs_le; lra.
Qed.

Lemma rneR_shift x (c : Z) : ~ on_tie x -> rneR (x + IZR c) = (rneR x + c)%Z.
Proof.
  unfold on_tie, rneR. intros Nt. rewrite Int_part_shift. set (f := Int_part x) in *. rewrite plus_IZR.
  replace (x + IZR c - (IZR f + IZR c)) with (x - IZR f) by ring.
  destruct (Rlt_dec (x - IZR f) (1 / 2)); [reflexivity|].
  destruct (Rlt_dec (1 / 2) (x - IZR f)); [lia|]. exfalso. lra.
Qed.

Lemma rneR_shift_tie x (c : Z) : (Z.abs (rneR (x + IZR c) - (rneR x + c)) <= 1)%Z.
Proof.
  assert (forall a b : Z, Rabs (IZR a - IZR b) < 2 -> (Z.abs (a - b) <= 1)%Z) as Close.
  { intros a b H. apply Rabs_def2 in H as [H1 H2]. rewrite <- minus_IZR in H1, H2.
    assert (IZR (a - b) < IZR 2) as H1' by lra. assert (IZR (-2) < IZR (a - b)) as H2' by lra.
    apply lt_IZR in H1'. apply lt_IZR in H2'. lia. }
  apply Close. rewrite plus_IZR.
  pose proof (rneR_close (x + IZR c)) as A. pose proof (rneR_close x) as B.
  assert (forall u, Rabs u <= 1 / 2 -> - (1 / 2) <= u <= 1 / 2) as Inv.
  { intros u Hu. unfold Rabs in Hu. destruct (Rcase_abs u); lra. }
  apply Inv in A. apply Inv in B. apply Rabs_def1; lra.
Qed.

Lemma rneR_int (z : Z) : rneR (IZR z) = z.
Proof.
  unfold rneR. assert (Int_part (IZR z) = z) as ->.
  { replace (IZR z) with (0 + IZR z) by ring. rewrite Int_part_shift.
    assert (Int_part 0 = 0%Z) as ->; [|lia]. unfold Int_part. rewrite <- (tech_up 0 1); [reflexivity|lra|lra]. }
  replace (IZR z - IZR z) with 0 by ring. destruct (Rlt_dec 0 (1 / 2)); [reflexivity|lra].
Qed.
