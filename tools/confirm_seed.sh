#!/bin/sh
# tools/confirm_seed.sh <src dir with patch.diff demo.py meta.json> <dest name e.g. C17a>
# Confirms a seeded change in a scratch worktree (tests pass, demo fails with / passes without) and files it under seeded/.
SRC=$1; NAME=$2
WT=/tmp/cf_$NAME
git -C /repo worktree add -q "$WT" HEAD || exit 2
cd "$WT"
R=ok
PYTHONPATH=$WT /venv/bin/python "$SRC/demo.py" >/tmp/cf_$NAME.clean.log 2>&1; C0=$?
git apply "$SRC/patch.diff" || R=patch-does-not-apply
PYTHONPATH=$WT /venv/bin/python -m pytest -q -p no:cacheprovider --timeout=900 -x >/tmp/cf_$NAME.tests.log 2>&1; T=$?
PYTHONPATH=$WT /venv/bin/python "$SRC/demo.py" >/tmp/cf_$NAME.patched.log 2>&1; C1=$?
TESTS=$(tail -1 /tmp/cf_$NAME.tests.log)
cd /
git -C /repo worktree remove --force "$WT"
mkdir -p /verif/seeded/$NAME
cp "$SRC/patch.diff" "$SRC/demo.py" /verif/seeded/$NAME/
/venv/bin/python - "$SRC/meta.json" /verif/seeded/$NAME/meta.json "$C0" "$T" "$C1" "$TESTS" "$R" <<'PY'
import json, sys
src, dst, c0, t, c1, tests, r = sys.argv[1:]
m = json.load(open(src))
m["confirmed"] = dict(demo_exit_unpatched=int(c0), pytest_exit_patched=int(t), pytest_tail=tests, demo_exit_patched=int(c1),
                      apply=r, ok=(int(c0) == 0 and int(t) == 0 and int(c1) != 0 and r == "ok"),
                      how="tools/confirm_seed.sh in a scratch worktree of /repo HEAD (removed afterwards)")
json.dump(m, open(dst, "w"), indent=1)
print(dst, m["confirmed"])
PY
rm -f /tmp/cf_$NAME.*.log
